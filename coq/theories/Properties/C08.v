(* C08 — every Merkle proof served verifies against the root it was asked for. Generic in the hash. *)
From Coq Require Import Arith NArith List Bool.
From Verif Require Import Model.Merkle Model.MerkleSpec Model.TreeStore Proofs.Frontier Proofs.Rht Proofs.Sparse
  Proofs.TreeStoreProofs Proofs.TreeStoreCorollaries Model.Contracts Proofs.ContractProofs Proofs.ContractVerify.
From Verif Require Gen.GenTree Proofs.GenAgreeTree Proofs.GenAgreeSiblings Base.GoNum.
Import ListNotations.
Local Close Scope N_scope.

Section Generic.
Context {hash : Type}.
Variable node : hash -> hash -> hash.
Variable z0 : hash.

(* From well-formedness of the node table alone (every stored row k -> (l, r) has k = node l r, which insert-ignore
   preserves: no hash hypothesis): whenever the lookups on the path succeed, the siblings returned hash with the leaf
   reached to exactly the root asked for. Holds for ANY root, recorded or not, any index, both tree kinds. *)
Theorem C08_wf_preserved_by_insert : forall (heq_dec : forall a b : hash, {a = b} + {a <> b}) (m : rht) l r, WF node m -> WF node (ins heq_dec m (node l r) (l, r)).
Proof. intros heq_dec. exact (ins_WF node heq_dec). Qed.
Theorem C08_proof_verifies_wf : forall (m : rht), WF node m -> forall h x idx s y,
  walk m h x (Nat.testbit idx) = Some (s, y) -> length s = h /\ calc node 0 s y (Nat.testbit idx) = x.
Proof. exact (walk_calc node). Qed.
(* what GetProof returns (getSiblings with its zero-hash fallback) IS that sibling list when the path is present *)
Theorem C08_getproof_is_walk : forall (zh : nat -> hash) (m : @rht hash) h x bit s y,
  walk m h x bit = Some (s, y) -> swalk zh m h x bit = s /\ swalk_used_zero m h x bit = false.
Proof. intros zh. exact (swalk_eq_walk zh). Qed.

(* append-only trees: for every recorded version n (closed store) and every covered index j < n, the path IS present,
   the leaf reached is the true j-th leaf, and the proof verifies against the version's root *)
Theorem C08_append_proof_verifies : forall f (m : rht) n H j,
  WF node m -> Closed node z0 f H m n -> j < n -> j < 2 ^ H ->
  exists s, walk m H (mroot node z0 f H n) (Nat.testbit j) = Some (s, f j) /\ calc node 0 s (f j) (Nat.testbit j) = mroot node z0 f H n.
Proof. intros f. exact (proof_verifies node z0 f). Qed.
(* closure is maintained by appends; older versions stay closed because inserts never overwrite *)
Theorem C08_append_keeps_closed : (forall a b c d, node a b = node c d -> a = c /\ b = d) ->
  forall f (heq_dec : forall a b : hash, {a = b} + {a <> b}) (m : rht) i H, WF node m -> Closed node z0 f H m i -> i < 2 ^ H ->
  Closed node z0 f H (ins_path node z0 f heq_dec m i H) (S i).
Proof. intros inj f heq_dec. exact (append_keeps_closed node z0 f heq_dec inj). Qed.
Theorem C08_older_versions_stay_closed : forall f (heq_dec : forall a b : hash, {a = b} + {a <> b}) H (m : rht) n k v, Closed node z0 f H m n -> Closed node z0 f H (ins heq_dec m k v) n.
Proof. intros f heq_dec. exact (Closed_ins node z0 f heq_dec). Qed.

(* updatable (rollup exit) tree: for every closed version g and EVERY position j, written or not, the proof returned
   (with the zero-hash fallback) verifies with the value at that position *)
Theorem C08_updatable_proof_verifies : (forall a b c d, node a b = node c d -> a = c /\ b = d) ->
  forall (m : rht) g, SClosed node z0 m g -> forall h j,
  calc node 0 (swalk (zero node z0) m h (ssub node g h (j / 2 ^ h)) (Nat.testbit j)) (g j) (Nat.testbit j) = ssub node g h (j / 2 ^ h).
Proof. intros inj. exact (sverify node z0 inj). Qed.
End Generic.


(* ================= store level: every reachable state of the (generic) executable tree store =================
   `Reach HT node zhf db mem L`: the store (root table, node table, in-memory frontier) is reachable from the empty one by
   successful appends of the next index, appends with a wrong index, appends abandoned after the hashing loop (storage fault),
   memory invalidations with arbitrary cache content (restart, rollback callback, reorg) and Tree.Reorg; L is the surviving
   history (leaf, block, position). The executable model (compared with the Go code on every run) is the instance
   HT := 32, node := Keccak-256, zhf := the precomputed zero table (zero_table_is_zero). Hypothesis: node injective. *)
Section Store.
Variable HT : nat.
Variable node : N -> N -> N.
Hypothesis node_inj : forall a b c d, node a b = node c d -> a = c /\ b = d.
Variable zhf : nat -> N.
Hypothesis Hzh : forall h, h <= HT -> zhf h = zero node 0%N h.
(* C08 for the append-only store: in EVERY reachable state (after any reorgs, restarts, aborted appends), for every recorded
   version k (root = mroot of the first k surviving leaves, historical ones included) and every covered index j < k:
   GetProof returns HT siblings, found without the zero-hash fallback, which hash with the true j-th leaf to exactly that
   root; GetLeaf returns the value written at j. The siblings are a function of the surviving leaves only. *)
Theorem C08_store_proof_verifies : forall db mem L k j, Reach HT node zhf db mem L -> j < k -> k <= length L ->
  let root := mroot node 0%N (lf L) HT k in
  let s := Gen.get_proof HT zhf db (N.of_nat j) root in
  s = sibs node 0%N (lf L) HT j k /\ length s = HT /\
  Gen.calculate_root node (lf L j) s (N.of_nat j) = root /\
  Gen.get_leaf HT db (N.of_nat j) root = Some (lf L j) /\
  Gen.get_proof_used_zero HT db (N.of_nat j) root = false.
Proof. exact (store_proof_verifies HT node node_inj zhf Hzh). Qed.

(* ... and it verifies WHERE IT IS USED: a deposit contract (Solidity transcription, Model/Contracts.v, compared with the deployed
   bytecode on every run) that received the same first k leaves reports the root of version k, and its calculateRoot over the
   served proof of any j < k returns that root, i.e. verifyMerkleProof(leaf_j, proof, j, getRoot()) = true — in every reachable
   state of the store, whatever reorgs, restarts and aborted appends it went through *)
Theorem C08_contract_accepts_served_proof : forall db mem L k j branch0,
  Reach HT node zhf db mem L -> j < k -> k <= length L -> k < 2 ^ HT ->
  let store_root := mroot node 0%N (lf L) HT k in
  let proof := Gen.get_proof HT zhf db (N.of_nat j) store_root in
  let contract_root := dc_root node 0%N HT (Nat.testbit k) (dc_after node (lf L) HT k branch0) in
  contract_root = store_root /\
  dc_calculate_root node HT (Nat.testbit j) (lf L j) (cache_of_list 0%N proof) = contract_root.
Proof. exact (contract_accepts_served_proof HT node node_inj zhf Hzh). Qed.
End Store.

(* the contract's calculateRoot over exactly H siblings is the node's own CalculateRoot (tree.calculateRoot) *)
Theorem C08_contract_calculate_root_is_calc : forall {hash : Type} (node : hash -> hash -> hash) (z0 : hash) (s : list hash) bit leaf,
  dc_calculate_root node (length s) bit leaf (cache_of_list z0 s) = calc node 0 s leaf bit.
Proof. intros hash node z0. exact (dc_calculate_root_is_calc node z0). Qed.

(* ================= the translated Go code =================
   Gen/GenTree.v is GENERATED from tree/tree.go by tools/go2coq on every run: `CalculateRoot` (the bottom-up recomputation the
   property speaks about, also what bridge service clients and the harnesses use to verify a proof) is the model's `calc`,
   for every hash function, leaf, 32-element proof and index; hence a proof served for (root, index) of any reachable store
   makes the TRANSLATED CalculateRoot return exactly that root. *)
Theorem C08_generated_CalculateRoot_is_model : forall (hash : Type) (hash2 : hash -> hash -> hash) (hash0 : hash) leaf proof index,
  length proof = 32 ->
  GenTree.CalculateRoot hash hash2 hash0 leaf proof index = calc hash2 0 proof leaf (fun h => N.testbit index (N.of_nat h)).
Proof. exact GenAgreeTree.CalculateRoot_agree. Qed.
Theorem C08_generated_CalculateRoot_accepts_walk : forall (hash : Type) (node : hash -> hash -> hash) (hash0 : hash) (m : rht), WF node m ->
  forall x idx s y, walk m 32 x (Nat.testbit idx) = Some (s, y) ->
  GenTree.CalculateRoot hash node hash0 y s (N.of_nat idx) = x.
Proof.
  intros hash node hash0 m Hwf x idx s y Hw. destruct (walk_calc node m Hwf 32 x idx s y Hw) as [Hl Hc].
  rewrite (GenAgreeTree.CalculateRoot_agree hash node hash0 y s (N.of_nat idx) Hl). rewrite <- Hc.
  apply GenAgreeTree.calc_bit_ext. intros h. apply Proofs.BitFacts.bitN_of_nat.
Qed.

(* ... and so are the two top-down walks of the reverse hash table, translated with their downward loops, `continue`, early
   returns and named results; the database read t.getRHTNode is an oracle with the three outcomes the code distinguishes.
   `table` projects the oracle to the model's table, `zh_of zhs h` = zhs[h] (Tree.zeroHashes). *)
Theorem C08_generated_getSiblings_is_model : forall (hash : Type) (hash0 : hash) (rht : hash -> GoNum.lookup (GenTree.TreeNode hash)) (zhs : list hash),
  GenAgreeSiblings.no_fail hash rht -> forall index root,
  GenTree.getSiblings hash hash0 rht zhs index root =
  (swalk (GenAgreeSiblings.zh_of hash hash0 zhs) (GenAgreeSiblings.table hash rht) 32 root (fun h => N.testbit index (N.of_nat h)),
   swalk_used_zero (GenAgreeSiblings.table hash rht) 32 root (fun h => N.testbit index (N.of_nat h)), GoNum.EOK).
Proof. exact GenAgreeSiblings.getSiblings_agree. Qed.
Theorem C08_generated_getSiblings_reports_other_errors : forall (hash : Type) (hash0 : hash) (rht : hash -> GoNum.lookup (GenTree.TreeNode hash)) (zhs : list hash) index root,
  rht root = GoNum.LFail -> snd (GenTree.getSiblings hash hash0 rht zhs index root) = GoNum.EFail.
Proof. exact GenAgreeSiblings.getSiblings_fail_is_error. Qed.
Theorem C08_generated_GetLeaf_is_model : forall (hash : Type) (hash0 : hash) (rht : hash -> GoNum.lookup (GenTree.TreeNode hash)) index root,
  match walk (GenAgreeSiblings.table hash rht) 32 root (fun h => N.testbit index (N.of_nat h)) with
  | Some (_, y) => GenTree.GetLeaf hash hash0 rht index root = (y, GoNum.EOK)
  | None => fst (GenTree.GetLeaf hash hash0 rht index root) = hash0 /\ snd (GenTree.GetLeaf hash hash0 rht index root) <> GoNum.EOK
  end.
Proof. exact GenAgreeSiblings.GetLeaf_agree. Qed.
(* the proof the executable store model serves (what the harness compares with the real GetProof) IS the translated loop's result *)
Theorem C08_generated_getSiblings_is_store_get_proof : forall (db : tdb) (idx root : N),
  GenTree.getSiblings N 0%N (GenAgreeSiblings.rht_of db) zero_table idx root =
  (TreeStore.get_proof db idx root, TreeStore.get_proof_used_zero db idx root, GoNum.EOK).
Proof. exact GenAgreeSiblings.getSiblings_is_store_get_proof. Qed.
(* the translated serving path end to end: in EVERY reachable state of the store, for every recorded version k and covered index
   j < k, the translated getSiblings finds all 32 siblings without fallback or error, the translated CalculateRoot over them and
   the true j-th leaf returns exactly the root asked for, and the translated GetLeaf returns that leaf *)
Theorem C08_generated_serving_path_verifies : forall (node : N -> N -> N) (zhs : list N),
  (forall a b c d, node a b = node c d -> a = c /\ b = d) ->
  (forall h, h <= 32 -> GenAgreeSiblings.zh_of N 0%N zhs h = zero node 0%N h) ->
  forall db mem L k j, Reach 32 node (GenAgreeSiblings.zh_of N 0%N zhs) db mem L -> j < k -> k <= length L ->
  let root := mroot node 0%N (lf L) 32 k in
  exists s, GenTree.getSiblings N 0%N (GenAgreeSiblings.rht_of db) zhs (N.of_nat j) root = (s, false, GoNum.EOK) /\
            GenTree.CalculateRoot N node 0%N (lf L j) s (N.of_nat j) = root /\
            GenTree.GetLeaf N 0%N (GenAgreeSiblings.rht_of db) (N.of_nat j) root = (lf L j, GoNum.EOK).
Proof. exact GenAgreeSiblings.generated_serving_path_verifies. Qed.

Print Assumptions C08_wf_preserved_by_insert.
Print Assumptions C08_store_proof_verifies.
Print Assumptions C08_contract_accepts_served_proof.
Print Assumptions C08_contract_calculate_root_is_calc.
Print Assumptions C08_proof_verifies_wf.
Print Assumptions C08_getproof_is_walk.
Print Assumptions C08_append_proof_verifies.
Print Assumptions C08_append_keeps_closed.
Print Assumptions C08_older_versions_stay_closed.
Print Assumptions C08_updatable_proof_verifies.
Print Assumptions C08_generated_CalculateRoot_is_model.
Print Assumptions C08_generated_CalculateRoot_accepts_walk.
Print Assumptions C08_generated_getSiblings_is_model.
Print Assumptions C08_generated_getSiblings_reports_other_errors.
Print Assumptions C08_generated_GetLeaf_is_model.
Print Assumptions C08_generated_getSiblings_is_store_get_proof.
Print Assumptions C08_generated_serving_path_verifies.
