(* C15 — the GER oracle injects only finalized, current, not-yet-present roots, and keeps injecting while newer
   finalized roots keep appearing.
   Only property theorems (each closed by `exact` of a lemma of Proofs/OracleProofs.v), non-vacuity examples and
   Print Assumptions.

   tick_with false = tick        : aggoracle/oracle.go as written at the pinned commit (bdb487b)
   tick_with true  = tick_fixed  : the repaired code (the sampled block is remembered while the syncer has not
                                    processed it yet); this is the variant the correspondence check compares with.
   Safety theorems hold for both (forall fx). Liveness under lag holds for tick_fixed and is REFUTED for tick
   (finding F3: C15_starvation_refuted_current). *)
From Coq Require Import NArith ZArith List Bool.
From Verif Require Import Base.GoNum Model.Oracle Model.C15Cases Model.C15Reorg Proofs.OracleProofs Proofs.OracleReorgProofs.
From Verif Require Gen.GenOracle Proofs.GenAgreeOracle.
Import ListNotations.
Open Scope N_scope.

(* ---- safety, one tick, any state of the loop variable, any dependencies ---- *)

Theorem C15_injected_is_finalized_latest : forall fx target d t' g, tick_with fx target d = (t', AInject g) ->
  exists T l,
    (if target =? 0 then d_l1 d = Some T else T = target) /\
    T <> 0 /\ T <= d_lpb d /\
    In l (d_table d) /\ snd l = g /\ fst l <= T /\
    (forall l', In l' (d_table d) -> fst l' <= T -> fst l' <= fst l) /\
    mem g (d_l2 d) = false.
Proof. exact injected_is_finalized_latest. Qed.

Theorem C15_no_duplicate_injection : forall fx target d t' g,
  tick_with fx target d = (t', AInject g) -> ~ In g (d_l2 d).
Proof. exact no_duplicate_injection. Qed.

Theorem C15_errors_inject_nothing : forall fx target d,
  (target = 0 /\ d_l1 d = None) \/ d_info_err d = true \/ d_isinj_err d = true \/ d_inject_err d = true ->
  forall g, snd (tick_with fx target d) <> AInject g.
Proof. exact errors_inject_nothing. Qed.

Theorem C15_progress_when_caught_up : forall fx d F l,
  d_l1 d = Some F -> F <> 0 -> F <= d_lpb d ->
  d_info_err d = false -> d_isinj_err d = false -> d_inject_err d = false ->
  latest_row F (d_table d) = Some l ->
  tick_with fx 0 d = (0, if mem (snd l) (d_l2 d) then ANone else AInject (snd l)).
Proof. exact progress_when_caught_up. Qed.

(* ---- safety, whole runs from the initial state of Start: all L1 histories (in L1 order), all schedules ---- *)

(* every root injected at tick t is the most recent root of the L1 HISTORY at or below a block F that the L1 client
   reported (configured finality) at a tick s <= t at which the oracle asked it; F is the most recent such sample
   (it stayed remembered from s to t); the syncer had processed F at tick t *)
Theorem C15_injected_is_finalized_latest_run : forall hist fx, sorted_hist hist -> forall sched l2 t o g,
  nth_error (run (tick_with fx) hist (0, l2) sched) t = Some (o, AInject g) ->
  exists F i_t s i_s,
    (s <= t)%nat /\ nth_error sched s = Some i_s /\ i_l1err i_s = false /\ i_F i_s = F /\
    nth_error (targets_before (tick_with fx) hist (0, l2) sched) s = Some 0 /\
    (forall u, (s < u <= t)%nat -> nth_error (targets_before (tick_with fx) hist (0, l2) sched) u = Some F) /\
    F <> 0 /\ nth_error sched t = Some i_t /\ F <= i_lpb i_t /\
    ref_latest hist F = Some g.
Proof. exact injected_is_finalized_latest_run. Qed.

(* no root is injected twice in a run and no root L2 had at the start is injected (roots added to L2 by others
   during the run are covered by the per-tick theorem) *)
Theorem C15_no_duplicate_injection_run : forall hist fx sched st,
  NoDup (injections (run (tick_with fx) hist st sched)) /\
  forall g, In g (injections (run (tick_with fx) hist st sched)) -> ~ In g (snd st).
Proof. exact no_duplicate_injection_run. Qed.

Theorem C15_progress_when_caught_up_world : forall hist fx, sorted_hist hist -> forall l2 i g,
  errfree i -> i_F i <> 0 -> i_F i <= i_lpb i -> ref_latest hist (i_F i) = Some g ->
  let s := step (tick_with fx) hist (0, l2) i in
  fst (fst s) = 0 /\ In g (snd (fst s)) /\
  (snd s = (0, AInject g) /\ ~ In g (l2_before hist (0, l2) i) \/ snd s = (0, ANone) /\ In g (l2_before hist (0, l2) i)).
Proof. exact progress_when_caught_up_world. Qed.

(* ---- liveness under lag ---- *)

(* the code as written never remembers a block: the "sticky target" is dead code *)
Theorem C15_target_always_zero_current : forall hist sched l2,
  Forall (fun o => fst o = 0) (run tick hist (0, l2) sched).
Proof. exact target_always_zero_current. Qed.

(* REFUTATION of progress under lag for the code as written (finding F3): whenever at every tick the syncer is behind
   the block the L1 client reports, nothing is ever injected, for runs of any length ... *)
Theorem C15_starvation_current_general : forall hist sched l2,
  Forall (fun i => i_l1err i = true \/ i_lpb i < i_F i) sched ->
  injections (run tick hist (0, l2) sched) = [].
Proof. exact starvation_current_general. Qed.

(* ... in particular on the lag schedules (syncer k >= 1 blocks behind a finalized block advancing every tick),
   which ARE fair: the block sampled at tick t is reached by the syncer at tick t + k *)
Theorem C15_starvation_refuted_current : forall k n l2, (1 <= k)%nat ->
  injections (run tick (lag_hist k n) (0, l2) (lag_schedule k n)) = [].
Proof. exact starvation_refuted_current. Qed.

Theorem C15_lag_schedule_fair : forall k t, i_lpb (lag_tin k (t + k)) = i_F (lag_tin k t).
Proof. exact lag_schedule_fair. Qed.

(* the repaired code. Premises: the oracle has no remembered block and samples F at tick i0 (F <> 0, the history has a
   root at or below F), no dependency fails, the syncer is behind F during i0 :: pre and has reached F at i1 (fairness:
   it eventually reaches the sampled block). Then right after tick i1 the most recent root at or below F is on L2,
   nothing else was injected meanwhile, and the oracle samples again at the next tick. *)
Theorem C15_progress_under_lag : forall hist, sorted_hist hist -> forall l2 i0 pre i1 F g,
  F <> 0 -> ref_latest hist F = Some g -> i_F i0 = F ->
  Forall (fun i => errfree i /\ i_lpb i < F) (i0 :: pre) -> errfree i1 -> F <= i_lpb i1 ->
  let st' := final tick_fixed hist (0, l2) ((i0 :: pre) ++ [i1]) in
  fst st' = 0 /\ In g (snd st') /\
  (injections (run tick_fixed hist (0, l2) ((i0 :: pre) ++ [i1])) = [g] \/
   injections (run tick_fixed hist (0, l2) ((i0 :: pre) ++ [i1])) = []).
Proof. exact progress_under_lag. Qed.

(* same with the fairness premise as an existential: the bound used by the executable liveness clause of `spec`
   (delivery at the FIRST tick at which the syncer has reached the sampled block, index n - 1) *)
Theorem C15_progress_under_lag_fair : forall hist, sorted_hist hist -> forall l2 i0 rest F g,
  F <> 0 -> ref_latest hist F = Some g -> i_F i0 = F ->
  Forall errfree (i0 :: rest) ->
  Exists (fun i => F <= i_lpb i) (i0 :: rest) ->
  exists n, (1 <= n <= length (i0 :: rest))%nat /\
    let st' := final tick_fixed hist (0, l2) (firstn n (i0 :: rest)) in
    fst st' = 0 /\ In g (snd st') /\
    Forall (fun i => i_lpb i < F) (firstn (n - 1) (i0 :: rest)).
Proof. exact progress_under_lag_fair. Qed.

(* the repaired code does not get stuck on an old block: after two consecutive ticks in which nothing fails and the syncer
   is at or beyond the remembered block and the reported finalized blocks, the most recent root at or below the block
   reported in the second tick is on L2 and the oracle samples again (second executable liveness clause of `spec`) *)
Theorem C15_caught_up_two_ticks : forall hist, sorted_hist hist -> forall st ia ib g,
  errfree ia -> errfree ib ->
  fst st <= i_lpb ia -> i_F ia <= i_lpb ia -> i_F ib <= i_lpb ib ->
  i_F ib <> 0 -> ref_latest hist (i_F ib) = Some g ->
  let st2 := final tick_fixed hist st [ia; ib] in
  fst st2 = 0 /\ In g (snd st2).
Proof. exact caught_up_two_ticks. Qed.

(* ---- safety under L1 reorgs: the L1 info tree history may change between any two ticks (the chain is reorganised
   and the syncer follows the new fork); every tick runs against the history that is canonical when it runs ---- *)

(* every root injected at tick t is the most recent root, at or below the most recently sampled block F, of the
   history that is canonical AT TICK t - never a root of a fork that has been reorganised away *)
Theorem C15_injected_is_current_latest_run_reorg : forall fx sched l2 t o g,
  Forall (fun hi => sorted_hist (fst hi)) sched ->
  nth_error (run_r (tick_with fx) (0, l2) sched) t = Some (o, AInject g) ->
  exists F h_t i_t s h_s i_s,
    (s <= t)%nat /\ nth_error sched s = Some (h_s, i_s) /\ i_l1err i_s = false /\ i_F i_s = F /\
    nth_error (targets_before_r (tick_with fx) (0, l2) sched) s = Some 0 /\
    (forall u, (s < u <= t)%nat -> nth_error (targets_before_r (tick_with fx) (0, l2) sched) u = Some F) /\
    F <> 0 /\ nth_error sched t = Some (h_t, i_t) /\ F <= i_lpb i_t /\
    ref_latest h_t F = Some g.
Proof. exact injected_is_current_latest_run_reorg. Qed.

Theorem C15_no_duplicate_injection_run_reorg : forall fx sched st,
  NoDup (injections (run_r (tick_with fx) st sched)) /\
  forall g, In g (injections (run_r (tick_with fx) st sched)) -> ~ In g (snd st).
Proof. exact no_duplicate_injection_run_reorg. Qed.

(* progress on a changing history: at any tick at which the oracle samples, nothing fails, the syncer has reached the sampled block
   and the history canonical at that tick has a root at or below it, that root is on L2 after the tick - whatever reorgs happened
   before *)
Theorem C15_progress_when_caught_up_run_reorg : forall fx pre h i l2 g,
  sorted_hist h -> fst (final_r (tick_with fx) (0, l2) pre) = 0 ->
  errfree i -> i_F i <> 0 -> i_F i <= i_lpb i -> ref_latest h (i_F i) = Some g ->
  let st' := final_r (tick_with fx) (0, l2) (pre ++ [(h, i)]) in
  fst st' = 0 /\ In g (snd st').
Proof. exact progress_when_caught_up_run_reorg. Qed.

(* the runs over a changing history contain the runs over a fixed one *)
Theorem C15_reorg_runs_generalise : forall tk hist sched st,
  run_r tk st (map (fun i => (hist, i)) sched) = run tk hist st sched.
Proof. exact run_r_const. Qed.

Theorem C15_sel_all : forall pool, sel pool (seq 0 (length pool)) = pool.
Proof. exact sel_all. Qed.

(* ---- the tick GENERATED from aggoracle/oracle.go on every run is the model's tick ---- *)

(* processLatestGER (with getLastFinalizedGER), translated by tools/go2coq, run against the model's dependencies: the value of
   blockNumToFetch after the tick and the class of the error returned are those of tick_fixed, for every state of the loop
   variable, all dependencies and every value of the panic parameter (l1infotreesync.ErrBlockNotProcessed is the class
   GoNum.ENotFound of that file, any other error EFail) *)
Theorem C15_generated_tick_is_model : forall d panicv target,
  GenAgreeOracle.gen_tick d panicv target =
  (GenAgreeOracle.class_of (snd (tick_fixed target d)), fst (tick_fixed target d)).
Proof. exact GenAgreeOracle.tick_agree. Qed.

(* ... and it calls InjectGER exactly when the model injects, with the model's root: against a sender that refuses exactly
   the root g0 it fails iff the model's action is AInject g0 *)
Theorem C15_generated_tick_consults_inject : forall d panicv target g0, d_inject_err d = false ->
  GenAgreeOracle.gen_tick_refusing d panicv g0 target =
  (match snd (tick_fixed target d) with
   | AInject g => if g =? g0 then EFail else EOK
   | a => GenAgreeOracle.class_of a
   end, fst (tick_fixed target d)).
Proof. exact GenAgreeOracle.tick_consults_inject. Qed.

(* ---- non-vacuity ---- *)

Definition ex_hist : list row := [(2, 102); (4, 104); (4, 105); (9, 109)].
Definition ex_tin (F lpb : N) : tin :=
  {| i_F := F; i_l1err := false; i_lpb := lpb; i_infoerr := false; i_l2add := []; i_isinjerr := false; i_injecterr := false |}.

Example C15_ex_sorted : sorted_hist ex_hist /\ sorted_hist (lag_hist 2 10).
Proof. split; apply sorted_histb_ok; vm_compute; reflexivity. Qed.

(* a tick that injects: finalized block 5, syncer at 20 holding a root beyond the finalized block (9) that must not
   be chosen; the last of the two roots of block 4 is chosen *)
Example C15_ex_inject :
  tick 0 (mkdeps ex_hist [102] (ex_tin 5 20)) = (0, AInject 105) /\
  tick_fixed 0 (mkdeps ex_hist [102] (ex_tin 5 20)) = (0, AInject 105) /\
  tick 0 (mkdeps ex_hist [105] (ex_tin 5 20)) = (0, ANone) /\
  ref_latest ex_hist 5 = Some 105.
Proof. repeat split; vm_compute; reflexivity. Qed.

(* the hypotheses of C15_progress_under_lag are met by the lag schedule (k = 2): sampled block 3 at tick 0, syncer at
   1, 2, then 3 *)
Example C15_ex_lag_premises :
  let F := 3 in
  ref_latest (lag_hist 2 10) F = Some 1003 /\ i_F (lag_tin 2 0) = F /\
  Forall (fun i => errfree i /\ i_lpb i < F) [lag_tin 2 0; lag_tin 2 1] /\ errfree (lag_tin 2 2) /\ F <= i_lpb (lag_tin 2 2).
Proof.
  repeat split; try (vm_compute; reflexivity); try (vm_compute; congruence).
  repeat constructor; try (vm_compute; reflexivity).
Qed.

(* the two variants on the same fair schedule: 12 ticks, syncer 2 blocks behind *)
Example C15_ex_lag_contrast :
  injections (run tick (lag_hist 2 12) (0, []) (lag_schedule 2 12)) = [] /\
  injections (run tick_fixed (lag_hist 2 12) (0, []) (lag_schedule 2 12)) = [1003; 1006; 1009; 1012] /\
  map fst (run tick_fixed (lag_hist 2 12) (0, []) (lag_schedule 2 12)) = [3; 3; 0; 6; 6; 0; 9; 9; 0; 12; 12; 0].
Proof. repeat split; vm_compute; reflexivity. Qed.

(* the executable property (spec) accepts what the repaired model does on that schedule and rejects what the code as
   written does (liveness half), while both satisfy the safety half *)
Example C15_ex_spec_separates :
  let h := lag_hist 2 12 in let s := lag_schedule 2 12 in
  safe_walk (-3)%Z h [] None (model_obs tick_fixed (-3)%Z h (0, []) s) = true /\
  live_walk (-3)%Z h (model_obs tick_fixed (-3)%Z h (0, []) s) = true /\
  safe_walk (-3)%Z h [] None (model_obs tick (-3)%Z h (0, []) s) = true /\
  live_walk (-3)%Z h (model_obs tick (-3)%Z h (0, []) s) = false.
Proof. repeat split; vm_compute; reflexivity. Qed.

(* hypotheses of C15_caught_up_two_ticks met from a state with a remembered block (3) that holds no root at or below it
   in a history starting at block 4: tick a reports "not found" and forgets the block, tick b delivers *)
Example C15_ex_caught_up :
  let h := [(4, 104); (9, 109)] in
  run tick_fixed h (3, []) [ex_tin 5 20; ex_tin 9 20] = [(0, AErr ENotFound); (0, AInject 109)] /\
  ref_latest h 9 = Some 109 /\
  caught_walk h [] 0 false (model_obs tick_fixed (-3)%Z h (0, []) [ex_tin 5 20; ex_tin 9 20; ex_tin 9 20]) = true.
Proof. repeat split; vm_compute; reflexivity. Qed.

(* a reorg between two ticks: block 9 (root 109) is reorganised away and the new fork has root 209 in block 10. The
   repaired model injects 109 before the reorg (latest finality sampled block 9) and 209 after it; the executable
   safety clause accepts that and rejects an implementation that, after the reorg, injects the root of the dead fork *)
Example C15_ex_reorg :
  let pool := [(2, 102); (9, 109); (10, 209)] in
  let h0 := [0; 1]%nat in let h1 := [0; 2]%nat in
  let sched := [(sel pool h0, ex_tin 5 20); (sel pool h1, ex_tin 12 20)] in
  Forall (fun hi => sorted_hist (fst hi)) sched /\
  run_r tick_fixed (0, []) sched = [(0, AInject 102); (0, AInject 209)] /\
  safe_walk_r (-3)%Z pool [] None (model_obs_r tick_fixed (-3)%Z (0, []) sched) [h0; h1] = true /\
  safe_walk_r (-3)%Z pool [] None
    [(ex_tin 5 20, {| o_tags := [(-3)%Z]; o_inj := [102]; o_att := []; o_err := 0; o_target := 0 |});
     (ex_tin 12 20, {| o_tags := [(-3)%Z]; o_inj := [109]; o_att := []; o_err := 0; o_target := 0 |})] [h0; h1] = false.
Proof.
  cbv zeta. split; [|repeat split; vm_compute; reflexivity].
  apply Forall_cons; [apply sorted_histb_ok; vm_compute; reflexivity|].
  apply Forall_cons; [apply sorted_histb_ok; vm_compute; reflexivity|]. apply Forall_nil.
Qed.

(* the generated tick on the dependencies of C15_ex_inject: it returns nil and forgets the block; against a sender that refuses
   root 105 it fails, against one that refuses 104 it does not *)
Example C15_ex_generated_tick :
  let d := mkdeps ex_hist [102] (ex_tin 5 20) in
  GenAgreeOracle.gen_tick d (0, 0, EFail) 0 = (EOK, 0) /\
  fst (GenAgreeOracle.gen_tick_refusing d (0, 0, EFail) 105 0) = EFail /\
  fst (GenAgreeOracle.gen_tick_refusing d (0, 0, EFail) 104 0) = EOK.
Proof. repeat split; vm_compute; reflexivity. Qed.

(* hypotheses of C15_progress_when_caught_up_run_reorg met by the second tick of the schedule of C15_ex_reorg (after the reorg) *)
Example C15_ex_reorg_progress :
  let pool := [(2, 102); (9, 109); (10, 209)] in
  let pre := [(sel pool [0; 1]%nat, ex_tin 5 20)] in let h := sel pool [0; 2]%nat in let i := ex_tin 12 20 in
  fst (final_r tick_fixed (0, []) pre) = 0 /\ errfree i /\ i_F i <> 0 /\ i_F i <= i_lpb i /\ ref_latest h (i_F i) = Some 209 /\
  final_r tick_fixed (0, []) (pre ++ [(h, i)]) = (0, [209; 102]).
Proof. cbv zeta. repeat split; try (vm_compute; reflexivity); vm_compute; congruence. Qed.

(* a failing dependency: hypotheses of C15_errors_inject_nothing met, and the tick indeed reports the failure *)
Example C15_ex_error :
  let d := mkdeps ex_hist [] {| i_F := 5; i_l1err := false; i_lpb := 20; i_infoerr := true; i_l2add := [];
                                 i_isinjerr := false; i_injecterr := false |} in
  d_info_err d = true /\ tick_fixed 0 d = (0, AErr EInfo) /\ tick_fixed 7 d = (0, AErr EInfo) /\ tick 0 d = (0, AErr EInfo).
Proof. repeat split; vm_compute; reflexivity. Qed.

Print Assumptions C15_injected_is_finalized_latest.
Print Assumptions C15_no_duplicate_injection.
Print Assumptions C15_errors_inject_nothing.
Print Assumptions C15_progress_when_caught_up.
Print Assumptions C15_injected_is_finalized_latest_run.
Print Assumptions C15_no_duplicate_injection_run.
Print Assumptions C15_progress_when_caught_up_world.
Print Assumptions C15_target_always_zero_current.
Print Assumptions C15_starvation_current_general.
Print Assumptions C15_starvation_refuted_current.
Print Assumptions C15_lag_schedule_fair.
Print Assumptions C15_progress_under_lag.
Print Assumptions C15_progress_under_lag_fair.
Print Assumptions C15_caught_up_two_ticks.
Print Assumptions C15_injected_is_current_latest_run_reorg.
Print Assumptions C15_no_duplicate_injection_run_reorg.
Print Assumptions C15_reorg_runs_generalise.
Print Assumptions C15_sel_all.
Print Assumptions C15_generated_tick_is_model.
Print Assumptions C15_generated_tick_consults_inject.
Print Assumptions C15_progress_when_caught_up_run_reorg.
