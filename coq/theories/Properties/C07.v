(* C07 — block processing is all-or-nothing under faults and crashes; retry is clean.
   Statements about the executable store model (Model/BridgeStore.v, compared with the real processor under injected
   SQL faults on every run) and about the generic tree algorithms it runs. *)
From Coq Require Import Arith NArith ZArith List Bool.
From Verif Require Import Base.Bytes Base.Hash Model.Merkle Model.MerkleSpec Model.TreeStore Model.BridgeStore
  Proofs.Frontier Proofs.Rht Proofs.InitCache Proofs.C01Proofs Proofs.BridgeStoreProofs
  Proofs.TreeStoreProofs Proofs.TreeStoreCorollaries Proofs.BridgeReach Proofs.BridgeAsIf.
Import ListNotations.
Local Close Scope N_scope.

(* whichever storage statement fails (any table, any position, commit included), the database is exactly as before *)
Theorem C07_fault_atomic : forall f st k e st', process_block f st k = (Some e, st') -> st_db st' = st_db st.
Proof. exact process_block_error_keeps_db. Qed.
(* a block is recorded only when its whole transaction was applied; an error never leaves the processor advanced *)
Theorem C07_ok_records_whole_block : forall f st k st',
  process_block f st k = (None, st') -> exists x, st_db st' = x_db x /\ st_halted st' = false.
Proof. exact process_block_ok_records_block. Qed.

(* retry is clean for the tree: a rollback that undid appended leaves marks the cache invalid (fix F1) ... *)
Theorem C07_rollback_invalidates_cache : forall mem n, 0 < n -> m_last (rollback_mem mem n) = (-2)%Z.
Proof. exact rollback_invalidates. Qed.
(* ... an invalid cache always goes through initCache before anything is appended ... *)
Theorem C07_invalid_cache_forces_init : forall db mem blk bpos idx leaf, m_last mem = (-2)%Z ->
  add_leaf_exec db mem blk bpos idx leaf =
  match init_cache db with
  | inl e => (mem, inl e)
  | inr mem' => if Z.eqb (Z.of_N idx) (m_last mem' + 1)%Z then add_leaf_exec db mem' blk bpos idx leaf else (mem', inl EInvalidIndex)
  end.
Proof. exact invalid_cache_forces_init. Qed.

Section Generic.
Context {hash : Type}.
Variable node : hash -> hash -> hash.
Variable z0 : hash.
Variable f : nat -> hash.
(* ... initCache on the (rolled back, hence unchanged and closed) store re-establishes the frontier invariant ... *)
Theorem C07_init_reestablishes_invariant : forall m n H c, Closed node z0 f H m n -> 0 < n -> n <= 2 ^ H ->
  exists c', init_walk m H (mroot node z0 f H n) (Nat.testbit (n - 1)) c = Some c' /\ CacheInv node z0 f H n c'.
Proof. exact (init_cache_inv node z0 f). Qed.
(* ... and under the invariant the retried append records exactly the root of a run in which the failure never happened *)
Theorem C07_retry_root_is_clean_root : forall H i c, i < 2 ^ H -> CacheInv node z0 f H i c ->
  fst (add_leaf node (zero node z0) H (Nat.testbit i) (f i) c) = mroot node z0 f H (S i).
Proof. exact (go_root_any_cache node z0 f). Qed.
End Generic.

(* The pre-fix behaviour (rollback callback = lastIndex-- only) is REFUTED: leaf 0 committed; one transaction appends
   leaves 1 and 2 and rolls back; the retry of leaf 1 records a root different from the clean run's (finding F1). *)
Definition f1_run (rb : tmem -> nat -> tmem) : option N :=
  match add_leaf_exec tdb_empty tmem_new 1 0 0 100%N with
  | (m0, inr db0) =>
    let m0 := mem_commit_leaf m0 in
    match add_leaf_exec db0 m0 2 0 1 101%N with
    | (m1, inr db1) =>
      match add_leaf_exec db1 (mem_commit_leaf m1) 2 1 2 102%N with
      | (m2, inr _) =>
        let mem' := rb (mem_commit_leaf m2) 2 in          (* rollback: db back to db0 *)
        match add_leaf_exec db0 mem' 2 0 1 101%N with
        | (_, inr db1') => option_map r_hash (root_by_index db1' 1)
        | _ => None end
      | _ => None end
    | _ => None end
  | _ => None end.
Definition f1_clean : option N :=
  match add_leaf_exec tdb_empty tmem_new 1 0 0 100%N with
  | (m0, inr db0) =>
    match add_leaf_exec db0 (mem_commit_leaf m0) 2 0 1 101%N with
    | (_, inr db1) => option_map r_hash (root_by_index db1 1)
    | _ => None end
  | _ => None end.
Theorem C07_retry_refuted_unfixed : f1_run rollback_mem_unfixed <> f1_clean.
Proof. vm_compute. congruence. Qed.
Example C07_retry_clean_fixed : f1_run rollback_mem = f1_clean /\ f1_clean <> None.
Proof. vm_compute. split; congruence. Qed.


(* ================= store level: every reachable state of the (generic) executable tree store =================
   `Reach HT node zhf db mem L`: the store (root table, node table, in-memory frontier) is reachable from the empty one by
   successful appends of the next index, appends with a wrong index, appends abandoned after the hashing loop (storage fault),
   memory invalidations with arbitrary cache content (restart, rollback callback, reorg) and Tree.Reorg; L is the surviving
   history (leaf, block, position). The executable model (compared with the Go code on every run) is the instance
   HT := 32, node := Keccak-256, zhf := the precomputed zero table (zero_table_is_zero). Hypothesis: node injective. *)
Section Store.
Variable HT : nat.
Variable node : N -> N -> N.
Hypothesis node_inj : forall a b c d, node a b = node c d -> a = c /\ b = d.
Variable zhf : nat -> N.
Hypothesis Hzh : forall h, (h <= HT)%nat -> zhf h = zero node 0%N h.
(* C07 for the exit tree: a store that went through aborted appends (storage fault after the hashing loop), rollbacks
   (R_inval on the earlier database) and retries answers every tree query exactly like a store that appended the same
   leaves without any failure: same root rows, same proofs, same leaves, for every recorded version. *)
Theorem C07_store_retry_is_clean : forall db1 mem1 db2 mem2 L, Reach HT node zhf db1 mem1 L -> Reach HT node zhf db2 mem2 L ->
  (forall i, root_by_index db1 i = root_by_index db2 i) /\
  (forall h, root_by_hash db1 h = root_by_hash db2 h) /\
  last_root db1 = last_root db2 /\
  (forall j k, (j < k)%nat -> (k <= length L)%nat ->
     Gen.get_proof HT zhf db1 (N.of_nat j) (mroot node 0%N (lf L) HT k) = Gen.get_proof HT zhf db2 (N.of_nat j) (mroot node 0%N (lf L) HT k) /\
     Gen.get_leaf HT db1 (N.of_nat j) (mroot node 0%N (lf L) HT k) = Gen.get_leaf HT db2 (N.of_nat j) (mroot node 0%N (lf L) HT k)).
Proof. exact (same_history_same_answers HT node node_inj zhf Hzh). Qed.
Theorem C07_store_retry_is_clean_roots : forall db1 mem1 db2 mem2 L, Reach HT node zhf db1 mem1 L -> Reach HT node zhf db2 mem2 L -> t_roots db1 = t_roots db2.
Proof. exact (same_history_same_roots HT node node_inj zhf Hzh). Qed.
End Store.


(* ================= processor level: the bridge processor model that is compared with the Go code on every run =================
   `BReach HT node zhf leafh st`: st is reachable from the empty processor by ProcessBlock of well-formed blocks (block number
   above every recorded one, bridge positions increasing, deposit count < 2^HT) under ANY storage fault, by Reorg and by restart.
   The executable instance is HT := 32, node := Keccak, zhf := zero table, leafh := bridge_leaf. *)
Section Processor.
Variable HT : nat.
Variable node : N -> N -> N.
Hypothesis node_inj : forall a b c d, node a b = node c d -> a = c /\ b = d.
Variable zhf : nat -> N.
Hypothesis Hzh : forall h, (h <= HT)%nat -> zhf h = zero node 0%N h.
Variable leafh : bridge_ev -> N.
Hypothesis Hleaf : forall b, leafh b <> 0%N.
(* the processor only ever drives its exit tree through the operations of `Reach`: the store invariant holds in every
   reachable processor state, for the history read off the bridge table; deposit counts in the table are 0,1,2,... *)
Theorem C07_processor_invariant : forall st, BReach HT node zhf leafh st -> BInv HT node zhf leafh st.
Proof. exact (BReach_inv HT node node_inj zhf Hzh leafh Hleaf). Qed.
(* whichever statement fails, the processor returns to the same database and to a reachable state *)
Theorem C07_processor_failed_block_clean : forall st f k e st', BReach HT node zhf leafh st -> wf_block HT (st_db st) k ->
  BridgeStore.Gen.process_block HT node zhf leafh f st k = (Some e, st') -> st_db st' = st_db st /\ BReach HT node zhf leafh st'.
Proof. intros st f k e st'. apply processor_failed_block_clean. Qed.
(* two reachable processor states holding the same surviving deposits answer every exit-tree query identically, however they
   got there (through dropped blocks and Reorg, through failed blocks and retries, through restarts) *)
Theorem C07_processor_retry_is_clean : forall st1 st2, BReach HT node zhf leafh st1 -> BReach HT node zhf leafh st2 ->
  hist_of leafh (st_db st1) = hist_of leafh (st_db st2) ->
  t_roots (d_tree (st_db st1)) = t_roots (d_tree (st_db st2)) /\
  (forall i, exit_root_by_index (st_db st1) i = exit_root_by_index (st_db st2) i) /\
  (forall h, root_by_ler (st_db st1) h = root_by_ler (st_db st2) h) /\
  (forall j k, (j < k)%nat -> (k <= length (d_bridges (st_db st1)))%nat ->
     let root := mroot node 0%N (lf (hist_of leafh (st_db st1))) HT k in
     Gen.get_proof HT zhf (d_tree (st_db st1)) (N.of_nat j) root = Gen.get_proof HT zhf (d_tree (st_db st2)) (N.of_nat j) root).
Proof. exact (processor_same_history_same_answers HT node node_inj zhf Hzh leafh Hleaf). Qed.
End Processor.


(* ================= database level =================
   `BRun HT node zhf leafh ks st`: st was reached by ProcessBlock (under any storage fault), Reorg and restart, and ks are the
   blocks that were processed successfully and not reorged away since. *)
Section Tables.
Variable HT : nat.
Variable node : N -> N -> N.
Variable zhf : nat -> N.
Variable leafh : bridge_ev -> N.
(* C07 for the tables: two states with the same surviving history hold identical tables, whatever failed and was retried on
   the way (a failed ProcessBlock contributes nothing: BRun_fail keeps ks); together with C07_processor_retry_is_clean
   (equal bridge tables => equal exit-tree answers) the retried node is indistinguishable from the one that never failed *)
Theorem C07_same_history_same_tables : forall ks st1 st2, BRun HT node zhf leafh ks st1 -> BRun HT node zhf leafh ks st2 ->
  d_blocks (st_db st1) = d_blocks (st_db st2) /\ d_bridges (st_db st1) = d_bridges (st_db st2) /\
  d_claims (st_db st1) = d_claims (st_db st2) /\ d_tm (st_db st1) = d_tm (st_db st2) /\ d_legacy (st_db st1) = d_legacy (st_db st2).
Proof. exact (same_history_same_tables HT node zhf leafh). Qed.
(* no later block is recorded while an earlier one is missing: the block table is exactly the surviving successful blocks, in order *)
Theorem C07_block_table_is_successful_blocks : forall ks st, BRun HT node zhf leafh ks st -> d_blocks (st_db st) = map k_num ks.
Proof. intros ks st H. exact (proj1 (run_tables HT node zhf leafh ks st H)). Qed.
End Tables.

Print Assumptions C07_fault_atomic.
Print Assumptions C07_same_history_same_tables.
Print Assumptions C07_block_table_is_successful_blocks.
Print Assumptions C07_processor_invariant.
Print Assumptions C07_processor_failed_block_clean.
Print Assumptions C07_processor_retry_is_clean.
Print Assumptions C07_store_retry_is_clean.
Print Assumptions C07_store_retry_is_clean_roots.
Print Assumptions C07_ok_records_whole_block.
Print Assumptions C07_rollback_invalidates_cache.
Print Assumptions C07_invalid_cache_forces_init.
Print Assumptions C07_init_reestablishes_invariant.
Print Assumptions C07_retry_root_is_clean_root.
