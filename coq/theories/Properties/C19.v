(* C19 — global indexes are encoded and decoded consistently everywhere.
   This file contains only the property theorems (each closed by `exact` of a lemma proved in
   Proofs/), non-vacuity examples, source-fact obligations and Print Assumptions. *)
From Coq Require Import NArith List Bool.
From Verif Require Import Base.Bytes Model.GlobalIndex Proofs.GlobalIndexProofs Gen.SourceFacts.
Import ListNotations.
Open Scope N_scope.

(* source-fact obligations: the constants the model hard-wires are the ones in the Go source *)
Example src_part_size_is_model : src_global_index_part_size = Some (N.of_nat gi_part_size).
Proof. reflexivity. Qed.
Example src_max_size_is_model : src_global_index_max_size = Some (N.of_nat gi_max_size).
Proof. reflexivity. Qed.

(* composing then decomposing returns the same triple (rollup index 0 for mainnet): all 2 x 2^32 x 2^32 triples *)
Theorem C19_decode_encode : forall (m : bool) (r l : N), r < 2^32 -> l < 2^32 ->
  decode (encode m r l) = (m, if m then 0 else r, l).
Proof. exact decode_encode. Qed.

(* the composed value has the bridge contract's bit layout: flag at bit 64, rollup index bits 32..63, leaf index bits 0..31 *)
Theorem C19_encode_layout : forall (m : bool) (r l : N), r < 2^32 -> l < 2^32 ->
  encode m r l = (if m then 2^64 else r * 2^32) + l.
Proof. exact encode_layout. Qed.

(* no two claim positions share a global index: well-formed triples with the same composed value have the same flag and
   leaf index and, off mainnet, the same rollup index *)
Theorem C19_encode_injective : forall (m1 : bool) (r1 l1 : N) (m2 : bool) (r2 l2 : N),
  r1 < 2^32 -> l1 < 2^32 -> r2 < 2^32 -> l2 < 2^32 ->
  encode m1 r1 l1 = encode m2 r2 l2 -> m1 = m2 /\ l1 = l2 /\ (m1 = false -> r1 = r2).
Proof. exact encode_injective. Qed.

(* what the decoder does on ANY 256-bit on-chain value *)
Theorem C19_decode_closed_form : forall v, v < 2^256 ->
  decode v = ((2^64 <=? v) && (v <? 2^72), (v / 2^32) mod 2^32, v mod 2^32).
Proof. exact decode_closed. Qed.

(* canonical on-chain values survive decode-then-encode *)
Theorem C19_encode_decode_canonical : forall v, canonical v -> enc3 (decode v) = v.
Proof. exact encode_decode_canonical. Qed.

(* certificate copy, signed commitment (LE), wire message (BE), prover request (BE) and the
   optimistic-mode commitment (LE) all carry the same number v *)
Theorem C19_consumers_agree : forall v, canonical v ->
  let t := cert_gi v in
  wire_gi t = be 32 v /\ prover_gi t = be 32 v /\ commit_gi t = le 32 v /\ optimistic_gi v = le 32 v /\
  of_be (wire_gi t) = v /\ of_le (commit_gi t) = v /\ of_le (optimistic_gi v) = v /\ of_be (prover_gi t) = v.
Proof. exact consumers_agree. Qed.

Theorem C19_consumers_of_triple : forall (m : bool) (r l : N), r < 2^32 -> l < 2^32 ->
  let v := (if m then 2^64 else r * 2^32) + l in
  wire_gi (m, r, l) = be 32 v /\ prover_gi (m, r, l) = be 32 v /\ commit_gi (m, r, l) = le 32 v.
Proof. exact consumers_of_triple. Qed.

(* certificate level: a certificate / prover request with ANY number of claims carries, at position i of every carrier
   (wire message, prover request, signed commitment preimage, optimistic commitment preimage), the number of claim i *)
Theorem C19_consumers_of_claim_list : forall ts : list (bool * N * N), Forall wf_triple ts ->
  map wire_gi ts = map (fun t => be 32 (layout_of t)) ts /\
  map prover_gi ts = map (fun t => be 32 (layout_of t)) ts /\
  map commit_gi ts = map (fun t => le 32 (layout_of t)) ts /\
  map (fun t => optimistic_gi (enc3 t)) ts = map (fun t => le 32 (layout_of t)) ts /\
  map (fun t => of_be (wire_gi t)) ts = map layout_of ts /\
  map (fun t => of_be (prover_gi t)) ts = map layout_of ts /\
  map (fun t => of_le (commit_gi t)) ts = map layout_of ts.
Proof. exact consumers_of_claim_list. Qed.

Theorem C19_le_is_reversed_be : forall v, rev (le 32 v) = be 32 v.
Proof. exact le_be_rev. Qed.

(* outside the property's quantifier, documented: non-canonical values are NOT preserved *)
Theorem C19_noncanonical_lossy : forall v, v < 2^256 -> ~ canonical v -> enc3 (decode v) <> v.
Proof. exact noncanonical_lossy. Qed.

(* non-vacuity: concrete canonical values of both kinds, and a concrete round trip *)
Example C19_nonvacuous : canonical (2^64 + 7) /\ canonical (5 * 2^32 + 9) /\
  decode (encode false 5 9) = (false, 5, 9) /\ decode (encode true 5 9) = (true, 0, 9).
Proof. repeat split; try (right; split; vm_compute; congruence); try (left; vm_compute; congruence). Qed.

Print Assumptions C19_decode_encode.
Print Assumptions C19_encode_layout.
Print Assumptions C19_encode_injective.
Print Assumptions C19_decode_closed_form.
Print Assumptions C19_encode_decode_canonical.
Print Assumptions C19_consumers_agree.
Print Assumptions C19_consumers_of_triple.
Print Assumptions C19_consumers_of_claim_list.
Print Assumptions C19_le_is_reversed_be.
Print Assumptions C19_noncanonical_lossy.
