(* C20 — claim details are taken only from the matching, non-reverted bridge call.
   Only the property theorems (each closed by `exact` of a lemma of Proofs/FindCallProofs.v), non-vacuity
   examples, source-fact obligations and Print Assumptions.

   All theorems are stated for EVERY call tree (any depth, any fan-out, reverted frames anywhere), every bridge
   address, every claim, and every behaviour of the ABI layer: the type of frame inputs, `selector` (first four
   bytes), `unpack` (ABI unpacking per contract generation) and `hash2` (Keccak of the two exit roots) are
   universally quantified.  What go-ethereum's ABI unpacking returns on real bytes is covered by the
   correspondence only (partial there; see props/c20.py). *)
From Coq Require Import NArith List Bool.
From Verif Require Import Model.FindCall Proofs.FindCallProofs Model.C20Cases Gen.SourceFacts.
Import ListNotations.
Open Scope N_scope.

(* source-fact obligations: the selectors the model dispatches on are the ones in bridgesync/downloader.go *)
Example C20_src_selectors_are_model :
  src_claim_asset_etrog_selector = Some sel_asset_etrog /\ src_claim_message_etrog_selector = Some sel_msg_etrog /\
  src_claim_asset_pre_etrog_selector = Some sel_asset_pre /\ src_claim_message_pre_etrog_selector = Some sel_msg_pre.
Proof. repeat split; reflexivity. Qed.
Example C20_src_method_id_length : src_method_id_length = Some 4.
Proof. reflexivity. Qed.

Section Statements.
  Variable input : Type.
  Variable selector : input -> option N.
  Variable unpack : gen -> input -> option (N * details).
  Variable hash2 : N -> N -> N.
  Local Notation scc := (set_claim_calldata input selector unpack hash2).
  Local Notation matching := (matching input selector unpack).
  Local Notation decode_claim := (decode_claim input selector unpack).
  Local Notation gindex_of := (gindex_of input selector unpack).

  (* the stack loop of findCall, run with fuel = number of frames + 1, is exactly: walk the live frames in visit order
     (a frame, then its children last-to-first, depth first) and stop at the first bridge frame on which the
     callback reports found or error *)
  Theorem C20_find_call_is_scan_of_visit_order : forall (root : call input) target cl,
    find_call input selector unpack hash2 root target cl =
    scan input selector unpack hash2 target (visit_order input root) cl.
  Proof. exact (find_call_scan input selector unpack hash2). Qed.

  (* soundness: when setClaimCalldata succeeds, the call it took is addressed to the bridge, carries the event's
     global index, and neither it nor any enclosing frame is reverted *)
  Theorem C20_find_call_sound : forall (root : call input) bridge cl c cl',
    scc (Some root) bridge cl = (ROk c, cl') ->
    live input root c /\ c_to c = bridge /\ gindex_of (c_inp c) = Some (cl_gi cl).
  Proof. exact (find_call_sound input selector unpack hash2). Qed.

  (* completeness, under the property's quantifier "every call addressed to the bridge is a claim call":
     if a live matching call exists, setClaimCalldata succeeds (on one of them, by soundness) *)
  Theorem C20_find_call_complete : forall (root : call input) bridge cl,
    all_bridge_calls_are_claims input selector unpack bridge root ->
    (exists d, matching bridge (cl_gi cl) root d) ->
    exists c cl', scc (Some root) bridge cl = (ROk c, cl').
  Proof. exact (find_call_complete input selector unpack hash2). Qed.

  (* the same with the weaker hypothesis the proof really uses: only bridge calls with a live path must decode *)
  Theorem C20_find_call_complete_live : forall (root : call input) bridge cl,
    live_bridge_calls_are_claims input selector unpack bridge root ->
    (exists d, matching bridge (cl_gi cl) root d) ->
    exists c cl', scc (Some root) bridge cl = (ROk c, cl').
  Proof. exact (find_call_complete_live input selector unpack hash2). Qed.

  (* no live matching call: an error is returned (never the model's out-of-fuel) and the claim is exactly as before *)
  Theorem C20_none_means_error_and_untouched : forall (root : call input) bridge cl,
    (forall d, ~ matching bridge (cl_gi cl) root d) ->
    exists e, scc (Some root) bridge cl = (RErr e, cl) /\ e <> EOutOfFuel.
  Proof. exact (none_means_error_and_untouched input selector unpack hash2). Qed.

  (* inside the quantifier the error is "not found" or "root call reverted" *)
  Theorem C20_none_error_kind : forall (root : call input) bridge cl e cl',
    live_bridge_calls_are_claims input selector unpack bridge root ->
    scc (Some root) bridge cl = (RErr e, cl') -> e = ENotFound \/ e = ERootReverted.
  Proof. exact (none_error_kind input selector unpack hash2). Qed.

  (* stronger than asked: ANY error (also RPC failure, undecodable bridge input) leaves the claim untouched *)
  Theorem C20_error_leaves_claim_untouched : forall (trace : option (call input)) bridge cl e cl',
    scc trace bridge cl = (RErr e, cl') -> cl' = cl.
  Proof. exact (error_leaves_claim_untouched input selector unpack hash2). Qed.

  (* the fuel of the model's loop (frames + 1) always suffices *)
  Theorem C20_never_out_of_fuel : forall (trace : option (call input)) bridge cl cl',
    scc trace bridge cl <> (RErr EOutOfFuel, cl').
  Proof. exact (never_out_of_fuel input selector unpack hash2). Qed.

  (* what is recorded on success: every detail field is the found call's, the sender is that call's `from`, the
     message flag says whether its selector is a claimMessage selector, the rollup proof of a pre-Etrog call (which
     has none) is left as it was, global index and all other fields of the claim are unchanged *)
  Theorem C20_details_are_of_found_call : forall (root : call input) bridge cl c cl',
    scc (Some root) bridge cl = (ROk c, cl') ->
    exists g m d s,
      decode_claim (c_inp c) = Some (g, m, cl_gi cl, d) /\
      records hash2 cl cl' (c_from c) g m d /\
      selector (c_inp c) = Some s /\ m = ((s =? sel_msg_etrog) || (s =? sel_msg_pre)).
  Proof. exact (details_are_of_found_call input selector unpack hash2). Qed.

  (* which of several matching calls is taken (characterised; the property does not constrain it) *)
  Theorem C20_found_is_first_in_visit_order : forall (root : call input) bridge cl c cl',
    scc (Some root) bridge cl = (ROk c, cl') ->
    exists before after, visit_order input root = before ++ c :: after /\
      forall x, In x before -> c_to x = bridge -> gindex_of (c_inp x) <> Some (cl_gi cl).
  Proof. exact (found_is_first_in_visit_order input selector unpack hash2). Qed.

  (* the executable enumerations used by C20Cases.spec are the inductive notions of the theorems *)
  Theorem C20_live_calls_is_live : forall (c d : call input), In d (live_calls input c) <-> live input c d.
  Proof. exact (in_live_calls_iff input). Qed.
  Theorem C20_all_calls_is_subcall : forall (c d : call input), In d (all_calls input c) <-> subcall input c d.
  Proof. exact (in_all_calls_iff input). Qed.
End Statements.

(* ---- non-vacuity: a concrete tree with a reverted frame hiding a matching call, two live matching calls of both
   generations, a bridge call with another index that encloses a matching one, a non-bridge frame ---- *)
Definition ex_h2 (a b : N) : N := a * 1000 + b.
Definition ex_claim (g : gen) (sel gi tag : N) : xinput :=
  XI (Some sel) (Some (g, gi, DT [tag] (match g with Etrog => [tag + 1] | PreEtrog => [] end) (tag + 2) (tag + 3) (tag + 4) (1%nat, tag))).
Definition ex_raw : xinput := XI (Some 0xa9059cbb) None.
Definition ex_dead : xcall := XC 16 32 false (ex_claim Etrog sel_asset_etrog 10 100) [].
Definition ex_second : xcall := XC 16 1 false (ex_claim PreEtrog sel_msg_pre 10 200) [].
Definition ex_inner : xcall := XC 16 16 false (ex_claim Etrog sel_msg_etrog 10 300) [].
Definition ex_outer : xcall := XC 16 1 false (ex_claim Etrog sel_asset_etrog 11 400) [ex_inner].
Definition ex_root : xcall := XC 1 32 false ex_raw [XC 32 1 true ex_raw [ex_dead]; ex_second; ex_outer].
Definition ex_root_none : xcall := XC 1 32 false ex_raw [XC 32 1 true ex_raw [ex_dead]; XC 16 1 false (ex_claim Etrog sel_asset_etrog 11 400) []].
Definition ex_cl : claim := CL 10 [7; 8] 99 [1] [2] 3 4 5 6 (0%nat, 0) false.
Local Notation ex_scc := (set_claim_calldata xinput x_selector x_unpack ex_h2).

(* hypotheses of soundness / details: the run succeeds, on the inner call (last sibling first, then its child) *)
Example C20_ex_run_ok :
  fst (ex_scc (Some ex_root) 16 ex_cl) = ROk ex_inner /\
  snd (ex_scc (Some ex_root) 16 ex_cl) = CL 10 [7; 8] 16 [300] [301] 302 303 (ex_h2 302 303) 304 (1%nat, 300) true.
Proof. split; vm_compute; reflexivity. Qed.

(* hypothesis of completeness: every call addressed to the bridge is a claim call, and live matching calls exist
   (two different ones), while the one under the reverted frame is not live *)
Example C20_ex_quantifier : all_bridge_calls_are_claims xinput x_selector x_unpack 16 ex_root.
Proof.
  intros d Hd Ht. apply (in_all_calls_iff xinput) in Hd. vm_compute in Hd.
  repeat (destruct Hd as [<-|Hd]; [try (vm_compute in Ht; discriminate); vm_compute; discriminate|]). destruct Hd.
Qed.
Example C20_ex_matching :
  matching xinput x_selector x_unpack 16 10 ex_root ex_inner /\ matching xinput x_selector x_unpack 16 10 ex_root ex_second /\
  ~ matching xinput x_selector x_unpack 16 10 ex_root ex_dead /\ ex_inner <> ex_second.
Proof.
  split; [|split; [|split]].
  - split; [apply (in_live_calls_iff xinput); vm_compute; tauto|split; reflexivity].
  - split; [apply (in_live_calls_iff xinput); vm_compute; tauto|split; reflexivity].
  - intros [Hl _]. apply (in_live_calls_iff xinput) in Hl. vm_compute in Hl.
    repeat (destruct Hl as [Hl|Hl]; [discriminate|]). destruct Hl.
  - discriminate.
Qed.

(* hypothesis of none_means_error_and_untouched: the only matching call sits under a reverted frame *)
Example C20_ex_none :
  (forall d, ~ matching xinput x_selector x_unpack 16 10 ex_root_none d) /\
  ex_scc (Some ex_root_none) 16 ex_cl = (RErr ENotFound, ex_cl).
Proof.
  split; [|vm_compute; reflexivity].
  intros d (Hl & Ht & Hg). apply (in_live_calls_iff xinput) in Hl. vm_compute in Hl.
  repeat (destruct Hl as [<-|Hl]; [try (vm_compute in Ht; discriminate); vm_compute in Hg; discriminate|]). destruct Hl.
Qed.

(* with the real Keccak: the recorded global exit root of the example is keccak256(mer ++ rer) *)
Example C20_ex_real_hash :
  cl_ger (snd (set_claim_calldata xinput x_selector x_unpack x_hash2 (Some ex_root) 16 ex_cl)) =
  Base.Hash.keccakN (Base.Bytes.be 32 302 ++ Base.Bytes.be 32 303).
Proof. vm_compute. reflexivity. Qed.

Print Assumptions C20_find_call_is_scan_of_visit_order.
Print Assumptions C20_find_call_sound.
Print Assumptions C20_find_call_complete.
Print Assumptions C20_find_call_complete_live.
Print Assumptions C20_none_means_error_and_untouched.
Print Assumptions C20_none_error_kind.
Print Assumptions C20_error_leaves_claim_untouched.
Print Assumptions C20_never_out_of_fuel.
Print Assumptions C20_details_are_of_found_call.
Print Assumptions C20_found_is_first_in_visit_order.
Print Assumptions C20_live_calls_is_live.
Print Assumptions C20_all_calls_is_subcall.
