(* C20 — claim details are taken only from the matching, non-reverted bridge call.
   Only the property theorems (each closed by `exact` of a lemma of Proofs/FindCallProofs.v), non-vacuity
   examples, source-fact obligations and Print Assumptions.

   All theorems are stated for EVERY call tree (any depth, any fan-out, reverted frames anywhere), every bridge
   address, every claim, and every behaviour of the ABI layer: the type of frame inputs, `selector` (first four
   bytes), `unpack` (ABI unpacking per contract generation) and `hash2` (Keccak of the two exit roots) are
   universally quantified.  The second part instantiates that layer on RAW CALLDATA BYTES (Model/Abi.v: a byte-level
   transcription of go-ethereum's Arguments.Unpack for the argument types of the four claim methods, followed by the
   `data[k].(T)` reads of decode{Etrog,PreEtrog}Calldata) and proves that it inverts the canonical ABI encoding; the
   correspondence runs the model on the very bytes the real code received. *)
From Coq Require Import String.
From Coq Require Import NArith List Bool.
From Verif Require Import Base.Bytes Model.FindCall Proofs.FindCallProofs Model.Abi Proofs.AbiProofs Model.C20Cases Gen.SourceFacts.
Import ListNotations.
Open Scope list_scope.
Open Scope N_scope.

(* source-fact obligations: the selectors the model dispatches on are the ones in bridgesync/downloader.go *)
Example C20_src_selectors_are_model :
  src_claim_asset_etrog_selector = Some sel_asset_etrog /\ src_claim_message_etrog_selector = Some sel_msg_etrog /\
  src_claim_asset_pre_etrog_selector = Some sel_asset_pre /\ src_claim_message_pre_etrog_selector = Some sel_msg_pre.
Proof. repeat split; reflexivity. Qed.
Example C20_src_method_id_length : src_method_id_length = Some 4.
Proof. reflexivity. Qed.

(* the argument types the model decodes are those of the bindings bridgesync/downloader.go imports (ABI JSON of the pinned
   cdk-contracts-tooling version), for claimAsset and claimMessage of both generations *)
Definition aty_name (t : aty) : String.string :=
  match t with TProof => "bytes32[32]" | TU256 => "uint256" | TB32 => "bytes32" | TU32 => "uint32" | TU8 => "uint8" | TAddr => "address" | TBytes => "bytes" end%string.
Example C20_src_abi_types_are_model :
  src_c20_abi_etrog_claim_asset = map aty_name etrog_tys /\ src_c20_abi_etrog_claim_message = map aty_name etrog_tys /\
  src_c20_abi_pre_claim_asset = map aty_name pre_tys /\ src_c20_abi_pre_claim_message = map aty_name pre_tys.
Proof. repeat split; reflexivity. Qed.
(* the slots decode{Etrog,PreEtrog}Calldata read and the Go types they assert: etrog_fields / pre_fields read the same slots *)
Example C20_src_data_reads :
  src_c20_etrog_data_reads = ["2:*big.Int"; "0:[types.DefaultHeight][common.HashLength]byte"; "1:[types.DefaultHeight][common.HashLength]byte";
                              "3:[common.HashLength]byte"; "4:[common.HashLength]byte"; "7:uint32"; "10:[]byte"]%string /\
  src_c20_pre_data_reads = ["1:uint32"; "0:[types.DefaultHeight][common.HashLength]byte"; "2:[common.HashLength]byte";
                            "3:[common.HashLength]byte"; "6:uint32"; "9:[]byte"]%string.
Proof. split; reflexivity. Qed.

Section Statements.
  Variable input : Type.
  Variable selector : input -> option N.
  Variable unpack : gen -> input -> option (N * details).
  Variable hash2 : N -> N -> N.
  Local Notation scc := (set_claim_calldata input selector unpack hash2).
  Local Notation matching := (matching input selector unpack).
  Local Notation decode_claim := (decode_claim input selector unpack).
  Local Notation gindex_of := (gindex_of input selector unpack).

  (* the stack loop of findCall, run with fuel = number of frames + 1, is exactly: walk the live frames in visit order
     (a frame, then its children last-to-first, depth first) and stop at the first bridge frame on which the
     callback reports found or error *)
  Theorem C20_find_call_is_scan_of_visit_order : forall (root : call input) target cl,
    find_call input selector unpack hash2 root target cl =
    scan input selector unpack hash2 target (visit_order input root) cl.
  Proof. exact (find_call_scan input selector unpack hash2). Qed.

  (* soundness: when setClaimCalldata succeeds, the call it took is addressed to the bridge, carries the event's
     global index, and neither it nor any enclosing frame is reverted *)
  Theorem C20_find_call_sound : forall (root : call input) bridge cl c cl',
    scc (Some root) bridge cl = (ROk c, cl') ->
    live input root c /\ c_to c = bridge /\ gindex_of (c_inp c) = Some (cl_gi cl).
  Proof. exact (find_call_sound input selector unpack hash2). Qed.

  (* completeness, under the property's quantifier "every call addressed to the bridge is a claim call":
     if a live matching call exists, setClaimCalldata succeeds (on one of them, by soundness) *)
  Theorem C20_find_call_complete : forall (root : call input) bridge cl,
    all_bridge_calls_are_claims input selector unpack bridge root ->
    (exists d, matching bridge (cl_gi cl) root d) ->
    exists c cl', scc (Some root) bridge cl = (ROk c, cl').
  Proof. exact (find_call_complete input selector unpack hash2). Qed.

  (* the same with the weaker hypothesis the proof really uses: only bridge calls with a live path must decode *)
  Theorem C20_find_call_complete_live : forall (root : call input) bridge cl,
    live_bridge_calls_are_claims input selector unpack bridge root ->
    (exists d, matching bridge (cl_gi cl) root d) ->
    exists c cl', scc (Some root) bridge cl = (ROk c, cl').
  Proof. exact (find_call_complete_live input selector unpack hash2). Qed.

  (* no live matching call: an error is returned (never the model's out-of-fuel) and the claim is exactly as before *)
  Theorem C20_none_means_error_and_untouched : forall (root : call input) bridge cl,
    (forall d, ~ matching bridge (cl_gi cl) root d) ->
    exists e, scc (Some root) bridge cl = (RErr e, cl) /\ e <> EOutOfFuel.
  Proof. exact (none_means_error_and_untouched input selector unpack hash2). Qed.

  (* inside the quantifier the error is "not found" or "root call reverted" *)
  Theorem C20_none_error_kind : forall (root : call input) bridge cl e cl',
    live_bridge_calls_are_claims input selector unpack bridge root ->
    scc (Some root) bridge cl = (RErr e, cl') -> e = ENotFound \/ e = ERootReverted.
  Proof. exact (none_error_kind input selector unpack hash2). Qed.

  (* stronger than asked: ANY error (also RPC failure, undecodable bridge input) leaves the claim untouched *)
  Theorem C20_error_leaves_claim_untouched : forall (trace : option (call input)) bridge cl e cl',
    scc trace bridge cl = (RErr e, cl') -> cl' = cl.
  Proof. exact (error_leaves_claim_untouched input selector unpack hash2). Qed.

  (* the fuel of the model's loop (frames + 1) always suffices *)
  Theorem C20_never_out_of_fuel : forall (trace : option (call input)) bridge cl cl',
    scc trace bridge cl <> (RErr EOutOfFuel, cl').
  Proof. exact (never_out_of_fuel input selector unpack hash2). Qed.

  (* what is recorded on success: every detail field is the found call's, the sender is that call's `from`, the
     message flag says whether its selector is a claimMessage selector, the rollup proof of a pre-Etrog call (which
     has none) is left as it was, global index and all other fields of the claim are unchanged *)
  Theorem C20_details_are_of_found_call : forall (root : call input) bridge cl c cl',
    scc (Some root) bridge cl = (ROk c, cl') ->
    exists g m d s,
      decode_claim (c_inp c) = Some (g, m, cl_gi cl, d) /\
      records hash2 cl cl' (c_from c) g m d /\
      selector (c_inp c) = Some s /\ m = ((s =? sel_msg_etrog) || (s =? sel_msg_pre)).
  Proof. exact (details_are_of_found_call input selector unpack hash2). Qed.

  (* which of several matching calls is taken (characterised; the property does not constrain it) *)
  Theorem C20_found_is_first_in_visit_order : forall (root : call input) bridge cl c cl',
    scc (Some root) bridge cl = (ROk c, cl') ->
    exists before after, visit_order input root = before ++ c :: after /\
      forall x, In x before -> c_to x = bridge -> gindex_of (c_inp x) <> Some (cl_gi cl).
  Proof. exact (found_is_first_in_visit_order input selector unpack hash2). Qed.

  (* the executable enumerations used by C20Cases.spec are the inductive notions of the theorems *)
  Theorem C20_live_calls_is_live : forall (c d : call input), In d (live_calls input c) <-> live input c d.
  Proof. exact (in_live_calls_iff input). Qed.
  Theorem C20_all_calls_is_subcall : forall (c d : call input), In d (all_calls input c) <-> subcall input c d.
  Proof. exact (in_all_calls_iff input). Qed.
End Statements.

(* ================= the ABI layer on raw calldata bytes ================= *)

(* The decoder inverts the canonical encoding, for EVERY list of static arguments that fit their types followed by one
   `bytes` argument of any length (no bound on the metadata): unpack (pack args) = args. *)
Theorem C20_abi_unpack_inverts_pack : forall ts statics md, Forall2 wt ts statics ->
  N.of_nat (widths ts + 32) < two256 -> N.of_nat (length md) < two256 ->
  abi_unpack (ts ++ [TBytes]) (abi_pack statics md) = Some (statics ++ [VBytes md]).
Proof. exact abi_roundtrip. Qed.

(* A claimAsset / claimMessage call of the Etrog bridge, encoded by its caller, is read back as exactly that claim call:
   generation, message flag of the selector, global index, both proofs, both exit roots, destination network, metadata. *)
Theorem C20_abi_decode_encoded_etrog : forall s p0 p1 gi mer rer onet oaddr dnet daddr amount md,
  (s = sel_asset_etrog \/ s = sel_msg_etrog) ->
  proof_ok p0 -> proof_ok p1 -> gi < two256 -> mer < two256 -> rer < two256 -> onet <= max_u32 -> oaddr < two160 ->
  dnet <= max_u32 -> daddr < two160 -> amount < two256 -> N.of_nat (length md) < two256 ->
  decode_claim bytes b_selector b_unpack (encode_etrog s p0 p1 gi mer rer onet oaddr dnet daddr amount md) =
  Some (Etrog, s =? sel_msg_etrog, gi,
        {| d_proof_ler := p0; d_proof_rer := p1; d_mer := mer; d_rer := rer; d_dest_net := dnet; d_metadata := md_of md |}).
Proof. exact decode_encoded_etrog. Qed.

Theorem C20_abi_decode_encoded_pre : forall s p0 idx mer rer onet oaddr dnet daddr amount md,
  (s = sel_asset_pre \/ s = sel_msg_pre) ->
  proof_ok p0 -> idx <= max_u32 -> mer < two256 -> rer < two256 -> onet <= max_u32 -> oaddr < two160 ->
  dnet <= max_u32 -> daddr < two160 -> amount < two256 -> N.of_nat (length md) < two256 ->
  decode_claim bytes b_selector b_unpack (encode_pre s p0 idx mer rer onet oaddr dnet daddr amount md) =
  Some (PreEtrog, s =? sel_msg_pre, idx,
        {| d_proof_ler := p0; d_proof_rer := []; d_mer := mer; d_rer := rer; d_dest_net := dnet; d_metadata := md_of md |}).
Proof. exact decode_encoded_pre. Qed.

(* End to end on bytes: when setClaimCalldata succeeds on a call whose input is an encoded Etrog claim, the event's global
   index is the encoded one and every recorded field is the encoded value (same for the pre-Etrog generation). *)
Theorem C20_bytes_found_encoded_etrog_records : forall hash2 (root : call bytes) bridge cl c cl'
    s p0 p1 gi mer rer onet oaddr dnet daddr amount md,
  set_claim_calldata bytes b_selector b_unpack hash2 (Some root) bridge cl = (ROk c, cl') ->
  c_inp c = encode_etrog s p0 p1 gi mer rer onet oaddr dnet daddr amount md ->
  (s = sel_asset_etrog \/ s = sel_msg_etrog) ->
  proof_ok p0 -> proof_ok p1 -> gi < two256 -> mer < two256 -> rer < two256 -> onet <= max_u32 -> oaddr < two160 ->
  dnet <= max_u32 -> daddr < two160 -> amount < two256 -> N.of_nat (length md) < two256 ->
  gi = cl_gi cl /\
  records hash2 cl cl' (c_from c) Etrog (s =? sel_msg_etrog)
    {| d_proof_ler := p0; d_proof_rer := p1; d_mer := mer; d_rer := rer; d_dest_net := dnet; d_metadata := md_of md |}.
Proof. exact found_encoded_etrog_records. Qed.

Theorem C20_bytes_found_encoded_pre_records : forall hash2 (root : call bytes) bridge cl c cl'
    s p0 idx mer rer onet oaddr dnet daddr amount md,
  set_claim_calldata bytes b_selector b_unpack hash2 (Some root) bridge cl = (ROk c, cl') ->
  c_inp c = encode_pre s p0 idx mer rer onet oaddr dnet daddr amount md ->
  (s = sel_asset_pre \/ s = sel_msg_pre) ->
  proof_ok p0 -> idx <= max_u32 -> mer < two256 -> rer < two256 -> onet <= max_u32 -> oaddr < two160 ->
  dnet <= max_u32 -> daddr < two160 -> amount < two256 -> N.of_nat (length md) < two256 ->
  idx = cl_gi cl /\
  records hash2 cl cl' (c_from c) PreEtrog (s =? sel_msg_pre)
    {| d_proof_ler := p0; d_proof_rer := []; d_mer := mer; d_rer := rer; d_dest_net := dnet; d_metadata := md_of md |}.
Proof. exact found_encoded_pre_records. Qed.

(* non-vacuity of the byte-level theorems: a real encoding (metadata of 3 bytes, proofs 1..32 and 101..132) satisfies
   the hypotheses, decodes, and the rejections of go-ethereum are reproduced (truncated head; uint32 slot = 2^32) *)
Definition bx_p0 : list N := map N.of_nat (seq 1 32).
Definition bx_p1 : list N := map N.of_nat (seq 101 32).
Definition bx_call : bytes := encode_etrog sel_msg_etrog bx_p0 bx_p1 (2 ^ 64 + 7) 0xaa 0xbb 5 0xa0a 6 0xb0b 150 [1; 2; 3].
Example C20_abi_ex_decodes :
  proof_ok bx_p0 /\ proof_ok bx_p1 /\ length bx_call = (4 + 73 * 32 + 32 + 32)%nat /\
  decode_claim bytes b_selector b_unpack bx_call =
    Some (Etrog, true, 2 ^ 64 + 7, {| d_proof_ler := bx_p0; d_proof_rer := bx_p1; d_mer := 0xaa; d_rer := 0xbb; d_dest_net := 6; d_metadata := (3%nat, 0x010203) |}).
Proof.
  split; [split; [reflexivity | repeat constructor]|]. split; [split; [reflexivity | repeat constructor]|].
  split; vm_compute; reflexivity.
Qed.
Example C20_abi_ex_rejects :
  b_unpack Etrog (firstn (4 + 73 * 32 - 1) bx_call) = None /\
  b_unpack Etrog (encode_etrog sel_msg_etrog bx_p0 bx_p1 7 0xaa 0xbb 5 0xa0a (2 ^ 32) 0xb0b 150 [1; 2; 3]) = None /\
  b_unpack PreEtrog bx_call <> b_unpack Etrog bx_call.
Proof. repeat split; vm_compute; try reflexivity. discriminate. Qed.

(* ---- non-vacuity: a concrete tree with a reverted frame hiding a matching call, two live matching calls of both
   generations, a bridge call with another index that encloses a matching one, a non-bridge frame ---- *)
Definition ex_h2 (a b : N) : N := a * 1000 + b.
Definition ex_claim (g : gen) (sel gi tag : N) : xinput :=
  XI (Some sel) (Some (g, gi, DT [tag] (match g with Etrog => [tag + 1] | PreEtrog => [] end) (tag + 2) (tag + 3) (tag + 4) (1%nat, tag))).
Definition ex_raw : xinput := XI (Some 0xa9059cbb) None.
Definition ex_dead : xcall := XC 16 32 false (ex_claim Etrog sel_asset_etrog 10 100) [].
Definition ex_second : xcall := XC 16 1 false (ex_claim PreEtrog sel_msg_pre 10 200) [].
Definition ex_inner : xcall := XC 16 16 false (ex_claim Etrog sel_msg_etrog 10 300) [].
Definition ex_outer : xcall := XC 16 1 false (ex_claim Etrog sel_asset_etrog 11 400) [ex_inner].
Definition ex_root : xcall := XC 1 32 false ex_raw [XC 32 1 true ex_raw [ex_dead]; ex_second; ex_outer].
Definition ex_root_none : xcall := XC 1 32 false ex_raw [XC 32 1 true ex_raw [ex_dead]; XC 16 1 false (ex_claim Etrog sel_asset_etrog 11 400) []].
Definition ex_cl : claim := CL 10 [7; 8] 99 [1] [2] 3 4 5 6 (0%nat, 0) false.
Local Notation ex_scc := (set_claim_calldata xinput x_selector x_unpack ex_h2).

(* hypotheses of soundness / details: the run succeeds, on the inner call (last sibling first, then its child) *)
Example C20_ex_run_ok :
  fst (ex_scc (Some ex_root) 16 ex_cl) = ROk ex_inner /\
  snd (ex_scc (Some ex_root) 16 ex_cl) = CL 10 [7; 8] 16 [300] [301] 302 303 (ex_h2 302 303) 304 (1%nat, 300) true.
Proof. split; vm_compute; reflexivity. Qed.

(* hypothesis of completeness: every call addressed to the bridge is a claim call, and live matching calls exist
   (two different ones), while the one under the reverted frame is not live *)
Example C20_ex_quantifier : all_bridge_calls_are_claims xinput x_selector x_unpack 16 ex_root.
Proof.
  intros d Hd Ht. apply (in_all_calls_iff xinput) in Hd. vm_compute in Hd.
  repeat (destruct Hd as [<-|Hd]; [try (vm_compute in Ht; discriminate); vm_compute; discriminate|]). destruct Hd.
Qed.
Example C20_ex_matching :
  matching xinput x_selector x_unpack 16 10 ex_root ex_inner /\ matching xinput x_selector x_unpack 16 10 ex_root ex_second /\
  ~ matching xinput x_selector x_unpack 16 10 ex_root ex_dead /\ ex_inner <> ex_second.
Proof.
  split; [|split; [|split]].
  - split; [apply (in_live_calls_iff xinput); vm_compute; tauto|split; reflexivity].
  - split; [apply (in_live_calls_iff xinput); vm_compute; tauto|split; reflexivity].
  - intros [Hl _]. apply (in_live_calls_iff xinput) in Hl. vm_compute in Hl.
    repeat (destruct Hl as [Hl|Hl]; [discriminate|]). destruct Hl.
  - discriminate.
Qed.

(* hypothesis of none_means_error_and_untouched: the only matching call sits under a reverted frame *)
Example C20_ex_none :
  (forall d, ~ matching xinput x_selector x_unpack 16 10 ex_root_none d) /\
  ex_scc (Some ex_root_none) 16 ex_cl = (RErr ENotFound, ex_cl).
Proof.
  split; [|vm_compute; reflexivity].
  intros d (Hl & Ht & Hg). apply (in_live_calls_iff xinput) in Hl. vm_compute in Hl.
  repeat (destruct Hl as [<-|Hl]; [try (vm_compute in Ht; discriminate); vm_compute in Hg; discriminate|]). destruct Hl.
Qed.

(* with the real Keccak: the recorded global exit root of the example is keccak256(mer ++ rer) *)
Example C20_ex_real_hash :
  cl_ger (snd (set_claim_calldata xinput x_selector x_unpack x_hash2 (Some ex_root) 16 ex_cl)) =
  Base.Hash.keccakN (Base.Bytes.be 32 302 ++ Base.Bytes.be 32 303).
Proof. vm_compute. reflexivity. Qed.

Print Assumptions C20_find_call_is_scan_of_visit_order.
Print Assumptions C20_find_call_sound.
Print Assumptions C20_find_call_complete.
Print Assumptions C20_find_call_complete_live.
Print Assumptions C20_none_means_error_and_untouched.
Print Assumptions C20_none_error_kind.
Print Assumptions C20_error_leaves_claim_untouched.
Print Assumptions C20_never_out_of_fuel.
Print Assumptions C20_details_are_of_found_call.
Print Assumptions C20_found_is_first_in_visit_order.
Print Assumptions C20_live_calls_is_live.
Print Assumptions C20_all_calls_is_subcall.
Print Assumptions C20_abi_unpack_inverts_pack.
Print Assumptions C20_abi_decode_encoded_etrog.
Print Assumptions C20_abi_decode_encoded_pre.
Print Assumptions C20_bytes_found_encoded_etrog_records.
Print Assumptions C20_bytes_found_encoded_pre_records.
