(* C14 — a syncer that detects an inconsistency fails stop.
   This file contains only the property theorems (each closed by `exact` of a lemma proved in Proofs/HaltProofs.v),
   the source-fact obligations over the regenerated Gen/SourceFacts.v, non-vacuity examples and the assumption printout.
   The theorems about the state machine hold for EVERY instance of the processor skeleton (any row type, any
   transaction body `apply`, any in-memory state), hence for both the bridge and the L1 info tree processors of
   Model/Halt.v. *)
From Coq Require Import NArith List Bool String.
From Verif Require Import Model.Halt Model.C14Cases Proofs.HaltProofs Gen.SourceFacts.
Import ListNotations.
Close Scope string_scope.
Open Scope N_scope.

(* ---------------------------------------------------------------------------------------------- *)
(* source-fact obligations (regenerated from the Go AST on every run)                               *)
(* ---------------------------------------------------------------------------------------------- *)

(* sync.UnhaltIfAffectedRows is `if rowsAffected > 0 { *halted = false }`: the condition the model hard-wires *)
Example src_unhalt_condition_is_model :
  cmp_of_string src_unhalt_cmp = Some model_unhalt_op /\ src_unhalt_const = Some model_unhalt_const /\
  src_unhalt_lhs_is_rows_param = true /\ src_unhalt_clears_flag = true.
Proof. repeat split; reflexivity. Qed.

(* both Reorg methods pass the number of deleted `block` rows (num >= firstReorgedBlock) to it, unconditionally *)
(* one processor per syncer: the halted flag the facade's guards read is the flag ProcessBlock / Reorg set and clear, because each
   constructor creates ONE processor and hands the very same object to the driver and to the facade (the model has one state per
   syncer; two processor objects over one database would make the facade read a flag nobody ever sets) *)
Example src_one_processor_per_syncer :
  src_c14_processor_wiring = [("l1infotreesync/l1infotreesync.go New", 1%nat, true);
                              ("bridgesync/bridgesync.go newBridgeSync", 1%nat, true);
                              ("lastgersync/lastgersync.go New", 1%nat, true)]%string.
Proof. reflexivity. Qed.

Example src_reorg_feeds_deleted_block_rows :
  src_bridge_reorg_unhalt_call = "sync.UnhaltIfAffectedRows(&p.halted, &p.haltedReason, &p.mu, rowsAffected)"%string /\
  src_bridge_reorg_unhalt_call_unconditional = true /\
  src_bridge_reorg_rows_source = "res.RowsAffected()"%string /\
  src_bridge_reorg_delete_stmt = "tx.Exec(`DELETE FROM block WHERE num >= $1;`, firstReorgedBlock)"%string /\
  src_l1info_reorg_unhalt_call = "sync.UnhaltIfAffectedRows(&p.halted, &p.haltedReason, &p.mu, rowsAffected)"%string /\
  src_l1info_reorg_unhalt_call_unconditional = true /\
  src_l1info_reorg_rows_source = "res.RowsAffected()"%string /\
  src_l1info_reorg_delete_stmt = "tx.Exec(`DELETE FROM block WHERE num >= $1;`, firstReorgedBlock)"%string.
Proof. repeat split; reflexivity. Qed.

(* statement order of both Reorg methods: UnhaltIfAffectedRows only after tx.Commit() succeeded (what reorg_faulted models:
   a Reorg whose transaction fails leaves the flag alone) *)
Example src_reorg_statement_order :
  src_bridge_reorg_statement_order = ["delete_blocks"; "rows_affected"; "tree_reorg"; "commit"; "unhalt"]%string /\
  src_bridge_reorg_unhalt_after_commit = true /\
  src_l1info_reorg_statement_order = ["delete_blocks"; "tree_reorg"; "tree_reorg"; "rows_affected"; "commit"; "unhalt"]%string /\
  src_l1info_reorg_unhalt_after_commit = true.
Proof. repeat split; reflexivity. Qed.

(* ProcessBlock of both processors starts with the halted guard; isHalted returns the flag *)
Example src_processblock_guarded :
  src_bridge_processblock_guarded = true /\ src_l1info_processblock_guarded = true /\
  src_bridge_ishalted_returns_flag = true /\ src_l1info_ishalted_returns_flag = true.
Proof. repeat split; reflexivity. Qed.

(* the only writes to `halted` besides UnhaltIfAffectedRows: one per processor, set to true, under the modelled condition *)
Example src_halt_site_bridge :
  src_bridge_halted_assignments = [("ProcessBlock", "errors.Is(err, tree.ErrInvalidIndex)", "true")]%string.
Proof. reflexivity. Qed.
Example src_halt_site_l1info :
  src_l1info_halted_assignments =
  [("ProcessBlock",
    "root.Hash != event.UpdateL1InfoTreeV2.CurrentL1InfoRoot || root.Index+1 != event.UpdateL1InfoTreeV2.LeafCount",
    "true")]%string.
Proof. reflexivity. Qed.

(* the driver stops (cancels the downloader, no retry) when ProcessBlock returns the inconsistency error *)
Example src_driver_stops :
  src_driver_stops_on_inconsistent = true /\ src_err_inconsistent_declared = true.
Proof. split; reflexivity. Qed.

(* the append-only tree drops its in-memory index in Reorg and in the rollback callback of AddLeaf (fixes 246bc10 / 9d73352):
   what b_on_reorg / b_rollback of the model mirror *)
Example src_tree_index_invalidated :
  src_appendtree_reorg_resets_index = true /\ src_appendtree_rollback_resets_index = true.
Proof. split; reflexivity. Qed.

(* ---------------------------------------------------------------------------------------------- *)
(* property theorems                                                                                *)
(* ---------------------------------------------------------------------------------------------- *)

(* halted => a guarded facade method returns the inconsistency error, whatever its body would have returned *)
Theorem C14_halted_queries_fail :
  forall (row mem : Type) (m : fmethod) (st : state row mem) (body : outcome),
    halted st = true -> fm_guarded m = true -> run_method row mem m st body = OInconsistent.
Proof. exact halted_queries_fail. Qed.

(* not halted => the guard is transparent (a healthy syncer never answers with the guard's error) *)
Theorem C14_healthy_queries_pass :
  forall (row mem : Type) (m : fmethod) (st : state row mem) (body : outcome),
    halted st = false -> run_method row mem m st body = body.
Proof. exact healthy_queries_pass. Qed.

(* halted => ProcessBlock returns the inconsistency error and leaves the state untouched: one block ... *)
Theorem C14_halted_is_sticky :
  forall row row_num input mem apply (st : state row mem) n e,
    halted st = true -> process_block row row_num input mem apply n e st = (OInconsistent, st).
Proof. exact halted_is_sticky. Qed.

(* ... and every sequence of blocks *)
Theorem C14_halted_is_sticky_all :
  forall row row_num input mem apply bs (st : state row mem),
    halted st = true ->
    process_all row row_num input mem apply bs st = (map (fun _ => OInconsistent) bs, st).
Proof. exact halted_is_sticky_all. Qed.

(* the driver processes nothing more *)
Theorem C14_halted_driver_stops :
  forall row row_num input mem apply bs (st : state row mem),
    halted st = true -> drive row row_num input mem apply bs st = st.
Proof. exact halted_drive_stops. Qed.

(* a failed block (inconsistency or any other error) never advances the syncer *)
Theorem C14_failed_block_keeps_rows :
  forall row row_num input mem apply (st : state row mem) n e,
    fst (process_block row row_num input mem apply n e st) <> OOk ->
    rows (snd (process_block row row_num input mem apply n e st)) = rows st.
Proof. exact failed_block_keeps_rows. Qed.

(* ProcessBlock returns the inconsistency error exactly when the processor is halted afterwards *)
Theorem C14_inconsistent_iff_halted_after :
  forall row row_num input mem apply (st : state row mem) n e,
    fst (process_block row row_num input mem apply n e st) = OInconsistent <->
    halted (snd (process_block row row_num input mem apply n e st)) = true.
Proof. exact inconsistent_iff_halted_after. Qed.

(* for all reorg points: halted after Reorg(b) iff halted before and no block row was deleted *)
Theorem C14_unhalt_iff_rows_deleted :
  forall row row_num mem on_reorg b (st : state row mem),
    halted (reorg row row_num mem on_reorg b st) = halted st && (deleted_rows row row_num mem b st =? 0).
Proof. exact unhalt_iff_rows_deleted. Qed.

(* a reorg that removes nothing changes neither the flag nor the rows (it only resets in-memory caches) *)
Theorem C14_noop_reorg_keeps_flag_and_rows :
  forall row row_num mem on_reorg b (st : state row mem),
    deleted_rows row row_num mem b st = 0 ->
    reorg row row_num mem on_reorg b st =
    {| halted := halted st; rows := rows st; memory := on_reorg (memory st) |}.
Proof. exact reorg_nothing_deleted. Qed.

(* in terms of the reorg point: a halted syncer with processed blocks is cleared iff b <= last processed block *)
Theorem C14_unhalt_iff_reorg_reaches_tip :
  forall row row_num mem on_reorg b (st : state row mem), halted st = true -> rows st <> [] ->
    (halted (reorg row row_num mem on_reorg b st) = false <-> b <= last_block row row_num mem st).
Proof. exact unhalt_iff_reorg_reaches_tip. Qed.

(* whole histories: blocks, queries and reorgs that delete nothing leave a halted syncer halted, with the same rows *)
Theorem C14_halted_history :
  forall row row_num input mem has_leaves apply on_reorg ops (st : state row mem),
    halted st = true -> Forall (harmless row row_num input has_leaves (rows st)) ops ->
    halted (run row row_num input mem has_leaves apply on_reorg ops st) = true /\
    rows (run row row_num input mem has_leaves apply on_reorg ops st) = rows st.
Proof. exact halted_history. Qed.

(* a Reorg whose transaction fails (storage fault after the block rows were deleted: tree purge or commit) returns an
   error and changes neither the rows nor the flag ... *)
Theorem C14_failed_reorg_changes_nothing :
  forall row row_num mem has_leaves on_reorg f b (st : state row mem),
    fault_fires row row_num mem has_leaves f b st = true ->
    fst (reorg_faulted row row_num mem has_leaves on_reorg f b st) = OOther /\
    halted (snd (reorg_faulted row row_num mem has_leaves on_reorg f b st)) = halted st /\
    rows (snd (reorg_faulted row row_num mem has_leaves on_reorg f b st)) = rows st.
Proof. exact failed_reorg_changes_nothing. Qed.

(* ... so, fault or not: halted afterwards iff halted before and (the Reorg failed or deleted no block row) *)
Theorem C14_faulted_reorg_flag :
  forall row row_num mem has_leaves on_reorg f b (st : state row mem),
    halted (snd (reorg_faulted row row_num mem has_leaves on_reorg f b st)) =
    halted st && (fault_fires row row_num mem has_leaves f b st || (deleted_rows row row_num mem b st =? 0)).
Proof. exact faulted_reorg_flag. Qed.

(* what the obligation src_reorg_statement_order protects against: with UnhaltIfAffectedRows before the commit, a failed
   Reorg that removed nothing clears the flag *)
Theorem C14_early_unhalt_variant_clears_on_failed_reorg :
  forall row row_num mem has_leaves on_reorg f b (st : state row mem),
    fault_fires row row_num mem has_leaves f b st = true -> deleted_rows row row_num mem b st <> 0 ->
    halted (snd (reorg_faulted_with row row_num mem has_leaves on_reorg true f b st)) = false /\
    rows (snd (reorg_faulted_with row row_num mem has_leaves on_reorg true f b st)) = rows st.
Proof. exact early_unhalt_clears_on_failed_reorg. Qed.

(* ---- route 1 (bridge): deposit-count gap ----
   In EVERY state reachable from the initial one by any history of blocks / reorgs / queries, a block whose deposit
   counts do not continue the stored ones (first offending event after a consistent prefix) halts the processor and
   stores nothing; and nothing else halts it. (Full statement; before the fixes 246bc10 / 9d73352 of the append-only
   tree it was refuted by the two histories of C14_regression_histories_detected.) The proof goes through the
   invariant "the tree's in-memory index agrees with the database or is invalidated" (b_synced), established by the
   initial state and every Reorg, preserved by every ProcessBlock. *)
Theorem C14_halt_reached_gap :
  forall ops num pre dc post c',
    let st := run brow br_num (list bevent) bmem b_has_leaves b_apply b_on_reorg ops b_init in
    halted st = false -> has_block brow br_num bmem num st = false ->
    b_scan_simple pre (b_db_next (rows st)) = Some c' -> dc <> c' ->
    fst (b_process num (pre ++ BBridge dc :: post) st) = OInconsistent /\
    halted (snd (b_process num (pre ++ BBridge dc :: post) st)) = true /\
    rows (snd (b_process num (pre ++ BBridge dc :: post) st)) = rows st.
Proof. exact b_halt_reached_gap. Qed.

Theorem C14_halt_only_by_gap :
  forall ops num evs,
    let st := run brow br_num (list bevent) bmem b_has_leaves b_apply b_on_reorg ops b_init in
    halted st = false -> halted (snd (b_process num evs st)) = true ->
    exists pre dc post c', evs = pre ++ BBridge dc :: post /\
      b_scan_simple pre (b_db_next (rows st)) = Some c' /\ dc <> c'.
Proof. exact b_halt_only_by_gap. Qed.

Theorem C14_bridge_index_synced_in_every_reachable_state :
  forall ops, b_synced (run brow br_num (list bevent) bmem b_has_leaves b_apply b_on_reorg ops b_init).
Proof. exact b_reachable_synced. Qed.

Theorem C14_bridge_processblock_preserves_synced :
  forall (st : bstate) num evs, b_synced st -> b_synced (snd (b_process num evs st)).
Proof. exact b_process_preserves_synced. Qed.

Theorem C14_bridge_reorg_resets_index : forall (st : bstate) b, b_synced (b_reorg b st).
Proof. exact b_reorg_synced. Qed.

(* AddLeaf rejects only an index that differs from the database's *)
Theorem C14_bridge_reject_is_a_real_gap :
  forall dc dbn cache c, b_add_leaf dc dbn cache = (None, c) -> dc <> dbn /\ c = Some dbn.
Proof. exact b_add_leaf_reject. Qed.

(* the two regression histories: a gap of exactly the number of leaves the preceding reorg removed is detected *)
Theorem C14_regression_histories_detected :
  map fst (b_trace b_witness_ops b_init) = [OOk; OOk; OInconsistent] /\
  halted (run brow br_num (list bevent) bmem b_has_leaves b_apply b_on_reorg b_witness_ops b_init) = true /\
  map fst (b_trace b_witness_ops2 b_init) = [OOk; OOk; OOk; OInconsistent] /\
  halted (run brow br_num (list bevent) bmem b_has_leaves b_apply b_on_reorg b_witness_ops2 b_init) = true.
Proof. exact b_gap_after_reorg_detected. Qed.

(* ---- route 2 (L1 info tree): an announcement whose root or leaf count differs from the tree halts; nothing else does ---- *)
Theorem C14_halt_reached_mismatch :
  forall (st : lstate) num pre root cnt post r,
    halted st = false -> has_block lrow lr_num unit num st = false ->
    l_scan num pre (l_stored_roots (rows st)) [] = AOk r ->
    l_mismatch (lr_roots r ++ l_stored_roots (rows st)) root cnt = Some true ->
    l_process num (pre ++ LAnnounce root cnt :: post) st =
    (OInconsistent, {| halted := true; rows := rows st; memory := tt |}).
Proof. exact l_halt_reached. Qed.

Theorem C14_mismatch_by_root :
  forall h rest root cnt, h <> root -> l_mismatch (h :: rest) root cnt = Some true.
Proof. exact l_mismatch_root. Qed.

Theorem C14_mismatch_by_count :
  forall h rest root cnt,
    N.of_nat (List.length (h :: rest)) mod uint32_mod <> cnt -> l_mismatch (h :: rest) root cnt = Some true.
Proof. exact l_mismatch_count. Qed.

Theorem C14_halt_only_by_mismatch :
  forall (st : lstate) num evs,
    halted st = false -> halted (snd (l_process num evs st)) = true ->
    exists pre root cnt post r, evs = pre ++ LAnnounce root cnt :: post /\
      l_scan num pre (l_stored_roots (rows st)) [] = AOk r /\
      l_mismatch (lr_roots r ++ l_stored_roots (rows st)) root cnt = Some true.
Proof. exact l_halt_only_by_mismatch. Qed.

(* the reference predicates `spec` evaluates on the implementation's observations are the model's conditions *)
Theorem C14_ref_gap_is_plain_loop : forall evs c, ref_b_gap c evs = true <-> b_scan_simple evs c = None.
Proof. exact ref_b_gap_iff_scan. Qed.

Theorem C14_plain_loop_is_model_when_synced :
  forall (st : bstate) num evs, b_synced st ->
    (fst (b_apply (memory st) (rows st) num evs) = AHalt <-> b_scan_simple evs (b_db_next (rows st)) = None).
Proof. exact b_apply_synced. Qed.

Theorem C14_ref_mismatch_is_model :
  forall evs num stored added,
    ref_l_mismatch_block (added ++ stored) evs = true <-> l_scan num evs stored added = AHalt.
Proof. exact ref_l_iff_scan. Qed.

(* ---- the property predicate that the check evaluates on the implementation's observations, evaluated on the model's
   own behaviour, for EVERY history of blocks / reorgs / queries and every method whose data access is guarded ---- *)

(* bridge: the fail-stop part (detect = false), every history without side condition: once the inconsistency error was
   returned, blocks keep failing and nothing is stored, data queries fail, cleared iff a reorg removed a processed block;
   never an inconsistency error from a healthy syncer's queries *)
Theorem C14_model_meets_failstop_bridge :
  forall touches (m : fmethod), (touches = true -> fm_guarded m = true) ->
  forall ops, spec_steps (list bevent) ref_b_inconsistent false touches ops [] false 0 0
                (model_obs brow br_num (list bevent) bmem b_has_leaves b_apply b_on_reorg m ops b_init) = true.
Proof. exact b_model_meets_failstop. Qed.

(* bridge: fail-stop AND detection, every history that feeds increasing block numbers (what EVMDriver does; with
   out-of-order block numbers "number of stored deposits" and "index of the database's last root + 1" can differ) *)
Theorem C14_model_meets_spec_bridge :
  forall touches (m : fmethod), (touches = true -> fm_guarded m = true) ->
  forall ops, b_increasing ops b_init ->
    spec_steps (list bevent) ref_b_inconsistent true touches ops [] false 0 0
      (model_obs brow br_num (list bevent) bmem b_has_leaves b_apply b_on_reorg m ops b_init) = true.
Proof. exact b_model_meets_spec. Qed.

(* L1 info tree: fail-stop AND detection, every history *)
Theorem C14_model_meets_spec_l1info :
  forall touches (m : fmethod), (touches = true -> fm_guarded m = true) ->
  forall ops, spec_steps (list levent) ref_l_inconsistent true touches ops [] false 0 0
                (model_obs lrow lr_num (list levent) unit l_has_leaves l_apply l_on_reorg m ops l_init) = true.
Proof. exact l_model_meets_spec. Qed.

(* what the source-fact obligation src_unhalt_condition_is_model protects against: with `rowsAffected >= 0`
   every reorg clears the flag *)
Theorem C14_ge_variant_always_unhalts :
  forall row row_num mem on_reorg b (st : state row mem),
    halted (reorg_with row row_num mem on_reorg CGe 0 b st) = false.
Proof. exact ge_variant_always_unhalts. Qed.

(* ---------------------------------------------------------------------------------------------- *)
(* non-vacuity                                                                                      *)
(* ---------------------------------------------------------------------------------------------- *)

(* bridge: two healthy blocks, then deposit count 3 where 2 is expected *)
Definition ex_b_healthy : bstate :=
  snd (b_process 11 [BOther] (snd (b_process 10 [BBridge 0; BOther; BBridge 1] b_init))).
Definition ex_b_halted : bstate := snd (b_process 12 [BBridge 3] ex_b_healthy).
Example C14_nonvacuous_bridge :
  halted ex_b_healthy = false /\ last_block brow br_num bmem ex_b_healthy = 11 /\
  memory ex_b_healthy = Some 2 /\ b_db_next (rows ex_b_healthy) = 2 /\
  b_process 12 [BBridge 3] ex_b_healthy = (OInconsistent, ex_b_halted) /\ halted ex_b_halted = true /\
  b_process 12 [BBridge 2] ex_b_halted = (OInconsistent, ex_b_halted) /\
  last_block brow br_num bmem ex_b_halted = 11 /\
  deleted_rows brow br_num bmem 12 ex_b_halted = 0 /\ halted (b_reorg 12 ex_b_halted) = true /\
  deleted_rows brow br_num bmem 11 ex_b_halted = 1 /\ halted (b_reorg 11 ex_b_halted) = false /\
  fst (b_process 11 [BBridge 2] (b_reorg 11 ex_b_halted)) = OOk /\
  halted (reorg_with brow br_num bmem b_on_reorg CGe 0 12 ex_b_halted) = false.
Proof. vm_compute. repeat split; reflexivity. Qed.

(* failed reorgs on the halted state: block 10 has leaves, block 11 has none *)
Example C14_nonvacuous_failed_reorg :
  fault_fires brow br_num bmem b_has_leaves FCommit 11 ex_b_halted = true /\
  fault_fires brow br_num bmem b_has_leaves FTree 11 ex_b_halted = false /\
  fault_fires brow br_num bmem b_has_leaves FTree 10 ex_b_halted = true /\
  fault_fires brow br_num bmem b_has_leaves FCommit 12 ex_b_halted = false /\
  fst (b_reorg_faulted FCommit 11 ex_b_halted) = OOther /\ halted (snd (b_reorg_faulted FCommit 11 ex_b_halted)) = true /\
  rows (snd (b_reorg_faulted FTree 10 ex_b_halted)) = rows ex_b_halted /\
  halted (snd (b_reorg_faulted FTree 11 ex_b_halted)) = false /\
  deleted_rows brow br_num bmem 11 ex_b_halted <> 0 /\
  halted (snd (reorg_faulted_with brow br_num bmem b_has_leaves b_on_reorg true FCommit 11 ex_b_halted)) = false.
Proof. vm_compute. repeat split; try reflexivity. discriminate. Qed.

(* the hypotheses of the gap theorem / of the increasing-history theorem are met by concrete histories *)
Definition ex_b_ops : list (op (list bevent)) :=
  [OpBlock 10 [BBridge 0; BOther; BBridge 1]; OpBlock 11 [BOther]; OpQuery; OpBlock 12 [BBridge 3]; OpQuery;
   OpReorg 13; OpBlock 14 []; OpReorgFault FCommit 11; OpQuery; OpReorgFault FTree 10; OpReorg 11; OpQuery;
   OpBlock 15 [BBridge 2]; OpQuery].
Example C14_nonvacuous_bridge_history :
  ex_b_healthy = run brow br_num (list bevent) bmem b_has_leaves b_apply b_on_reorg
                   [OpBlock 10 [BBridge 0; BOther; BBridge 1]; OpBlock 11 [BOther]] b_init /\
  has_block brow br_num bmem 12 ex_b_healthy = false /\
  b_scan_simple [BBridge 2] (b_db_next (rows ex_b_healthy)) = Some 3 /\
  b_increasing ex_b_ops b_init /\
  map fst (b_trace ex_b_ops b_init) = [OOk; OOk; OOk; OInconsistent; OOk; OOk; OInconsistent; OOther; OOk; OOther; OOk; OOk; OOk; OOk].
Proof.
  split; [reflexivity|]. split; [reflexivity|]. split; [reflexivity|]. split; [|reflexivity].
  simpl. repeat split; repeat constructor; vm_compute; reflexivity.
Qed.

(* L1 info tree: two leaves, a matching announcement, then a wrong root / a wrong leaf count *)
Definition ex_l_healthy : lstate :=
  snd (l_process 6 [LAnnounce 222 2] (snd (l_process 5 [LLeaf 111; LOther; LLeaf 222] l_init))).
Definition ex_l_halted_root : lstate := snd (l_process 7 [LAnnounce 999 2] ex_l_healthy).
Definition ex_l_halted_count : lstate := snd (l_process 7 [LLeaf 333; LAnnounce 333 4] ex_l_healthy).
Example C14_nonvacuous_l1info :
  halted ex_l_healthy = false /\ block_count lrow unit ex_l_healthy = 2 /\
  fst (l_process 7 [LAnnounce 999 2] ex_l_healthy) = OInconsistent /\ halted ex_l_halted_root = true /\
  fst (l_process 7 [LLeaf 333; LAnnounce 333 4] ex_l_healthy) = OInconsistent /\ halted ex_l_halted_count = true /\
  fst (l_process 7 [LLeaf 333; LAnnounce 333 3] ex_l_healthy) = OOk /\
  fst (l_process 1 [LAnnounce 5 0] l_init) = OOther /\
  l_process 8 [] ex_l_halted_root = (OInconsistent, ex_l_halted_root) /\
  halted (l_reorg 7 ex_l_halted_root) = true /\ halted (l_reorg 6 ex_l_halted_root) = false /\
  halted (l_reorg 0 ex_l_halted_count) = false.
Proof. vm_compute. repeat split; reflexivity. Qed.

(* ---------------------------------------------------------------------------------------------- *)
(* the obligation over the REGENERATED method list, and what follows from it                        *)
(* ---------------------------------------------------------------------------------------------- *)

(* every exported method of *BridgeSync / *L1InfoTreeSync that touches stored data starts with the halted guard *)
Theorem all_data_queries_guarded :
  forallb (fun m => implb (fm_touches m) (fm_guarded m)) facade_methods = true.
Proof. vm_compute. reflexivity. Qed.

(* ... hence EVERY data query of the regenerated list fails while halted *)
Theorem C14_halted_data_queries_fail :
  forall (row mem : Type) (m : fmethod) (st : state row mem) (body : outcome),
    In m facade_methods -> fm_touches m = true -> halted st = true -> run_method row mem m st body = OInconsistent.
Proof. exact (guarded_list_queries_fail facade_methods all_data_queries_guarded). Qed.

(* every method of the regenerated list meets the property predicate on every history *)
Theorem C14_listed_methods_meet_spec_bridge :
  forall (m : fmethod), In m facade_methods ->
  forall ops, b_increasing ops b_init ->
    spec_steps (list bevent) ref_b_inconsistent true (fm_touches m) ops [] false 0 0
      (model_obs brow br_num (list bevent) bmem b_has_leaves b_apply b_on_reorg m ops b_init) = true.
Proof.
  exact (fun m I => b_model_meets_spec (fm_touches m) m
                      (guarded_list_touches_guarded facade_methods all_data_queries_guarded m I)).
Qed.

Theorem C14_listed_methods_meet_spec_l1info :
  forall (m : fmethod), In m facade_methods ->
  forall ops, spec_steps (list levent) ref_l_inconsistent true (fm_touches m) ops [] false 0 0
                (model_obs lrow lr_num (list levent) unit l_has_leaves l_apply l_on_reorg m ops l_init) = true.
Proof.
  exact (fun m I => l_model_meets_spec (fm_touches m) m
                      (guarded_list_touches_guarded facade_methods all_data_queries_guarded m I)).
Qed.

(* the regenerated list has data queries for both syncers (all_data_queries_guarded is not about an empty list) *)
Example C14_nonvacuous_list :
  existsb (fun m => String.eqb (fm_recv m) "BridgeSync" && fm_touches m) facade_methods = true /\
  existsb (fun m => String.eqb (fm_recv m) "L1InfoTreeSync" && fm_touches m) facade_methods = true /\
  existsb (fun m => negb (fm_touches m)) facade_methods = true.
Proof. vm_compute. repeat split; reflexivity. Qed.

(* the property predicate has teeth: it accepts the model's behaviour on a halting history and rejects observations in
   which (a) data is served while halted, (b) a block is processed while halted, (c) a reorg that removed nothing
   cleared the condition, (d) a reorg that removed blocks did not clear it, (e) the inconsistency went undetected,
   (f) a gap right after a reorg went undetected (the regression history) *)
Definition ex_ops : list (op (list bevent)) :=
  [OpBlock 10 [BBridge 0]; OpBlock 11 [BBridge 2]; OpQuery; OpBlock 12 [BBridge 1]; OpReorg 12; OpQuery; OpReorg 10; OpQuery].
Definition ex_obs (q1 b12 q2 q3 : outcome) (last12 rows12 : N) : list step_obs :=
  [ {| so_out := OOk; so_last := 10; so_rows := 1 |}; {| so_out := OInconsistent; so_last := 10; so_rows := 1 |};
    {| so_out := q1; so_last := 10; so_rows := 1 |}; {| so_out := b12; so_last := last12; so_rows := rows12 |};
    {| so_out := OOk; so_last := last12; so_rows := rows12 |}; {| so_out := q2; so_last := last12; so_rows := rows12 |};
    {| so_out := OOk; so_last := 0; so_rows := 0 |}; {| so_out := q3; so_last := 0; so_rows := 0 |} ].
Definition ex_case (o : list step_obs) : case14 := CMethod "BridgeSync" "GetProof" (SBridge ex_ops) o.
Example C14_spec_has_teeth :
  spec (ex_case (ex_obs OInconsistent OInconsistent OInconsistent OOk 10 1)) = true /\
  corr (ex_case (ex_obs OInconsistent OInconsistent OInconsistent OOk 10 1)) = true /\
  spec (ex_case (ex_obs OOk OInconsistent OInconsistent OOk 10 1)) = false /\
  spec (ex_case (ex_obs OInconsistent OOk OInconsistent OOk 12 2)) = false /\
  spec (ex_case (ex_obs OInconsistent OInconsistent OOk OOk 10 1)) = false /\
  spec (ex_case (ex_obs OInconsistent OInconsistent OInconsistent OInconsistent 10 1)) = false /\
  spec (CMethod "BridgeSync" "GetProof" (SBridge [OpBlock 10 [BBridge 0]; OpBlock 11 [BBridge 2]])
          [ {| so_out := OOk; so_last := 10; so_rows := 1 |}; {| so_out := OOk; so_last := 11; so_rows := 2 |} ]) = false /\
  spec (CMethod "BridgeSync" "GetProof" (SBridge b_witness_ops)
          [ {| so_out := OOk; so_last := 13; so_rows := 1 |}; {| so_out := OOk; so_last := 0; so_rows := 0 |};
            {| so_out := OOk; so_last := 15; so_rows := 1 |} ]) = false /\
  (* (g) a Reorg that returned an error cleared the condition: the query after it serves data / is refused *)
  spec (CMethod "BridgeSync" "GetProof" (SBridge [OpBlock 10 [BBridge 0]; OpBlock 11 [BBridge 2]; OpReorgFault FCommit 10; OpQuery])
          [ {| so_out := OOk; so_last := 10; so_rows := 1 |}; {| so_out := OInconsistent; so_last := 10; so_rows := 1 |};
            {| so_out := OOther; so_last := 10; so_rows := 1 |}; {| so_out := OOk; so_last := 10; so_rows := 1 |} ]) = false /\
  spec (CMethod "BridgeSync" "GetProof" (SBridge [OpBlock 10 [BBridge 0]; OpBlock 11 [BBridge 2]; OpReorgFault FCommit 10; OpQuery])
          [ {| so_out := OOk; so_last := 10; so_rows := 1 |}; {| so_out := OInconsistent; so_last := 10; so_rows := 1 |};
            {| so_out := OOther; so_last := 10; so_rows := 1 |}; {| so_out := OInconsistent; so_last := 10; so_rows := 1 |} ]) = true.
Proof. vm_compute. repeat split; reflexivity. Qed.

(* the facade on those states *)
Example C14_nonvacuous_facade :
  run_method brow bmem ("BridgeSync", "GetProof", true, true)%string ex_b_halted OOk = OInconsistent /\
  run_method brow bmem ("BridgeSync", "GetProof", true, true)%string ex_b_healthy OOk = OOk /\
  run_method brow bmem ("BridgeSync", "OriginNetwork", false, false)%string ex_b_halted OOk = OOk /\
  In ("BridgeSync", "GetProof", true, true)%string facade_methods /\
  In ("L1InfoTreeSync", "GetLastInfo", true, true)%string facade_methods.
Proof. vm_compute. repeat split; try reflexivity; tauto. Qed.

Print Assumptions C14_halted_queries_fail.
Print Assumptions C14_healthy_queries_pass.
Print Assumptions C14_halted_is_sticky.
Print Assumptions C14_halted_is_sticky_all.
Print Assumptions C14_halted_driver_stops.
Print Assumptions C14_failed_block_keeps_rows.
Print Assumptions C14_inconsistent_iff_halted_after.
Print Assumptions C14_unhalt_iff_rows_deleted.
Print Assumptions C14_noop_reorg_keeps_flag_and_rows.
Print Assumptions C14_unhalt_iff_reorg_reaches_tip.
Print Assumptions C14_halted_history.
Print Assumptions C14_failed_reorg_changes_nothing.
Print Assumptions C14_faulted_reorg_flag.
Print Assumptions C14_early_unhalt_variant_clears_on_failed_reorg.
Print Assumptions C14_halt_reached_gap.
Print Assumptions C14_halt_only_by_gap.
Print Assumptions C14_bridge_index_synced_in_every_reachable_state.
Print Assumptions C14_bridge_processblock_preserves_synced.
Print Assumptions C14_bridge_reorg_resets_index.
Print Assumptions C14_bridge_reject_is_a_real_gap.
Print Assumptions C14_regression_histories_detected.
Print Assumptions C14_halt_reached_mismatch.
Print Assumptions C14_mismatch_by_root.
Print Assumptions C14_mismatch_by_count.
Print Assumptions C14_halt_only_by_mismatch.
Print Assumptions C14_ref_gap_is_plain_loop.
Print Assumptions C14_plain_loop_is_model_when_synced.
Print Assumptions C14_ref_mismatch_is_model.
Print Assumptions C14_model_meets_failstop_bridge.
Print Assumptions C14_model_meets_spec_bridge.
Print Assumptions C14_model_meets_spec_l1info.
Print Assumptions C14_ge_variant_always_unhalts.
Print Assumptions all_data_queries_guarded.
Print Assumptions C14_halted_data_queries_fail.
Print Assumptions C14_listed_methods_meet_spec_bridge.
Print Assumptions C14_listed_methods_meet_spec_l1info.
