(* C13 — certificate bookkeeping survives crashes and a lost database.
   Only property theorems (each closed by `exact` of a lemma of Proofs/ReconcileProofs.v), non-vacuity examples,
   source-fact obligations and Print Assumptions.

   Reading guide. Model/Reconcile.v transcribes the Go code; a protocol state [pstate] describes one send step
   (settled rows below, top row before the step, the row stored for the certificate submitted in the step, what the
   Agglayer answers at restart). [Inv] is the C02-style invariant restricted to what C13 needs:
     - the Agglayer has at most one certificate that is not settled, on top of the settled ones;
     - the local rows below the top are settled, lower, and have other ids;
     - the top row of the node that did not crash is the record of the Agglayer's latest certificate (same height,
       id, new LER), its status may lag behind;
     - HYPOTHESES forced by the proofs, explicit in [matches]: the Agglayer header carries prev_local_exit_root and its
       metadata decodes to the certificate's block range (C13_metadata_range: true for the metadata BuildCertificate
       writes when to - from < 2^32); block numbers below 2^63 (database/sql);
     - the row of a certificate just submitted was computed by the flow from the previous store ([next_params]) and
       the send path's save succeeded.
   [nocrash_synced st] is the store of a node that did not crash: it stored what it sent and polled the statuses. *)
From Coq Require Import NArith List Bool String.
From Verif Require Import Base.Bytes Model.Reconcile Proofs.ReconcileProofs Gen.SourceFacts.
Import ListNotations.
Open Scope N_scope.

(* ---- source-fact obligations: what the model hard-wires is what the Go source says ---- *)
Example src_status_order :
  src_certificate_statuses = ["Pending"; "Proven"; "Candidate"; "InError"; "Settled"]%string /\
  map status_code [Pending; Proven; Candidate; InError; Settled] = [0; 1; 2; 3; 4].
Proof. split; reflexivity. Qed.
Example src_open_statuses :
  src_non_settled_statuses = ["Pending"; "Candidate"; "Proven"]%string /\
  filter is_open [Pending; Proven; Candidate; InError; Settled] = [Pending; Proven; Candidate].
Proof. split; reflexivity. Qed.
Example src_primary_keys :
  src_certificate_info_pk = ["height"]%string /\ src_certificate_info_history_pk = ["height"; "retry_count"]%string /\
  src_delete_certificate_by = "certificate_id"%string.
Proof. repeat split; reflexivity. Qed.
Example src_metadata_versions :
  src_certificate_metadata_v0 = Some 0 /\ src_certificate_metadata_v1 = Some 1 /\ src_certificate_metadata_v2 = Some 2.
Proof. repeat split; reflexivity. Qed.

(* ---- recovery ---- *)
(* For EVERY protocol state satisfying Inv and every crash point: if the restart reconciliation is not refused, the
   next certificate's (height, previous LER, first block) - or the reason why none can be built yet - are exactly those
   of the node that did not crash. *)
Theorem C13_recovery_refines_nocrash : forall (st : pstate) (cp : crash_point),
  Inv st -> applicable cp st -> refused (snd (recovered cp st)) = false ->
  next_params (ps_cfg st) (fst (recovered cp st)) = next_params (ps_cfg st) (nocrash_synced st).
Proof. exact recovery_refines_nocrash_l. Qed.

(* Exact table of what the reconciliation does, per crash point and state. The only refused pair: the crash between
   submitting a REPLACEMENT of an InError certificate and storing it (the local record still names the old
   certificate, the Agglayer the new one at the same height: "different id" - safe, not live; CheckInitialStatus
   retries forever). *)
Theorem C13_reconcile_ok_cases : forall (st : pstate) (cp : crash_point),
  Inv st -> applicable cp st ->
  snd (recovered cp st) =
    match cp with
    | BeforeSubmit | AfterStore => match latest (ps_agg st) with Some _ => OUpdate | None => ONone end
    | AfterSubmitBeforeStore =>
        match ps_top st with
        | Some t => if is_in_error (r_status t) then ORefused EDifferentId else OInsert
        | None => OInsert
        end
    | DbLost => match latest (ps_agg st) with Some _ => OInsert | None => ONone end
    end.
Proof. exact reconcile_ok_cases_l. Qed.

Theorem C13_inerror_replacement_crash_refused : forall (st : pstate) (r t : row),
  Inv st -> ps_sent st = Some r -> ps_top st = Some t -> r_status t = InError ->
  recovered AfterSubmitBeforeStore st = (prev_store st, ORefused EDifferentId).
Proof. exact inerror_replacement_crash_refused_l. Qed.

(* ---- contradictions: for ANY Agglayer answers (consistent or not) and any local top row ---- *)
Theorem C13_contradiction_refused : forall (s p : option hdr) (t : row),
  contradicts s p t -> exists e, reconcile s p (Some t) = Err e.
Proof. exact contradiction_refused_l. Qed.

Theorem C13_contradiction_kinds : forall (s p : option hdr) (t : row), check_agg_consistency s p = true ->
  (latest_of s p = None -> reconcile s p (Some t) = Err ELocalOnly) /\
  (forall a, latest_of s p = Some a -> h_height a < r_height t -> reconcile s p (Some t) = Err EAggLower) /\
  (forall a, latest_of s p = Some a -> h_height a = r_height t -> h_id a <> r_id t -> reconcile s p (Some t) = Err EDifferentId).
Proof. exact contradiction_kinds_l. Qed.

(* every refusal of process(), exhaustively (the "suspicious height" branch is dead code) *)
Theorem C13_reconcile_err_cases : forall (s p : option hdr) (l : option row) (e : errkind),
  reconcile s p l = Err e ->
  (e = EAggInconsistent /\ check_agg_consistency s p = false) \/
  (exists t, l = Some t /\
     ((e = ELocalOnly /\ latest_of s p = None) \/
      (exists a, latest_of s p = Some a /\
         ((e = EAggLower /\ h_height a < r_height t) \/
          (e = EDifferentId /\ r_height t <= h_height a /\ h_height a <> r_height t + 1 /\ r_id t <> h_id a))))).
Proof. exact reconcile_err_cases_l. Qed.

Theorem C13_refusal_changes_nothing : forall keep a st,
  refused (snd (recover keep a st)) = true -> fst (recover keep a st) = check_pending a st.
Proof. exact refused_keeps_store. Qed.

(* ---- storage ---- *)
(* one certificate per height: preserved by the save (committed or not, any fault position) and by the whole recovery *)
Theorem C13_one_row_per_height_save : forall fault keep r st,
  NoDup (map r_height (s_info st)) -> NoDup (map r_height (s_info (fst (save_last_sent fault keep r st)))).
Proof. exact save_uniq. Qed.
Theorem C13_one_row_per_height_recover : forall keep a st,
  NoDup (map r_height (s_info st)) -> NoDup (map r_height (s_info (fst (recover keep a st)))).
Proof. exact recover_uniq. Qed.

(* a failed write leaves the previous record intact: whatever made it fail ... *)
Theorem C13_failed_save_keeps_old : forall fault keep r st,
  snd (save_last_sent fault keep r st) = false -> fst (save_last_sent fault keep r st) = st.
Proof. exact failed_save_keeps_old_l. Qed.
(* ... and every fault position inside the transaction (select, history insert, delete, insert, commit) does *)
Theorem C13_every_fault_keeps_old : forall (k : nat) keep r st,
  (k < List.length (save_stmts keep r st))%nat -> save_last_sent (Some k) keep r st = (st, false).
Proof. exact every_fault_keeps_old_l. Qed.
(* the fault-free save commits and the saved row is the one at its height *)
Theorem C13_save_commits : forall keep r st,
  NoDup (map r_height (s_info st)) -> sql_u64_ok r = true ->
  match find_height (s_info st) (r_height r) with
  | Some old => keep = false \/ has_hist_key (s_hist st) (r_height old) (r_retry old) = false
  | None => True
  end ->
  snd (save_last_sent None keep r st) = true /\
  find_height (s_info (fst (save_last_sent None keep r st))) (r_height r) = Some (norm_row r).
Proof. exact save_commits_l. Qed.

(* ---- metadata ---- *)
Theorem C13_metadata_roundtrip : forall v from off created ty,
  v = 1 \/ v = 2 -> from < 2^64 -> off < 2^32 -> created < 2^32 -> ty < 256 ->
  meta_decode (meta_encode {| m_version := v; m_to_v0 := 0; m_from := from; m_offset := off;
                              m_created := created; m_ctype := ty |}) =
  Some {| m_version := v; m_to_v0 := 0; m_from := from; m_offset := off; m_created := created;
          m_ctype := if v =? 2 then ty else 0 |}.
Proof. exact meta_roundtrip_l. Qed.

(* hypothesis to - from < 2^32: the offset field is a uint32 *)
Theorem C13_metadata_range : forall l from to created ty,
  h_meta l = meta_encode (new_metadata from to created ty) ->
  from <= to -> to < 2^64 -> to - from < 2^32 -> created < 2^32 -> ty < 256 ->
  exists r', row_of_header l = Ok r' /\ r_from r' = from /\ r_to r' = to /\ r_created r' = Some created /\ r_ctype r' = ty.
Proof. exact row_of_header_range_l. Qed.

(* ---- boundaries, stated openly ---- *)
(* without prev_local_exit_root in the header: lost database + InError certificate at height > 0 => no next certificate
   (an error, never a wrong previous LER) *)
Theorem C13_lost_db_inerror_without_prev_ler : forall cfg l r' hs,
  row_of_header l = Ok r' -> h_status l = InError -> h_prev_ler l = None -> 0 < h_height l -> 0 < r_from r' ->
  next_params cfg {| s_info := [norm_row r']; s_hist := hs |} = Err ENoPrevSettled.
Proof. exact lost_db_inerror_without_prev_ler_l. Qed.

(* an InError top row with from_block 0 (what a version-0 metadata hash gives): VerifyBuildParams refuses the retry,
   nothing is built (an error, never a wrong first block) *)
Theorem C13_inerror_from_zero_nothing_built : forall cfg c rest hs,
  Forall (below c) rest -> r_status c = InError -> r_from c = 0 ->
  next_params cfg {| s_info := c :: rest; s_hist := hs |} = Err ERetryFromMismatch.
Proof. exact inerror_from_zero_nothing_built_l. Qed.

(* range wider than 2^32 blocks: the offset wraps and the rebuilt row ends too early *)
Example C13_offset_truncation_refuted :
  exists l r', h_meta l = meta_encode (new_metadata 6 (6 + 2^32 + 3) 1 1) /\ row_of_header l = Ok r' /\ r_to r' = 9.
Proof.
  exists {| h_height := 0; h_id := 1; h_status := Settled; h_new_ler := 2; h_prev_ler := None;
            h_meta := meta_encode (new_metadata 6 (6 + 2^32 + 3) 1 1) |}.
  eexists. split; [reflexivity|]. split; vm_compute; reflexivity.
Qed.

(* version-0 metadata carries only the last block: an InError certificate (blocks 6..9) rebuilt from it after a lost
   database has from_block 0, and the flow builds nothing (legacy format; BuildCertificate writes version 2) *)
Example C13_v0_inerror_first_block_lost :
  exists l r', h_meta l = meta_encode {| m_version := 0; m_to_v0 := 9; m_from := 6; m_offset := 3; m_created := 0; m_ctype := 0 |} /\
    h_status l = InError /\ row_of_header l = Ok r' /\ r_from r' = 0 /\
    next_params ex_cfg {| s_info := [norm_row r']; s_hist := [] |} = Err ERetryFromMismatch.
Proof.
  exists {| h_height := 1; h_id := 12; h_status := InError; h_new_ler := 102; h_prev_ler := Some 101;
            h_meta := meta_encode {| m_version := 0; m_to_v0 := 9; m_from := 6; m_offset := 3; m_created := 0; m_ctype := 0 |} |}.
  eexists. split; [reflexivity|]. split; [reflexivity|]. split; [vm_compute; reflexivity|]. split; vm_compute; reflexivity.
Qed.

(* ---- non-vacuity: concrete states meeting Inv at every crash point, with non-trivial outcomes ---- *)
(* certificate 0 settled and stored, certificate 1 (blocks 6..9) submitted and already InError at the Agglayer *)
Example C13_nonvacuous_next :
  Inv ex_next /\ applicable AfterSubmitBeforeStore ex_next /\ applicable AfterStore ex_next /\ applicable DbLost ex_next /\
  snd (recovered AfterSubmitBeforeStore ex_next) = OInsert /\ snd (recovered AfterStore ex_next) = OUpdate /\
  snd (recovered DbLost ex_next) = OInsert /\
  next_params ex_cfg (nocrash_synced ex_next) = Ok (1, 101, 6) /\
  next_params ex_cfg (fst (recovered AfterSubmitBeforeStore ex_next)) = Ok (1, 101, 6) /\
  next_params ex_cfg (fst (recovered AfterStore ex_next)) = Ok (1, 101, 6) /\
  next_params ex_cfg (fst (recovered DbLost ex_next)) = Ok (1, 101, 6).
Proof.
  split; [exact ex_next_inv|]. split; [discriminate|]. split; [discriminate|]. split; [exact I|].
  repeat split; vm_compute; reflexivity.
Qed.

(* the refused pair is real: replacement of an InError certificate submitted, crash before the store *)
Example C13_nonvacuous_replacement :
  Inv ex_repl /\ applicable AfterSubmitBeforeStore ex_repl /\
  recovered AfterSubmitBeforeStore ex_repl = (prev_store ex_repl, ORefused EDifferentId) /\
  snd (recovered AfterStore ex_repl) = OUpdate /\ snd (recovered DbLost ex_repl) = OInsert /\
  next_params ex_cfg (fst (recovered DbLost ex_repl)) = Err ENotClosed /\
  next_params ex_cfg (nocrash_synced ex_repl) = Err ENotClosed.
Proof.
  split; [exact ex_repl_inv|]. split; [discriminate|]. repeat split; vm_compute; reflexivity.
Qed.

(* idle node whose local status lags (Pending locally, Settled at the Agglayer) *)
Example C13_nonvacuous_idle :
  Inv ex_idle /\ applicable BeforeSubmit ex_idle /\ applicable DbLost ex_idle /\
  snd (recovered BeforeSubmit ex_idle) = OUpdate /\ snd (recovered DbLost ex_idle) = OInsert /\
  next_params ex_cfg (fst (recovered BeforeSubmit ex_idle)) = Ok (2, 102, 10) /\
  next_params ex_cfg (fst (recovered DbLost ex_idle)) = Ok (2, 102, 10) /\
  next_params ex_cfg (nocrash_synced ex_idle) = Ok (2, 102, 10).
Proof.
  split; [exact ex_idle_inv|]. split; [reflexivity|]. split; [exact I|]. repeat split; vm_compute; reflexivity.
Qed.

Example C13_nonvacuous_fresh :
  Inv ex_fresh /\ snd (recovered BeforeSubmit ex_fresh) = ONone /\ snd (recovered DbLost ex_fresh) = ONone /\
  next_params ex_cfg (fst (recovered DbLost ex_fresh)) = Ok (0, 100, 1).
Proof. split; [exact ex_fresh_inv|]. repeat split; vm_compute; reflexivity. Qed.

(* contradictions and faults on concrete data *)
Example C13_nonvacuous_contradictions :
  contradicts None None (ex_row 0 0 11 Settled 100 101 1 5) /\
  contradicts (Some (ex_hdr 0 11 Settled 100 101 1 5)) None (ex_row 1 0 12 Pending 101 102 6 9) /\
  contradicts (Some (ex_hdr 0 11 Settled 100 101 1 5)) (Some (ex_hdr 1 13 Pending 101 103 6 10)) (ex_row 1 0 12 InError 101 102 6 9) /\
  reconcile (Some (ex_hdr 0 11 Settled 100 101 1 5)) (Some (ex_hdr 1 13 Pending 101 103 6 10))
            (Some (ex_row 1 0 12 InError 101 102 6 9)) = Err EDifferentId.
Proof.
  split; [exact I|]. split; [left; reflexivity|]. split; [right; split; [reflexivity | vm_compute; discriminate]|].
  vm_compute; reflexivity.
Qed.

Example C13_nonvacuous_faults :
  let st := {| s_info := [ex_row 1 0 12 InError 101 102 6 9; ex_row 0 0 11 Settled 100 101 1 5]; s_hist := [] |} in
  let r := ex_row 1 1 13 Pending 101 103 6 10 in
  List.length (save_stmts true r st) = 5%nat /\
  (forall k, (k < 5)%nat -> save_last_sent (Some k) true r st = (st, false)) /\
  snd (save_last_sent None true r st) = true /\
  map r_id (s_info (fst (save_last_sent None true r st))) = [13; 11] /\
  map r_id (s_hist (fst (save_last_sent None true r st))) = [12].
Proof.
  cbv zeta. split; [reflexivity|]. split.
  - intros k Hk. apply every_fault_keeps_old_l. exact Hk.
  - repeat split; vm_compute; reflexivity.
Qed.

(* ================= the translated Go code =================
   Gen/GenInitialState.v is GENERATED on every run from aggsender/statuschecker/initial_state.go: the start-up decision
   initialStatus.process (with checkAgglayerConsistenceCerts, getLatestAggLayerCert) and the CertificateStatus predicates.
   `agg_of` / `loc_of` read the model's Agglayer header / local row as the Go structs (the fields the functions read). The translated
   decision IS the model's `reconcile` - same action, same header, an error in the same cases - for every pair of Agglayer headers and
   every local row, and for EVERY value of the parameter that stands for a nil-pointer panic: no reachable path of the real function
   dereferences nil. So the recovery theorems above are theorems about the translated decision. *)
From Verif Require Base.GoNum Gen.GenInitialState Proofs.GenAgreeInitialState.
Theorem C13_generated_process_is_reconcile : forall (s p : option hdr) (l : option row)
  (panic : option (GenInitialState.initialStatusResult N) * GoNum.gerr),
  match l with Some r => (r_height r + 1 < GoNum.U64)%N | None => True end ->
  GenInitialState.process N N.eqb (option_map GenAgreeInitialState.agg_of p) (option_map GenAgreeInitialState.agg_of s)
    (option_map GenAgreeInitialState.loc_of l) panic = GenAgreeInitialState.result_of (reconcile s p l).
Proof. exact GenAgreeInitialState.process_agree. Qed.
Theorem C13_generated_consistency_check_is_model : forall (s p : option hdr),
  GenInitialState.checkAgglayerConsistenceCerts N (option_map GenAgreeInitialState.agg_of p) (option_map GenAgreeInitialState.agg_of s) =
  if check_agg_consistency s p then GoNum.EOK else GoNum.EFail.
Proof. exact GenAgreeInitialState.checkAgglayerConsistenceCerts_agree. Qed.

Print Assumptions C13_recovery_refines_nocrash.
Print Assumptions C13_reconcile_ok_cases.
Print Assumptions C13_inerror_replacement_crash_refused.
Print Assumptions C13_contradiction_refused.
Print Assumptions C13_contradiction_kinds.
Print Assumptions C13_reconcile_err_cases.
Print Assumptions C13_refusal_changes_nothing.
Print Assumptions C13_one_row_per_height_save.
Print Assumptions C13_one_row_per_height_recover.
Print Assumptions C13_failed_save_keeps_old.
Print Assumptions C13_every_fault_keeps_old.
Print Assumptions C13_save_commits.
Print Assumptions C13_metadata_roundtrip.
Print Assumptions C13_metadata_range.
Print Assumptions C13_lost_db_inerror_without_prev_ler.
Print Assumptions C13_inerror_from_zero_nothing_built.
Print Assumptions C13_generated_process_is_reconcile.
Print Assumptions C13_generated_consistency_check_is_model.
