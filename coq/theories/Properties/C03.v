(* C03 — a built certificate's new exit root follows from its bridge exits.
   Property theorems only (closed by `exact`), non-vacuity examples, Print Assumptions.
   Same model as C02 (Model/AggsenderProtocol.v); the byte-level statements use real Keccak-256 and the builders of
   Model/Commitment.v (BridgeExit.Hash) and Model/BridgeStore.v (Bridge.Hash). *)
From Coq Require Import Arith NArith List Bool.
From Verif Require Import Base.Bytes Base.Hash Model.Merkle Model.MerkleSpec Model.TreeStore Model.BridgeStore Model.Commitment
  Model.GlobalIndex Model.Reconcile Model.AggsenderProtocol Proofs.Frontier Proofs.C01Proofs Proofs.AggsenderProofs Gen.SourceFacts.
Import ListNotations.
Open Scope N_scope.

(* the metadata layout version the node writes is the one the model encodes *)
Example src_metadata_version : src_certificate_metadata_v2 = Some (m_version (new_metadata 0 0 0 0)).
Proof. reflexivity. Qed.
Example src_tree_height : src_default_height = Some (N.of_nat HEIGHT).
Proof. reflexivity. Qed.

Section C03.
Variable hash : Type.
Variables bev cev : Type.
Variable b_leaf : bev -> hash.            (* the exit-tree leaf of a bridge event = hash of the exit built from it, see below *)
Variable b_dc : bev -> N.
Variable tree : Type.
Variable t_add : tree -> hash -> tree * hash.
Variable start_block : N.
Variable start_ler : hash.
Variable require_events : bool.
Variable cert_type : N.
Variable repr : tree -> list hash.

Notation stateT := (state hash bev cev tree).
Notation build := (build hash bev cev b_dc tree start_block start_ler require_events cert_type).
Notation leaves_upto := (leaves_upto hash bev cev b_leaf).

(* First sentence, abstract-tree form, for EVERY root function: the previous LER is the root of the tree holding the
   deposits of all blocks before the range, the new LER is the root of that tree with the hashes of the certificate's
   bridge exits appended in order (no exits: the same root) *)
Theorem C03_cert_root_consistent : forall (root_of : list hash -> hash),
  (forall t x, repr (fst (t_add t x)) = repr t ++ [x]) -> (forall t x, snd (t_add t x) = root_of (repr t ++ [x])) ->
  forall (s : stateT) cut sb rc,
  Inv hash bev cev b_leaf b_dc tree start_block start_ler repr root_of s -> build s cut = Some (sb, rc) ->
  let pre := leaves_upto (l2 s) (s_from sb - 1) in
  s_prev sb = root_of pre /\ s_new sb = root_of (pre ++ map b_leaf (s_exits sb)).
Proof.
  intros root_of H1 H2.
  exact (cert_root_consistent hash bev cev b_leaf b_dc tree t_add start_block start_ler require_events cert_type repr root_of H1 H2).
Qed.

(* First sentence, algorithmic form (generic hash, any height H; 32 in the code): when the tree is the Merkle tree,
   appending the exits' hashes with the frontier algorithm of tree/appendonlytree.go to ANY frontier that represents the
   tree with root prevLER (C01's frontier invariant at the number of earlier deposits) ends in exactly newLER *)
Theorem C03_cert_root_consistent_frontier : forall (node : hash -> hash -> hash) (z0 : hash) (H : nat),
  (forall t x, repr (fst (t_add t x)) = repr t ++ [x]) ->
  (forall t x, snd (t_add t x) = mroot_of node z0 H (repr t ++ [x])) ->
  forall (s : stateT) cut sb rc,
  Inv hash bev cev b_leaf b_dc tree start_block start_ler repr (mroot_of node z0 H) s -> build s cut = Some (sb, rc) ->
  let pre := leaves_upto (l2 s) (s_from sb - 1) in
  let ex := map b_leaf (s_exits sb) in
  forall c, CacheInv node z0 (fun i => nth i (pre ++ ex) z0) H (length pre) c -> (length pre + length ex <= 2 ^ H)%nat ->
  s_prev sb = mroot_of node z0 H pre /\ fst (append_all node z0 H (length pre) c ex (s_prev sb)) = s_new sb.
Proof.
  intros node z0 H H1 H2.
  exact (cert_root_consistent_frontier hash bev cev b_leaf b_dc tree t_add start_block start_ler require_events cert_type repr node z0 H H1 H2).
Qed.

(* Second sentence: exits and imported exits are exactly the bridge and claim events of the block range, in chain
   order (the events themselves: every stored field; the field-by-field conversion is C03_exit_fields below), and the
   metadata carries (FromBlock, uint32(ToBlock - FromBlock), certificate type). No invariant needed. *)
Theorem C03_exits_are_range_events : forall (s : stateT) cut sb rc, build s cut = Some (sb, rc) ->
  s_exits sb = bridges_in (l2 s) (s_from sb) (s_to sb) /\ s_imported sb = claims_in (l2 s) (s_from sb) (s_to sb) /\
  s_meta sb = (s_from sb, u64_sub (s_to sb) (s_from sb) mod 2^32, cert_type).
Proof. exact (exits_are_range_events hash bev cev b_dc tree start_block start_ler require_events cert_type). Qed.

(* aggchain-prover flow, any prover oracle. build_fep is compared with the REAL AggchainProverFlow by the FEP stream of the
   harness (scripted prover); PARTIAL for what that stream does not drive (optimistic mode, missing stored proof, ...) *)
Theorem C03_cert_consistent_fep_partial : forall (t_add_ : tree -> hash -> tree * hash) (root_of : list hash -> hash),
  (forall t x, repr (fst (t_add_ t x)) = repr t ++ [x]) -> (forall t x, snd (t_add_ t x) = root_of (repr t ++ [x])) ->
  forall prover hp (s : stateT) cut sb rc,
  Inv hash bev cev b_leaf b_dc tree start_block start_ler repr root_of s ->
  build_fep hash bev cev b_dc tree start_block start_ler require_events cert_type prover hp s cut = Some (sb, rc) ->
  let pre := leaves_upto (l2 s) (s_from sb - 1) in
  (s_prev sb = root_of pre /\ s_new sb = root_of (pre ++ map b_leaf (s_exits sb))) /\
  s_exits sb = bridges_in (l2 s) (s_from sb) (s_to sb) /\ s_imported sb = claims_in (l2 s) (s_from sb) (s_to sb) /\
  s_meta sb = (s_from sb, u64_sub (s_to sb) (s_from sb) mod 2^32, cert_type).
Proof.
  intros t_add_ root_of H1 H2.
  exact (cert_root_consistent_fep_partial hash bev cev b_leaf b_dc tree t_add_ start_block start_ler require_events cert_type repr root_of H1 H2).
Qed.
End C03.

(* the frontier lemma on its own: for any leaves pre ++ ex and any frontier valid at |pre| *)
Theorem C03_frontier_append : forall (hash : Type) (node : hash -> hash -> hash) (z0 : hash) (H : nat) (pre ex : list hash) c,
  CacheInv node z0 (fun i => nth i (pre ++ ex) z0) H (length pre) c -> (length pre + length ex <= 2 ^ H)%nat ->
  fst (append_all node z0 H (length pre) c ex (mroot_of node z0 H pre)) = mroot_of node z0 H (pre ++ ex).
Proof. intros hash. exact (@frontier_append_is_new_root hash). Qed.

(* The hash the Agglayer computes for a converted exit (BridgeExit.Hash: nil/empty metadata -> keccak(""), BigToHash
   amount) is the leaf the bridge syncer put into the exit tree (Bridge.Hash: keccak(metadata), FillBytes amount):
   same preimage byte for byte, real Keccak-256, every field value (amounts below 2^256: uint256) *)
Theorem C03_exit_hash_eq_bridge_hash : forall b : bridge_ev,
  exit_preimage keccakN (to_exit b) = bridge_leaf_preimage b /\ exit_hash keccakN (to_exit b) = be 32 (bridge_leaf b).
Proof. exact exit_hash_eq_bridge_hash. Qed.

(* "every field preserved": the conversions are the identity on every field; metadata becomes its hash (nil when empty) *)
Theorem C03_exit_fields : forall b : bridge_ev,
  x_leaf_type (to_exit b) = b_lt b /\ x_orig_net (to_exit b) = b_onet b /\ x_orig_addr (to_exit b) = b_oaddr b /\
  x_dest_net (to_exit b) = b_dnet b /\ x_dest_addr (to_exit b) = b_daddr b /\ x_amount (to_exit b) = Some (b_amount b) /\
  x_metadata (to_exit b) = conv_meta (b_meta b).
Proof. intros b. repeat split. Qed.
Theorem C03_imported_fields : forall c : claim_ev,
  let '(x, gi) := to_imported c in
  x_orig_net x = c_onet c /\ x_orig_addr x = c_oaddr c /\ x_dest_net x = c_dnet c /\ x_dest_addr x = c_daddr c /\
  x_amount x = Some (c_amount c) /\ x_leaf_type x = (if c_is_msg c then 1 else 0) /\
  meta_eff keccakN (x_metadata x) = keccak_bytes (c_meta c) /\ gi = GlobalIndex.decode (c_gi c).
Proof. exact to_imported_fields. Qed.

(* "its metadata encodes that block range": the model's metadata triple is the V2 record BuildCertificate writes, and
   decoding its 32 bytes gives back the first block and (first block + offset) = the last block, for ranges shorter
   than 2^32 blocks (the offset is a uint32; stated, the truncation is in the model) *)
Theorem C03_metadata_roundtrip : forall from to created ty,
  from <= to -> to < 2^64 -> to - from < 2^32 -> created < 2^32 -> ty < 256 ->
  meta_of ty from to = (m_from (new_metadata from to created ty), m_offset (new_metadata from to created ty), m_ctype (new_metadata from to created ty)) /\
  exists m, meta_decode (meta_encode (new_metadata from to created ty)) = Some m /\
            m_from m = from /\ m_from m + m_offset m = to /\ m_created m = created /\ m_ctype m = ty.
Proof. exact metadata_roundtrip. Qed.

(* ---- non-vacuity ---- *)
(* a concrete certificate of the demo run (see C02_nonvacuous_run): roots follow from the exits with the demo root function *)
Example C03_nonvacuous_roots :
  map (fun sb => (s_prev sb, s_new sb, map snd (s_exits sb))) (snd (demo_run_from true demo_empty demo_schedule)) =
  [(demo_root [], demo_root ([] ++ [11; 12]), [11; 12]); (demo_root [], demo_root ([] ++ [11; 12]), [11; 12]);
   (demo_root [11; 12], demo_root ([11; 12] ++ [13]), [13])].
Proof. vm_compute. reflexivity. Qed.
(* the executable model on real Keccak: one block with a deposit, one epoch tick: the certificate's new exit root is the
   root the frontier computes, its previous one the empty-tree root (emptyLER of flow_base.go), and the exit's hash is the leaf *)
Example C03_nonvacuous_keccak :
  let b := mkB 0 0 0 1 5 2 6 1000 [1; 2; 3] 0 in
  let s1 := fst (xstep true 0 empty_ler xstate_empty (NewBlock 0 [b] [])) in
  match snd (xstep true 0 empty_ler s1 (EpochTick 0)) with
  | [sb] => s_prev sb = 0x27ae5ba08d7291c96c8cbddcc148bf48a6d68c7974b94356f53754ef6171d757 /\
            Some (s_new sb) = nth_error (roots s1) 0 /\ s_height sb = 0 /\ (s_from sb, s_to sb) = (1, 1) /\
            of_be (exit_hash keccakN (to_exit b)) = bridge_leaf b
  | _ => False
  end.
Proof. vm_compute. repeat split. Qed.
(* a frontier satisfying the invariant exists at every size (C01) *)
Example C03_nonvacuous_frontier : forall (f : nat -> N) n c0, (n <= 2 ^ 32)%nat -> CacheInv nodeN 0 f 32 n (go_run nodeN 0 f 32 n c0).
Proof. intros f n c0. exact (go_run_inv nodeN 0 f 32 n c0). Qed.

(* ================= the translated Go code =================
   Gen/GenLimitCert.v is GENERATED on every run from aggsender/flows/flow_base.go: getNewLocalExitRoot, the rule by which a
   certificate gets its new local exit root (the model's `new_ler`): the previous root when the certificate has no bridge exit,
   otherwise what the bridge syncer recorded for the deposit count of the LAST bridge exit - MaxDepositCount() of the translated
   build parameters (Gen/GenBuildParams.v) - or an error when the syncer cannot give it. GetExitRootByIndex is an oracle. *)
From Coq Require Import ZArith.
From Verif Require Base.GoNum Gen.GenBuildParams Gen.GenLimitCert Proofs.GenAgreeBuildParams Proofs.GenAgreeLimitCert.
Theorem C03_generated_getNewLocalExitRoot_rule : forall (hash : Type) (hash0 : hash) (exitRootByIndex : N -> hash * GoNum.gerr)
  (c : GenBuildParams.CertificateBuildParams) (prev : hash),
  (Z.of_nat (List.length (GenBuildParams.CertificateBuildParams_Bridges c)) < 9223372036854775808)%Z ->
  GenLimitCert.getNewLocalExitRoot hash hash0 exitRootByIndex (Some c) prev =
  match GenAgreeBuildParams.last_opt (GenBuildParams.CertificateBuildParams_Bridges c) with
  | None => (prev, GoNum.EOK)
  | Some b => let '(r, e) := exitRootByIndex (GenBuildParams.Bridge_DepositCount b) in
              if negb (GoNum.err_eqb e GoNum.EOK) then (hash0, GoNum.err_wrap e) else (r, GoNum.EOK)
  end.
Proof. exact GenAgreeLimitCert.getNewLocalExitRoot_closed_form. Qed.

Print Assumptions C03_cert_root_consistent.
Print Assumptions C03_cert_root_consistent_frontier.
Print Assumptions C03_exits_are_range_events.
Print Assumptions C03_cert_consistent_fep_partial.
Print Assumptions C03_frontier_append.
Print Assumptions C03_exit_hash_eq_bridge_hash.
Print Assumptions C03_exit_fields.
Print Assumptions C03_imported_fields.
Print Assumptions C03_metadata_roundtrip.
Print Assumptions C03_generated_getNewLocalExitRoot_rule.
