(* C16, FEP mode — the injected-GER index reflects what was really injected on L2, when the L2 GER manager is the
   PolygonZkEVMGlobalExitRootV2 contract polled by lastgersync/evmdownloader_fep.go.
   Only property theorems (closed by `exact` of a lemma of Proofs/GerFepProofs.v), non-vacuity examples,
   source-fact obligations and Print Assumptions.

   Vocabulary (Model/GerFep.v): `leaves` = the global exit root of every L1 info tree leaf; an `fchain` lists in which
   L2 block each root was injected; a run is a list of segments, each starting a fresh Download call at
   lastProcessed+1 on the existing store after a restart or a reorg notification (b, new fork), and feeding it an
   arbitrary schedule of polls (tip, number of leaves the L1 info tree syncer holds at that poll).
   `finjected lv fc L g i`: root g is leaf i and was injected in a block <= L of fc. There are no removals in this
   mode. Runs are prefix-closed, so every theorem holds after every poll. *)
From Coq Require Import NArith List Bool String Lia.
From Verif Require Import Model.GerIndex Model.GerFep Proofs.GerFepProofs Model.C16Cases Model.C16FepCases Gen.SourceFacts.
Import ListNotations.
Open Scope N_scope.

(* ---- source-fact obligations: the details of evmdownloader_fep.go the model transcribes ---- *)
(* the update of nextL1InfoTreeIndex asserts a *GlobalExitRootInfo while the slice holds a *Event: it never fires,
   which is why `fep_download` keeps `next` constant for a whole Download call *)
Example src_fep_next_update_never_fires :
  src_c16_fep_download_type_asserts = ["block.Events[0] AS *GlobalExitRootInfo"%string] /\
  src_c16_fep_events_stores = ["= []any{&Event{GERInfo: gerInfo}}"%string].
Proof. split; reflexivity. Qed.
Example src_fep_start_index_guard : src_c16_fep_start_index_guards = ["latestL1InfoTreeIndex > 0"%string].
Proof. reflexivity. Qed.
Example src_fep_call_latest : src_c16_fep_call_opts = ["bind.CallOpts{Pending: false}"%string].
Proof. reflexivity. Qed.
Example src_fep_wait_from_block : src_c16_fep_waits = ["fromBlock = d.WaitForNewBlocks(ctx, fromBlock)"%string].
Proof. reflexivity. Qed.
Example src_fep_sql_latest_index : src_c16_fep_sql_latest_index =
  "SELECT l1_info_tree_index FROM imported_global_exit_root ORDER BY l1_info_tree_index DESC LIMIT 1;"%string.
Proof. reflexivity. Qed.

(* Soundness, for ALL runs (any L1 info tree, any injections, any poll cadence, any lag of the L1 info tree syncer,
   any restarts, any reorgs): whatever the query returns is leaf i of the L1 info tree, was injected on L2 in a
   block at or below a PROCESSED block (hence at or below the last processed one), and has index >= x. *)
Theorem C16_fep_index_sound : forall lv segs fc0 fc st bs x i g,
  frun_node lv fc0 empty_store segs = (fc, Some st, bs) ->
  first_ger_after st x = Some (i, g) ->
  (exists p, In p (s_blocks st) /\ finjected lv fc p g i) /\ finjected lv fc (last_processed st) g i /\ x <= i.
Proof. exact fep_index_sound. Qed.

(* Completeness, for all runs in which the L1 info tree syncer holds, at every poll, the leaves whose roots are
   injected up to the polled tip (`fvisible`: the oracle injects only roots read from that syncer): the query
   returns a root whenever a leaf with index >= x has been injected at or below a processed block ... *)
Theorem C16_fep_index_complete : forall lv segs fc0 fc st bs x p g i,
  frun_node lv fc0 empty_store segs = (fc, Some st, bs) -> fvisible lv fc0 empty_store segs ->
  In p (s_blocks st) -> finjected lv fc p g i -> x <= i ->
  first_ger_after st x <> None.
Proof. exact fep_index_complete. Qed.

(* ... in particular at or below the last processed block, as soon as one block has been processed. *)
Theorem C16_fep_index_complete_last : forall lv segs fc0 fc st bs x g i,
  frun_node lv fc0 empty_store segs = (fc, Some st, bs) -> fvisible lv fc0 empty_store segs ->
  s_blocks st <> [] -> finjected lv fc (last_processed st) g i -> x <= i ->
  first_ger_after st x <> None.
Proof. exact fep_index_complete_last. Qed.

(* No ProcessBlock ever fails: the polled tips handed over are strictly increasing and above the stored blocks. *)
Theorem C16_fep_never_stuck : forall lv segs fc0,
  exists fc st bs, frun_node lv fc0 empty_store segs = (fc, Some st, bs).
Proof. exact fep_never_stuck. Qed.

(* What one polled block records: nothing, or exactly one leaf at or after the start index that is injected by the
   polled tip; and it dominates every such leaf ("greatest injected GER"). *)
Theorem C16_fep_block_records_injected_leaf : forall lv fc next tip l1,
  snd (fep_block lv fc next tip l1) = [] \/
  exists i g, snd (fep_block lv fc next tip l1) = [ins g i] /\
              nth_error lv (N.to_nat i) = Some g /\ next <= i /\ i < l1 /\ injected_by fc tip g = true.
Proof. exact fep_block_cases. Qed.
Theorem C16_fep_block_records_greatest : forall lv fc next tip l1 i g,
  nth_error lv (N.to_nat i) = Some g -> next <= i -> i < l1 -> injected_by fc tip g = true ->
  exists i' g', snd (fep_block lv fc next tip l1) = [ins g' i'] /\ i <= i'.
Proof. exact fep_block_ge. Qed.

(* ---- non-vacuity: leaves a0..a3; a2 injected at L2 block 2, a1 at 6, a3 at 8; the node polls tip 4, restarts (the
   start index becomes 3, leaf 1 is below it), polls 7 and 9, then a reorg from block 8 moves the injection of a3 to
   block 12 ---- *)
Definition fx_leaves : leaves := [0xa0; 0xa1; 0xa2; 0xa3].
Definition fx_chain : fchain := [(2, 0xa2); (6, 0xa1); (8, 0xa3)].
Definition fx_segs : list fsegment :=
  [(None, [(4, 4)]); (None, [(7, 4); (9, 4)]); (Some (8, [(12, 0xa3)]), [(10, 4); (13, 4)])].

Example C16_fep_nonvacuous :
  fvisible fx_leaves fx_chain empty_store fx_segs /\
  exists st, frun_node fx_leaves fx_chain empty_store fx_segs =
               ([(2, 0xa2); (6, 0xa1); (12, 0xa3)], Some st,
                [(4, [ins 0xa2 2]); (7, []); (9, [ins 0xa3 3]); (10, []); (13, [ins 0xa3 3])]) /\
             s_blocks st = [4; 7; 10; 13] /\ last_processed st = 13 /\
             first_ger_after st 0 = Some (2, 0xa2) /\ first_ger_after st 3 = Some (3, 0xa3) /\ first_ger_after st 4 = None /\
             finjected fx_leaves [(2, 0xa2); (6, 0xa1); (12, 0xa3)] 13 0xa1 1.
Proof.
  split.
  - cbn [fvisible fx_segs]. repeat split; try exact I;
      intros p Hp; cbn in Hp; repeat (destruct Hp as [<-|Hp]; [|]); try (destruct Hp);
      intros i g (Hn & b & Hb & Hle); cbn in Hb;
      repeat (destruct Hb as [Hb|Hb]; [injection Hb as <- <- | ]); try (destruct Hb); cbn [fst snd] in *;
      (destruct (N.lt_ge_cases i 4) as [Hi|Hi]; [exact Hi|]);
      exfalso; assert (E : exists k, N.to_nat i = (4 + k)%nat) by (exists (N.to_nat i - 4)%nat; lia);
      destruct E as [k E]; rewrite E in Hn; cbn in Hn; destruct k; discriminate.
  - eexists. split; [vm_compute; reflexivity|]. repeat split. exists 6. split; [right; now left | lia].
Qed.

(* the lagging L1 info tree syncer, outside `fvisible`: root injected at block 2 is not listed at the first poll and
   the query misses it until the next poll *)
Example C16_fep_lag_example :
  let lv := [0xa0; 0xa1] in let fc := [(2, 0xa1)] in
  (exists st, frun_node lv fc empty_store [(None, [(3, 1)])] = (fc, Some st, [(3, [])]) /\ first_ger_after st 0 = None) /\
  (exists st, frun_node lv fc empty_store [(None, [(3, 1); (5, 2)])] = (fc, Some st, [(3, []); (5, [ins 0xa1 1])]) /\
              first_ger_after st 0 = Some (1, 0xa1)).
Proof. split; eexists; split; vm_compute; reflexivity. Qed.

Print Assumptions C16_fep_index_sound.
Print Assumptions C16_fep_index_complete.
Print Assumptions C16_fep_index_complete_last.
Print Assumptions C16_fep_never_stuck.
Print Assumptions C16_fep_block_records_injected_leaf.
Print Assumptions C16_fep_block_records_greatest.
