(* C09 — claim proofs inside a certificate verify against the L1 info root it names.
   Only property theorems (each closed by `exact` of a lemma of Proofs/ClaimProofsProofs.v), non-vacuity examples,
   source-fact obligations and Print Assumptions. *)
From Coq Require Import NArith List Bool Lia Arith String.
From Verif Require Import Base.Bytes Base.Hash Model.Merkle Model.MerkleSpec Model.TreeStore Model.Contracts Model.GlobalIndex
  Model.Commitment Model.ClaimProofs Model.C09Cases Proofs.Rht Proofs.ClaimProofsProofs Gen.SourceFacts.
Import ListNotations.
Open Scope N_scope.
Local Notation length := Datatypes.length (only parsing).   (* String is imported for the source-fact literals only *)

(* source-fact obligations *)
Example src_height_is_model : src_default_height = Some (N.of_nat HEIGHT).
Proof. reflexivity. Qed.
(* flow_pp.go names root.Hash and root.Index + 1 (model: cc_root, leaf_count_of) *)
Example src_pp_root_and_leaf_count_are_model :
  src_c09_pp_root_rhs = ["root.Hash"%string] /\ src_c09_pp_leaf_count_rhs = ["root.Index + 1"%string].
Proof. split; reflexivity. Qed.
(* getImportedBridgeExits fills the certificate leaf as build_one does: BlockHash from the syncer row's PreviousBlockHash,
   MER / RER from the claim's calldata (both claim kinds) *)
Example src_leaf_fields_are_model :
  src_c09_leaf_block_hash = ["l1Info.PreviousBlockHash"%string; "l1Info.PreviousBlockHash"%string] /\
  src_c09_leaf_mer = ["claim.MainnetExitRoot"%string; "claim.MainnetExitRoot"%string] /\
  src_c09_leaf_rer = ["claim.RollupExitRoot"%string; "claim.RollupExitRoot"%string].
Proof. repeat split; reflexivity. Qed.
(* the finalized-claims check is called by the aggchain-prover flow only: the PP flow (the model's pp_build) has none *)
Example src_pp_flow_has_no_finalized_claims_check :
  src_c09_finalized_claims_check_callers = ["GenerateAggchainProof"%string].
Proof. reflexivity. Qed.

(* The property.  For ANY hash function, ANY L1 side `q` satisfying the closed-store facts (l1_sound: lookups return the row
   asked for, rows carry GER = H(MER,RER) and the leaf hash of their fields, proofs served for recorded roots verify - C08/C11),
   ANY L1 node `cl` (every position of the finalized pointer, every answer), ANY list of claims: if the PP flow builds a
   certificate, then for every imported exit whose claim lies in the quantifier (claims_ger_finalized; canonical global index)
   and was accepted by the bridge contract (contract_accepted = _verifyLeaf):
   (1) the enclosed L1 leaf hashes with ProofGERToL1Root to the named root at the stated index, (2) that index is below the
   certificate's leaf count, which is the named root's index + 1 and that root is the one recorded for it, (3) the leaf's GER is
   the hash of its MER and RER and is the claim's GER, (4) the exit's own proofs lead from the exit's hash to MER (mainnet) or
   through the local exit root to RER (rollup). *)
Theorem imported_exit_verifies : forall (hash : bytes -> N) (cl : l1client) (q : l1side) cs cc c ibe,
  l1_sound hash q ->
  pp_build hash cl q cs = inr (Some cc) ->
  In (c, ibe) (combine cs (cc_imported cc)) ->
  claims_ger_finalized q (cc_root cc) cs ->
  GlobalIndex.canonical (k_gidx c) -> contract_accepted hash c ->
  r_pos (cc_root cc) + 1 < 2^32 ->
  let node := ClaimProofs.node hash in
  let L := claim_leaf (ie_claim ibe) in
  let root := r_hash (cc_root cc) in
  let pg := claim_ger_proof (ie_claim ibe) in
  (mp_root pg = root /\ calc node 0 (mp_siblings pg) (l1leaf_hash_n hash L) (bitN (l1_index L)) = root) /\
  (l1_index L < cc_leaf_count cc /\ cc_leaf_count cc = r_pos (cc_root cc) + 1 /\
   q_root_by_index q (r_pos (cc_root cc)) = Some (cc_root cc)) /\
  (l1_ger L = node (l1_mer L) (l1_rer L) /\ l1_ger L = k_ger c) /\
  match ie_claim ibe with
  | ClaimMainnet pl _ _ =>
      gi_mainnet (ie_gi ibe) = true /\ mp_root pl = l1_mer L /\
      calc node 0 (mp_siblings pl) (exit_hash_n hash (ie_exit ibe)) (bitN (gi_leaf (ie_gi ibe))) = l1_mer L
  | ClaimRollup pl pr _ _ =>
      gi_mainnet (ie_gi ibe) = false /\ mp_root pr = l1_rer L /\
      mp_root pl = calc node 0 (mp_siblings pl) (exit_hash_n hash (ie_exit ibe)) (bitN (gi_leaf (ie_gi ibe))) /\
      calc node 0 (mp_siblings pr) (mp_root pl) (bitN (gi_rollup (ie_gi ibe))) = l1_rer L
  end.
Proof. exact imported_exit_verifies_lemma. Qed.

(* the root the flow names was read for a block at or below the L1 node's finalized block (syncer behind: the syncer's block) *)
Theorem chosen_root_at_or_below_finalized : forall (cl : l1client) (q : l1side) root info,
  choose_l1_root cl q = inr (root, info) ->
  exists fnum fhash pnum phash, cl_finalized cl = Some (fnum, fhash) /\
     q_processed_until q fnum = Some (pnum, phash) /\ pnum <> 0 /\
     (let blk := if pnum <? fnum then pnum else fnum in
      blk <= fnum /\ q_latest_info_until q blk = inr info).
Proof. exact choose_at_or_below_finalized_lemma. Qed.

(* agglayer L1InfoTreeLeaf(Inner).Hash (what the Agglayer hashes) = the global exit root contract's leaf value = what
   l1infotreesync appends to its tree: byte level, real Keccak-256 *)
Theorem l1leaf_hash_is_contract_leaf : forall l,
  l1leaf_hash_n keccakN l = l1info_leaf_value (l1_ger l) (l1_block_hash l) (l1_timestamp l).
Proof. exact l1leaf_hash_is_contract_leaf_lemma. Qed.
Theorem stored_leaf_is_contract_leaf : forall blk idx e,
  let i := info_of blk idx e in
  li_ger i = ger_of (u_mer e) (u_rer e) /\ li_hash i = l1info_leaf_value (li_ger i) (li_parent i) (li_ts i).
Proof. exact stored_leaf_is_contract_leaf_lemma. Qed.
(* BridgeExit.Hash of the converted claim = the bridge contract's getLeafValue of the claim's fields (any hash) *)
Theorem exit_hash_is_contract_leaf_value : forall hash c,
  exit_hash_n hash (convert_exit hash c) = contract_leaf_value hash c.
Proof. exact exit_hash_is_contract_leaf. Qed.
(* the node's DecodeGlobalIndex agrees with the contract's bit tests on canonical values *)
Theorem decode_is_contract_decode : forall v, GlobalIndex.canonical v ->
  decode v = (contract_mainnet_flag v, contract_rollup_index v, contract_leaf_index v).
Proof. exact decode_contract. Qed.

(* closed-store facts of the executable L1 side: from the closed reverse-hash-table invariant of C08, for every store *)
Theorem exec_l1_sound_from_closed_store : forall st f, l1_store_closed st f -> l1_sound keccakN (exec_l1side st).
Proof. exact exec_sound_from_closed_lemma. Qed.
(* ... and decidable on a concrete store *)
Theorem exec_l1_sound_by_computation : forall st, l1_sound_b st = true -> l1_sound keccakN (exec_l1side st).
Proof. exact l1_sound_b_ok_lemma. Qed.
(* rows written by ProcessBlock keep the row facts *)
Theorem process_block_rows_ok : forall st b,
  Forall (fun l => row_ok_b l = true) (s_leaves st) -> Forall (fun l => row_ok_b l = true) (s_leaves (snd (process_block st b))).
Proof. exact process_block_rows_ok_lemma. Qed.

(* ---- outside the quantifier (not claimed by the property): a claim whose GER is NOT at or below the named root ---- *)
(* unknown to the syncer: the build fails *)
Theorem unknown_ger_is_error : forall hash q root cs, (exists c, In c cs /\ q_info_by_ger q (k_ger c) = None) ->
  build_imported_exits hash q root cs = inl EGerNotFound.
Proof. exact unknown_ger_aborts_build. Qed.
(* known to the syncer: never compared with the named root's index; the exit is built, no error *)
Theorem known_ger_never_checked : forall hash q root c L, q_info_by_ger q (k_ger c) = Some L ->
  exists ibe, build_one hash q root c = inr ibe /\
    mp_siblings (claim_ger_proof (ie_claim ibe)) = q_proof q (li_index L) root /\
    mp_root (claim_ger_proof (ie_claim ibe)) = root /\ l1_index (claim_leaf (ie_claim ibe)) = li_index L.
Proof. exact known_ger_never_checked_lemma. Qed.
(* and what GetProof serves for an index at or beyond the named root's leaves verifies the ZERO leaf only *)
Theorem beyond_root_proof_is_zero_leaf_proof : forall (hash : Type) (node : hash -> hash -> hash) (z0 : hash) (f : nat -> hash),
  (forall a b c d, node a b = node c d -> a = c /\ b = d) ->
  forall (m : rht) (n H j : nat), WF node m -> Closed node z0 f H m n -> (n <= j)%nat -> (j < 2 ^ H)%nat ->
  let root := sub node z0 f H 0 n in
  let proof := swalk (zero node z0) m H root (Nat.testbit j) in
  calc node 0 proof z0 (Nat.testbit j) = root /\
  forall x, calc node 0 proof x (Nat.testbit j) = root -> x = z0.
Proof. intros hash node z0 f inj. exact (beyond_root_proof_is_zero_leaf_proof_lemma node z0 f inj). Qed.

(* ---- non-vacuity: a concrete world (Model/C09Cases.v, names ex_...): L1 history of 3 blocks / 4 leaves, a mainnet claim and a rollup
   claim (a message with metadata) with genuine proofs against trees built by the model, finalized pointer at block 8 while
   the syncer is at 9 (the flow falls back to the syncer's block 7: root of leaf index 2, leaf count 3) ---- *)
Example C09_hypotheses_met :
  l1_sound keccakN (exec_l1side ex_state) /\
  pp_build keccakN ex_client (exec_l1side ex_state) ex_claims = inr (Some ex_cc) /\
  length (cc_imported ex_cc) = 2%nat /\ r_pos (cc_root ex_cc) = 2 /\ cc_leaf_count ex_cc = 3 /\
  claims_ger_finalized (exec_l1side ex_state) (cc_root ex_cc) ex_claims /\
  Forall (fun c => GlobalIndex.canonical (k_gidx c) /\ contract_accepted keccakN c) ex_claims.
Proof.
  split; [apply l1_sound_b_ok_lemma; vm_compute; reflexivity|].
  split; [apply cert_of_is_cert; vm_compute; reflexivity|].
  split; [vm_compute; reflexivity|]. split; [vm_compute; reflexivity|]. split; [vm_compute; reflexivity|].
  split; [apply claims_ger_finalized_b_ok; vm_compute; reflexivity|].
  apply accepted_all_b_ok. vm_compute. reflexivity.
Qed.

(* the theorem applied to the rollup claim of that world *)
Example C09_conclusion_on_example :
  exists c ibe, In (c, ibe) (combine ex_claims (cc_imported ex_cc)) /\
  calc (ClaimProofs.node keccakN) 0 (mp_siblings (claim_ger_proof (ie_claim ibe)))
       (l1leaf_hash_n keccakN (claim_leaf (ie_claim ibe))) (bitN (l1_index (claim_leaf (ie_claim ibe)))) = r_hash (cc_root ex_cc) /\
  l1_index (claim_leaf (ie_claim ibe)) < cc_leaf_count ex_cc /\ l1_ger (claim_leaf (ie_claim ibe)) = k_ger c.
Proof.
  destruct C09_hypotheses_met as [Hs [Hb [Hlen [Hpos [Hlc [Hfin Hall]]]]]].
  assert (Hlen2 : length ex_claims = 2%nat) by (vm_compute; reflexivity).
  set (d := Build_imported_exit (convert_exit keccakN ex_c0) (ClaimMainnet (Build_merkle_proof 0 []) (Build_merkle_proof 0 []) (Build_l1_leaf 0 0 0 0 0 0)) (Build_global_index false 0 0)).
  assert (Hin : In (nth 1 ex_claims ex_c0, nth 1 (cc_imported ex_cc) d) (combine ex_claims (cc_imported ex_cc))).
  { apply nth_combine_in; [rewrite Hlen2; lia|rewrite Hlen; lia]. }
  assert (Hc : In (nth 1 ex_claims ex_c0) ex_claims) by (apply nth_In; rewrite Hlen2; lia).
  rewrite Forall_forall in Hall. destruct (Hall _ Hc) as [Hcan Hacc].
  assert (Hcnt : r_pos (cc_root ex_cc) + 1 < 2^32) by (rewrite Hpos; reflexivity).
  pose proof (imported_exit_verifies keccakN ex_client (exec_l1side ex_state) ex_claims ex_cc _ _ Hs Hb Hin Hfin Hcan Hacc Hcnt) as H.
  cbv zeta in H. destruct H as [[_ H1] [[H2 _] [[_ H3] _]]].
  exists (nth 1 ex_claims ex_c0), (nth 1 (cc_imported ex_cc) d).
  split; [exact Hin|]. split; [exact H1|]. split; [exact H2|exact H3].
Qed.

(* the real behaviour outside the quantifier on the same world: a claim against the leaf of block 9 (index 3), beyond the named
   root (index 2, 3 leaves): built without error; its proof verifies the zero leaf, not the enclosed leaf *)
Example C09_unfinalized_behaviour : ex_unfinalized_behaviour = true.
Proof. vm_compute. reflexivity. Qed.

(* corr / spec accept the example when presented as an observation *)
Example C09_example_as_case :
  let c := mkCase ex_l1 (Some (8, 800)) false [(7, 700); (8, 800)] ex_claims None [true; true; true]
                  (OCert (r_hash (cc_root ex_cc)) 3 (cc_imported ex_cc)) ONoCert None in
  corr c = true /\ spec c = true.
Proof. vm_compute. split; reflexivity. Qed.

(* the guard clause of spec on the example: for the root of 3 leaves the two finalized claims must be accepted; with the claim
   against leaf 3 added the guard must refuse, and an implementation whose guard accepts them is rejected *)
Example C09_guard_clause :
  let r := r_hash (cc_root ex_cc) in
  let mk cs g := mkCase ex_l1 (Some (8, 800)) false [(7, 700); (8, 800)] cs (Some r) [true; true; true] ONoCert ONoCert (Some g) in
  spec (mk ex_claims true) = true /\ spec (mk ex_claims false) = false /\
  spec (mk (ex_claims ++ [ex_unfinalized])%list false) = true /\ spec (mk (ex_unfinalized :: ex_claims) true) = false.
Proof. vm_compute. repeat split; reflexivity. Qed.

(* ---- verifyClaimGERs GENERATED from flow_base.go on every run is the model's first step ---- *)
From Verif Require Base.GoNum Gen.GenVerifyClaims Proofs.GenAgreeVerifyClaims.
(* the translated check (the `for .. range` loop with its early return) returns nil iff the model's verify_claim_gers holds, i.e. iff
   every claim's global exit root is the hash of its mainnet and rollup exit roots - clause 3 of the property for every exit of every
   certificate either flow builds, since both run VerifyBuildParams first *)
Theorem C09_generated_verifyClaimGERs_is_model : forall (H : bytes -> N) (cs : list claim_ev),
  GenAgreeVerifyClaims.gen_verify H cs = if verify_claim_gers H cs then GoNum.EOK else GoNum.EFail.
Proof. exact GenAgreeVerifyClaims.verifyClaimGERs_agree. Qed.

Theorem C09_generated_verifyClaimGERs_nil_iff : forall (H : bytes -> N) (cs : list claim_ev),
  GenAgreeVerifyClaims.gen_verify H cs = GoNum.EOK <-> forall c, In c cs -> node H (k_mer c) (k_rer c) = k_ger c.
Proof. exact GenAgreeVerifyClaims.verifyClaimGERs_nil_iff. Qed.

(* ---- the aggchain-prover flow's guard GENERATED from l1info_tree_data_query.go on every run ---- *)
From Verif Require Gen.GenClaimsGuard Proofs.GenAgreeClaimsGuard.
(* CheckIfClaimsArePartOfFinalizedL1InfoTree accepts (returns nil) iff every claim's global exit root is known to the syncer with a
   leaf index at or below the root's - for every lookup function, root index, claim list and value of the panic parameter. This is
   what puts the certificates of that flow inside the property's quantifier, and it is the clause the check evaluates on the real
   guard's answers (o_guard in Model/C09Cases.v spec) *)
Theorem C09_generated_guard_accepts_iff_all_covered : forall (lk : N -> option N) (panicv : GoNum.gerr) (ridx : N) (gers : list N),
  GenAgreeClaimsGuard.gen_guard lk panicv ridx gers = GoNum.EOK <->
  forallb (fun g => match lk g with Some i => i <=? ridx | None => false end) gers = true.
Proof. exact GenAgreeClaimsGuard.guard_accepts_iff_all_covered. Qed.

(* ... and which error it returns otherwise: the first claim that is unknown (not found) or beyond the root (an error) decides *)
Theorem C09_generated_guard_is_first_bad : forall (lk : N -> option N) (panicv : GoNum.gerr) (ridx : N) (gers : list N),
  GenAgreeClaimsGuard.gen_guard lk panicv ridx gers = GenAgreeClaimsGuard.first_bad lk ridx gers.
Proof. exact GenAgreeClaimsGuard.guard_agree. Qed.

Print Assumptions imported_exit_verifies.
Print Assumptions chosen_root_at_or_below_finalized.
Print Assumptions l1leaf_hash_is_contract_leaf.
Print Assumptions stored_leaf_is_contract_leaf.
Print Assumptions exit_hash_is_contract_leaf_value.
Print Assumptions decode_is_contract_decode.
Print Assumptions exec_l1_sound_from_closed_store.
Print Assumptions exec_l1_sound_by_computation.
Print Assumptions process_block_rows_ok.
Print Assumptions unknown_ger_is_error.
Print Assumptions known_ger_never_checked.
Print Assumptions beyond_root_proof_is_zero_leaf_proof.
Print Assumptions C09_generated_verifyClaimGERs_is_model.
Print Assumptions C09_generated_verifyClaimGERs_nil_iff.
Print Assumptions C09_generated_guard_accepts_iff_all_covered.
Print Assumptions C09_generated_guard_is_first_bad.
