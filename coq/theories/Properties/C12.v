(* C12 - the bridge API's claim flow yields proofs the bridge contract would accept.
   "For any bridge the node has recorded and any L1 info leaf whose exit roots already cover it, the claim proof returned
    by the API hashes the bridge's leaf to the local or mainnet exit root and that exit root to the rollup exit root of
    that L1 info leaf. The L1-info-index lookup for a bridge never returns an index whose exit roots do not cover that
    bridge; when it cannot name a covering index it returns an error."
   Quantifier: all joint L1/L2 histories, all bridges, all covering leaf indices. The theorems quantify over ALL stores
   behind the service (the three syncers are records of query functions, the digest type is abstract, any tree height H);
   what a history guarantees about the stores enters as the named well-formedness predicates. Statements only. *)
From Coq Require Import Arith NArith List Bool Lia.
From Verif Require Import Gen.SourceFacts Model.Merkle Model.MerkleSpec Model.TreeStore Model.BridgeStore Model.ClaimFlow
                          Proofs.Rht Proofs.Sparse Proofs.ClaimFlowProofs.
Import ListNotations.

Section Generic.
Context {hash : Type}.
Variable node : hash -> hash -> hash.
Variable z0 : hash.
Variable zh : nat -> hash.
Variable H : nat.
Notation calcN := (fun sibs leaf idx => calc node 0 sibs leaf (bitN idx)).

(* ---- claim proofs ---- *)
(* network 0. Hypothesis: C08's closed-store invariant of the L1 exit tree (bridge_closed: rows well formed, every recorded
   root of Index i is the root of the closed version with i+1 leaves; f1 k = leaf of the bridge with deposit count k).
   Whenever the handler answers: the leaf is the requested index's, the rollup proof is the empty proof, and if that leaf
   covers the bridge, the local proof hashes the bridge's leaf at position depositCount to the leaf's mainnet exit root. *)
Theorem claim_proof_verifies_l1 : forall (S : @stores hash) f1 idx dc pl pr (x : @info hash),
  bridge_closed node z0 H (s_l1 S) f1 ->
  claim_proof z0 zh H S 0 idx dc = Ok (pl, pr, x) ->
  li_info_by_index (s_li S) idx = Some x /\ pr = repeat z0 H /\
  (covers_l1 S x dc -> calcN pl (f1 (N.to_nat dc)) dc = i_mer x).
Proof. exact (ClaimFlowProofs.claim_proof_verifies_l1 node z0 zh H). Qed.

(* own rollup (network id <> 0). Whenever the handler answers: the network is the service's own, the leaf is the requested
   index's, the rollup proof hashes the rollup's local exit root (what GetLocalExitRoot(networkID, rollupExitRoot) read) at
   position networkID-1 to the leaf's rollup exit root (needs well-formed rows only), and if the leaf covers the bridge the
   local proof hashes the bridge's leaf at position depositCount to that local exit root (closed-store invariant of the L2 exit tree). *)
Theorem claim_proof_verifies_rollup : forall (S : @stores hash) f2 net idx dc pl pr (x : @info hash),
  net <> 0%N -> WF node (li_node (s_li S)) -> bridge_closed node z0 H (s_l2 S) f2 ->
  claim_proof z0 zh H S net idx dc = Ok (pl, pr, x) ->
  net = s_net S /\ li_info_by_index (s_li S) idx = Some x /\
  exists ler, get_local_exit_root H (s_li S) net (i_rer x) = Ok ler /\
              calcN pr ler (net - 1)%N = i_rer x /\
              (covers_l2 H S x dc -> calcN pl (f2 (N.to_nat dc)) dc = ler).
Proof. exact (ClaimFlowProofs.claim_proof_verifies_rollup node z0 zh H). Qed.

(* proofs are only ever served for network 0 and the own network *)
Theorem claim_proof_networks : forall (S : @stores hash) net idx dc r,
  claim_proof z0 zh H S net idx dc = Ok r -> net = 0%N \/ net = s_net S.
Proof. exact (ClaimFlowProofs.claim_proof_networks z0 zh H). Qed.

(* ---- index lookups ---- *)
(* L1 bridges: NO hypothesis (no monotonicity of the history, no bound): the index returned is the index of a leaf whose
   mainnet exit root is a recorded L1 exit root of Index >= depositCount *)
Theorem index_search_sound_l1 : forall (S : @stores hash) dc i,
  first_index_l1 S dc = Ok i -> exists x : @info hash, i_index x = i /\ covers_l1 S x dc.
Proof. exact (@ClaimFlowProofs.index_search_sound_l1 hash). Qed.

(* L2 bridges: no monotonicity either; needed: verified_coherent (each verify_batches row's rollup exit root has the row's
   exit root at position rollupID-1: what processVerifyBatches writes; derivable from closed versions, see below) and
   rer_lookup_sound (GetFirstL1InfoWithRollupExitRoot(r) answers a leaf with rollup exit root r) *)
Theorem index_search_sound_l2 : forall (S : @stores hash) dc i,
  verified_coherent H S -> rer_lookup_sound S ->
  first_index_l2 S dc = Ok i -> exists x : @info hash, i_index x = i /\ covers_l2 H S x dc.
Proof. exact (ClaimFlowProofs.index_search_sound_l2 H). Qed.

(* the handler, any network; with index-coherent answers the index names exactly that covering leaf *)
Theorem index_search_names_covering_leaf : forall (S : @stores hash) net dc i,
  verified_coherent H S -> rer_lookup_sound S -> index_coherent S ->
  l1_info_tree_index S net dc = Ok i ->
  exists x : @info hash, li_info_by_index (s_li S) i = Some x /\ covers H S net x dc.
Proof. exact (ClaimFlowProofs.index_search_names_covering_leaf H). Qed.

(* every lookup ends within the 64 iterations of fuel (block-0 underflow included) in a covering index or in an error.
   wf_blocks: recorded block numbers < 2^63-1 and Get...AfterBlock(b) answers only rows of blocks >= b *)
Theorem index_search_error_or_cover : forall (S : @stores hash) net dc,
  wf_blocks S -> verified_coherent H S -> rer_lookup_sound S ->
  match l1_info_tree_index S net dc with
  | Ok i => exists x : @info hash, i_index x = i /\ covers H S net x dc
  | Err e => e <> EFuel
  end.
Proof. exact (ClaimFlowProofs.index_search_error_or_cover H). Qed.
Theorem index_search_terminates : forall (S : @stores hash) net dc,
  wf_blocks S -> l1_info_tree_index S net dc <> Err EFuel.
Proof. exact (@ClaimFlowProofs.search_terminates hash). Qed.

(* verified_coherent from the closed-store invariant of the rollup exit tree (C08/C11): every visible verify_batches row was
   written when the tree was a closed version g with g (net-1) = the row's non-zero exit root and root = the row's rollup exit root *)
Theorem verified_coherent_from_closed : (forall a b c d, node a b = node c d -> a = c /\ b = d) ->
  forall (S : @stores hash), s_net S <> 0%N -> (N.to_nat (s_net S - 1) < 2 ^ H)%nat ->
  (forall v, verified_answer S v ->
     exists g, SClosed node z0 (li_node (s_li S)) g /\ v_rer v = sroot node g H /\
               g (N.to_nat (s_net S - 1)) = v_exit v /\ v_exit v <> z0) ->
  verified_coherent H S.
Proof. intros inj. exact (ClaimFlowProofs.verified_coherent_from_closed node z0 zh H inj). Qed.
End Generic.

(* ---- not claimed by the property, with witnesses ---- *)
(* minimality is false when a block holds several updates *)
Theorem index_search_not_minimal :
  exists (S : @stores N) dc i j x, wf_blocks S /\ first_index_l1 S dc = Ok i /\
    li_info_by_index (s_li S) j = Some x /\ covers_l1 S x dc /\ (j < i)%N.
Proof. exact ClaimFlowProofs.index_search_not_minimal. Qed.
(* completeness is false when the first info block is block 0 (targetBlock-1 wraps): an error although leaf 0 covers *)
Theorem index_search_block0_incomplete :
  exists (S : @stores N) dc x, wf_blocks S /\ li_info_by_index (s_li S) 0%N = Some x /\ covers_l1 S x dc /\
    first_index_l1 S dc = Err ENotFound.
Proof. exact ClaimFlowProofs.index_search_block0_incomplete. Qed.

(* ---- the executable instance meets the well-formedness facts ---- *)
Theorem exec_wf_blocks : forall (S : @stores N) d, s_li S = l1i_iface d ->
  blocks_bounded_b d = true -> wf_blocks S.
Proof. exact ClaimFlowProofs.exec_wf_blocks. Qed.
Theorem exec_rer_lookup_sound : forall (S : @stores N) d, s_li S = l1i_iface d -> rer_lookup_sound S.
Proof. exact ClaimFlowProofs.exec_rer_lookup_sound. Qed.

(* ---- non-vacuity ---- *)
(* (a) claim-proof theorems: a concrete state (free hash, height 2, three bridges, own network 1) meets every hypothesis,
       the handler answers, and the leaf covers the bridge *)
Example claim_proof_hypotheses_met :
  bridge_closed ToyTree.FN ToyTree.FZ ToyTree.TH (s_l1 ToyTree.tS) ToyTree.tf /\
  bridge_closed ToyTree.FN ToyTree.FZ ToyTree.TH (s_l2 ToyTree.tS) ToyTree.tf /\
  WF ToyTree.FN (li_node (s_li ToyTree.tS)) /\
  (exists pl pr, claim_proof ToyTree.FZ ToyTree.tzh ToyTree.TH ToyTree.tS 0 0 1 = Ok (pl, pr, ToyTree.tinfo) /\
                 covers_l1 ToyTree.tS ToyTree.tinfo 1) /\
  (exists pl pr, claim_proof ToyTree.FZ ToyTree.tzh ToyTree.TH ToyTree.tS 1 0 1 = Ok (pl, pr, ToyTree.tinfo) /\
                 covers_l2 ToyTree.TH ToyTree.tS ToyTree.tinfo 1).
Proof.
  exact (conj ToyTree.tbridge_closed (conj ToyTree.tbridge_closed (conj ToyTree.tm_WF (conj ToyTree.toy_l1 ToyTree.toy_l2)))).
Qed.

(* (b) real Keccak, real stores of the model: two L1 bridges, two L2 bridges, own network 1; L1 info block 7 verifies the
       rollup's exit root of index 1 and then publishes a leaf with the L1 exit root of index 1 and the new rollup exit root *)
Definition ex_bridge (dc : N) : bridge_ev := mkB dc dc 0 0 (1000 + dc) 1 (2000 + dc) (5 + dc) [1; 2; 3]%N dc.
Definition ex_l1 : bstate := snd (process_block None bstate_new (mkBlock 3 [EBridge (ex_bridge 0); EBridge (ex_bridge 1)])).
Definition ex_l2 : bstate := snd (process_block None bstate_new (mkBlock 4 [EBridge (ex_bridge 0); EBridge (ex_bridge 1)])).
Definition ex_root (st : bstate) (i : N) : N := match root_by_index (d_tree (st_db st)) i with Some r => r_hash r | None => 0%N end.
Definition ex_li0 : l1idb := snd (l1i_process_block l1idb_empty (mkIBlock 7 [IVerify 0 1 (ex_root ex_l2 1)])).
Definition ex_rer : N := match last_root (l_rtree ex_li0) with Some r => r_hash r | None => 0%N end.
Definition ex_li : l1idb :=
  snd (l1i_process_block ex_li0 (mkIBlock 9 [IUpdate 0 (ex_root ex_l1 0) 77; IUpdate 1 (ex_root ex_l1 1) ex_rer])).
Definition ex_S : @stores N := exec_stores 1 (st_db ex_l1) (st_db ex_l2) ex_li.

Example index_search_hypotheses_met :
  wf_blocks ex_S /\ verified_coherent HEIGHT ex_S /\ rer_lookup_sound ex_S /\ index_coherent ex_S /\
  l1_info_tree_index ex_S 0 1 = Ok 1%N /\ l1_info_tree_index ex_S 1 1 = Ok 1%N /\ l1_info_tree_index ex_S 1 2 = Err ENotOnL1Info.
Proof.
  split; [apply (ClaimFlowProofs.exec_wf_blocks ex_S ex_li eq_refl); vm_compute; reflexivity|].
  split; [apply (ClaimFlowProofs.exec_verified_coherent ex_S ex_li eq_refl); vm_compute; reflexivity|].
  split; [exact (ClaimFlowProofs.exec_rer_lookup_sound ex_S ex_li eq_refl)|].
  split; [apply (ClaimFlowProofs.exec_index_coherent ex_S ex_li eq_refl); vm_compute; reflexivity|].
  vm_compute. repeat split.
Qed.
(* the claim proofs served for that state verify under Keccak, for both networks (conclusion of the theorems, computed) *)
Example claim_proofs_verify_keccak :
  match x_claim_proof_handler ex_S (PNum 0) (PNum 1) (PNum 1), x_claim_proof_handler ex_S (PNum 1) (PNum 1) (PNum 0) with
  | Ok (pl, _, x), Ok (pl', pr', x') =>
      (calculate_root (bridge_leaf (ex_bridge 1)) pl 1 =? i_mer x)%N &&
      (calculate_root (bridge_leaf (ex_bridge 0)) pl' 0 =? ex_root ex_l2 1)%N &&
      (calculate_root (ex_root ex_l2 1) pr' 0 =? i_rer x')%N
  | _, _ => false
  end = true.
Proof. vm_compute. reflexivity. Qed.

(* ---- source facts the model hard-codes (regenerated from /repo on every run) ---- *)
Example src_height_is_model : src_default_height = Some (N.of_nat HEIGHT).
Proof. reflexivity. Qed.
Example src_binary_search_halves : src_c12_binary_search_divider = Some 2%N.
Proof. reflexivity. Qed.
Example src_mainnet_is_network_0 : src_c12_mainnet_network_id = Some 0%N.
Proof. reflexivity. Qed.

(* ================= the translated Go code =================
   Gen/GenL1InfoIndex.v is GENERATED on every run from bridgeservice/bridge.go: the two binary searches behind the l1-info-tree-index
   endpoint (`for lower <= upper { .. break .. }` as a fixpoint on explicit fuel; the syncer calls are oracles, instantiated with the
   model's stores, a call that reports no error returning a non-nil result; every pointer dereferenced without a test in sight is a
   panic parameter). They compute the model's first_index_l1 / first_index_l2 - the subject of the index_search_* theorems above - for
   every value of the panic and out-of-fuel parameters: same index, an error in the same cases, out of fuel for the same fuel. *)
From Verif Require Base.GoNum Gen.GenL1InfoIndex Proofs.GenAgreeL1InfoIndex.
Theorem C12_generated_index_search_l1_is_model : forall (hash : Type) (St : @stores hash) (panicv nofuel : N * GoNum.gerr) (dc : N),
  (forall x, li_last_info (s_li St) = Some x -> (i_block x < GoNum.U64)%N) ->
  (forall x, li_first_info (s_li St) = Some x -> (i_block x < GoNum.U64)%N) ->
  let gen := GenL1InfoIndex.getFirstL1InfoTreeIndexForL1Bridge hash (GenAgreeL1InfoIndex.o_lastInfo St) (GenAgreeL1InfoIndex.o_rootL1 St)
               (GenAgreeL1InfoIndex.o_firstInfo St) (GenAgreeL1InfoIndex.o_infoAfter St) panicv nofuel FUEL dc in
  match first_index_l1 St dc with
  | Ok i => gen = (i, GoNum.EOK)
  | Err EFuel => gen = nofuel
  | Err _ => GenAgreeL1InfoIndex.err_res gen
  end.
Proof. intros hash St panicv nofuel dc H1 H2. exact (GenAgreeL1InfoIndex.getFirstL1InfoTreeIndexForL1Bridge_agree St panicv nofuel dc H1 H2). Qed.
Theorem C12_generated_index_search_l2_is_model : forall (hash : Type) (St : @stores hash) (panicv nofuel : N * GoNum.gerr) (dc : N),
  (forall x, li_last_verified (s_li St) (s_net St) = Some x -> (v_block x < GoNum.U64)%N) ->
  (forall x, li_first_verified (s_li St) (s_net St) = Some x -> (v_block x < GoNum.U64)%N) ->
  let gen := GenL1InfoIndex.getFirstL1InfoTreeIndexForL2Bridge hash (s_net St) (GenAgreeL1InfoIndex.o_lastVer St) (GenAgreeL1InfoIndex.o_rootL2 St)
               (GenAgreeL1InfoIndex.o_firstVer St) (GenAgreeL1InfoIndex.o_infoWithRer St) (GenAgreeL1InfoIndex.o_verAfter St) panicv nofuel FUEL dc in
  match first_index_l2 St dc with
  | Ok i => gen = (i, GoNum.EOK)
  | Err EFuel => gen = nofuel
  | Err _ => GenAgreeL1InfoIndex.err_res gen
  end.
Proof. intros hash St panicv nofuel dc H1 H2. exact (GenAgreeL1InfoIndex.getFirstL1InfoTreeIndexForL2Bridge_agree St panicv nofuel dc H1 H2). Qed.

Print Assumptions claim_proof_verifies_l1.
Print Assumptions claim_proof_verifies_rollup.
Print Assumptions claim_proof_networks.
Print Assumptions index_search_sound_l1.
Print Assumptions index_search_sound_l2.
Print Assumptions index_search_names_covering_leaf.
Print Assumptions index_search_error_or_cover.
Print Assumptions index_search_terminates.
Print Assumptions verified_coherent_from_closed.
Print Assumptions index_search_not_minimal.
Print Assumptions index_search_block0_incomplete.
Print Assumptions exec_wf_blocks.
Print Assumptions exec_rer_lookup_sound.
Print Assumptions C12_generated_index_search_l1_is_model.
Print Assumptions C12_generated_index_search_l2_is_model.
