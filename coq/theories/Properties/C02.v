(* C02 — bridge exits settle exactly once through a gap-free certificate chain.
   Property theorems only (each closed by `exact` of a lemma of Proofs/AggsenderProofs.v), source-fact obligations,
   non-vacuity examples, Print Assumptions.

   The theorems are about `step` of Model/AggsenderProtocol.v (one iteration of the real sendCertificates loop per
   event), for EVERY exit-tree implementation that is some function of its leaves (hypotheses t_add_repr/t_add_root),
   every event payload type, both retry settings, every start block, every cut of the block range (MaxCertSize). *)
From Coq Require Import String.
From Coq Require Import NArith List Bool.
From Verif Require Import Base.Bytes Model.BridgeStore Model.Reconcile Model.AggsenderProtocol Proofs.AggsenderProofs Gen.SourceFacts.
Import ListNotations.
Open Scope N_scope.
Open Scope list_scope.

(* ---- source-fact obligations: what the model hard-wires is what the Go source says ---- *)
Example src_status_order :
  src_certificate_statuses = ["Pending"; "Proven"; "Candidate"; "InError"; "Settled"]%string.
Proof. reflexivity. Qed.
(* NonSettledStatuses = the statuses CheckPendingCertificatesStatus polls = is_open *)
Example src_open_statuses :
  src_non_settled_statuses = ["Pending"; "Candidate"; "Proven"]%string /\
  filter is_open [Pending; Proven; Candidate; InError; Settled] = [Pending; Proven; Candidate].
Proof. split; reflexivity. Qed.
Example src_one_row_per_height : src_certificate_info_pk = ["height"]%string.
Proof. reflexivity. Qed.
(* the pending gate of the send loop (the model's step submits on an epoch tick when no certificate is pending, on a status tick
   when none is pending, a new InError one appeared and RetryCertAfterInError is set): every call of sendCertificate in
   sendCertificates stands under exactly these tests, and the result they read was obtained from CheckPendingCertificatesStatus
   in the same iteration *)
Example src_send_is_gated :
  src_c02_send_gates = [["!checkResult.ExistPendingCerts && checkResult.ExistNewInErrorCert"; "a.cfg.RetryCertAfterInError"];
                        ["!checkResult.ExistPendingCerts"]]%string /\
  src_c02_gate_is_fresh = true.
Proof. split; reflexivity. Qed.

Section C02.
Variable hash : Type.                     (* exit roots, leaf hashes *)
Variables bev cev : Type.                 (* what the node stores about a bridge / claim event *)
Variable b_leaf : bev -> hash.
Variable b_dc : bev -> N.
Variable tree : Type.
Variable t_add : tree -> hash -> tree * hash.
Variable retry_immediately : bool.        (* both settings *)
Variable start_block : N.
Variable start_ler : hash.
Variable require_events : bool.
Variable cert_type : N.
Variable repr : tree -> list hash.
Variable root_of : list hash -> hash.
Hypothesis t_add_repr : forall t x, repr (fst (t_add t x)) = repr t ++ [x].
Hypothesis t_add_root : forall t x, snd (t_add t x) = root_of (repr t ++ [x]).

Notation stateT := (state hash bev cev tree).
Notation Inv := (Inv hash bev cev b_leaf b_dc tree start_block start_ler repr root_of).
Notation Init := (Init hash bev cev b_leaf b_dc tree start_block start_ler repr root_of).
Notation step := (step hash bev cev b_leaf b_dc tree t_add retry_immediately start_block start_ler require_events cert_type).
Notation run := (run hash bev cev b_leaf b_dc tree t_add retry_immediately start_block start_ler require_events cert_type).
Notation built_ok := (built_ok hash bev cev b_leaf tree start_block start_ler cert_type root_of).
Notation tick_state := (tick_state hash bev cev tree).
Notation sub_ok := (sub_ok hash bev cev start_block start_ler).

(* the invariant holds in every initial state (history consistent with the configuration, nothing sent) ... *)
Theorem C02_Inv_init : forall s : stateT, Init s -> Inv s.
Proof. exact (Inv_init hash bev cev b_leaf b_dc tree start_block start_ler repr root_of). Qed.

(* ... every event preserves it ... *)
Theorem C02_step_preserves_Inv : forall (s : stateT) e, Inv s -> Inv (fst (step s e)).
Proof.
  exact (step_preserves_Inv hash bev cev b_leaf b_dc tree t_add retry_immediately start_block start_ler require_events cert_type
           repr root_of t_add_repr t_add_root).
Qed.

(* ... so it holds after EVERY schedule of {new block, epoch tick, status tick, Agglayer move, Agglayer failure},
   of any length (induction, not enumeration) *)
Theorem C02_reachable_Inv : forall (s0 : stateT) evs, Init s0 -> Inv (run s0 evs).
Proof.
  exact (reachable_Inv hash bev cev b_leaf b_dc tree t_add retry_immediately start_block start_ler require_events cert_type
           repr root_of t_add_repr t_add_root).
Qed.

(* First sentence of C02. A step submits at most one certificate; relative to the local records as refreshed from the
   Agglayer at the start of the tick (tick_state), built_ok says: [sub_ok] height = last settled + 1, previous LER = its
   new LER, first block = its last block + 1 (0 / start LER / StartL2Block+1 when there is none), or, when the top
   certificate is in error, the same height, previous LER and first block with a retry count > 0; the new row replaces the
   row of that height and the table stays a gap-free chain; the range is non-empty and synced; exits, claims, exit roots
   and metadata are those of the range. *)
Theorem C02_submissions_well_formed : forall (s : stateT) e s' subs, Inv s -> step s e = (s', subs) ->
  subs = [] \/ exists sb rc, subs = [sb] /\ built_ok (tick_state s) sb rc /\
                            rows s' = replace_top (rows (tick_state s)) (sub_row sb rc).
Proof.
  exact (submissions_well_formed hash bev cev b_leaf b_dc tree t_add retry_immediately start_block start_ler require_events cert_type
           repr root_of t_add_repr t_add_root).
Qed.
(* what built_ok says about height / previous LER / first block, spelled out *)
Theorem C02_built_ok_unfolds : forall (s : stateT) sb rc, built_ok s sb rc -> sub_ok (rows s) sb /\ s_from sb <= s_to sb /\ s_to sb <= synced s.
Proof. intros s sb rc (H1 & _ & _ & H4 & H5 & _). exact (conj H1 (conj H5 H4)). Qed.

(* the records a certificate is built from carry the Agglayer's verdicts (no stale "settled" / "in error") *)
Theorem C02_local_view_is_agglayer_view : forall (s : stateT) sb rc, Inv s -> built_ok s sb rc ->
  forall r, In r (rows s) -> exists c, In c (agg s) /\ a_id c = cid r /\ a_height c = height r /\ a_st c = st r.
Proof. exact (local_view_is_agglayer_view hash bev cev b_leaf b_dc tree start_block start_ler cert_type repr root_of). Qed.

(* A replacement's previous exit root does not depend on whether the row in error stores it (rows rebuilt at start-up
   from an Agglayer header without prev_local_exit_root do not): getNextHeightAndPreviousLER's fallback - start LER at
   height 0, else the new LER of the settled row below - returns the same root on a gap-free chain. Inv does not mention
   the stored field, so every theorem of this file holds for such tables too. *)
Theorem C02_inerror_prev_ler_fallback : forall l sy (top : row hash bev cev) rest,
  chain_ok hash bev cev b_leaf start_block start_ler root_of l sy (top :: rest) -> st top = InError ->
  r_hasprev top = true \/ height top = 0 \/ rest <> [] ->       (* otherwise (base of a rebuilt table, no stored LER) the node refuses *)
  next_height_ler hash bev cev start_ler (top :: rest) (Some top) = Some (height top, prev top).
Proof. exact (inerror_prev_ler hash bev cev b_leaf tree t_add start_block start_ler repr root_of t_add_repr t_add_root). Qed.

(* Second sentence: no certificate is submitted while an earlier one is still undecided at the Agglayer *)
Theorem C02_no_submission_while_undecided : forall (s : stateT) e s' subs,
  Inv s -> step s e = (s', subs) -> subs <> [] -> all_closed (agg s).
Proof.
  exact (no_submission_while_undecided hash bev cev b_leaf b_dc tree t_add retry_immediately start_block start_ler require_events
           cert_type repr root_of).
Qed.

(* Third sentence: the settled certificates of the table, read in height order, contain every bridge exit and every claim
   of the blocks (first block of the lowest row) .. (last block of the last settled certificate) exactly once and in
   chain order. The lowest row is the first certificate unless the database was lost (C02_origin_run below): then the range
   starts at StartL2Block+1. *)
Theorem C02_settled_exactly_once : forall s : stateT, Inv s ->
  concat (map r_exits (settled_rows (rows s))) =
    bridges_in (l2 s) (base_from hash bev cev start_block (rows s)) (settled_to hash bev cev start_block (rows s)) /\
  concat (map r_imported (settled_rows (rows s))) =
    claims_in (l2 s) (base_from hash bev cev start_block (rows s)) (settled_to hash bev cev start_block (rows s)).
Proof. exact (settled_exactly_once hash bev cev b_leaf b_dc tree t_add start_block start_ler repr root_of t_add_repr t_add_root). Qed.
Theorem C02_base_from_origin : forall l sy rs, chain_ok hash bev cev b_leaf start_block start_ler root_of l sy rs ->
  origin hash bev cev rs -> base_from hash bev cev start_block rs = start_block + 1.
Proof. exact (base_from_origin hash bev cev b_leaf start_block start_ler root_of). Qed.
(* the table reaches down to height 0 after every restart-free schedule from an initial state *)
Theorem C02_origin_run : forall (s0 : stateT) evs, Init s0 -> origin hash bev cev (rows (run s0 evs)).
Proof.
  exact (origin_run hash bev cev b_leaf b_dc tree t_add retry_immediately start_block start_ler require_events cert_type
           repr root_of t_add_repr t_add_root).
Qed.

(* all three for every schedule *)
Theorem C02_every_schedule : forall (s0 : stateT) evs e s' subs, Init s0 -> step (run s0 evs) e = (s', subs) ->
  (subs <> [] -> all_closed (agg (run s0 evs))) /\
  (subs = [] \/ exists sb rc, subs = [sb] /\ built_ok (tick_state (run s0 evs)) sb rc) /\
  concat (map r_exits (settled_rows (rows s'))) = bridges_in (l2 s') (start_block + 1) (settled_to hash bev cev start_block (rows s')) /\
  concat (map r_imported (settled_rows (rows s'))) = claims_in (l2 s') (start_block + 1) (settled_to hash bev cev start_block (rows s')).
Proof.
  intros s0 evs e s' subs Hi Hs. pose proof (C02_reachable_Inv s0 evs Hi) as HI. split; [|split].
  - exact (C02_no_submission_while_undecided _ _ _ _ HI Hs).
  - destruct (C02_submissions_well_formed _ _ _ _ HI Hs) as [H|(sb & rc & H1 & H2 & _)]; [left; exact H|right; eauto].
  - pose proof (C02_step_preserves_Inv _ e HI) as HI'. pose proof (C02_origin_run s0 (evs ++ [e]) Hi) as Ho.
    unfold AggsenderProtocol.run in Ho. rewrite fold_left_app in Ho. cbn [fold_left] in Ho.
    change (fold_left _ evs s0) with (run s0 evs) in Ho. rewrite Hs in HI', Ho. cbn [fst] in HI', Ho.
    destruct HI' as (Hh & Hcfg & Hc & Ha). rewrite <- (C02_base_from_origin _ _ _ Hc Ho).
    exact (C02_settled_exactly_once _ (conj Hh (conj Hcfg (conj Hc Ha)))).
Qed.

(* ---- aggchain-prover flow: PARTIAL.
   Same invariant and consequences for the loop around build_fep (model of AggchainProverFlow.GetCertificateBuildParams: an
   InError certificate is resent with the same block range; the prover's end block is used only inside the requested
   range; empty certificates allowed), for an ARBITRARY prover oracle and with or without a stored proof.
   build_fep is tied to flow_aggchain_prover.go by the FEP stream of the harness (the REAL AggchainProverFlow with a
   scripted prover: EndBlock = requested / shorter / outside the range / error; stored proof present), compared event
   by event like the PP flow. Still partial: optimistic mode, a certificate in error of another certificate type, a
   missing stored proof, maxL2BlockNumber and the injected-GER proofs are not driven. *)
Notation step_fep prover hp :=
  (step_gen hash bev cev b_leaf b_dc tree t_add retry_immediately
            (build_fep hash bev cev b_dc tree start_block start_ler require_events cert_type prover hp)).
Theorem C02_step_preserves_Inv_fep_partial : forall prover hp (s : stateT) e, Inv s -> Inv (fst (step_fep prover hp s e)).
Proof.
  exact (step_preserves_Inv_fep_partial hash bev cev b_leaf b_dc tree t_add retry_immediately start_block start_ler require_events
           cert_type repr root_of t_add_repr t_add_root).
Qed.
Theorem C02_reachable_Inv_fep_partial : forall prover hp (s0 : stateT) evs, Init s0 ->
  Inv (run_gen hash bev cev b_leaf b_dc tree t_add retry_immediately
         (build_fep hash bev cev b_dc tree start_block start_ler require_events cert_type prover hp) s0 evs).
Proof.
  exact (reachable_Inv_fep_partial hash bev cev b_leaf b_dc tree t_add retry_immediately start_block start_ler require_events
           cert_type repr root_of t_add_repr t_add_root).
Qed.
Theorem C02_submissions_well_formed_fep_partial : forall prover hp (s : stateT) e s' subs, Inv s -> step_fep prover hp s e = (s', subs) ->
  subs = [] \/ exists sb rc, subs = [sb] /\ built_ok (tick_state s) sb rc /\
                            rows s' = replace_top (rows (tick_state s)) (sub_row sb rc).
Proof.
  exact (submissions_well_formed_fep_partial hash bev cev b_leaf b_dc tree t_add retry_immediately start_block start_ler require_events
           cert_type repr root_of t_add_repr t_add_root).
Qed.
Theorem C02_no_submission_while_undecided_fep_partial : forall prover hp (s : stateT) e s' subs,
  Inv s -> step_fep prover hp s e = (s', subs) -> subs <> [] -> all_closed (agg s).
Proof.
  exact (no_submission_while_undecided_fep_partial hash bev cev b_leaf b_dc tree t_add retry_immediately start_block start_ler
           require_events cert_type repr root_of).
Qed.
End C02.

(* ---- process restarts.
   Restart (same or lost certificate database), the start-up reconciliation and a crash between "accepted by the
   Agglayer" and "row stored" are events of Model/AggsenderProtocol.v rstep (generic in payloads and tree, exit roots =
   numbers); the reconciliation is Model/Reconcile.v recover (C13), not re-modelled. The executable instance xrstep is
   compared event by event with the real code and spec_c02 / spec_c03 judge what is submitted after a recovery.
   PROVED (below): Inv now also describes tables whose lowest row is not the first certificate (rows below absent) and
   rows without stored previous LER; every theorem above holds from ANY such state. A restart on the SAME database
   (no crash in flight) and a restart with the database LOST, with Agglayer headers carrying prev_local_exit_root,
   lead from a state satisfying RInv to a state satisfying Inv, not refused - using C13's recover_consistent /
   recover_insert_empty / recover_nothing / row_of_header_range for what the reconciliation returns.
   PARTIAL, exact missing lemmas:
   (1) view_agg_ok : RInv rs -> Reconcile.agg_ok (view_of (xr_info rs) (agg (xr_core rs))) - hypothesis Hview of both
       theorems. It needs an Agglayer-side height invariant (newest first, heights never increase going back, the newest
       certificate is above every settled one unless it is settled) that Inv, which ties the Agglayer to the local rows
       only, does not carry once lower rows may be absent.
   (2) rstep_preserves_RInv for RCore events (info_ok / head_ok / bounded are maintained by send, poll, new block) and
       for RCrashTick (C13's recover_insert_next / recover_different_id give the store; the refused case needs RInv to
       describe a node stuck in CheckInitialStatus). Without (2) the restart theorems are one-step statements.
   (3) headers WITHOUT prev_local_exit_root: the rebuilt row has no stored LER; Inv tolerates it
       (C02_inerror_prev_ler_fallback) but the round trip through Reconcile rows loses the (ghost) previous root.
   Settled-exactly-once relative to the Agglayer's settled chain after a lost database is not stated: the Agglayer
   model keeps only (id, height, status) per certificate. *)
Example C02_restart_free_is_step : forall retry start ler aggprev (c : xstate) info (e : xevent),
  xrstep retry start ler aggprev (XR c info false) (RCore e) =
  (XR (fst (xstep retry start ler c e)) (info ++ info_of (snd (xstep retry start ler c e))) false, snd (xstep retry start ler c e)).
Proof. intros. unfold xrstep, rstep, xstep. cbn [xr_recovering xr_core xr_info]. destruct e; destruct (step _ _ _ _ _ _ _ _ _ _ _ _ c _); reflexivity. Qed.
(* the executable restart events on a concrete run (toy leaves 11, 12): the first certificate is accepted but the process
   dies before storing it; the restart rebuilds the row from the Agglayer's header (no previous LER in it); the
   certificate goes InError; the replacement keeps height 0, first block 1 and the start LER *)
Example C02_nonvacuous_restart :
  let b k := mkB 0 k 0 1 5 2 6 (1000 + k) [] 0 in
  let run := fold_left (fun acc e => let '(s, subs) := xrstep true 0 empty_ler false (fst acc) e in (s, snd acc ++ subs)) in
  let '(s, subs) := run [RCore (NewBlock 0 [b 0] []); RCrashTick true 0; RCore (AggMove 0 InError); RCore (NewBlock 0 [b 1] []);
                         RCore (StatusTick 0); RRestart true]
                        (XR xstate_empty [] false, []) in
  map (fun sb => (s_height sb, s_from sb, s_to sb, s_retry sb, N.eqb (s_prev sb) empty_ler)) subs = [(0, 1, 1, 0, true); (0, 1, 2, 1, true)] /\
  map (fun r => (height r, cid r, st r, from r, to r, r_hasprev r)) (rows (xr_core s)) = [(0, 1, Pending, 1, 2, false)] /\
  xr_recovering s = false.
Proof. vm_compute. repeat split. Qed.

Section C02Restart.
Variables bev cev : Type.
Variable b_leaf : bev -> N.
Variable b_dc : bev -> N.
Variable tree : Type.
Variable t_add : tree -> N -> tree * N.
Variable start_block : N.
Variable start_ler : N.
Variable cert_type : N.
Variable repr : tree -> list N.
Variable root_of : list N -> N.
Hypothesis t_add_repr : forall t x, repr (fst (t_add t x)) = repr t ++ [x].
Hypothesis t_add_root : forall t x, snd (t_add t x) = root_of (repr t ++ [x]).
(* RInv rs = Inv (xr_core rs), and: the Agglayer's record of every local certificate carries the row's range and exit
   roots (info_ok); the newest certificate at the Agglayer is the top row's (head_ok: no crash in flight); block numbers
   and heights below 2^63, ranges shorter than 2^32 blocks, every row stores its previous LER (bounded) *)
Theorem C02_restart_lost_preserves_Inv : forall rs : rstate bev cev tree,
  RInv bev cev b_leaf b_dc tree start_block start_ler cert_type repr root_of rs ->
  Reconcile.agg_ok (view_of cert_type true (xr_info rs) (agg (xr_core rs))) ->
  Inv N bev cev b_leaf b_dc tree start_block start_ler repr root_of (xr_core (recover_x bev cev tree cert_type true true rs)) /\
  xr_recovering (recover_x bev cev tree cert_type true true rs) = false.
Proof. exact (restart_lost_preserves_Inv bev cev b_leaf b_dc tree t_add start_block start_ler cert_type repr root_of t_add_repr t_add_root). Qed.
Theorem C02_restart_kept_preserves_Inv : forall rs : rstate bev cev tree,
  RInv bev cev b_leaf b_dc tree start_block start_ler cert_type repr root_of rs ->
  Reconcile.agg_ok (view_of cert_type true (xr_info rs) (agg (xr_core rs))) ->
  Inv N bev cev b_leaf b_dc tree start_block start_ler repr root_of (xr_core (recover_x bev cev tree cert_type true false rs)) /\
  xr_recovering (recover_x bev cev tree cert_type true false rs) = false.
Proof. exact (restart_kept_preserves_Inv bev cev b_leaf b_dc tree t_add start_block start_ler cert_type repr root_of t_add_repr t_add_root). Qed.
End C02Restart.

(* the hypotheses of the restart theorems are met by a concrete state: one block, one certificate pending at the Agglayer *)
Example C02_nonvacuous_RInv :
  let rs := XR (demo_run true demo_empty [NewBlock 0 [(0, 11); (1, 12)] [7]; EpochTick 0]) [XI 0 1 1 7 7112] false in
  RInv (N * N) N snd fst (list N) 0 (demo_root []) 1 (fun l => l) demo_root rs /\
  Reconcile.agg_ok (view_of 1 true (xr_info rs) (agg (xr_core rs))) /\
  map (fun r => (height r, cid r, st r, from r, to r)) (rows (xr_core (recover_x (N * N) N (list N) 1 true true rs))) = [(0, 0, Pending, 1, 1)].
Proof.
  cbv zeta. split; [|split].
  - split; [|split; [|split]].
    + apply (reachable_Inv N (N * N) N snd fst (list N) (ref_add N demo_root) true 0 (demo_root []) true 1 (fun l => l) demo_root);
        try (intros; reflexivity); exact demo_init.
    + intros r Hr. vm_compute in Hr. destruct Hr as [<-|[]]. eexists. vm_compute. repeat split.
    + vm_compute. reflexivity.
    + split; [vm_compute; reflexivity|]. split; [vm_compute; reflexivity|]. intros r Hr. vm_compute in Hr. destruct Hr as [<-|[]].
      vm_compute. repeat split.
  - split.
    + intros s Hs. vm_compute in Hs. discriminate.
    + intros p Hp. vm_compute in Hp. inversion Hp; subst. vm_compute. split; [discriminate|reflexivity].
  - vm_compute. reflexivity.
Qed.

(* ---- non-vacuity: the tree hypotheses are met by the reference tree for ANY root function; a concrete schedule
   (two deposits and a claim, certificate 0 goes InError, is replaced at once with the same height and first block,
   the replacement settles, a new block, the next epoch submits height 1 from the settled one's new root) starts from
   an Init state, so the invariant and all three consequences apply to it ---- *)
Example C02_nonvacuous_tree : forall (root_of : list N -> N) t x,
  (fun l : list N => l) (fst (ref_add N root_of t x)) = t ++ [x] /\ snd (ref_add N root_of t x) = root_of (t ++ [x]).
Proof. intros. split; reflexivity. Qed.
Example C02_nonvacuous_init : Init N (N * N) N snd fst (list N) 0 (demo_root []) (fun l => l) demo_root demo_empty.
Proof. exact demo_init. Qed.
Example C02_nonvacuous_run :
  map (fun sb => (s_height sb, s_from sb, s_to sb, s_retry sb, s_prev sb, s_new sb, s_exits sb, s_imported sb))
      (snd (demo_run_from true demo_empty demo_schedule)) =
  [(0, 1, 1, 0, 7, 7112, [(0, 11); (1, 12)], [7]);
   (0, 1, 1, 1, 7, 7112, [(0, 11); (1, 12)], [7]);          (* the replacement: same height, same first block *)
   (1, 2, 3, 0, 7112, 220486, [(2, 13)], [])] /\
  map (fun r => (height r, cid r, st r, from r, to r)) (rows (demo_run true demo_empty demo_schedule)) =
  [(1, 2, Pending, 2, 3); (0, 1, Settled, 1, 1)] /\
  map height (settled_rows (rows (demo_run true demo_empty demo_schedule))) = [0].
Proof. vm_compute. repeat split. Qed.
Example C02_nonvacuous_inv :
  Inv N (N * N) N snd fst (list N) 0 (demo_root []) (fun l => l) demo_root (demo_run true demo_empty demo_schedule) /\
  Inv N (N * N) N snd fst (list N) 0 (demo_root []) (fun l => l) demo_root (demo_run false demo_empty demo_schedule).
Proof.
  split; apply (reachable_Inv N (N * N) N snd fst (list N) (ref_add N demo_root) _ 0 (demo_root []) true 1 (fun l => l) demo_root);
    try (intros; reflexivity); exact demo_init.
Qed.

(* ================= the translated Go code =================
   Gen/GenFlowBase.v is GENERATED on every run from aggsender/flows/flow_base.go (getLastSentBlockAndRetryCount,
   getNextHeightAndPreviousLER) and agglayer/types/types.go (the CertificateStatus predicates). The calls through the receiver
   (StartL2Block(), getStartLER(), storage.GetCertificateHeaderByHeight) are oracles of the generated functions; `hdr_of` reads a
   model row as the CertificateHeader the storage hands out, `by_height rs` is the table as that oracle. The generated functions
   decide what the model's last_sent_block / next_height_ler decide, for every row and table (uint64 heights, retry count below
   2^63 - 1), and so the height, previous exit root, first block and retry count of every certificate the model's builder returns
   are the outputs of the TRANSLATED functions. *)
From Coq Require Import ZArith.
From Verif Require Base.GoNum Gen.GenFlowBase Proofs.GenAgreeFlowBase.

Theorem C02_generated_status_predicates : forall s,
  GenFlowBase.CertificateStatus_IsOpen (status_code s) = is_open s /\ GenFlowBase.CertificateStatus_IsClosed (status_code s) = is_closed s /\
  GenFlowBase.CertificateStatus_IsSettled (status_code s) = is_settled s /\ GenFlowBase.CertificateStatus_IsInError (status_code s) = is_in_error s.
Proof.
  intros s. repeat split; [exact (GenAgreeFlowBase.IsOpen_agree s) | exact (GenAgreeFlowBase.IsClosed_agree s)
                          | exact (GenAgreeFlowBase.IsSettled_agree s) | exact (GenAgreeFlowBase.IsInError_agree s)].
Qed.
Theorem C02_generated_getLastSentBlockAndRetryCount_is_model : forall (hash bev cev : Type) (start_block : N) (last : option (row hash bev cev)),
  match last with Some r => (from r < GoNum.U64)%N /\ (Z.of_N (retry r) + 1 < 9223372036854775808)%Z | None => True end ->
  GenFlowBase.getLastSentBlockAndRetryCount hash start_block (option_map (GenAgreeFlowBase.hdr_of hash bev cev) last) =
  (fst (last_sent_block hash bev cev start_block last), Z.of_N (snd (last_sent_block hash bev cev start_block last))).
Proof. exact GenAgreeFlowBase.getLastSentBlockAndRetryCount_agree. Qed.
Theorem C02_generated_getNextHeightAndPreviousLER_is_model : forall (hash bev cev : Type) (hash0 start_ler : hash) (rs : list (row hash bev cev)) last,
  match last with Some r => (height r + 1 < GoNum.U64)%N | None => True end ->
  match next_height_ler hash bev cev start_ler rs last with
  | Some (h, p) => GenFlowBase.getNextHeightAndPreviousLER hash hash0 (start_ler, GoNum.EOK) (GenAgreeFlowBase.by_height hash bev cev rs)
                     (option_map (GenAgreeFlowBase.hdr_of hash bev cev) last) = (h, p, GoNum.EOK)
  | None => snd (GenFlowBase.getNextHeightAndPreviousLER hash hash0 (start_ler, GoNum.EOK) (GenAgreeFlowBase.by_height hash bev cev rs)
                     (option_map (GenAgreeFlowBase.hdr_of hash bev cev) last)) <> GoNum.EOK
  end.
Proof. exact GenAgreeFlowBase.getNextHeightAndPreviousLER_agree. Qed.
Theorem C02_generated_decides_height_and_previous_root : forall (hash bev cev : Type) (hash0 start_ler : hash) (b_dc : bev -> N) (tree : Type)
  (require_events : bool) (cert_type : N) (s : state hash bev cev tree) last rc f t sb rc',
  match last with Some r => (height r + 1 < GoNum.U64)%N | None => True end ->
  build_range hash bev cev b_dc tree start_ler require_events cert_type s last rc f t = Some (sb, rc') ->
  GenFlowBase.getNextHeightAndPreviousLER hash hash0 (start_ler, GoNum.EOK) (GenAgreeFlowBase.by_height hash bev cev (rows s))
    (option_map (GenAgreeFlowBase.hdr_of hash bev cev) last) = (s_height sb, s_prev sb, GoNum.EOK).
Proof. exact GenAgreeFlowBase.built_height_and_prev_are_generated. Qed.
Theorem C02_generated_decides_first_block_and_retry : forall (hash bev cev : Type) (start_block : N) (start_ler : hash) (b_dc : bev -> N) (tree : Type)
  (require_events : bool) (cert_type : N) (s : state hash bev cev tree) cut sb rc,
  match hd_error (rows s) with Some r => (from r < GoNum.U64)%N /\ (Z.of_N (retry r) + 1 < 9223372036854775808)%Z | None => True end ->
  build hash bev cev b_dc tree start_block start_ler require_events cert_type s cut = Some (sb, rc) ->
  GenFlowBase.getLastSentBlockAndRetryCount hash start_block (option_map (GenAgreeFlowBase.hdr_of hash bev cev) (hd_error (rows s))) =
  ((s_from sb - 1)%N, Z.of_N rc).
Proof. exact GenAgreeFlowBase.built_start_and_retry_are_generated. Qed.

(* ... and the rule that a replacement starts at the first block of the certificate in error it replaces (the model's test in
   build_range): verifyRetryCertStartingBlock, GENERATED in Gen/GenLimitCert.v on top of the translated IsARetry. For EVERY value of the
   panic parameter: LastSentCertificate is dereferenced only after IsARetry() has shown it to be non-nil. *)
From Verif Require Gen.GenBuildParams Gen.GenLimitCert Proofs.GenAgreeBuildParams Proofs.GenAgreeLimitCert Model.CertCut.
Theorem C02_generated_verifyRetryCertStartingBlock_rule : forall (panicv : GoNum.gerr) (c : GenBuildParams.CertificateBuildParams),
  GenLimitCert.verifyRetryCertStartingBlock panicv (Some c) =
  if CertCut.is_retry (GenAgreeBuildParams.abs c) &&
     negb (GenBuildParams.CertificateBuildParams_FromBlock c =?
             match GenBuildParams.CertificateBuildParams_LastSentCertificate c with
             | Some h => GenBuildParams.CertificateHeader_FromBlock h | None => 0 end)%N
  then GoNum.EFail else GoNum.EOK.
Proof. exact GenAgreeLimitCert.verifyRetryCertStartingBlock_closed_form. Qed.

(* which range a certificate is built over: GetCertificateBuildParamsInternal, GENERATED from flow_base.go on every run, reads the
   syncer's last processed block and the last sent header, starts one block after what getLastSentBlockAndRetryCount reports
   (the translated function of C02_generated_getLastSentBlockAndRetryCount_is_model), refuses when there is no new block, reads the
   events of exactly (that block .. last processed) and hands the certificate - retry count and last sent header included - to the
   size cut (the model's `build`: prev_to + 1 .. synced, then the cut) *)
From Verif Require Gen.GenGetParams Proofs.GenAgreeGetParams.
Theorem C02_generated_GetParams_rule : forall lastProcessedBlock lastSentCertificateHeader lastSentBlockAndRetryCount bridgesAndClaims cut (ct : N),
  GenAgreeGetParams.gen_get_params lastProcessedBlock lastSentCertificateHeader lastSentBlockAndRetryCount bridgesAndClaims cut ct =
  let '(synced, e1) := lastProcessedBlock in
  if negb (GoNum.err_eqb e1 GoNum.EOK) then (None, GoNum.err_wrap e1) else
  let '(last, e2) := lastSentCertificateHeader in
  if negb (GoNum.err_eqb e2 GoNum.EOK) then (None, e2) else
  let '(prev, rc) := lastSentBlockAndRetryCount last in
  if (synced <=? prev)%N then (None, GoNum.EFail) else
  let '(bs, cs, e3) := bridgesAndClaims (GoNum.u64_add prev 1) synced in
  if negb (GoNum.err_eqb e3 GoNum.EOK) then (None, e3) else
  let '(r, e4) := cut (Some (GenAgreeGetParams.full prev synced bs cs rc last ct)) in
  if negb (GoNum.err_eqb e4 GoNum.EOK) then (None, GoNum.err_wrap e4) else (r, GoNum.EOK).
Proof. exact GenAgreeGetParams.GetParams_rule. Qed.

(* the aggchain-prover flow asks the prover to prove from the block after getLastProvenBlock: GENERATED from flow_aggchain_prover.go
   on every run, it is max(start block, first block - 1) in a run of the flow (first block = last certificate's end + 1), and the
   start block for a first certificate - the model's build_fep asks the prover for (first block - 1, end) *)
From Verif Require Gen.GenLastProven Proofs.GenAgreeProverFlow.
Theorem C02_generated_getLastProvenBlock_closed_form : forall (start from : N) (last : option GenLastProven.CertificateHeader),
  (from < GoNum.U64)%N ->
  GenLastProven.getLastProvenBlock start from last =
  (if from =? 0 then start
   else if match last with Some h => GenLastProven.CertificateHeader_ToBlock h <? start | None => false end then start
   else N.max start (from - 1))%N.
Proof. exact GenAgreeProverFlow.getLastProvenBlock_closed_form. Qed.

Print Assumptions C02_Inv_init.
Print Assumptions C02_step_preserves_Inv.
Print Assumptions C02_reachable_Inv.
Print Assumptions C02_submissions_well_formed.
Print Assumptions C02_built_ok_unfolds.
Print Assumptions C02_local_view_is_agglayer_view.
Print Assumptions C02_inerror_prev_ler_fallback.
Print Assumptions C02_no_submission_while_undecided.
Print Assumptions C02_settled_exactly_once.
Print Assumptions C02_base_from_origin.
Print Assumptions C02_origin_run.
Print Assumptions C02_restart_lost_preserves_Inv.
Print Assumptions C02_restart_kept_preserves_Inv.
Print Assumptions C02_every_schedule.
Print Assumptions C02_step_preserves_Inv_fep_partial.
Print Assumptions C02_reachable_Inv_fep_partial.
Print Assumptions C02_submissions_well_formed_fep_partial.
Print Assumptions C02_no_submission_while_undecided_fep_partial.
Print Assumptions C02_generated_status_predicates.
Print Assumptions C02_generated_getLastSentBlockAndRetryCount_is_model.
Print Assumptions C02_generated_getNextHeightAndPreviousLER_is_model.
Print Assumptions C02_generated_decides_height_and_previous_root.
Print Assumptions C02_generated_decides_first_block_and_retry.
Print Assumptions C02_generated_verifyRetryCertStartingBlock_rule.
Print Assumptions C02_generated_GetParams_rule.
Print Assumptions C02_generated_getLastProvenBlock_closed_form.
