(* Injected-GER store (lastgersync processor) under storage faults and reorgs: the part of properties C07 and C04
   that quantifies over this store. Only statements closed by `exact`, an example, Print Assumptions. *)
From Coq Require Import NArith List Bool.
From Verif Require Import Model.GerIndex Proofs.GerIndexProofs.
Import ListNotations.
Open Scope N_scope.

(* C07: a failed ProcessBlock leaves both tables unchanged, for every fault position (block insert, k-th GER insert,
   k-th deleted GER row) and every block (any number of events, including primary-key clashes) ... *)
Theorem GerStore_fault_atomic : forall f st blk e st', process_block_f f st blk = (Some e, st') -> st' = st.
Proof. exact ger_fault_atomic. Qed.

(* ... hence the last processed block, the rows and every query answer are unchanged *)
Theorem GerStore_fault_atomic_queries : forall f st blk e st' x, process_block_f f st blk = (Some e, st') ->
  last_processed st' = last_processed st /\ s_rows st' = s_rows st /\ first_ger_after st' x = first_ger_after st x.
Proof. exact ger_fault_atomic_queries. Qed.

(* C07: when ProcessBlock reports success the whole block was recorded (= the fault-free transaction) *)
Theorem GerStore_ok_records_whole_block : forall f st blk st',
  process_block_f f st blk = (None, st') -> process_block st blk = Some st'.
Proof. exact ger_ok_records_whole_block. Qed.

(* C07: processing the same block again after a failure = the run in which the failure never happened *)
Theorem GerStore_retry_clean : forall f st blk e st1,
  process_block_f f st blk = (Some e, st1) -> process_block_f None st1 blk = process_block_f None st blk.
Proof. exact ger_retry_clean. Qed.

Theorem GerStore_no_fault_is_plain : forall st blk,
  process_block_f None st blk =
  match process_block st blk with Some st' => (None, st') | None => (Some GConstraint, st) end.
Proof. exact ger_no_fault. Qed.

(* C04: Reorg(b) of the store that saw the event blocks 1..h = the store that saw only the blocks below b, when no
   dropped block carried a removal ... *)
Theorem GerStore_reorg_as_if_never_seen : forall ch b h, no_removal_in ch b h ->
  reorg b (asif_store ch h) = asif_store ch (N.min h (b - 1)).
Proof. intros ch b h. exact (proj2 (reorg_asif ch b h)). Qed.

(* ... and in general it has the same block table and a subset of the rows: a removal in a dropped block deleted
   rows of surviving blocks for good (destructive DELETE; known finding C16:ger-remove-then-reorg) *)
Theorem GerStore_reorg_rows_included : forall ch b h,
  s_blocks (reorg b (asif_store ch h)) = s_blocks (asif_store ch (N.min h (b - 1))) /\
  incl (s_rows (reorg b (asif_store ch h))) (s_rows (asif_store ch (N.min h (b - 1)))).
Proof. intros ch b h. exact (proj1 (reorg_asif ch b h)). Qed.

(* non-vacuity: a fault on the second GER insert of a block aborts the whole block; the retry records it *)
Example GerStore_nonvacuous :
  let st := {| s_blocks := [3]; s_rows := [{| r_blk := 3; r_ger := 7; r_idx := 1 |}] |} in
  process_block_f (Some (GGerDel, 0%nat)) st (5, [rmv 7]) = (Some GFault, st) /\
  process_block_f (Some (GGerIns, 0%nat)) st (5, [rmv 7; ins 8 2]) = (Some GFault, st) /\
  process_block_f (Some (GGerIns, 1%nat)) st (5, [rmv 7; ins 8 2]) =
    (None, {| s_blocks := [3; 5]; s_rows := [{| r_blk := 5; r_ger := 8; r_idx := 2 |}] |}) /\
  process_block_f None st (5, [ins 8 2; ins 9 3]) = (Some GConstraint, st).
Proof. repeat split; reflexivity. Qed.

Print Assumptions GerStore_fault_atomic.
Print Assumptions GerStore_fault_atomic_queries.
Print Assumptions GerStore_ok_records_whole_block.
Print Assumptions GerStore_retry_clean.
Print Assumptions GerStore_no_fault_is_plain.
Print Assumptions GerStore_reorg_as_if_never_seen.
Print Assumptions GerStore_reorg_rows_included.
