(* C18 — each epoch is announced exactly once, at the first block past the threshold.
   This file contains only the property theorems (each closed by `exact` of a lemma proved in Proofs/),
   non-vacuity examples, the source-fact obligation and Print Assumptions.

   Reading guide. `run S0 n P (init S0 n) bs` is the list of (block, epoch) events the loop of startInternal
   publishes when the blocks `bs` are delivered (Model/Epoch.v, transcription of the Go code with the float64
   quotients written as exact rationals). `expected S0 n P bs` is the reference: the deliveries that are new maxima
   above S0 (`effective`), of which those are kept that qualify (`ref_qualifies`: position/n >= P/100, or last block
   of the epoch) and have no earlier qualifying delivery in the same epoch (`first_qualifying`), each paired with
   its epoch (`ref_epoch`). All statements hold for EVERY S0, every n >= 1, every P (in particular all P < 100 the
   config allows) and every finite delivery sequence, by induction; none is a bounded sweep.
   The float64 part (last section) is proved for n < 2^45 and is false from about 2^46 on (witness included). *)
From Coq Require Import NArith List Bool Sorted String.
From Verif Require Gen.GenEpoch.
From Verif Require Import Base.GoNum Model.Epoch Model.EpochFloat Proofs.EpochProofs Proofs.EpochFloatProofs Gen.SourceFacts Proofs.GenAgreeEpoch.
Import ListNotations.
Open Scope N_scope.

(* source-fact obligation: the model divides the percentage by 100 because the source does *)
Example src_max_percent_is_model : src_c18_max_percent_expr = Some "100.0"%string.
Proof. reflexivity. Qed.

(* ---------------------------------------------------------------------------------------------- *)
(* the meaning of the reference                                                                     *)
(* ---------------------------------------------------------------------------------------------- *)

(* epoch e >= 1 is the block interval [S0+(e-1)n, S0+e*n) *)
Theorem C18_ref_epoch_meaning : forall S0 n, 1 <= n -> forall b e, S0 <= b ->
  (ref_epoch S0 n b = e <-> 1 <= e /\ S0 + (e - 1) * n <= b < S0 + e * n).
Proof. exact ref_epoch_spec. Qed.

(* the last block of every epoch qualifies, whatever the percentage (the meaning of the clamp) *)
Theorem C18_last_block_always_qualifies : forall S0 n P, 1 <= n -> forall e, 1 <= e ->
  ref_qualifies S0 n P (S0 + e * n - 1) = true.
Proof. exact last_block_qualifies. Qed.

(* the Go test (isNotificationRequired) in closed form: notify iff the block qualifies and its epoch has not
   been announced; the announced epoch is the block's epoch *)
Theorem C18_is_notification_required_closed_form : forall S0 n P, 1 <= n -> forall b w, S0 <= b ->
  is_notification_required S0 n P b w = (ref_qualifies S0 n P b && (w <=? ref_epoch S0 n b), ref_epoch S0 n b).
Proof. exact is_notification_required_spec. Qed.

(* ---------------------------------------------------------------------------------------------- *)
(* the property                                                                                     *)
(* ---------------------------------------------------------------------------------------------- *)

(* what is published = the first qualifying block of every epoch that has one, for all parameters and all
   delivery sequences (gaps, repeats, decreasing deliveries and blocks below S0 included) *)
Theorem C18_outputs_characterised : forall S0 n P, 1 <= n -> forall bs,
  run S0 n P (init S0 n) bs = expected S0 n P bs.
Proof. exact outputs_characterised. Qed.

(* the per-case predicate `spec` of Model/C18Cases.v compares what the implementation published with this unfolding
   of `expected` (the part independent of the percentage is computed once per case) *)
Example C18_spec_reference_is_expected : forall S0 n P bs,
  expected S0 n P bs = map (fun b => (b, ref_epoch S0 n b)) (first_qualifying S0 n P [] (effective S0 bs)).
Proof. reflexivity. Qed.

(* the property as worded: for an increasing sequence of blocks above the starting block nothing is filtered *)
Theorem C18_increasing_sequences : forall S0 n P, 1 <= n -> forall bs,
  StronglySorted N.lt bs -> Forall (fun b => S0 < b) bs ->
  run S0 n P (init S0 n) bs = map (fun b => (b, ref_epoch S0 n b)) (first_qualifying S0 n P [] bs).
Proof. exact increasing_sequences. Qed.

(* epoch numbers in notifications strictly increase *)
Theorem C18_epochs_strictly_increase : forall S0 n P, 1 <= n -> forall bs,
  StronglySorted N.lt (map snd (run S0 n P (init S0 n) bs)).
Proof. exact epochs_strictly_increase. Qed.

(* at most one notification per epoch *)
Theorem C18_at_most_once_per_epoch : forall S0 n P, 1 <= n -> forall bs,
  NoDup (map snd (run S0 n P (init S0 n) bs)).
Proof. exact at_most_once_per_epoch. Qed.

(* no notification without a qualifying block, and the notification comes at the FIRST qualifying block *)
Theorem C18_none_without_qualifying_block : forall S0 n P, 1 <= n -> forall bs b e,
  In (b, e) (run S0 n P (init S0 n) bs) ->
  In b (effective S0 bs) /\ ref_qualifies S0 n P b = true /\ e = ref_epoch S0 n b /\
  forall b', In b' (effective S0 bs) -> b' < b -> ref_epoch S0 n b' = e -> ref_qualifies S0 n P b' = false.
Proof. exact none_without_qualifying_block. Qed.

(* at least one notification for every epoch in which a qualifying block is seen *)
Theorem C18_every_qualifying_epoch_announced : forall S0 n P, 1 <= n -> forall bs b,
  In b (effective S0 bs) -> ref_qualifies S0 n P b = true ->
  exists b0, In (b0, ref_epoch S0 n b) (run S0 n P (init S0 n) bs).
Proof. exact every_qualifying_epoch_announced. Qed.

(* boundary, stated openly: the initial status says "S0 has been seen", so a delivery of block S0 itself is
   dropped (with P = 0 epoch 1 is then announced at S0+1; with n = 1 epoch 1 is never announced) *)
Theorem C18_block_S_is_ignored : forall S0 n P, 1 <= n -> forall bs,
  run S0 n P (init S0 n) (S0 :: bs) = run S0 n P (init S0 n) bs.
Proof. exact block_S_is_ignored. Qed.

(* a delivery that is not above everything seen so far (repeat, older block, block below S0) changes nothing *)
Theorem C18_not_new_block_is_ignored : forall S0 n P, 1 <= n -> forall s b,
  S0 <= last_block_seen s -> b <= last_block_seen s -> step S0 n P s b = (s, None).
Proof. exact step_not_new. Qed.

(* ---------------------------------------------------------------------------------------------- *)
(* float64                                                                                          *)
(* ---------------------------------------------------------------------------------------------- *)

(* the threshold test on correctly rounded binary64 quotients (Model/EpochFloat.v, as the Go code computes it)
   equals the test on exact rationals, for every epoch length below 2^45 *)
Theorem C18_float_threshold_agrees : forall S0 n P b w, 1 <= n -> n < 2^45 -> P < 100 -> S0 <= b ->
  is_notification_required_f S0 n P b w = is_notification_required S0 n P b w.
Proof. exact float_threshold_agrees. Qed.

(* hence the whole loop publishes the same events on float64 as on exact rationals *)
Theorem C18_float_run_agrees : forall S0 n P, 1 <= n -> n < 2^45 -> P < 100 ->
  forall bs i s, run_ix_f S0 n P i s bs = run_ix S0 n P i s bs.
Proof. exact run_ix_f_agrees. Qed.

(* outside the claimed range, documented: at n ~ 2^46.6 the float test announces one block before the exact 57% *)
Theorem C18_float_differs_beyond :
  let n := 109313241698193 in let P := 57 in let b := 62308547767970 in
  2^46 < n /\ n < 2^47 /\
  fst (is_notification_required 0 n P b 1) = false /\ fst (is_notification_required_f 0 n P b 1) = true.
Proof. exact float_threshold_differs_beyond. Qed.

(* ---------------------------------------------------------------------------------------------- *)
(* non-vacuity: concrete non-trivial runs meeting the hypotheses                                    *)
(* ---------------------------------------------------------------------------------------------- *)

(* S0 = 5, epochs of 10 blocks (5..14, 15..24, 25..34, ...), 50%: the sequence jumps over the threshold block 10 of
   epoch 1 (announced at 12, the first seen block at or beyond it; not again at 14), sees epoch 2 only below its
   threshold (16, 19) and then jumps to 30, so epoch 2 is never announced; epoch 3 is announced at 30 (not again
   at 34); then six whole epochs are skipped *)
Example C18_nonvacuous_run :
  run 5 10 50 (init 5 10) [6; 9; 12; 14; 16; 19; 30; 34; 100] = [(12, 1); (30, 3); (100, 10)] /\
  expected 5 10 50 [6; 9; 12; 14; 16; 19; 30; 34; 100] = [(12, 1); (30, 3); (100, 10)] /\
  ref_qualifies 5 10 50 14 = true /\ ref_qualifies 5 10 50 19 = false /\ ref_epoch 5 10 19 = 2.
Proof. vm_compute. repeat split; reflexivity. Qed.

(* hypotheses of C18_increasing_sequences are met by that sequence *)
Example C18_nonvacuous_increasing :
  StronglySorted N.lt [6; 9; 12; 14; 16; 19; 30; 34; 100] /\
  Forall (fun b => 5 < b) [6; 9; 12; 14; 16; 19; 30; 34; 100].
Proof.
  split.
  - repeat (constructor; [|repeat constructor; reflexivity]). constructor.
  - repeat constructor; reflexivity.
Qed.

(* non-increasing deliveries are filtered, not mis-announced *)
Example C18_nonvacuous_effective :
  effective 5 [3; 5; 9; 9; 7; 12; 11; 30] = [9; 12; 30] /\
  run 5 10 50 (init 5 10) [3; 5; 9; 9; 7; 12; 11; 30] = [(12, 1); (30, 3)].
Proof. vm_compute. split; reflexivity. Qed.

(* epoch length 1: every block above S0 is its epoch's last block, so every new block announces its epoch;
   block S0 itself (epoch 1) is never announced *)
Example C18_nonvacuous_length_one :
  run 7 1 99 (init 7 1) [7; 8; 9; 12] = [(8, 2); (9, 3); (12, 6)].
Proof. vm_compute. reflexivity. Qed.

(* the clamp: 99% of 10 blocks is unreachable by position/n, the last block announces *)
Example C18_nonvacuous_clamp :
  run 0 10 99 (init 0 10) [8; 9; 18; 19; 20] = [(9, 1); (19, 2)].
Proof. vm_compute. reflexivity. Qed.

(* the float statement's hypotheses are met at the edge of its range, at an exact threshold position *)
Example C18_nonvacuous_float :
  let n := 2^45 - 100 in
  1 <= n /\ n < 2^45 /\
  is_notification_required_f 0 n 50 (n / 2) 1 = (true, 1) /\ is_notification_required_f 0 n 50 (n / 2 - 1) 1 = (false, 1).
Proof. vm_compute. repeat split; try reflexivity; intro H; discriminate H. Qed.

(* ---------------------------------------------------------------------------------------------- *)
(* the translated Go code                                                                           *)
(* ---------------------------------------------------------------------------------------------- *)

(* Gen/GenEpoch.v is GENERATED from aggsender/epoch_notifier_per_block.go by tools/go2coq on every run (uint64 arithmetic
   that wraps, float64 quotients as in the source). One step of the generated `step` is one step of the float model for
   all starting blocks and block numbers below 2^63 and epoch lengths 1 <= n < 2^63 ... *)
Theorem C18_generated_step_is_model : forall S0 n P, 1 <= n -> n < I63 -> forall s b, S0 < I63 -> b < I63 ->
  GenEpoch.step S0 n P (of_st s) b =
  (let '(s', o) := step_f S0 n P s b in (of_st s', option_map conv_ev o)).
Proof. exact step_agree. Qed.

(* ... hence THE PROPERTY HOLDS OF THE TRANSLATED CODE: for every configuration with 1 <= n < 2^45, P < 100 and every
   delivery sequence of block numbers below 2^63, the loop over the generated `step` publishes exactly
   (first qualifying block, epoch) for every epoch that has a qualifying delivery, once, in order *)
Theorem C18_generated_code_outputs_characterised : forall S0 n P, 1 <= n -> n < 2 ^ 45 -> P < 100 -> S0 < I63 ->
  forall bs, Forall (fun b => b < I63) bs ->
  gen_run S0 n P (of_st (init S0 n)) bs = expected S0 n P bs.
Proof. exact gen_run_is_expected. Qed.

Example C18_generated_nonvacuous :
  gen_run 5 10 50 (of_st (init 5 10)) [6; 9; 12; 14; 16; 19; 30; 34; 100] = [(12, 1); (30, 3); (100, 10)] /\
  Forall (fun b => b < I63) [6; 9; 12; 14; 16; 19; 30; 34; 100].
Proof. split; [vm_compute; reflexivity | repeat constructor]. Qed.

Print Assumptions C18_ref_epoch_meaning.
Print Assumptions C18_last_block_always_qualifies.
Print Assumptions C18_is_notification_required_closed_form.
Print Assumptions C18_outputs_characterised.
Print Assumptions C18_increasing_sequences.
Print Assumptions C18_epochs_strictly_increase.
Print Assumptions C18_at_most_once_per_epoch.
Print Assumptions C18_none_without_qualifying_block.
Print Assumptions C18_every_qualifying_epoch_announced.
Print Assumptions C18_block_S_is_ignored.
Print Assumptions C18_not_new_block_is_ignored.
Print Assumptions C18_float_threshold_agrees.
Print Assumptions C18_float_run_agrees.
Print Assumptions C18_float_differs_beyond.
Print Assumptions C18_generated_step_is_model.
Print Assumptions C18_generated_code_outputs_characterised.
