(* C17 — cutting a certificate's block range never drops, duplicates or reorders events.
   This file contains only the property theorems (each closed by `exact` of a lemma proved in
   Proofs/CertCutProofs.v), non-vacuity examples, source-fact obligations and Print Assumptions.

   Vocabulary (Model/CertCut.v): restrict c f t = c with exactly the events of blocks f..t, in the order of c's
   lists, other fields kept; events_in_range c = c's events lie in c's own range; wf_span c = from <= to < 2^64 and
   fewer than 2^63 blocks; fits size max c = max = 0 \/ size c <= max (0 = no limit). *)
From Coq Require Import NArith ZArith List Bool String.
From Verif Require Import Model.CertCut Proofs.CertCutProofs Gen.SourceFacts Gen.GenBlockRange Proofs.GenAgreeBlockRange.
Import ListNotations.
Open Scope N_scope.

(* source-fact obligations: the constants transcribed in Model/CertCut.v (est_bridge_exit = 9*1024/100, est_imported_exit =
   28*1024/10, est_signature = 7*1024/100, est_proof = 10*1024, claim_size_factor) are the ones in the Go source *)
Example src_kb_is_model : src_kb_expr = Some "1 << 10"%string /\ kb = N.shiftl 1 10.
Proof. split; reflexivity. Qed.
Example src_bridge_exit_size_is_model : src_estimated_bridge_exit_size_expr = Some "0.09 * aggkitcommon.KB"%string.
Proof. reflexivity. Qed.
Example src_imported_bridge_exit_size_is_model : src_estimated_imported_bridge_exit_size_expr = Some "2.8 * aggkitcommon.KB"%string.
Proof. reflexivity. Qed.
Example src_signature_size_is_model : src_estimated_aggchain_signature_size_expr = Some "0.07 * aggkitcommon.KB"%string.
Proof. reflexivity. Qed.
Example src_proof_size_is_model : src_estimated_aggchain_proof_size_expr = Some "10 * aggkitcommon.KB"%string.
Proof. reflexivity. Qed.
Example src_claim_size_factor_is_model : src_claim_size_factor = Some claim_size_factor.
Proof. reflexivity. Qed.

(* ---- Range ---- *)

(* a successful Range(f, t) returns first block f, last block t and exactly the events of blocks f..t in original order *)
Theorem C17_range_is_filter : forall c f t c',
  events_in_range c -> range_cut c f t = Ok c' ->
  c' = restrict c f t /\ p_from c' = f /\ p_to c' = t /\
  p_bridges c' = filter (in_range f t) (p_bridges c) /\ p_claims c' = filter (in_range f t) (p_claims c).
Proof. exact range_is_filter. Qed.

(* without any assumption on c's events, as soon as the requested range is not c's own *)
Theorem C17_range_strict_is_filter : forall c f t c',
  ~ (f = p_from c /\ t = p_to c) -> range_cut c f t = Ok c' -> c' = restrict c f t.
Proof. exact range_cut_strict. Qed.

(* cutting twice is cutting once: a successful cut of a successful cut of c is the cut of c itself to the final range, so
   repeated cuts (limitCertSize walks the end block down one block at a time, the block limiter and the prover flow cut
   again afterwards) lose nothing beyond what the final range says *)
Theorem C17_range_compose : forall c f1 t1 c1 f2 t2 c2,
  events_in_range c -> range_cut c f1 t1 = Ok c1 -> range_cut c1 f2 t2 = Ok c2 -> range_cut c f2 t2 = Ok c2.
Proof. exact range_cut_compose. Qed.

(* error cases: outside the certificate's range; inverted; success otherwise *)
Theorem C17_range_cases : forall c f t,
  (range_cut c f t = Err ENotWithin <-> ~ (f = p_from c /\ t = p_to c) /\ (f < p_from c \/ p_to c < t)) /\
  (range_cut c f t = Err EFromGtTo <-> ~ (f = p_from c /\ t = p_to c) /\ p_from c <= f /\ t <= p_to c /\ t < f) /\
  ((exists c', range_cut c f t = Ok c') <-> (f = p_from c /\ t = p_to c) \/ (p_from c <= f /\ f <= t /\ t <= p_to c)).
Proof. exact range_cut_cases. Qed.

(* ---- limitCertSize: for an ARBITRARY size function (no monotonicity: the Go loop tests every end block downwards) ---- *)

(* the cut keeps the first block, is the Range of the input ending at some block of the input range, fits the limit
   unless it is a single block, and no larger end block fits: it ends at the largest permitted block *)
Theorem C17_limit_keeps_first_and_is_maximal : forall (size : params -> N) (max : N) c c', wf_span c ->
  limit_cert_size size max c = LDone c' ->
  p_from c' = p_from c /\ p_from c <= p_to c' /\ p_to c' <= p_to c /\
  range_cut c (p_from c) (p_to c') = Ok c' /\
  (fits size max c' \/ p_to c' = p_from c') /\
  (forall t ct, p_to c' < t -> t <= p_to c -> range_cut c (p_from c) t = Ok ct -> ~ fits size max ct).
Proof. exact limit_keeps_first_and_is_maximal. Qed.

(* the loop terminates within limit_fuel iterations and never returns an error on a well-formed range *)
Theorem C17_limit_never_fails : forall (size : params -> N) (max : N) c, wf_span c ->
  exists c', limit_cert_size size max c = LDone c'.
Proof. exact limit_never_fails. Qed.

(* contents: exactly the events of the kept blocks, original order *)
Theorem C17_limit_result_is_filter : forall (size : params -> N) (max : N) c c', wf_span c -> events_in_range c ->
  limit_cert_size size max c = LDone c' -> c' = restrict c (p_from c) (p_to c').
Proof. exact limit_result_is_filter. Qed.

(* it exceeds the size limit only when it is a single block *)
Theorem C17_exceeds_limit_only_if_single_block : forall (size : params -> N) (max : N) c c', wf_span c ->
  limit_cert_size size max c = LDone c' -> ~ fits size max c' -> p_to c' = p_from c'.
Proof. exact exceeds_limit_only_if_single_block. Qed.

(* full statement (no bound on the number of blocks) is FALSE of the faithful model: NumberOfBlocks() = int(to-from+1)
   is <= 1 for spans >= 2^63, the loop returns the oversize multi-block certificate unchanged.
   Witness: from 0, to 2^63, two bridges, limit 1. Replayed on the real code by the harness (cases with note "span>=2^63"). *)
Theorem C17_exceeds_limit_unbounded_refuted :
  exists (size : params -> N) (max : N) (c c' : params),
    p_from c <= p_to c /\ p_to c < U64 /\ events_in_range c /\
    limit_cert_size size max c = LDone c' /\ ~ fits size max c' /\ p_from c' < p_to c'.
Proof. exact exceeds_limit_unbounded_refuted. Qed.

(* limit 0 = unlimited; a fitting certificate is returned as is *)
Theorem C17_limit_zero_is_identity : forall (size : params -> N) (max : N) c, max = 0 -> limit_cert_size size max c = LDone c.
Proof. exact limit_zero_is_identity. Qed.
Theorem C17_limit_fitting_is_identity : forall (size : params -> N) (max : N) c, fits size max c -> limit_cert_size size max c = LDone c.
Proof. exact limit_fitting_is_identity. Qed.

(* fuel: the capped-fuel evaluator used in the case files returns the definition's answer whenever it answers *)
Theorem C17_limit_exec_agrees : forall (size : params -> N) (max : N) c r,
  limit_cert_size_exec size max c = r -> r <> LOutOfFuel -> limit_cert_size size max c = r.
Proof. exact limit_exec_agrees. Qed.

(* ---- AdaptCertificate (configured last L2 block) ---- *)

Theorem C17_adapt_disabled : forall l oc, l_max l = 0 -> adapt_certificate l oc = Ok oc.
Proof. exact adapt_disabled. Qed.

Theorem C17_adapt_nil : forall l, l_max l <> 0 -> adapt_certificate l None = Err ANil.
Proof. exact adapt_nil. Qed.

(* success: same first block, last block = min (to, max) = the largest permitted block, contents = restriction;
   retry certificates are only resized when allowed *)
Theorem C17_adapt_clamps : forall l c r, l_max l <> 0 -> p_to c < U64 ->
  adapt_certificate l (Some c) = Ok r ->
  exists c', r = Some c' /\ p_from c' = p_from c /\ p_to c' = N.min (p_to c) (l_max l) /\
    (p_to c <= l_max l -> c' = c) /\
    (l_max l < p_to c -> c' = restrict c (p_from c) (l_max l) /\ p_from c <= l_max l /\ ~ retry_blocked l c /\
                          (l_require_bridge l = true -> p_bridges c' <> [])).
Proof. exact adapt_clamps. Qed.

(* the two cuts of the build pipeline in a row (size limit, then the configured last L2 block): what comes out is the
   ORIGINAL certificate restricted to first block .. min(end block kept by the size cut, configured maximum) *)
Theorem C17_limit_then_adapt : forall (size : params -> N) (max : N) l c c1 r,
  wf_span c -> events_in_range c -> limit_cert_size size max c = LDone c1 ->
  l_max l <> 0 -> p_to c1 < U64 -> adapt_certificate l (Some c1) = Ok r ->
  exists c2, r = Some c2 /\ c2 = restrict c (p_from c) (N.min (p_to c1) (l_max l)).
Proof. exact limit_then_adapt. Qed.

(* error cases characterised (iff), and exactly when the call succeeds *)
Theorem C17_adapt_errors_characterised : forall l c, l_max l <> 0 -> p_to c < U64 ->
  let M := l_max l in
  let n := restrict c (p_from c) M in
  let a := adapt_certificate l (Some c) in
  (a = Err ARetryExceeded <-> M < p_to c /\ retry_blocked l c) /\
  (a = Err ACompleteUpcoming <-> M < p_to c /\ ~ retry_blocked l c /\ p_from c = M + 1) /\
  (a = Err ACompleteFar <-> M < p_to c /\ ~ retry_blocked l c /\ M + 1 < p_from c) /\
  (a = Err ANoBridgesButClaims <->
     M < p_to c /\ ~ retry_blocked l c /\ p_from c <= M /\ l_require_bridge l = true /\ p_bridges n = [] /\ p_claims n <> []) /\
  (a = Err ACompleteNothing <->
     M < p_to c /\ ~ retry_blocked l c /\ p_from c <= M /\ l_require_bridge l = true /\ p_bridges n = [] /\ p_claims n = []) /\
  a <> Err ANil /\ (forall e, a <> Err (ARange e)) /\
  ((exists r, a = Ok r) <->
     p_to c <= M \/ (~ retry_blocked l c /\ p_from c <= M /\ (l_require_bridge l = true -> p_bridges n <> []))).
Proof. exact adapt_errors_characterised. Qed.

(* ---- BlockRange.Gap over uint64 (endpoints 0 and 2^64-1 included: wf_range only asks from <= to < 2^64) ---- *)

Theorem C17_gap_none_when_touching : forall b o, wf_range b -> wf_range o -> touching b o -> gap b o = R 0 0.
Proof. exact gap_none_when_touching. Qed.

Theorem C17_gap_exact : forall b o, wf_range b -> wf_range o -> ~ touching b o ->
  let g := gap b o in
  rf g <= rt g /\ rt g < U64 /\ (forall k, (rf g <= k /\ k <= rt g) <-> strictly_between b o k) /\
  ((rt b < rf o /\ g = R (rt b + 1) (rf o - 1)) \/ (rt o < rf b /\ g = R (rt o + 1) (rf b - 1))).
Proof. exact gap_exact. Qed.

Theorem C17_gap_empty_iff_touching : forall b o, wf_range b -> wf_range o -> (gap b o = R 0 0 <-> touching b o).
Proof. exact gap_empty_iff_touching. Qed.

Theorem C17_gap_is_empty_iff_touching : forall b o, wf_range b -> wf_range o ->
  (is_empty_range (gap b o) = true <-> touching b o).
Proof. exact gap_is_empty_iff_touching. Qed.

Theorem C17_gap_count : forall b o, wf_range b -> wf_range o -> ~ touching b o ->
  count_blocks (gap b o) = rt (gap b o) - rf (gap b o) + 1 /\ 0 < count_blocks (gap b o).
Proof. exact gap_count. Qed.

(* ---- non-vacuity ---- *)

(* blocks 10..12; block 10: bridge 1; block 11: bridge 2 + claim 7 (empty block none); block 12: bridge 3 with 1000 bytes of metadata *)
Definition ex_cert : params :=
  P 10 12 [Ev 10 0 1; Ev 11 0 2; Ev 12 1000 3] [Ev 11 0 7] 0%Z false TPP.

Example C17_nonvacuous_range : wf_span ex_cert /\ events_in_range ex_cert /\
  range_cut ex_cert 10 11 = Ok (P 10 11 [Ev 10 0 1; Ev 11 0 2] [Ev 11 0 7] 0%Z false TPP) /\
  range_cut ex_cert 9 11 = Err ENotWithin /\ range_cut ex_cert 12 11 = Err EFromGtTo.
Proof.
  split; [repeat split; vm_compute; congruence|].
  split; [split; repeat constructor|]. repeat split; reflexivity.
Qed.

(* with the real size estimate (float64 model): sizes of the prefixes are 163 (10..10), 3123 (10..11), 4215 (10..12) *)
Example C17_nonvacuous_limit :
  limit_cert_size estimated_size 4214 ex_cert = LDone (restrict ex_cert 10 11) /\     (* cut by one block *)
  limit_cert_size estimated_size 4215 ex_cert = LDone ex_cert /\                       (* fits exactly: not cut *)
  limit_cert_size estimated_size 100 ex_cert = LDone (restrict ex_cert 10 10) /\       (* single block above the limit *)
  ~ fits estimated_size 100 (restrict ex_cert 10 10) /\
  limit_cert_size estimated_size 0 ex_cert = LDone ex_cert.
Proof.
  repeat split; try (vm_compute; reflexivity).
  intros [H | H]; [discriminate|]. vm_compute in H. apply H. reflexivity.
Qed.

(* a non-monotone size function: the loop still returns the LARGEST fitting end block (11), not the smallest *)
Example C17_nonvacuous_limit_nonmonotone :
  let size := fun c : params => if p_to c =? 11 then 5 else if p_to c =? 10 then 1 else 9 in
  limit_cert_size size 6 ex_cert = LDone (restrict ex_cert 10 11).
Proof. vm_compute. reflexivity. Qed.

Example C17_nonvacuous_adapt :
  adapt_certificate (Lim 11 false true) (Some ex_cert) = Ok (Some (restrict ex_cert 10 11)) /\
  adapt_certificate (Lim 12 false true) (Some ex_cert) = Ok (Some ex_cert) /\
  adapt_certificate (Lim 9 false true) (Some ex_cert) = Err ACompleteUpcoming /\
  adapt_certificate (Lim 5 false true) (Some ex_cert) = Err ACompleteFar /\
  adapt_certificate (Lim 11 false true) (Some (P 10 12 [Ev 12 0 1] [Ev 11 0 7] 0%Z false TPP)) = Err ANoBridgesButClaims /\
  adapt_certificate (Lim 11 false true) (Some (P 10 12 [Ev 12 0 1] [] 0%Z false TPP)) = Err ACompleteNothing /\
  adapt_certificate (Lim 11 false false) (Some (P 10 12 [Ev 12 0 1] [] 0%Z false TPP)) = Ok (Some (P 10 11 [] [] 0%Z false TPP)) /\
  adapt_certificate (Lim 11 false true) (Some (P 10 12 [Ev 10 0 1] [] 1%Z true TPP)) = Err ARetryExceeded /\
  adapt_certificate (Lim 11 true true) (Some (P 10 12 [Ev 10 0 1] [] 1%Z true TPP)) = Ok (Some (P 10 11 [Ev 10 0 1] [] 1%Z true TPP)).
Proof. repeat split; reflexivity. Qed.

Example C17_nonvacuous_gap :
  wf_range (R 0 0) /\ wf_range (R (U64 - 1) (U64 - 1)) /\ ~ touching (R 0 0) (R (U64 - 1) (U64 - 1)) /\
  gap (R 0 0) (R (U64 - 1) (U64 - 1)) = R 1 (U64 - 2) /\ gap (R (U64 - 1) (U64 - 1)) (R 0 0) = R 1 (U64 - 2) /\
  touching (R 0 5) (R 6 (U64 - 1)) /\ gap (R 0 5) (R 6 (U64 - 1)) = R 0 0 /\
  touching (R 0 (U64 - 1)) (R 0 0) /\ gap (R 0 (U64 - 1)) (R 0 0) = R 0 0 /\
  ~ touching (R 2 5) (R 0 0) /\ gap (R 2 5) (R 0 0) = R 1 1.
Proof.
  unfold wf_range, touching; cbn [rf rt]. change (U64 - 1) with 18446744073709551615. change (U64 - 2) with 18446744073709551614.
  unfold U64. repeat split; try reflexivity; try (vm_compute; congruence); intros [H1 H2]; vm_compute in H1, H2; congruence.
Qed.

(* ---- the translated Go code ----
   Gen/GenBlockRange.v is GENERATED from aggsender/types/block_range.go by tools/go2coq on every run. Its functions are
   the model's functions for all uint64 field values, so the gap theorems above are theorems about the translated code. *)
Theorem C17_generated_gap_is_model : forall b o, wf_gen b -> wf_gen o ->
  to_br (BlockRange_Gap b o) = gap (to_br b) (to_br o).
Proof. exact Gap_agree. Qed.
Theorem C17_generated_count_is_model : forall b, BlockRange_CountBlocks b = count_blocks (to_br b).
Proof. exact CountBlocks_agree. Qed.
Theorem C17_generated_gap_empty_iff_touching : forall b o, wf_range (to_br b) -> wf_range (to_br o) ->
  (BlockRange_IsEmpty (BlockRange_Gap b o) = true <-> touching (to_br b) (to_br o)).
Proof. exact Gen_gap_empty_iff_touching. Qed.
Example C17_generated_nonvacuous :
  BlockRange_Gap (mkBlockRange 0 0) (mkBlockRange (U64 - 1) (U64 - 1)) = mkBlockRange 1 (U64 - 2) /\
  BlockRange_Gap (mkBlockRange 0 5) (mkBlockRange 6 (U64 - 1)) = mkBlockRange 0 0.
Proof. split; vm_compute; reflexivity. Qed.

(* Gen/GenBuildParams.v is GENERATED from aggsender/types/certificate_build_params.go on every run: Range, the three counts,
   EstimatedSize (float64 accumulation in source order; the constants 0.09 KB, 2.8 KB, 0.07 KB, 10 KB and claimSizeFactor are
   evaluated exactly from the Go constant declarations and rounded once), IsEmpty, IsARetry, MaxDepositCount, with a pointer receiver
   that may be nil where the Go method tests it. `abs` reads a generated record as the model's `params`. The functions are the
   model's for every value, so the range / limit theorems above - stated for ANY size function - hold in particular for the
   translated EstimatedSize, and what the model calls `range_cut` is the translated Range. *)
From Verif Require Base.GoNum Gen.GenBuildParams Proofs.GenAgreeBuildParams.
Theorem C17_generated_Range_is_model : forall (c : GenBuildParams.CertificateBuildParams) (f t : N),
  match range_cut (GenAgreeBuildParams.abs c) f t with
  | Ok p => exists c', GenBuildParams.CertificateBuildParams_Range c f t = (Some c', GoNum.EOK) /\ GenAgreeBuildParams.abs c' = p
  | Err _ => GenBuildParams.CertificateBuildParams_Range c f t = (None, GoNum.EFail)
  end.
Proof. exact GenAgreeBuildParams.Range_agree. Qed.
(* ... and two successful calls of the translated Range in a row return what ONE call to the final range returns (same
   abstraction: same range, same bridges and claims in the same order) *)
Theorem C17_generated_Range_compose : forall (c c1 c2 : GenBuildParams.CertificateBuildParams) (f1 t1 f2 t2 : N),
  events_in_range (GenAgreeBuildParams.abs c) ->
  GenBuildParams.CertificateBuildParams_Range c f1 t1 = (Some c1, GoNum.EOK) ->
  GenBuildParams.CertificateBuildParams_Range c1 f2 t2 = (Some c2, GoNum.EOK) ->
  exists c2', GenBuildParams.CertificateBuildParams_Range c f2 t2 = (Some c2', GoNum.EOK) /\
              GenAgreeBuildParams.abs c2' = GenAgreeBuildParams.abs c2.
Proof. intros c c1 c2 f1 t1 f2 t2. exact (GenAgreeBuildParams.Range_compose c f1 t1 c1 f2 t2 c2). Qed.
(* ... and it keeps the selected bridges and claims WHOLE and in order (the elements of the generated records, not their abstraction) *)
Theorem C17_generated_Range_keeps_elements_whole : forall (c : GenBuildParams.CertificateBuildParams) (f t : N),
  GenBuildParams.CertificateBuildParams_Range c f t =
  if (GenBuildParams.CertificateBuildParams_FromBlock c =? f) && (GenBuildParams.CertificateBuildParams_ToBlock c =? t) then (Some c, GoNum.EOK)
  else if (f <? GenBuildParams.CertificateBuildParams_FromBlock c) || (GenBuildParams.CertificateBuildParams_ToBlock c <? t) then (None, GoNum.EFail)
  else if t <? f then (None, GoNum.EFail)
  else (Some (GenBuildParams.mkCertificateBuildParams f t
                (filter (GenAgreeBuildParams.in_rng_b f t) (GenBuildParams.CertificateBuildParams_Bridges c))
                (filter (GenAgreeBuildParams.in_rng_c f t) (GenBuildParams.CertificateBuildParams_Claims c))
                (GenBuildParams.CertificateBuildParams_RetryCount c) (GenBuildParams.CertificateBuildParams_LastSentCertificate c)
                (GenBuildParams.CertificateBuildParams_CertificateType c)), GoNum.EOK).
Proof. exact GenAgreeBuildParams.Range_closed_form. Qed.
Theorem C17_generated_EstimatedSize_is_model : forall c : GenBuildParams.CertificateBuildParams,
  (Z.of_nat (List.length (GenBuildParams.CertificateBuildParams_Claims c)) * 200 < 9223372036854775808)%Z ->
  GenBuildParams.CertificateBuildParams_EstimatedSize (Some c) = estimated_size (GenAgreeBuildParams.abs c).
Proof. exact GenAgreeBuildParams.EstimatedSize_agree. Qed.
Theorem C17_generated_counts_are_model : forall c : GenBuildParams.CertificateBuildParams,
  GenBuildParams.CertificateBuildParams_NumberOfBridges (Some c) = Z.of_N (number_of_bridges (GenAgreeBuildParams.abs c)) /\
  GenBuildParams.CertificateBuildParams_NumberOfClaims (Some c) = Z.of_N (number_of_claims (GenAgreeBuildParams.abs c)) /\
  GenBuildParams.CertificateBuildParams_NumberOfBlocks (Some c) = number_of_blocks (GenAgreeBuildParams.abs c) /\
  GenBuildParams.CertificateBuildParams_IsEmpty (Some c) = is_empty_cert (GenAgreeBuildParams.abs c) /\
  GenBuildParams.CertificateBuildParams_IsARetry (Some c) = is_retry (GenAgreeBuildParams.abs c).
Proof.
  intros c. exact (conj (GenAgreeBuildParams.NumberOfBridges_agree c) (conj (GenAgreeBuildParams.NumberOfClaims_agree c)
    (conj (GenAgreeBuildParams.NumberOfBlocks_agree c) (conj (GenAgreeBuildParams.IsEmpty_agree c) (GenAgreeBuildParams.IsARetry_agree c))))).
Qed.
Theorem C17_generated_nil_receiver : GenBuildParams.CertificateBuildParams_NumberOfBridges None = 0%Z /\
  GenBuildParams.CertificateBuildParams_NumberOfClaims None = 0%Z /\ GenBuildParams.CertificateBuildParams_NumberOfBlocks None = 0%Z /\
  GenBuildParams.CertificateBuildParams_EstimatedSize None = 0 /\ GenBuildParams.CertificateBuildParams_IsARetry None = false /\
  GenBuildParams.CertificateBuildParams_MaxDepositCount None = 0.
Proof. exact GenAgreeBuildParams.nil_receiver_counts. Qed.
(* MaxDepositCount (what getNewLocalExitRoot asks the exit tree for) = the deposit count of the LAST bridge of the list *)
Theorem C17_generated_MaxDepositCount_is_last : forall c : GenBuildParams.CertificateBuildParams,
  (Z.of_nat (List.length (GenBuildParams.CertificateBuildParams_Bridges c)) < 9223372036854775808)%Z ->
  GenBuildParams.CertificateBuildParams_MaxDepositCount (Some c) =
  match GenAgreeBuildParams.last_opt (GenBuildParams.CertificateBuildParams_Bridges c) with
  | Some b => GenBuildParams.Bridge_DepositCount b | None => 0 end.
Proof. exact GenAgreeBuildParams.MaxDepositCount_agree. Qed.
(* the size the real code reported for 7 bridges + 1 claim (pp): 3583, one below the exact rational total 3584 *)
Example C17_generated_EstimatedSize_rounding :
  GenBuildParams.CertificateBuildParams_EstimatedSize (Some (GenBuildParams.mkCertificateBuildParams 1 1
     (repeat (GenBuildParams.mkBridge 1 [] 0) 7) [GenBuildParams.mkClaim 1 []] 0%Z None 1)) = 3583.
Proof. vm_compute. reflexivity. Qed.

(* Gen/GenLimitCert.v: baseFlow.limitCertSize, GENERATED from aggsender/flows/flow_base.go on top of the generated build-parameter
   methods. The Go `for { }` loop is a fixpoint on explicit fuel; what is returned when the fuel runs out or when nil is dereferenced are
   parameters. For every value of both parameters: the translated function computes the model's limit_loop with the model's size
   estimate, and with the fuel the model proves sufficient it returns a certificate - the one of which C17_limit_keeps_first_and_is_maximal,
   C17_limit_result_is_filter and C17_exceeds_limit_only_if_single_block speak (instantiated at size := estimated_size). *)
From Verif Require Gen.GenLimitCert Proofs.GenAgreeLimitCert.
Theorem C17_generated_limitCertSize_is_model : forall (max : N) (nofuel panic : option GenBuildParams.CertificateBuildParams * GoNum.gerr)
  (fuel : nat) (c : GenBuildParams.CertificateBuildParams), GenAgreeLimitCert.claims_ok c ->
  match limit_loop estimated_size max fuel (GenAgreeBuildParams.abs c) with
  | LDone p => exists c', GenLimitCert.limitCertSize max nofuel panic fuel (Some c) = (Some c', GoNum.EOK) /\ GenAgreeBuildParams.abs c' = p
  | LErr _ => GenLimitCert.limitCertSize max nofuel panic fuel (Some c) = (None, GoNum.EFail)
  | LOutOfFuel => GenLimitCert.limitCertSize max nofuel panic fuel (Some c) = nofuel
  end.
Proof. exact GenAgreeLimitCert.limitCertSize_agree. Qed.
Theorem C17_generated_limitCertSize_returns_the_limit : forall (max : N) (nofuel panic : option GenBuildParams.CertificateBuildParams * GoNum.gerr)
  (c : GenBuildParams.CertificateBuildParams), GenAgreeLimitCert.claims_ok c -> wf_span (GenAgreeBuildParams.abs c) ->
  exists c', GenLimitCert.limitCertSize max nofuel panic (limit_fuel (GenAgreeBuildParams.abs c)) (Some c) = (Some c', GoNum.EOK) /\
             limit_cert_size estimated_size max (GenAgreeBuildParams.abs c) = LDone (GenAgreeBuildParams.abs c').
Proof. exact GenAgreeLimitCert.limitCertSize_returns_the_limit. Qed.

(* ---- the last-block clamp GENERATED from max_l2blocknumber_limiter.go on every run is the model's adapt_certificate ---- *)
From Verif Require Gen.GenAdaptCert Proofs.GenAgreeAdaptCert.
Theorem C17_generated_AdaptCertificate_is_model : forall (l : limiter) (oc : option GenBuildParams.CertificateBuildParams),
  match adapt_certificate l (option_map GenAgreeBuildParams.abs oc) with
  | Ok None => GenAgreeAdaptCert.gen_adapt l oc = (None, GoNum.EOK) /\ oc = None
  | Ok (Some p) => exists c', GenAgreeAdaptCert.gen_adapt l oc = (Some c', GoNum.EOK) /\ GenAgreeBuildParams.abs c' = p
  | Err _ => GenAgreeAdaptCert.gen_adapt l oc = (None, GoNum.EFail)
  end.
Proof. exact GenAgreeAdaptCert.AdaptCertificate_agree. Qed.

(* what the translated AdaptCertificate returns keeps the first block, ends at the largest permitted block and, when it had to
   cut, is exactly the restriction of the certificate to the kept blocks (its events, whole, in their order) *)
Theorem C17_generated_AdaptCertificate_clamps : forall (l : limiter) (c c' : GenBuildParams.CertificateBuildParams),
  l_max l <> 0 -> GenBuildParams.CertificateBuildParams_ToBlock c < U64 ->
  GenAgreeAdaptCert.gen_adapt l (Some c) = (Some c', GoNum.EOK) ->
  let a := GenAgreeBuildParams.abs in
  p_from (a c') = p_from (a c) /\ p_to (a c') = N.min (p_to (a c)) (l_max l) /\
  (p_to (a c) <= l_max l -> a c' = a c) /\
  (l_max l < p_to (a c) -> a c' = restrict (a c) (p_from (a c)) (l_max l)).
Proof. exact GenAgreeAdaptCert.AdaptCertificate_clamps. Qed.

(* ---- which certificate is cut: GetCertificateBuildParamsInternal GENERATED from flow_base.go on every run ---- *)
From Verif Require Gen.GenGetParams Proofs.GenAgreeGetParams.

(* the size cut is applied to the certificate that already carries its type, retry count and last sent header, over exactly the
   blocks (last sent + 1 .. last processed) and their events *)
Theorem C17_generated_GetParams_rule : forall lastProcessedBlock lastSentCertificateHeader lastSentBlockAndRetryCount bridgesAndClaims cut (ct : N),
  GenAgreeGetParams.gen_get_params lastProcessedBlock lastSentCertificateHeader lastSentBlockAndRetryCount bridgesAndClaims cut ct =
  let '(synced, e1) := lastProcessedBlock in
  if negb (GoNum.err_eqb e1 GoNum.EOK) then (None, GoNum.err_wrap e1) else
  let '(last, e2) := lastSentCertificateHeader in
  if negb (GoNum.err_eqb e2 GoNum.EOK) then (None, e2) else
  let '(prev, rc) := lastSentBlockAndRetryCount last in
  if synced <=? prev then (None, GoNum.EFail) else
  let '(bs, cs, e3) := bridgesAndClaims (GoNum.u64_add prev 1) synced in
  if negb (GoNum.err_eqb e3 GoNum.EOK) then (None, e3) else
  let '(r, e4) := cut (Some (GenAgreeGetParams.full prev synced bs cs rc last ct)) in
  if negb (GoNum.err_eqb e4 GoNum.EOK) then (None, GoNum.err_wrap e4) else (r, GoNum.EOK).
Proof. exact GenAgreeGetParams.GetParams_rule. Qed.

(* with the translated limitCertSize as the cut, what the flows get is the model's limit of the full certificate under the size
   estimate of the certificate's own type: the limit theorems above are about that value *)
Theorem C17_generated_GetParams_cuts_the_full_certificate :
  forall (max : N) (nofuel panic : option GenBuildParams.CertificateBuildParams * GoNum.gerr)
         (synced prev : N) last (rc : Z) bs cs (ct : N) lastSentBlockAndRetryCount bridgesAndClaims,
  let c0 := GenAgreeGetParams.full prev synced bs cs rc last ct in
  lastSentBlockAndRetryCount last = (prev, rc) -> prev < synced ->
  bridgesAndClaims (GoNum.u64_add prev 1) synced = (bs, cs, GoNum.EOK) ->
  GenAgreeLimitCert.claims_ok c0 -> wf_span (GenAgreeBuildParams.abs c0) ->
  exists c', GenAgreeGetParams.gen_get_params (synced, GoNum.EOK) (last, GoNum.EOK) lastSentBlockAndRetryCount bridgesAndClaims
               (GenLimitCert.limitCertSize max nofuel panic (limit_fuel (GenAgreeBuildParams.abs c0))) ct = (Some c', GoNum.EOK) /\
             limit_cert_size estimated_size max (GenAgreeBuildParams.abs c0) = LDone (GenAgreeBuildParams.abs c') /\
             p_type (GenAgreeBuildParams.abs c0) = GenAgreeBuildParams.abs_type ct /\ p_retry (GenAgreeBuildParams.abs c0) = rc /\
             p_from (GenAgreeBuildParams.abs c0) = GoNum.u64_add prev 1 /\ p_to (GenAgreeBuildParams.abs c0) = synced.
Proof. exact GenAgreeGetParams.GetParams_cuts_the_full_certificate. Qed.

(* ---- the prover flow's cut: adjustBlockRange GENERATED from flow_aggchain_prover.go on every run ---- *)
From Verif Require Gen.GenAdjustRange Proofs.GenAgreeProverFlow.
(* when the prover proved another end block than the one requested the certificate is restricted to (first block .. that block) by the
   translated Range, i.e. the model's range_cut: same first block, exactly the events of the kept blocks in their order, an error
   when the block lies outside the certificate - for every value of the panic parameter *)
Theorem C17_generated_adjustBlockRange_is_model :
  forall (panicv : option GenBuildParams.CertificateBuildParams * GoNum.gerr) (c : GenBuildParams.CertificateBuildParams) (req prov : N),
  let a := GenAgreeBuildParams.abs in
  match (if req =? prov then Ok (a c) else range_cut (a c) (p_from (a c)) prov) with
  | Ok p => exists c', GenAdjustRange.adjustBlockRange panicv (Some c) req prov = (Some c', GoNum.EOK) /\ a c' = p
  | Err _ => GenAdjustRange.adjustBlockRange panicv (Some c) req prov = (None, GoNum.EFail)
  end.
Proof. exact GenAgreeProverFlow.adjustBlockRange_agree. Qed.

(* Print Assumptions walks the whole dependency cone each time (0.8 s per call here); the theorems are therefore
   grouped in four tuples, the assumptions of a tuple being the union of the assumptions of its components *)
Definition C17_all_range := (C17_range_is_filter, C17_range_strict_is_filter, C17_range_cases, C17_range_compose).
Definition C17_all_limit := (C17_limit_keeps_first_and_is_maximal, C17_limit_never_fails, C17_limit_result_is_filter,
  C17_exceeds_limit_only_if_single_block, C17_exceeds_limit_unbounded_refuted, C17_limit_zero_is_identity,
  C17_limit_fitting_is_identity, C17_limit_exec_agrees).
Definition C17_all_adapt := (C17_limit_then_adapt, C17_adapt_disabled, C17_adapt_nil, C17_adapt_clamps, C17_adapt_errors_characterised).
Definition C17_all_gap := (C17_gap_none_when_touching, C17_gap_exact, C17_gap_empty_iff_touching,
  C17_gap_is_empty_iff_touching, C17_gap_count).
Print Assumptions C17_all_range.
Print Assumptions C17_all_limit.
Print Assumptions C17_all_adapt.
Print Assumptions C17_all_gap.
Print Assumptions C17_generated_gap_is_model.
Print Assumptions C17_generated_gap_empty_iff_touching.
Definition C17_all_generated_params := (C17_generated_Range_is_model, C17_generated_Range_compose, C17_generated_Range_keeps_elements_whole, C17_generated_EstimatedSize_is_model,
  C17_generated_counts_are_model, C17_generated_nil_receiver, C17_generated_MaxDepositCount_is_last,
  C17_generated_limitCertSize_is_model, C17_generated_limitCertSize_returns_the_limit,
  C17_generated_AdaptCertificate_is_model, C17_generated_AdaptCertificate_clamps,
  C17_generated_GetParams_rule, C17_generated_GetParams_cuts_the_full_certificate, C17_generated_adjustBlockRange_is_model).
Print Assumptions C17_all_generated_params.
