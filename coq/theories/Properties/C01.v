(* C01 — synced exit-tree root equals the bridge contract's root at every deposit.
   Property theorems only (closed by `exact`), source-fact obligations, non-vacuity, Print Assumptions.
   The theorems are generic in the hash (node, z0); the executable model runs the SAME definitions
   (Model/Merkle.v climb / init_walk, Model/Contracts.v dc_add / dc_root) at node := Keccak-256. *)
From Coq Require Import Arith NArith List Bool.
From Verif Require Import Base.Bytes Base.Hash Model.Merkle Model.MerkleSpec Model.Contracts Model.TreeStore Model.BridgeStore
  Proofs.Frontier Proofs.Rht Proofs.InitCache Proofs.ContractProofs Proofs.BitFacts Proofs.C01Proofs
  Proofs.TreeStoreProofs Proofs.TreeStoreCorollaries Proofs.BridgeReach Gen.SourceFacts.
From Verif Require Gen.GenAppendOnlyTree Proofs.GenAgreeTree Model.Abi Proofs.AbiProofs.
Import ListNotations.
Local Close Scope N_scope.

(* the tree height hard-wired in the model is the one in the Go source *)
Example src_height_is_model : src_default_height = Some (N.of_nat HEIGHT).
Proof. reflexivity. Qed.
(* the precomputed zero-hash table of the executable model is the recursive definition, at every level 0..32 *)
Theorem zero_table_is_zero : forall h : nat, (h <= 32)%nat -> zh h = zero nodeN 0%N h.
Proof. exact zh_is_zero. Qed.
(* the executable model's bit test is the theory's *)
Theorem C01_bit_function : forall i h, bitN (N.of_nat i) h = Nat.testbit i h.
Proof. exact bitN_of_nat. Qed.

Section Generic.
Context {hash : Type}.
Variable node : hash -> hash -> hash.
Variable z0 : hash.
Variable f : nat -> hash.      (* f i = leaf value of the deposit with count i *)

(* The frontier invariant holds initially, is preserved by every append, ... *)
Theorem C01_frontier_invariant_initial : forall H c, CacheInv node z0 f H 0 c.
Proof. exact (CacheInv_0 node z0 f). Qed.
Theorem C01_frontier_invariant_preserved : forall H i c, i < 2 ^ H -> CacheInv node z0 f H i c ->
  CacheInv node z0 f H (S i) (snd (add_leaf node (zero node z0) H (Nat.testbit i) (f i) c)).
Proof. intros H i c Hi Hinv. apply add_leaf_preserves; [exact Hinv|apply (high_bits_zero node f); exact Hi]. Qed.
(* ... and is re-established by initCache from the stored nodes (restart, index mismatch after reorg, rollback):
   for every store that contains the nodes of version n *)
Theorem C01_frontier_invariant_after_restart : forall m n H c, Closed node z0 f H m n -> 0 < n -> n <= 2 ^ H ->
  exists c', init_walk m H (mroot node z0 f H n) (Nat.testbit (n - 1)) c = Some c' /\ CacheInv node z0 f H n c'.
Proof. exact (init_cache_inv node z0 f). Qed.
(* appending keeps the store closed (so the previous theorem applies after any number of appends);
   the only use of hash injectivity: an insert-ignore that meets an existing key *)
Theorem C01_store_stays_closed : (forall a b c d, node a b = node c d -> a = c /\ b = d) ->
  forall heq_dec m i H, WF node m -> Closed node z0 f H m i -> i < 2 ^ H ->
  Closed node z0 f H (ins_path node z0 f heq_dec m i H) (S i).
Proof. intros inj heq_dec. exact (append_keeps_closed node z0 f heq_dec inj). Qed.

(* With ANY frontier satisfying the invariant, the root the node records for deposit count i is the Merkle root
   of the first i+1 leaves: all index bit patterns i < 2^H, H = 32 in the code *)
Theorem C01_exit_root_is_merkle_root : forall H i c, i < 2 ^ H -> CacheInv node z0 f H i c ->
  fst (add_leaf node (zero node z0) H (Nat.testbit i) (f i) c) = mroot node z0 f H (S i).
Proof. exact (go_root_any_cache node z0 f). Qed.
(* in particular along any uninterrupted run from an arbitrary initial cache *)
Theorem C01_exit_root_running : forall H i c0, i < 2 ^ H ->
  fst (add_leaf node (zero node z0) H (Nat.testbit i) (f i) (go_run node z0 f H i c0)) = mroot node z0 f H (S i).
Proof. exact (go_root_running node z0 f). Qed.

(* The DepositContract (Solidity transcription) holds the same reference root after its n-th deposit *)
Theorem C01_contract_root_is_merkle_root : forall H n b0, n < 2 ^ H ->
  dc_root node z0 H (Nat.testbit n) (dc_after node f H n b0) = mroot node z0 f H n.
Proof. exact (contract_root_is_merkle node z0 f). Qed.
(* hence: exit root reported for deposit count i = contract root after its (i+1)-th deposit *)
Theorem C01_exit_root_matches_contract : forall H i c b0, S i < 2 ^ H -> CacheInv node z0 f H i c ->
  fst (add_leaf node (zero node z0) H (Nat.testbit i) (f i) c)
  = dc_root node z0 H (Nat.testbit (S i)) (dc_after node f H (S i) b0).
Proof. exact (go_root_is_contract_root node z0 f). Qed.
End Generic.


(* ================= store level: every reachable state of the (generic) executable tree store =================
   `Reach HT node zhf db mem L`: the store (root table, node table, in-memory frontier) is reachable from the empty one by
   successful appends of the next index, appends with a wrong index, appends abandoned after the hashing loop (storage fault),
   memory invalidations with arbitrary cache content (restart, rollback callback, reorg) and Tree.Reorg; L is the surviving
   history (leaf, block, position). The executable model (compared with the Go code on every run) is the instance
   HT := 32, node := Keccak-256, zhf := the precomputed zero table (zero_table_is_zero). Hypothesis: node injective. *)
Section Store.
Variable HT : nat.
Variable node : N -> N -> N.
Hypothesis node_inj : forall a b c d, node a b = node c d -> a = c /\ b = d.
Variable zhf : nat -> N.
Hypothesis Hzh : forall h, h <= HT -> zhf h = zero node 0%N h.

(* C01 for the store: in EVERY reachable state, the root reported for deposit count i is the Merkle root of the first i+1
   leaves of the surviving history (= the contract's root, C01_contract_root_is_merkle_root), recorded at that deposit's
   block and position; counts beyond the history have no root. All partitions into blocks, all restart points, all reorgs. *)
Theorem C01_store_exit_root_by_index : forall db mem L i, Reach HT node zhf db mem L -> i < length L ->
  exists r, root_by_index db (N.of_nat i) = Some r /\ r_hash r = mroot node 0%N (lf L) HT (S i) /\
            r_pos r = N.of_nat i /\ (r_block r, r_bpos r) = snd (nth i L (0%N, (0%N, 0%N))).
Proof. exact (store_root_by_index HT node node_inj zhf Hzh). Qed.
Theorem C01_store_no_root_beyond_history : forall db mem L i, Reach HT node zhf db mem L -> length L <= i ->
  root_by_index db (N.of_nat i) = None.
Proof. exact (store_root_beyond HT node node_inj zhf Hzh). Qed.
(* the invariant behind it, and progress: the next deposit is always accepted, any other index refused *)
Theorem C01_store_invariant : forall db mem L, Reach HT node zhf db mem L ->
  TInv HT node (lf L) db (length L) /\ MemInv HT node (lf L) mem (length L) /\ nonzero L /\ labels_ok (t_roots db) L.
Proof. exact (Reach_inv HT node node_inj zhf Hzh). Qed.
Theorem C01_store_next_deposit_accepted : forall db mem L blk bpos leaf, Reach HT node zhf db mem L ->
  fresh_pos db blk bpos -> leaf <> 0%N -> length L < 2 ^ HT ->
  exists mem' db', Gen.add_leaf_exec HT node zhf db mem blk bpos (N.of_nat (length L)) leaf = (mem', inr db').
Proof. exact (store_add_succeeds HT node node_inj zhf Hzh). Qed.
Theorem C01_store_gap_refused : forall db mem L blk bpos idx leaf, Reach HT node zhf db mem L -> idx <> N.of_nat (length L) ->
  exists mem', Gen.add_leaf_exec HT node zhf db mem blk bpos idx leaf = (mem', inl EInvalidIndex).
Proof. exact (store_wrong_index_refused HT node node_inj zhf Hzh). Qed.
End Store.

(* the leaf the node uses for a deposit = the contract's getLeafValue of the same fields (real Keccak, byte level) *)
Theorem C01_bridge_leaf_is_contract_leaf : forall b, (b_lt b < 256)%N ->
  bridge_leaf b = get_leaf_value (b_lt b) (b_onet b) (b_oaddr b) (b_dnet b) (b_daddr b) (b_amount b) (keccakN (b_meta b)).
Proof. exact bridge_leaf_is_contract_leaf. Qed.

(* non-vacuity: a concrete run over real Keccak: three deposits, roots agree with the contract model and the invariant's
   hypotheses are met (initial cache) *)
Example C01_nonvacuous :
  let leaves := [11; 22; 33]%N in
  let step (acc : tdb * tmem * N) (l : N) :=
    let '(db, mem, i) := acc in
    match add_leaf_exec db mem 1 i i l with (m', inr db') => (db', mem_commit_leaf m', (i + 1)%N) | _ => acc end in
  let '(db, _, _) := fold_left step leaves (tdb_empty, tmem_new, 0%N) in
  option_map r_hash (root_by_index db 2) =
  Some (dc_get_root (fold_left dc_deposit leaves dc_init)).
Proof. vm_compute. reflexivity. Qed.


(* ================= processor level: the bridge processor model that is compared with the Go code on every run =================
   `BReach HT node zhf leafh st`: st is reachable from the empty processor by ProcessBlock of well-formed blocks (block number
   above every recorded one, bridge positions increasing, deposit count < 2^HT) under ANY storage fault, by Reorg and by restart.
   The executable instance is HT := 32, node := Keccak, zhf := zero table, leafh := bridge_leaf. *)
Section Processor.
Variable HT : nat.
Variable node : N -> N -> N.
Hypothesis node_inj : forall a b c d, node a b = node c d -> a = c /\ b = d.
Variable zhf : nat -> N.
Hypothesis Hzh : forall h, (h <= HT)%nat -> zhf h = zero node 0%N h.
Variable leafh : bridge_ev -> N.
Hypothesis Hleaf : forall b, leafh b <> 0%N.
(* the processor only ever drives its exit tree through the operations of `Reach`: the store invariant holds in every
   reachable processor state, for the history read off the bridge table; deposit counts in the table are 0,1,2,... *)
Theorem C01_processor_invariant : forall st, BReach HT node zhf leafh st -> BInv HT node zhf leafh st.
Proof. exact (BReach_inv HT node node_inj zhf Hzh leafh Hleaf). Qed.
Theorem C01_processor_exit_roots : forall st i, BReach HT node zhf leafh st -> (i < length (d_bridges (st_db st)))%nat ->
  exit_root_by_index (st_db st) (N.of_nat i) = Some (mroot node 0%N (lf (hist_of leafh (st_db st))) HT (S i)).
Proof. exact (processor_exit_roots HT node node_inj zhf Hzh leafh Hleaf). Qed.
End Processor.

(* ================= from the chain's log to the node's Bridge =================
   bridgesync/downloader.go buildBridgeEventHandler turns a BridgeEvent log into the Bridge whose Hash() is the exit-tree leaf. The byte-level
   decoder of Model/Abi.v (go-ethereum's Unpack for the eight event arguments, `bytes metadata` in the middle) inverts the ABI encoding the
   contract emits, for all field values in range and any metadata length; on every run the Bridge built by the REAL appender from REAL logs
   of the deployed contract is compared with this decoder (Model/EvmCases.v K_EVENT_DECODE) and its Hash() with the contract's getLeafValue
   (K_NODE_LEAF). *)
Theorem C01_bridge_event_decode_inverts_encode : forall f, Abi.bridge_fields_ok f ->
  Abi.decode_bridge_event (Abi.encode_bridge_event f) = Some f.
Proof. exact AbiProofs.bridge_event_roundtrip. Qed.
Example C01_bridge_event_nonvacuous :
  let f := Abi.mkBF 1 3 0xabcd 7 0xbeef (2 ^ 200)%N [1; 2; 3; 4; 5]%N 41 in
  Abi.bridge_fields_ok f /\ length (Abi.encode_bridge_event f) = (8 * 32 + 32 + 32)%nat /\
  Abi.decode_bridge_event (firstn (8 * 32 + 32 + 4) (Abi.encode_bridge_event f)) = None.
Proof. split; [repeat split; vm_compute; reflexivity || discriminate | split; vm_compute; reflexivity]. Qed.

(* ================= the translated Go code =================
   Gen/GenAppendOnlyTree.v is GENERATED from tree/appendonlytree.go by tools/go2coq on every run: `AddLeaf_loop` is the first `for`
   statement of AddLeaf (the hashing loop over the 32 levels: bit test, right / left child, cache update, node list) as a
   function of its free variables, over an abstract hash. For ANY cache list of length 32 that satisfies the frontier invariant
   for i leaves and ANY zero table holding the zero hashes, the generated loop returns, for deposit count i < 2^32, the reference
   Merkle root of the first i+1 leaves and a cache that satisfies the invariant for i+1 leaves (so the statement iterates). *)
Theorem C01_generated_AddLeaf_loop_root_is_merkle_root : forall (hash : Type) (hash2 : hash -> hash -> hash) (hash0 z0 : hash) (f : nat -> hash)
    i cl zeroes,
  i < 2 ^ 32 -> length cl = 32 -> (forall h, h < 32 -> nth h zeroes hash0 = zero hash2 z0 h) ->
  CacheInv hash2 z0 f 32 i (fun j => nth j cl hash0) ->
  exists nodes cl',
    GenAppendOnlyTree.AddLeaf_loop hash hash2 hash0 (N.of_nat i) (f i) cl zeroes [] = (mroot hash2 z0 f 32 (S i), nodes, cl') /\
    CacheInv hash2 z0 f 32 (S i) (fun j => nth j cl' hash0) /\ length cl' = 32.
Proof. exact GenAgreeTree.generated_AddLeaf_loop_root_is_merkle_root. Qed.
(* ... and its three results are those of the hand-written model (root, cache pointwise, nodes), for every index, leaf,
   cache and zero table: the executable model that the correspondence runs is the translated loop *)
Theorem C01_generated_AddLeaf_loop_is_model : forall (hash : Type) (hash2 : hash -> hash -> hash) (hash0 : hash) idx leaf cl zeroes (c : nat -> hash),
  (forall j, c j = nth j cl hash0) -> length cl = 32 ->
  let '(r, c', ns) := climb3 hash2 (fun k => nth k zeroes hash0) 32 0 (fun k => N.testbit idx (N.of_nat k)) leaf c in
  exists cl', GenAppendOnlyTree.AddLeaf_loop hash hash2 hash0 idx leaf cl zeroes [] = (r, map (GenAgreeTree.to_node hash) ns, cl') /\
              (forall j, c' j = nth j cl' hash0) /\ length cl' = 32.
Proof. exact GenAgreeTree.AddLeaf_loop_agree. Qed.
(* non-vacuity: the hypotheses are met by the empty tree (any cache list of length 32 satisfies the invariant for 0 leaves) and a
   zero table built from the recursive definition (kept symbolic: computing `zero` naively is exponential); the theorem then
   yields the root of the one-leaf tree *)
Example C01_generated_nonvacuous : forall (hash : Type) (hash2 : hash -> hash -> hash) (hash0 z0 : hash) (f : nat -> hash),
  let zs := map (zero hash2 z0) (seq 0 32) in
  let cl := repeat hash0 32 in
  (forall h, h < 32 -> nth h zs hash0 = zero hash2 z0 h) /\ length cl = 32 /\
  CacheInv hash2 z0 f 32 0 (fun j => nth j cl hash0) /\
  exists nodes cl', GenAppendOnlyTree.AddLeaf_loop hash hash2 hash0 0%N (f 0) cl zs [] = (mroot hash2 z0 f 32 1, nodes, cl').
Proof.
  intros hash hash2 hash0 z0 f zs cl.
  assert (Hz : forall h, h < 32 -> nth h zs hash0 = zero hash2 z0 h).
  { intros h Hh. unfold zs. rewrite (nth_indep _ hash0 (zero hash2 z0 0)) by (rewrite map_length, seq_length; exact Hh).
    rewrite (map_nth (zero hash2 z0) (seq 0 32) 0 h), seq_nth by exact Hh. reflexivity. }
  assert (Hl : length cl = 32) by apply repeat_length.
  assert (Hi : CacheInv hash2 z0 f 32 0 (fun j => nth j cl hash0)) by apply (CacheInv_0 hash2 z0 f).
  split; [exact Hz | split; [exact Hl | split; [exact Hi|]]].
  assert (H0 : 0 < 2 ^ 32) by (apply Nat.neq_0_lt_0, Nat.pow_nonzero; discriminate).
  destruct (GenAgreeTree.generated_AddLeaf_loop_root_is_merkle_root hash hash2 hash0 z0 f 0 cl zs H0 Hl Hz Hi) as (nodes & cl' & E & _).
  exists nodes, cl'. exact E.
Qed.

Print Assumptions C01_bit_function.
Print Assumptions C01_processor_invariant.
Print Assumptions C01_processor_exit_roots.
Print Assumptions C01_frontier_invariant_initial.
Print Assumptions C01_frontier_invariant_preserved.
Print Assumptions C01_frontier_invariant_after_restart.
Print Assumptions C01_store_stays_closed.
Print Assumptions C01_exit_root_is_merkle_root.
Print Assumptions C01_exit_root_running.
Print Assumptions C01_contract_root_is_merkle_root.
Print Assumptions C01_exit_root_matches_contract.
Print Assumptions C01_bridge_leaf_is_contract_leaf.
Print Assumptions C01_store_exit_root_by_index.
Print Assumptions C01_store_no_root_beyond_history.
Print Assumptions C01_store_invariant.
Print Assumptions C01_store_next_deposit_accepted.
Print Assumptions C01_store_gap_refused.
Print Assumptions C01_generated_AddLeaf_loop_root_is_merkle_root.
Print Assumptions C01_generated_AddLeaf_loop_is_model.
Print Assumptions C01_bridge_event_decode_inverts_encode.
