(* C04 — a reorg leaves the node exactly as if the dropped blocks had never been seen (bridge store part).
   Statements about the executable store model (compared with the real processor on every run). The as-if
   equality itself is evaluated on every run between the real reorged processor and a twin real processor that never
   saw the dropped blocks (spec_asif); theorems proved so far: reorg algebra, fail-stop interaction, tree re-init. *)
From Coq Require Import Arith NArith ZArith List Bool.
From Verif Require Import Base.Bytes Base.Hash Model.Merkle Model.MerkleSpec Model.TreeStore Model.BridgeStore
  Proofs.Frontier Proofs.Rht Proofs.InitCache Proofs.C01Proofs Proofs.BridgeStoreProofs
  Proofs.TreeStoreProofs Proofs.TreeStoreCorollaries Proofs.BridgeReach Proofs.BridgeAsIf.
Import ListNotations.
Open Scope N_scope.

(* repeated and nested reorgs collapse to the lowest reorg point, on every table and on the recorded roots *)
Theorem C04_reorg_nested : forall st b b', db_eq (st_db (reorg (reorg st b') b)) (st_db (reorg st (N.min b b'))).
Proof. exact reorg_reorg_db. Qed.
(* a reorg point above the tip is the identity on the database and the halted flag (the in-memory tree cache is merely
   invalidated, which C04_tree_after_reorg_reinit shows to be unobservable) *)
Theorem C04_reorg_above_tip_identity : forall st b,
  (forall n, In n (d_blocks (st_db st)) -> n < b) ->
  (forall r, In r (d_bridges (st_db st)) -> fst r < b) ->
  (forall r, In r (d_claims (st_db st)) -> w_block r < b) ->
  (forall r, In r (d_tm (st_db st)) -> w_block r < b) ->
  (forall r, In r (d_legacy (st_db st)) -> w_block r < b) ->
  (forall r, In r (t_roots (d_tree (st_db st))) -> r_block r < b) ->
  db_eq (st_db (reorg st b)) (st_db st) /\ st_halted (reorg st b) = st_halted st.
Proof. exact reorg_above_tip_identity. Qed.

Local Close Scope N_scope.
Section Generic.
Context {hash : Type}.
Variable node : hash -> hash -> hash.
Variable z0 : hash.
Variable f : nat -> hash.
(* after a reorg the surviving version n of the tree is still closed in the (never cleaned) node table, so the cache
   rebuilt on the index mismatch satisfies the frontier invariant and the fork's deposits get the reference roots *)
Theorem C04_tree_after_reorg_reinit : forall m n H c, Closed node z0 f H m n -> 0 < n -> n <= 2 ^ H ->
  exists c', init_walk m H (mroot node z0 f H n) (Nat.testbit (n - 1)) c = Some c' /\ CacheInv node z0 f H n c'.
Proof. exact (init_cache_inv node z0 f). Qed.
Theorem C04_fork_roots_are_reference_roots : forall H i c, i < 2 ^ H -> CacheInv node z0 f H i c ->
  fst (add_leaf node (zero node z0) H (Nat.testbit i) (f i) c) = mroot node z0 f H (S i).
Proof. exact (go_root_any_cache node z0 f). Qed.
End Generic.

(* RemoveLegacyToken is a destructive delete that a reorg does not undo: the as-if statement is REFUTED for it
   (finding F6): migration of token A at block 5, RemoveLegacyToken(A) at block 8, Reorg(7) *)
Open Scope N_scope.
Definition f6_hist := [mkBlock 5 [ELegacy 0 77 1]; mkBlock 8 [ERemoveLegacy 77]].
Definition run_blocks (ks : list block) : bstate := fold_left (fun st k => snd (process_block None st k)) ks bstate_new.
Theorem C04_asif_legacy_refuted :
  d_legacy (st_db (reorg (run_blocks f6_hist) 7)) <> d_legacy (st_db (run_blocks (filter (fun k => k_num k <? 7) f6_hist))).
Proof. vm_compute. congruence. Qed.


(* ================= store level: every reachable state of the (generic) executable tree store =================
   `Reach HT node zhf db mem L`: the store (root table, node table, in-memory frontier) is reachable from the empty one by
   successful appends of the next index, appends with a wrong index, appends abandoned after the hashing loop (storage fault),
   memory invalidations with arbitrary cache content (restart, rollback callback, reorg) and Tree.Reorg; L is the surviving
   history (leaf, block, position). The executable model (compared with the Go code on every run) is the instance
   HT := 32, node := Keccak-256, zhf := the precomputed zero table (zero_table_is_zero). Hypothesis: node injective. *)
Section Store.
Variable HT : nat.
Variable node : N -> N -> N.
Hypothesis node_inj : forall a b c d, node a b = node c d -> a = c /\ b = d.
Variable zhf : nat -> N.
Hypothesis Hzh : forall h, (h <= HT)%nat -> zhf h = zero node 0%N h.
(* C04 for the exit tree: two reachable stores with the same surviving history answer every tree query identically. One of
   them went through the dropped blocks and Tree.Reorg (R_reorg truncates the history to the surviving roots), the other never
   saw them; continuing both with the same fork keeps the histories equal, so the answers stay equal. Root rows (hash,
   index, block, position), lookups by index / by hash / last root, proofs and leaves for every recorded version. *)
Theorem C04_store_reorg_as_if_never_seen : forall db1 mem1 db2 mem2 L, Reach HT node zhf db1 mem1 L -> Reach HT node zhf db2 mem2 L ->
  (forall i, root_by_index db1 i = root_by_index db2 i) /\
  (forall h, root_by_hash db1 h = root_by_hash db2 h) /\
  last_root db1 = last_root db2 /\
  (forall j k, (j < k)%nat -> (k <= length L)%nat ->
     Gen.get_proof HT zhf db1 (N.of_nat j) (mroot node 0%N (lf L) HT k) = Gen.get_proof HT zhf db2 (N.of_nat j) (mroot node 0%N (lf L) HT k) /\
     Gen.get_leaf HT db1 (N.of_nat j) (mroot node 0%N (lf L) HT k) = Gen.get_leaf HT db2 (N.of_nat j) (mroot node 0%N (lf L) HT k)).
Proof. exact (same_history_same_answers HT node node_inj zhf Hzh). Qed.
Theorem C04_store_reorg_as_if_never_seen_roots : forall db1 mem1 db2 mem2 L, Reach HT node zhf db1 mem1 L -> Reach HT node zhf db2 mem2 L -> t_roots db1 = t_roots db2.
Proof. exact (same_history_same_roots HT node node_inj zhf Hzh). Qed.
End Store.


(* ================= processor level: the bridge processor model that is compared with the Go code on every run =================
   `BReach HT node zhf leafh st`: st is reachable from the empty processor by ProcessBlock of well-formed blocks (block number
   above every recorded one, bridge positions increasing, deposit count < 2^HT) under ANY storage fault, by Reorg and by restart.
   The executable instance is HT := 32, node := Keccak, zhf := zero table, leafh := bridge_leaf. *)
Section Processor.
Variable HT : nat.
Variable node : N -> N -> N.
Hypothesis node_inj : forall a b c d, node a b = node c d -> a = c /\ b = d.
Variable zhf : nat -> N.
Hypothesis Hzh : forall h, (h <= HT)%nat -> zhf h = zero node 0%N h.
Variable leafh : bridge_ev -> N.
Hypothesis Hleaf : forall b, leafh b <> 0%N.
(* the processor only ever drives its exit tree through the operations of `Reach`: the store invariant holds in every
   reachable processor state, for the history read off the bridge table; deposit counts in the table are 0,1,2,... *)
Theorem C04_processor_invariant : forall st, BReach HT node zhf leafh st -> BInv HT node zhf leafh st.
Proof. exact (BReach_inv HT node node_inj zhf Hzh leafh Hleaf). Qed.
(* Reorg keeps the processor inside the reachable states (so everything above applies to the reorged node and to its continuation) *)
Theorem C04_processor_reorg_reachable : forall st b, BReach HT node zhf leafh st -> BReach HT node zhf leafh (reorg st b).
Proof. intros st b H. apply BR_reorg. exact H. Qed.
(* what survives a reorg at b is exactly the part of the history recorded in blocks below b *)
Theorem C04_processor_reorg_history : forall st b,
  hist_of leafh (st_db (reorg st b)) = filter (fun x => (fst (snd x) <? b)%N) (hist_of leafh (st_db st)).
Proof. exact (reorg_history leafh). Qed.
(* two reachable processor states holding the same surviving deposits answer every exit-tree query identically, however they
   got there (through dropped blocks and Reorg, through failed blocks and retries, through restarts) *)
Theorem C04_processor_reorg_as_if_never_seen : forall st1 st2, BReach HT node zhf leafh st1 -> BReach HT node zhf leafh st2 ->
  hist_of leafh (st_db st1) = hist_of leafh (st_db st2) ->
  t_roots (d_tree (st_db st1)) = t_roots (d_tree (st_db st2)) /\
  (forall i, exit_root_by_index (st_db st1) i = exit_root_by_index (st_db st2) i) /\
  (forall h, root_by_ler (st_db st1) h = root_by_ler (st_db st2) h) /\
  (forall j k, (j < k)%nat -> (k <= length (d_bridges (st_db st1)))%nat ->
     let root := mroot node 0%N (lf (hist_of leafh (st_db st1))) HT k in
     Gen.get_proof HT zhf (d_tree (st_db st1)) (N.of_nat j) root = Gen.get_proof HT zhf (d_tree (st_db st2)) (N.of_nat j) root).
Proof. exact (processor_same_history_same_answers HT node node_inj zhf Hzh leafh Hleaf). Qed.
End Processor.


(* ================= database level =================
   `BRun HT node zhf leafh ks st`: st was reached by ProcessBlock (under any storage fault), Reorg and restart, and ks are the
   blocks that were processed successfully and not reorged away since. The five tables are a function of ks alone. *)
Section Tables.
Variable HT : nat.
Variable node : N -> N -> N.
Variable zhf : nat -> N.
Variable leafh : bridge_ev -> N.
(* C04 for the tables (histories without the destructive RemoveLegacyToken event: `no_rm` in BRun_ok): the reorged node and ANY
   node whose surviving history is the part below b — in particular the node that only ever processed those blocks — hold
   identical block, bridge, claim, token-mapping and legacy-migration tables; with C04_processor_reorg_as_if_never_seen
   (equal bridge tables => equal surviving deposits => equal exit-tree answers) every query answers alike *)
Theorem C04_reorg_as_if_never_seen_tables : forall ks st b st2,
  BRun HT node zhf leafh ks st -> BRun HT node zhf leafh (filter (fun k => (k_num k <? b)%N) ks) st2 ->
  d_blocks (st_db (reorg st b)) = d_blocks (st_db st2) /\ d_bridges (st_db (reorg st b)) = d_bridges (st_db st2) /\
  d_claims (st_db (reorg st b)) = d_claims (st_db st2) /\ d_tm (st_db (reorg st b)) = d_tm (st_db st2) /\
  d_legacy (st_db (reorg st b)) = d_legacy (st_db st2).
Proof. exact (reorg_as_if_never_seen_tables HT node zhf leafh). Qed.
Theorem C04_tables_are_function_of_history : forall ks st, BRun HT node zhf leafh ks st -> tables_are (st_db st) ks.
Proof. exact (run_tables HT node zhf leafh). Qed.
End Tables.

Print Assumptions C04_reorg_nested.
Print Assumptions C04_reorg_as_if_never_seen_tables.
Print Assumptions C04_tables_are_function_of_history.
Print Assumptions C04_processor_invariant.
Print Assumptions C04_processor_reorg_reachable.
Print Assumptions C04_processor_reorg_history.
Print Assumptions C04_processor_reorg_as_if_never_seen.
Print Assumptions C04_store_reorg_as_if_never_seen.
Print Assumptions C04_store_reorg_as_if_never_seen_roots.
Print Assumptions C04_reorg_above_tip_identity.
Print Assumptions C04_tree_after_reorg_reinit.
Print Assumptions C04_fork_roots_are_reference_roots.
