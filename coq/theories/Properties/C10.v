(* C10 — the signature commits to exactly what is sent and stored.
   Only property theorems (each closed by `exact` of a lemma proved in Proofs/CommitmentProofs.v), non-vacuity
   examples, source-fact obligations and Print Assumptions.

   Every theorem is generic in the hash function `hash : bytes -> N` (digest bytes H p = 32-byte big endian of hash p).
   "Collision-free" is an explicit hypothesis restricted to the finite list of preimages hashed for the two
   certificates compared (`collision_free_on`); the examples discharge it for real Keccak-256 by computation.

   Fields NOT covered (theorems C10_not_covered_by_any, C10_l1leaf_context_not_covered, C10_gi_rollup_ignored_when_mainnet;
   evidence: the "only covered" theorems below, and the harness perturbs each of them on the real code):
     Certificate.Hash (identity): Metadata, CustomChainData, AggchainData (incl. the signature), L1InfoTreeLeafCount;
                        in every claim L1Leaf.L1InfoTreeIndex / RollupExitRoot / MainnetExitRoot; GlobalIndex.RollupIndex
                        when MainnetFlag is set; nil-vs-0 amount, nil-vs-empty-vs-keccak("") metadata.
     PPHashToSign:      everything but NewLocalExitRoot and the imported exits' global indexes (so NOT: NetworkID, Height,
                        PrevLocalExitRoot, the bridge exits, the imported exits' bridge exits and claim data, ...).
     FEPHashToSign:     NetworkID, PrevLocalExitRoot, the bridge exits, claim data, Metadata, CustomChainData,
                        L1InfoTreeLeafCount, AggchainData other than AggchainParams.
   PARTIAL clause: "produced by the configured signer" — ECDSA is not modelled (signer : bytes -> bytes is a Section
   variable); the harness checks on the real code that the attached signature is the signer's output and recovers to
   the configured key. *)
From Coq Require Import NArith List Bool String.
From Verif Require Import Base.Bytes Base.Hash Model.GlobalIndex Model.Commitment Proofs.CommitmentProofs Gen.SourceFacts.
Import ListNotations.
Open Scope N_scope.

(* source-fact obligations: the commitment each flow hands to the signer, and what is sent is what is stored *)
Example src_pp_flow_signs_pp_hash : src_c10_pp_signed_hash = "PPHashToSign"%string.
Proof. reflexivity. Qed.
Example src_fep_flow_signs_fep_hash : src_c10_fep_signed_hash = "FEPHashToSign"%string.
Proof. reflexivity. Qed.
Example src_send_and_store_same_object : src_c10_send_store_same_object = true.
Proof. reflexivity. Qed.

(* ---- "changing any covered field changes the commitment" ---- *)
Theorem C10_cert_id_injective : forall hash c1 c2,
  collision_free_on hash (cert_preimages hash c1 ++ cert_preimages hash c2) -> wf_cert c1 -> wf_cert c2 ->
  cert_hash hash c1 = cert_hash hash c2 -> covered_id hash c1 = covered_id hash c2.
Proof. exact cert_id_injective. Qed.

Theorem C10_pp_commitment_injective : forall hash c1 c2,
  collision_free_on hash (pp_preimages hash c1 ++ pp_preimages hash c2) -> wf_cert c1 -> wf_cert c2 ->
  pp_hash_to_sign hash c1 = pp_hash_to_sign hash c2 -> covered_pp c1 = covered_pp c2.
Proof. exact pp_commitment_injective. Qed.

Theorem C10_fep_commitment_injective : forall hash c1 c2,
  collision_free_on hash (fep_preimages hash c1 ++ fep_preimages hash c2) -> wf_cert c1 -> wf_cert c2 ->
  fep_hash_to_sign hash c1 = fep_hash_to_sign hash c2 -> covered_fep hash c1 = covered_fep hash c2.
Proof. exact fep_commitment_injective. Qed.

(* the same with the hypothesis as a predicate P on preimages (Section hypothesis `collision_free` of Proofs) *)
Theorem C10_cert_id_injective_P : forall hash (P : bytes -> Prop),
  (forall a b, P a -> P b -> H hash a = H hash b -> a = b) ->
  forall c1 c2, wf_cert c1 -> wf_cert c2 ->
  (forall p, In p (cert_preimages hash c1) -> P p) -> (forall p, In p (cert_preimages hash c2) -> P p) ->
  cert_hash hash c1 = cert_hash hash c2 -> covered_id hash c1 = covered_id hash c2.
Proof. exact cert_id_inj. Qed.

(* each preimage builder is injective in its covered fields WITHOUT any hypothesis on the hash
   (fixed widths; the one variable-length field, the effective metadata hash, is last) *)
Theorem C10_exit_preimage_injective : forall hash b1 b2, wf_exit b1 -> wf_exit b2 ->
  exit_preimage hash b1 = exit_preimage hash b2 -> covered_exit hash b1 = covered_exit hash b2.
Proof. exact exit_preimage_inj. Qed.
Theorem C10_mproof_preimage_injective : forall m1 m2, wf_mproof m1 -> wf_mproof m2 ->
  mproof_preimage m1 = mproof_preimage m2 -> covered_mproof m1 = covered_mproof m2.
Proof. exact mproof_preimage_inj. Qed.
Theorem C10_l1leaf_preimage_injective : forall l1 l2, wf_l1leaf l1 -> wf_l1leaf l2 ->
  l1leaf_preimage l1 = l1leaf_preimage l2 -> covered_l1leaf l1 = covered_l1leaf l2.
Proof. exact l1leaf_preimage_inj. Qed.
Theorem C10_gi_preimage_injective : forall g1 g2, wf_gi g1 -> wf_gi g2 ->
  gi_preimage g1 = gi_preimage g2 -> gi_value g1 = gi_value g2.
Proof. exact gi_preimage_inj. Qed.

(* conversely the commitments depend on NOTHING BUT the covered fields (no hypothesis on the hash) *)
Theorem C10_cert_hash_only_covered : forall hash c1 c2, covered_id hash c1 = covered_id hash c2 -> cert_hash hash c1 = cert_hash hash c2.
Proof. exact cert_hash_only_covered. Qed.
Theorem C10_pp_hash_only_covered : forall hash c1 c2, covered_pp c1 = covered_pp c2 -> pp_hash_to_sign hash c1 = pp_hash_to_sign hash c2.
Proof. exact pp_hash_only_covered. Qed.
Theorem C10_fep_hash_only_covered : forall hash c1 c2, covered_fep hash c1 = covered_fep hash c2 -> fep_hash_to_sign hash c1 = fep_hash_to_sign hash c2.
Proof. exact fep_hash_only_covered. Qed.

(* ---- not covered / collapses of the builders (each is a witness family) ---- *)
Theorem C10_not_covered_by_any : forall hash c md custom lc sig,
  let c' := set_uncovered c md custom lc sig in
  cert_hash hash c' = cert_hash hash c /\ pp_hash_to_sign hash c' = pp_hash_to_sign hash c /\
  fep_hash_to_sign hash c' = fep_hash_to_sign hash c.
Proof. exact not_covered_by_any. Qed.
Theorem C10_l1leaf_context_not_covered : forall hash l idx rer mer,
  l1leaf_hash hash {| l1_index := idx; l1_rer := rer; l1_mer := mer; l1_ger := l1_ger l; l1_block_hash := l1_block_hash l;
                      l1_timestamp := l1_timestamp l |} = l1leaf_hash hash l.
Proof. exact l1leaf_context_not_covered. Qed.
Theorem C10_gi_rollup_ignored_when_mainnet : forall hash r r' l,
  gi_hash hash {| gi_mainnet := true; gi_rollup := r; gi_leaf := l |} = gi_hash hash {| gi_mainnet := true; gi_rollup := r'; gi_leaf := l |}.
Proof. exact gi_rollup_ignored_when_mainnet. Qed.
Theorem C10_metadata_collapse : forall hash lt onet oa dn da am,
  let x md := {| x_leaf_type := lt; x_orig_net := onet; x_orig_addr := oa; x_dest_net := dn; x_dest_addr := da;
                 x_amount := am; x_metadata := md |} in
  exit_hash hash (x None) = exit_hash hash (x (Some [])) /\
  (empty_bytes_hash hash <> [] -> exit_hash hash (x None) = exit_hash hash (x (Some (empty_bytes_hash hash)))).
Proof. exact metadata_collapse. Qed.
Theorem C10_amount_nil_zero_collapse : forall hash lt onet oa dn da md,
  let x am := {| x_leaf_type := lt; x_orig_net := onet; x_orig_addr := oa; x_dest_net := dn; x_dest_addr := da;
                 x_amount := am; x_metadata := md |} in
  exit_hash hash (x None) = exit_hash hash (x (Some 0)).
Proof. exact amount_nil_zero_collapse. Qed.
Theorem C10_fep_params_collapse : forall hash c s,
  fep_hash_to_sign hash (set_aggchain c AdNone) = fep_hash_to_sign hash (set_aggchain c (AdSignature s)).
Proof. exact fep_params_collapse. Qed.

(* ---- what is SENT ---- *)
Theorem C10_wire_preserves_covered : forall hash c w, canonical c -> to_wire c = Some w ->
  covered hash (of_wire w) = covered hash c /\ cert_signature (of_wire w) = cert_signature c /\
  c_metadata (of_wire w) = c_metadata c /\ c_custom (of_wire w) = c_custom c /\ c_leaf_count (of_wire w) = c_leaf_count c.
Proof. exact wire_preserves_covered_lemma. Qed.
Theorem C10_wire_preserves_commitments : forall hash c w, canonical c -> to_wire c = Some w ->
  cert_hash hash (of_wire w) = cert_hash hash c /\ pp_hash_to_sign hash (of_wire w) = pp_hash_to_sign hash c /\
  fep_hash_to_sign hash (of_wire w) = fep_hash_to_sign hash c.
Proof. exact wire_preserves_commitments. Qed.

(* ---- what is STORED ---- *)
Theorem C10_json_round_trip : forall c, canonical c -> json_round_trip c = Some (norm_cert c).
Proof. exact json_round_trip_canonical. Qed.
Theorem C10_json_preserves_covered : forall hash c, canonical c ->
  exists c', json_round_trip c = Some c' /\ covered hash c' = covered hash c /\
             cert_hash hash c' = cert_hash hash c /\ pp_hash_to_sign hash c' = pp_hash_to_sign hash c /\
             fep_hash_to_sign hash c' = fep_hash_to_sign hash c /\
             c_aggchain c' = c_aggchain c /\ c_metadata c' = c_metadata c /\ c_custom c' = c_custom c /\
             c_leaf_count c' = c_leaf_count c.
Proof. exact json_preserves_covered_lemma. Qed.

(* ---- the signing step (signer abstract: PARTIAL for "produced by the configured signer") ---- *)
Theorem C10_signed_over_final_content_pp : forall hash signer c,
  let c' := sign_step_pp hash signer c in
  cert_signature c' = signer (pp_hash_to_sign hash c') /\
  signer_input_pp hash c = pp_hash_to_sign hash c' /\
  covered_id hash c' = covered_id hash c /\ covered_pp c' = covered_pp c /\
  (match c_aggchain c with AdProof _ _ _ _ _ _ => False | _ => True end -> covered hash c' = covered hash c).
Proof. exact sign_step_pp_final. Qed.
Theorem C10_signed_over_final_content_fep : forall hash signer c proof version vkey params ctx custom,
  let c' := sign_step_fep hash signer c proof version vkey params ctx custom in
  cert_signature c' = signer (fep_hash_to_sign hash c') /\
  signer_input_fep hash c proof version vkey params ctx custom = fep_hash_to_sign hash c' /\
  covered_id hash c' = covered_id hash c /\ covered_pp c' = covered_pp c /\
  covered_fep hash c' = (c_new_ler c, map (fun i => (gi_value (ie_gi i), covered_exit hash (ie_exit i))) (c_imported c),
                         c_height c, fbe 32 params) /\
  c_custom c' = custom.
Proof. exact sign_step_fep_final. Qed.

(* ---- the model's global index functions are the C19 byte-level model (tied to the Go code there) ---- *)
Theorem C10_gi_value_is_C19_encode : forall g, wf_gi g -> gi_value g = enc3 (gi_triple g).
Proof. exact gi_value_is_encode. Qed.
Theorem C10_gi_preimage_is_C19_commit : forall g, wf_gi g -> gi_preimage g = commit_gi (gi_triple g).
Proof. exact gi_preimage_is_commit_gi. Qed.
Theorem C10_wire_gi_is_C19_wire : forall g, wf_gi g -> fbe 32 (gi_value g) = wire_gi (gi_triple g).
Proof. exact wire_gi_is_model. Qed.
Theorem C10_gi_of_value_is_C19_decode : forall v, v < 2^256 -> gi_triple (gi_of_value v) = decode v.
Proof. exact gi_of_value_is_decode. Qed.
Theorem C10_fast_encoders : forall w v, fbe w v = be w v /\ fle w v = le w v.
Proof. exact (fun w v => conj (fbe_be w v) (fle_le w v)). Qed.

(* ------------------------------------------------------------------------------------------------ *)
(* Non-vacuity, with real Keccak-256                                                                 *)
(* ------------------------------------------------------------------------------------------------ *)
Definition ex_proof (s : N) : merkle_proof := {| mp_root := 1000 + s; mp_siblings := map (fun k => N.of_nat k * 7919 + s) (seq 0 32) |}.
Definition ex_leaf : l1_leaf := {| l1_index := 5; l1_rer := 11; l1_mer := 12; l1_ger := 13; l1_block_hash := 14; l1_timestamp := 1700000000 |}.
Definition ex_exit (amount : option N) (md : option bytes) : bridge_exit :=
  {| x_leaf_type := 1; x_orig_net := 3; x_orig_addr := 0x1111; x_dest_net := 7; x_dest_addr := 0x2222; x_amount := amount; x_metadata := md |}.
Definition ex_cert (amount : option N) : certificate :=
  {| c_network := 9; c_height := 42; c_prev_ler := 0xaaaa; c_new_ler := 0xbbbb;
     c_exits := [ex_exit amount None; ex_exit (Some (2^256 - 1)) (Some (fbe 32 77))];
     c_imported := [ {| ie_exit := ex_exit None (Some []); ie_claim := ClaimMainnet (ex_proof 1) (ex_proof 2) ex_leaf;
                        ie_gi := {| gi_mainnet := true; gi_rollup := 0; gi_leaf := 6 |} |};
                     {| ie_exit := ex_exit (Some 0) None; ie_claim := ClaimRollup (ex_proof 3) (ex_proof 4) (ex_proof 5) ex_leaf;
                        ie_gi := {| gi_mainnet := false; gi_rollup := 2; gi_leaf := 8 |} |} ];
     c_metadata := 0xcccc; c_custom := []; c_aggchain := AdSignature (fbe 65 123456789); c_leaf_count := 6 |}.
Definition ex_c1 := ex_cert (Some 5).
Definition ex_c2 := ex_cert (Some 6).

(* the hypotheses of the injectivity theorems hold of two concrete certificates that differ in one covered field:
   canonical (hence wf), Keccak-256 collision-free on all the preimages involved, commitments differ *)
Example C10_nonvacuous_injectivity :
  canonical ex_c1 /\ canonical ex_c2 /\
  collision_free_on keccakN (cert_preimages keccakN ex_c1 ++ cert_preimages keccakN ex_c2) /\
  collision_free_on keccakN (pp_preimages keccakN ex_c1 ++ pp_preimages keccakN ex_c2) /\
  collision_free_on keccakN (fep_preimages keccakN ex_c1 ++ fep_preimages keccakN ex_c2) /\
  cert_hash keccakN ex_c1 <> cert_hash keccakN ex_c2 /\ covered_id keccakN ex_c1 <> covered_id keccakN ex_c2 /\
  pp_hash_to_sign keccakN ex_c1 = pp_hash_to_sign keccakN ex_c2.
Proof.
  split; [apply canonicalb_sound; vm_compute; reflexivity|].
  split; [apply canonicalb_sound; vm_compute; reflexivity|].
  split; [apply cf_list_b_sound; vm_compute; reflexivity|].
  split; [apply cf_list_b_sound; vm_compute; reflexivity|].
  split; [apply cf_list_b_sound; vm_compute; reflexivity|].
  split; [vm_compute; discriminate|]. split; [vm_compute; discriminate|]. vm_compute; reflexivity.
Qed.

(* wire and JSON: a concrete canonical certificate is sent and stored (both conversions succeed) *)
Example C10_nonvacuous_wire_json :
  (exists w, to_wire ex_c1 = Some w /\ bytes_eqb (cert_hash keccakN (of_wire w)) (cert_hash keccakN ex_c1) = true) /\
  json_round_trip ex_c1 = Some (norm_cert ex_c1) /\ norm_cert ex_c1 <> ex_c1.
Proof.
  split; [eexists; split; [reflexivity|vm_compute; reflexivity]|].
  split; [vm_compute; reflexivity|]. vm_compute. discriminate.
Qed.

(* sign step: a concrete run of both flows' models *)
Example C10_nonvacuous_sign :
  let signer := fun h : bytes => app h [27] in
  let c0 := set_aggchain ex_c1 AdNone in
  cert_signature (sign_step_pp keccakN signer c0) = app (pp_hash_to_sign keccakN c0) [27] /\
  cert_signature (sign_step_fep keccakN signer c0 [1;2] [118] [3] 0xdddd [] [9]) =
    app (fep_hash_to_sign keccakN (sign_step_fep keccakN signer c0 [1;2] [118] [3] 0xdddd [] [9])) [27] /\
  fep_hash_to_sign keccakN (sign_step_fep keccakN signer c0 [1;2] [118] [3] 0xdddd [] [9]) <> fep_hash_to_sign keccakN c0.
Proof. cbv zeta. split; [vm_compute; reflexivity|]. split; [vm_compute; reflexivity|]. vm_compute. discriminate. Qed.

(* outside the node's reach, documented: metadata that is not 32 bytes is committed to in full but cropped / padded to
   32 bytes on the wire, so for such a (non-canonical) certificate what is signed is NOT what is sent *)
Example C10_noncanonical_metadata_lossy_on_wire :
  let c := {| c_network := 1; c_height := 0; c_prev_ler := 0; c_new_ler := 0;
              c_exits := [ex_exit (Some 1) (Some (fbe 33 (2^260)))]; c_imported := []; c_metadata := 0; c_custom := [];
              c_aggchain := AdSignature []; c_leaf_count := 0 |} in
  canonicalb c = false /\
  exists w, to_wire c = Some w /\ bytes_eqb (cert_hash keccakN (of_wire w)) (cert_hash keccakN c) = false.
Proof. cbv zeta. split; [vm_compute; reflexivity|]. eexists. split; [reflexivity|vm_compute; reflexivity]. Qed.

(* the literal keccak("") as metadata is the same commitment as nil metadata (real Keccak) *)
Example C10_metadata_collapse_keccak :
  exit_hash keccakN (ex_exit (Some 1) None) = exit_hash keccakN (ex_exit (Some 1) (Some (fbe 32 empty_hash))).
Proof. vm_compute. reflexivity. Qed.

Print Assumptions C10_cert_id_injective.
Print Assumptions C10_pp_commitment_injective.
Print Assumptions C10_fep_commitment_injective.
Print Assumptions C10_cert_id_injective_P.
Print Assumptions C10_exit_preimage_injective.
Print Assumptions C10_cert_hash_only_covered.
Print Assumptions C10_pp_hash_only_covered.
Print Assumptions C10_fep_hash_only_covered.
Print Assumptions C10_not_covered_by_any.
Print Assumptions C10_wire_preserves_covered.
Print Assumptions C10_wire_preserves_commitments.
Print Assumptions C10_json_round_trip.
Print Assumptions C10_json_preserves_covered.
Print Assumptions C10_signed_over_final_content_pp.
Print Assumptions C10_signed_over_final_content_fep.
Print Assumptions C10_gi_preimage_is_C19_commit.
Print Assumptions C10_nonvacuous_injectivity.
