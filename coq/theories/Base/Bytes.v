(* Bytes as N (< 256), big/little endian encodings, Go big.Int.Bytes. Definitions + basic lemmas. *)
From Coq Require Import NArith List Lia Bool ZArith.
From Coq Require Import ZifyN ZifyNat ZifyBool.
Import ListNotations.
Open Scope N_scope.

Definition byte := N.
Definition bytes := list N.

(* big-endian value of a byte list (Go: new(big.Int).SetBytes) *)
Definition of_be (bs : bytes) : N := fold_left (fun acc b => acc * 256 + b) bs 0.
(* fixed-width big-endian, w bytes (Go: FillBytes / common.BigToHash / binary.BigEndian.PutUintXX) *)
Fixpoint be (w : nat) (v : N) : bytes :=
  match w with O => [] | S k => be k (v / 256) ++ [v mod 256] end.
(* fixed-width little-endian *)
Fixpoint le (w : nat) (v : N) : bytes :=
  match w with O => [] | S k => (v mod 256) :: le k (v / 256) end.
Definition of_le (bs : bytes) : N := of_be (rev bs).
Fixpoint strip (bs : bytes) : bytes :=
  match bs with 0 :: t => strip t | _ => bs end.
(* Go big.Int.Bytes for v < 2^256: minimal big-endian *)
Definition big_bytes (v : N) : bytes := strip (be 32 v).

Definition bytes_ok (bs : bytes) := Forall (fun b => b < 256) bs.

Fixpoint bytes_eqb (a b : bytes) : bool :=
  match a, b with
  | [], [] => true
  | x :: a', y :: b' => N.eqb x y && bytes_eqb a' b'
  | _, _ => false
  end.

Lemma bytes_eqb_eq a b : bytes_eqb a b = true <-> a = b.
Proof.
  revert b; induction a as [|x a IH]; intros [|y b]; cbn; try (split; congruence).
  rewrite andb_true_iff, N.eqb_eq, IH. split; [intros [-> ->]; reflexivity|intros H; inversion H; auto].
Qed.

Lemma of_be_fold acc bs : fold_left (fun acc b => acc * 256 + b) bs acc = acc * 256 ^ N.of_nat (length bs) + of_be bs.
Proof.
  revert acc. unfold of_be. induction bs as [|b bs IH]; intros acc; cbn [fold_left length].
  - cbn. lia.
  - rewrite IH. rewrite (IH (0 * 256 + b)). rewrite Nat2N.inj_succ, N.pow_succ_r'. lia.
Qed.
Lemma of_be_app hi lo : of_be (hi ++ lo) = of_be hi * 256 ^ N.of_nat (length lo) + of_be lo.
Proof. unfold of_be at 1. rewrite fold_left_app. fold (of_be hi). apply of_be_fold. Qed.
Lemma of_be_nil : of_be [] = 0.
Proof. reflexivity. Qed.
Lemma of_be_single b : of_be [b] = b.
Proof. unfold of_be. cbn. lia. Qed.
Lemma of_be_cons b bs : of_be (b :: bs) = b * 256 ^ N.of_nat (length bs) + of_be bs.
Proof. change (b :: bs) with ([b] ++ bs). rewrite of_be_app, of_be_single. reflexivity. Qed.

Lemma pow256_pos k : 0 < 256 ^ k.
Proof. apply N.neq_0_lt_0, N.pow_nonzero; lia. Qed.

Lemma of_be_lt bs : bytes_ok bs -> of_be bs < 256 ^ N.of_nat (length bs).
Proof.
  induction bs as [|b bs IH] using rev_ind; intros Hok.
  - cbn. lia.
  - apply Forall_app in Hok as [Hok1 Hok2]. inversion Hok2; subst.
    rewrite of_be_app, app_length. cbn [length]. specialize (IH Hok1).
    replace (N.of_nat (length bs + 1)) with (N.succ (N.of_nat (length bs))) by lia.
    rewrite N.pow_succ_r', of_be_single by lia.
    pose proof (pow256_pos (N.of_nat (length bs))).
    set (p := 256 ^ N.of_nat (length bs)) in *. clearbody p. timeout 20 nia.
Qed.

Lemma be_length w v : length (be w v) = w.
Proof. revert v; induction w as [|w IH]; intros v; cbn [be]; [reflexivity|]. rewrite app_length, IH. cbn. lia. Qed.
Lemma le_length w v : length (le w v) = w.
Proof. revert v; induction w as [|w IH]; intros v; cbn [le length]; [reflexivity|]. rewrite IH. reflexivity. Qed.
Lemma be_ok w v : bytes_ok (be w v).
Proof.
  revert v; induction w as [|w IH]; intros v; cbn [be]; [constructor|].
  apply Forall_app; split; [apply IH|]. constructor; [|constructor].
  apply N.mod_lt. lia.
Qed.
Lemma rev_le w v : rev (le w v) = be w v.
Proof. revert v; induction w as [|w IH]; intros v; cbn [le be rev]; [reflexivity|]. rewrite IH. reflexivity. Qed.
Lemma rev_be w v : rev (be w v) = le w v.
Proof. rewrite <- rev_le, rev_involutive. reflexivity. Qed.

Lemma of_be_be w v : v < 256 ^ N.of_nat w -> of_be (be w v) = v.
Proof.
  revert v; induction w as [|w IH]; intros v Hv; cbn [be].
  - cbn in *. lia.
  - rewrite of_be_app. cbn [length]. rewrite IH.
    + rewrite of_be_single. cbn [N.of_nat]. change (256 ^ N.pos (Pos.of_succ_nat 0)) with 256.
      pose proof (N.div_mod v 256). lia.
    + rewrite Nat2N.inj_succ, N.pow_succ_r' in Hv by lia.
      apply N.div_lt_upper_bound; lia.
Qed.
Lemma of_le_le w v : v < 256 ^ N.of_nat w -> of_le (le w v) = v.
Proof. intros H. unfold of_le. rewrite rev_le. apply of_be_be, H. Qed.

(* be w (of_be bs) = bs for well-formed bs of length w *)
Lemma be_of_be bs : bytes_ok bs -> be (length bs) (of_be bs) = bs.
Proof.
  induction bs as [|b bs IH] using rev_ind; intros Hok; [reflexivity|].
  apply Forall_app in Hok as [Hok1 Hok2]. inversion Hok2 as [|? ? Hb _]; subst.
  rewrite app_length. cbn [length]. replace (length bs + 1)%nat with (S (length bs)) by lia.
  cbn [be]. rewrite of_be_app, of_be_single. cbn [length N.of_nat].
  change (256 ^ N.pos (Pos.of_succ_nat 0)) with 256.
  replace ((of_be bs * 256 + b) / 256) with (of_be bs).
  2:{ apply N.div_unique with b; lia. }
  replace ((of_be bs * 256 + b) mod 256) with b.
  2:{ apply N.mod_unique with (of_be bs); lia. }
  rewrite IH by assumption. reflexivity.
Qed.

Lemma be_inj w a b : a < 256 ^ N.of_nat w -> b < 256 ^ N.of_nat w -> be w a = be w b -> a = b.
Proof. intros Ha Hb H. rewrite <- (of_be_be w a Ha), <- (of_be_be w b Hb), H. reflexivity. Qed.

Lemma strip_val bs : of_be (strip bs) = of_be bs.
Proof.
  induction bs as [|b bs IH]; [reflexivity|]. cbn [strip]. destruct b; [|reflexivity].
  rewrite IH. rewrite of_be_cons. lia.
Qed.
Lemma strip_ok bs : bytes_ok bs -> bytes_ok (strip bs).
Proof. induction bs as [|b bs IH]; intros H; [exact H|]. cbn [strip]. destruct b; [apply IH; inversion H; assumption|exact H]. Qed.
Lemma strip_head bs : match strip bs with [] => True | b :: _ => b <> 0 end.
Proof. induction bs as [|b bs IH]; [exact I|]. cbn [strip]. destruct b; [exact IH|discriminate]. Qed.
Lemma strip_length_le bs : (length (strip bs) <= length bs)%nat.
Proof. induction bs as [|b bs IH]; [cbn; lia|]. cbn [strip]. destruct b; cbn [length]; lia. Qed.

Lemma strip_len_lower bs : bytes_ok bs -> strip bs <> [] -> 256 ^ N.of_nat (length (strip bs) - 1) <= of_be bs.
Proof.
  intros Hok Hne. rewrite <- strip_val. pose proof (strip_head bs) as Hh. pose proof (strip_ok _ Hok) as Hs.
  destruct (strip bs) as [|b t]; [congruence|].
  rewrite of_be_cons.
  replace (length (b :: t) - 1)%nat with (length t) by (cbn; lia).
  pose proof (pow256_pos (N.of_nat (length t))).
  set (p := 256 ^ N.of_nat (length t)) in *. clearbody p. assert (1 <= b) by lia. timeout 20 nia.
Qed.
Lemma strip_len_upper bs : bytes_ok bs -> of_be bs < 256 ^ N.of_nat (length (strip bs)).
Proof. intros Hok. rewrite <- strip_val. apply of_be_lt, strip_ok, Hok. Qed.

(* splitting a big-endian byte string at k bytes from the end *)
Lemma split_last (bs : bytes) k : bytes_ok bs -> (k <= length bs)%nat ->
  of_be (skipn (length bs - k) bs) = of_be bs mod 256 ^ N.of_nat k /\
  of_be (firstn (length bs - k) bs) = of_be bs / 256 ^ N.of_nat k.
Proof.
  intros Hok Hk.
  pose proof (firstn_skipn (length bs - k) bs) as Hsplit.
  assert (Hlen : length (skipn (length bs - k) bs) = k) by (rewrite skipn_length; lia).
  assert (Hoklo : bytes_ok (skipn (length bs - k) bs)).
  { unfold bytes_ok in *. rewrite <- Hsplit in Hok. apply Forall_app in Hok. tauto. }
  pose proof (of_be_lt _ Hoklo) as Hlt. rewrite Hlen in Hlt.
  assert (Heq : of_be bs = of_be (firstn (length bs - k) bs) * 256 ^ N.of_nat k + of_be (skipn (length bs - k) bs)).
  { rewrite <- Hsplit at 1. rewrite of_be_app, Hlen. reflexivity. }
  pose proof (pow256_pos (N.of_nat k)).
  set (p := 256 ^ N.of_nat k) in *. clearbody p.
  set (hi := of_be (firstn _ bs)) in *. set (lo := of_be (skipn _ bs)) in *. clearbody hi lo.
  split.
  - apply N.mod_unique with hi; lia.
  - apply N.div_unique with lo; lia.
Qed.

(* hex printing helper for replay files: not used in proofs *)
Definition concat_bytes (l : list bytes) : bytes := concat l.
