(* Readable reference Keccak-256 over Uint63 half-lanes with list-indexed state; used only to cross-check the generated unrolled Keccak63. *)
From Coq Require Import Uint63 List NArith ZArith.
Import ListNotations.
Open Scope uint63_scope.

Definition m32 : int := 4294967295.
Record lane := L { hi : int; lo : int }.
Definition lx (a b : lane) := L (hi a lxor hi b) (lo a lxor lo b).
Definition la (a b : lane) := L (hi a land hi b) (lo a land lo b).
Definition ln (a : lane) := L (hi a lxor m32) (lo a lxor m32).
Definition rot_small (a : lane) (r : int) : lane := (* 0 < r < 32 *)
  L (((hi a << r) lor (lo a >> (32 - r))) land m32)
    (((lo a << r) lor (hi a >> (32 - r))) land m32).
Definition rotl (a : lane) (r : int) : lane :=
  if r =? 0 then a
  else if r <? 32 then rot_small a r
  else if r =? 32 then L (lo a) (hi a)
  else rot_small (L (lo a) (hi a)) (r - 32).
Definition lz := L 0 0.
Definition mk (h l : int) := L h l.

Definition RC : list lane :=
 [mk 0x00000000 0x00000001; mk 0x00000000 0x00008082; mk 0x80000000 0x0000808A; mk 0x80000000 0x80008000;
  mk 0x00000000 0x0000808B; mk 0x00000000 0x80000001; mk 0x80000000 0x80008081; mk 0x80000000 0x00008009;
  mk 0x00000000 0x0000008A; mk 0x00000000 0x00000088; mk 0x00000000 0x80008009; mk 0x00000000 0x8000000A;
  mk 0x00000000 0x8000808B; mk 0x80000000 0x0000008B; mk 0x80000000 0x00008089; mk 0x80000000 0x00008003;
  mk 0x80000000 0x00008002; mk 0x80000000 0x00000080; mk 0x00000000 0x0000800A; mk 0x80000000 0x8000000A;
  mk 0x80000000 0x80008081; mk 0x80000000 0x00008080; mk 0x00000000 0x80000001; mk 0x80000000 0x80008008].
Definition ROT : list int :=
 [0; 1; 62; 28; 27;  36; 44; 6; 55; 20;  3; 10; 43; 25; 39;  41; 45; 15; 21; 8;  18; 2; 61; 56; 14].

Definition nl (l : list lane) (i : nat) := nth i l lz.
Definition m5 (x : nat) : nat := Nat.modulo x 5.
Definition idx (x y : nat) : nat := Nat.add (m5 x) (Nat.mul 5 (m5 y)).

Definition theta (a : list lane) : list lane :=
  let c := map (fun x : nat => lx (nl a (idx x 0)) (lx (nl a (idx x 1)) (lx (nl a (idx x 2)) (lx (nl a (idx x 3)) (nl a (idx x 4)))))) (seq 0 5) in
  let d := map (fun x : nat => lx (nl c (m5 (Nat.add x 4))) (rotl (nl c (m5 (Nat.add x 1))) 1)) (seq 0 5) in
  map (fun i : nat => lx (nl a i) (nl d (m5 i))) (seq 0 25).
Definition rhopi (a : list lane) : list lane :=
  map (fun j : nat => let X := m5 j in let Y := Nat.div j 5 in let y := X in
         let x := m5 (Nat.add (Nat.mul 3 Y) y) in
         rotl (nl a (idx x y)) (nth (idx x y) ROT 0)) (seq 0 25).
Definition chi (b : list lane) : list lane :=
  map (fun j : nat => let x := m5 j in let y := Nat.div j 5 in
         lx (nl b j) (la (ln (nl b (idx (Nat.add x 1) y))) (nl b (idx (Nat.add x 2) y)))) (seq 0 25).
Definition iota (rc : lane) (a : list lane) := match a with [] => [] | h :: t => lx h rc :: t end.
Definition round (a : list lane) (rc : lane) := iota rc (chi (rhopi (theta a))).
Definition keccakf (a : list lane) := fold_left round RC a.

(* bytes as int *)
Definition le4 (bs : list int) : int :=
  match bs with b0 :: b1 :: b2 :: b3 :: _ => b0 lor (b1 << 8) lor (b2 << 16) lor (b3 << 24) | _ => 0 end.
Definition lane_of (bs : list int) : lane := L (le4 (skipn 4 bs)) (le4 bs).
Definition bytes4 (x : int) : list int := [x land 255; (x >> 8) land 255; (x >> 16) land 255; (x >> 24) land 255].
Definition bytes_of (l : lane) : list int := bytes4 (lo l) ++ bytes4 (hi l).
Fixpoint chunks (k fuel : nat) (l : list int) : list (list int) :=
  match fuel with O => [] | S f => match l with [] => [] | _ => firstn k l :: chunks k f (skipn k l) end end.
Definition rate := 136%nat.
Definition pad (m : list int) : list int :=
  let q := Nat.sub rate (Nat.modulo (length m) rate) in
  if Nat.eqb q 1 then m ++ [0x81] else m ++ [0x01] ++ repeat 0 (Nat.sub q 2) ++ [0x80].
Definition absorb (st : list lane) (blk : list int) : list lane :=
  let lanes := map lane_of (chunks 8 17 blk) in
  keccakf (map (fun i : nat => if Nat.ltb i 17 then lx (nl st i) (nl lanes i) else nl st i) (seq 0 25)).
Definition keccak256 (m : list int) : list int :=
  let p := pad m in
  firstn 32 (flat_map bytes_of (fold_left absorb (chunks rate (S (length p)) p) (repeat lz 25))).
Definition toN (l : list int) : N := fold_left (fun acc b => (acc * 256 + Z.to_N (to_Z b))%N) l 0%N.
