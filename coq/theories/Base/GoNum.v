(* Go's fixed-width unsigned arithmetic and float64, as used by the definitions that tools/go2coq GENERATES from the Go
   source (coq/theories/Gen/Gen*.v). Definitions only.

   uint64 / uint (64-bit platform): a value is an N below 2^64; +, -, * wrap modulo 2^64; / and % are N.div / N.modulo
   (Go panics on a zero divisor; N.div returns 0: every generated use is guarded by a validated configuration, stated
   where the generated function is used). int(x) of a uint64 is the two's complement reading.
   float64 = IEEE-754 binary64 = Flocq `binary_float 53 1024`, conversions and division correctly rounded to nearest
   even, comparisons false when unordered. *)
From Coq Require Import ZArith NArith Bool.
From Flocq Require Import Core BinarySingleNaN.

Open Scope N_scope.

Definition U64 : N := Eval vm_compute in 2 ^ 64.
Definition I63 : N := Eval vm_compute in 2 ^ 63.
Definition U32 : N := Eval vm_compute in 2 ^ 32.

Definition u64_add (a b : N) : N := (a + b) mod U64.
Definition u64_sub (a b : N) : N := (a + U64 - b) mod U64.       (* for a, b < 2^64 *)
Definition u64_mul (a b : N) : N := (a * b) mod U64.
Definition u64_div (a b : N) : N := a / b.
Definition u64_mod (a b : N) : N := a mod b.
Definition u32_of (a : N) : N := a mod U32.                       (* uint32(x) *)
Definition go_int (x : N) : Z := if x <? I63 then Z.of_N x else (Z.of_N x - Z.of_N U64)%Z.   (* int(x), x : uint64 *)

Definition f64 := binary_float 53 1024.
Definition f64_prec : Prec_gt_0 53 := eq_refl.
Definition f64_prec_emax : Prec_lt_emax 53 1024 := eq_refl.
Definition f64_of_N (x : N) : f64 := @binary_normalize 53 1024 f64_prec f64_prec_emax mode_NE (Z.of_N x) 0 false.
Definition f64_div (x y : f64) : f64 := @Bdiv 53 1024 f64_prec f64_prec_emax mode_NE x y.
Definition f64_mul (x y : f64) : f64 := @Bmult 53 1024 f64_prec f64_prec_emax mode_NE x y.
Definition f64_lt (x y : f64) : bool := Bltb x y.
Definition f64_le (x y : f64) : bool := Bleb x y.

(* shifts, slices and counted loops of the generated definitions *)
From Coq Require Import List.
Import ListNotations.
Definition u64_shl (a b : N) : N := N.shiftl a b mod U64.
Definition list_get {A} (d : A) (l : list A) (i : N) : A := nth (N.to_nat i) l d.
Fixpoint list_set_nat {A} (l : list A) (i : nat) (v : A) : list A :=
  match l, i with
  | [], _ => []                           (* out of range: Go panics; not reached by the generated loops (index < length) *)
  | _ :: t, O => v :: t
  | x :: t, S i' => x :: list_set_nat t i' v
  end.
Definition list_set {A} (l : list A) (i : N) (v : A) : list A := list_set_nat l (N.to_nat i) v.
(* for i := lo; i < hi; i++ *)
Definition go_range (lo hi : N) : list N := map N.of_nat (seq (N.to_nat lo) (N.to_nat hi - N.to_nat lo)).

(* error values by class, and the outcome of a database lookup (a row, no row = db.ErrNotFound, any other failure) *)
Inductive gerr := EOK | ENotFound | EFail.
Definition err_eqb (a b : gerr) : bool :=
  match a, b with EOK, EOK | ENotFound, ENotFound | EFail, EFail => true | _, _ => false end.
Inductive lookup (A : Type) := LFound (a : A) | LNotFound | LFail.
Arguments LFound {A}. Arguments LNotFound {A}. Arguments LFail {A}.
(* for i := hi; i >= 0; i-- *)
Definition go_range_down (hi : N) : list N := rev (go_range 0 (hi + 1)).

(* fmt.Errorf("... %w", err): always an error; the class of the wrapped one is kept (a wrapped nil is still an error) *)
Definition err_wrap (e : gerr) : gerr := match e with EOK => EFail | _ => e end.
(* Go int (64-bit two's complement) as Z with explicit wrap *)
Definition i64_wrap (z : Z) : Z := ((z + 9223372036854775808) mod 18446744073709551616 - 9223372036854775808)%Z.
Definition i64_add (a b : Z) : Z := i64_wrap (a + b).
Definition i64_sub (a b : Z) : Z := i64_wrap (a - b).
Definition i64_mul (a b : Z) : Z := i64_wrap (a * b).

(* pointers that are tested against nil in an expression *)
Definition is_some {A} (o : option A) : bool := match o with Some _ => true | None => false end.
(* more float64: addition, conversion of an int, the float64 nearest to a rational constant num/den (both below 2^53: the
   correctly rounded quotient of two exactly representable integers), uint(x) = truncation toward zero (x >= 0, in range) *)
Definition f64_add (x y : f64) : f64 := @Bplus 53 1024 f64_prec f64_prec_emax mode_NE x y.
Definition f64_of_Z (z : Z) : f64 := @binary_normalize 53 1024 f64_prec f64_prec_emax mode_NE z 0 false.
Definition f64_ratio (num den : N) : f64 := f64_div (f64_of_N num) (f64_of_N den).
Definition f64_to_u64 (x : f64) : N := Z.to_N (Btrunc x).
