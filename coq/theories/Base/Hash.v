(* Execution instance of the hash: real Keccak-256 (generated unrolled version), on byte lists.
   Cross-checked against the readable reference on vectors and chained messages by vm_compute. *)
From Coq Require Import Uint63 List NArith ZArith.
From Verif Require Import Base.Bytes Base.FastBytes Base.Keccak63 Base.KeccakRef.
Import ListNotations.

Definition int_of_byte (b : N) : int := of_Z (Z.of_N b).
Definition byte_of_int (i : int) : N := Z.to_N (to_Z i).

(* keccak on bytes *)
Definition keccak_bytes (m : bytes) : bytes := map byte_of_int (Keccak63.keccak256 (map int_of_byte m)).
(* digest as a number (big-endian value of the 32 digest bytes) *)
(* of_be_fast = of_be on byte strings (FastBytes.of_be_fast_eq); the fast form is used because this runs under vm_compute *)
Definition keccakN (m : bytes) : N := of_be_fast (keccak_bytes m).
Definition keccak_ref_bytes (m : bytes) : bytes := map byte_of_int (KeccakRef.keccak256 (map int_of_byte m)).

(* Merkle node hash and leaf-level helpers on N digests *)
Definition nodeN (l r : N) : N := keccakN (be_fast 32 l ++ be_fast 32 r).
Lemma nodeN_preimage l r : nodeN l r = keccakN (be 32 l ++ be 32 r).
Proof. unfold nodeN. rewrite !be_fast_eq. reflexivity. Qed.

Definition empty_hash : N := 0xc5d2460186f7233c927e7db2dcc703c0e500b653ca82273b7bfad8045d85a470%N.

Example keccak_empty_vec : N.eqb (keccakN []) empty_hash = true.
Proof. vm_compute. reflexivity. Qed.
(* "abc" *)
Example keccak_abc_vec : N.eqb (keccakN [97;98;99]%N) 0x4e03657aea45a94fc7d47ba826c8d667c0d1e6e33a64a036ec44f58fa12d6c45%N = true.
Proof. vm_compute. reflexivity. Qed.

(* unrolled = reference on messages of every length 0..139 and 268..275 (covers 0,1,2 blocks and both padding shapes) and on a chain *)
Fixpoint msg (n : nat) (seed : N) : bytes :=
  match n with O => [] | S k => (N.modulo (seed * 131 + N.of_nat n * 7) 256) :: msg k (N.modulo (seed * 31 + 17) 65521) end.
Example unrolled_eq_ref_lengths :
  forallb (fun n => bytes_eqb (keccak_bytes (msg n (N.of_nat n))) (keccak_ref_bytes (msg n (N.of_nat n)))) (seq 0 140 ++ seq 268 8) = true.
Proof. vm_compute. reflexivity. Qed.
Fixpoint chain (f : bytes -> bytes) (n : nat) (x : bytes) : bytes := match n with O => x | S k => chain f k (f (x ++ x)) end.
Example unrolled_eq_ref_chain :
  bytes_eqb (chain keccak_bytes 200 (repeat 1%N 32)) (chain keccak_ref_bytes 200 (repeat 1%N 32)) = true.
Proof. vm_compute. reflexivity. Qed.
