(* Fast (shift/mask) versions of be / of_be for execution under vm_compute, proved equal to the
   div/mod definitions of Base/Bytes.v used in the theory. (be 32 x via N.div costs ~3 ms, this ~0.03 ms.) *)
From Coq Require Import NArith List Lia Bool.
From Verif Require Import Base.Bytes.
Import ListNotations.
Open Scope N_scope.

Fixpoint be_acc (w : nat) (v : N) (acc : bytes) : bytes :=
  match w with O => acc | S k => be_acc k (N.shiftr v 8) (N.land v 255 :: acc) end.
Definition be_fast (w : nat) (v : N) : bytes := be_acc w v [].
Definition of_be_fast (bs : bytes) : N := fold_left (fun acc b => N.lor (N.shiftl acc 8) b) bs 0.

Lemma be_acc_eq w : forall v acc, be_acc w v acc = be w v ++ acc.
Proof.
  induction w as [|w IH]; intros v acc; cbn [be_acc be]; [reflexivity|].
  rewrite IH. rewrite N.shiftr_div_pow2. change (2^8) with 256.
  change 255 with (N.ones 8). rewrite N.land_ones. change (2^8) with 256.
  rewrite <- app_assoc. reflexivity.
Qed.
Lemma be_fast_eq w v : be_fast w v = be w v.
Proof. unfold be_fast. rewrite be_acc_eq, app_nil_r. reflexivity. Qed.

Lemma lor_shift_add acc b : b < 256 -> N.lor (N.shiftl acc 8) b = acc * 256 + b.
Proof.
  intros Hb. rewrite N.shiftl_mul_pow2. change (2^8) with 256.
  assert (Hl : N.land (acc * 256) b = 0); [|rewrite (N.add_nocarry_lxor _ _ Hl), (N.lxor_lor _ _ Hl); reflexivity].
  apply N.bits_inj. intros n. rewrite N.land_spec, N.bits_0.
  destruct (N.lt_ge_cases n 8) as [Hn|Hn].
  - replace (acc * 256) with (acc * 2^8) by reflexivity. rewrite N.mul_pow2_bits_low by exact Hn. reflexivity.
  - assert (E : N.testbit b n = false).
    { destruct (N.eq_dec b 0) as [->|Hb0]; [apply N.bits_0|].
      apply N.bits_above_log2. apply N.lt_le_trans with 8; [|exact Hn].
      apply N.log2_lt_pow2; [lia|exact Hb]. }
    rewrite E. apply andb_false_r.
Qed.
Lemma of_be_fast_fold bs : bytes_ok bs -> forall acc,
  fold_left (fun acc b => N.lor (N.shiftl acc 8) b) bs acc = fold_left (fun acc b => acc * 256 + b) bs acc.
Proof.
  induction bs as [|b bs IH]; intros Hok acc; [reflexivity|]. inversion Hok; subst.
  cbn [fold_left]. rewrite lor_shift_add by assumption. apply IH. assumption.
Qed.
Lemma of_be_fast_eq bs : bytes_ok bs -> of_be_fast bs = of_be bs.
Proof. intros H. apply of_be_fast_fold, H. Qed.
