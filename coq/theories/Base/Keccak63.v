From Coq Require Import Uint63 List NArith ZArith.
Import ListNotations.
Open Scope uint63_scope.
Definition m32 : int := 4294967295.
Inductive st := St (h0 l0 h1 l1 h2 l2 h3 l3 h4 l4 h5 l5 h6 l6 h7 l7 h8 l8 h9 l9 h10 l10 h11 l11 h12 l12 h13 l13 h14 l14 h15 l15 h16 l16 h17 l17 h18 l18 h19 l19 h20 l20 h21 l21 h22 l22 h23 l23 h24 l24 : int).
Definition round (s : st) (rh rl : int) : st :=
  match s with St h0 l0 h1 l1 h2 l2 h3 l3 h4 l4 h5 l5 h6 l6 h7 l7 h8 l8 h9 l9 h10 l10 h11 l11 h12 l12 h13 l13 h14 l14 h15 l15 h16 l16 h17 l17 h18 l18 h19 l19 h20 l20 h21 l21 h22 l22 h23 l23 h24 l24 =>
  let ch0 := h0 lxor h5 lxor h10 lxor h15 lxor h20 in let cl0 := l0 lxor l5 lxor l10 lxor l15 lxor l20 in
  let ch1 := h1 lxor h6 lxor h11 lxor h16 lxor h21 in let cl1 := l1 lxor l6 lxor l11 lxor l16 lxor l21 in
  let ch2 := h2 lxor h7 lxor h12 lxor h17 lxor h22 in let cl2 := l2 lxor l7 lxor l12 lxor l17 lxor l22 in
  let ch3 := h3 lxor h8 lxor h13 lxor h18 lxor h23 in let cl3 := l3 lxor l8 lxor l13 lxor l18 lxor l23 in
  let ch4 := h4 lxor h9 lxor h14 lxor h19 lxor h24 in let cl4 := l4 lxor l9 lxor l14 lxor l19 lxor l24 in
  let dh0 := ch4 lxor (((ch1 << 1) lor (cl1 >> 31)) land m32) in let dl0 := cl4 lxor (((cl1 << 1) lor (ch1 >> 31)) land m32) in
  let dh1 := ch0 lxor (((ch2 << 1) lor (cl2 >> 31)) land m32) in let dl1 := cl0 lxor (((cl2 << 1) lor (ch2 >> 31)) land m32) in
  let dh2 := ch1 lxor (((ch3 << 1) lor (cl3 >> 31)) land m32) in let dl2 := cl1 lxor (((cl3 << 1) lor (ch3 >> 31)) land m32) in
  let dh3 := ch2 lxor (((ch4 << 1) lor (cl4 >> 31)) land m32) in let dl3 := cl2 lxor (((cl4 << 1) lor (ch4 >> 31)) land m32) in
  let dh4 := ch3 lxor (((ch0 << 1) lor (cl0 >> 31)) land m32) in let dl4 := cl3 lxor (((cl0 << 1) lor (ch0 >> 31)) land m32) in
  let th0 := h0 lxor dh0 in let tl0 := l0 lxor dl0 in
  let th1 := h1 lxor dh1 in let tl1 := l1 lxor dl1 in
  let th2 := h2 lxor dh2 in let tl2 := l2 lxor dl2 in
  let th3 := h3 lxor dh3 in let tl3 := l3 lxor dl3 in
  let th4 := h4 lxor dh4 in let tl4 := l4 lxor dl4 in
  let th5 := h5 lxor dh0 in let tl5 := l5 lxor dl0 in
  let th6 := h6 lxor dh1 in let tl6 := l6 lxor dl1 in
  let th7 := h7 lxor dh2 in let tl7 := l7 lxor dl2 in
  let th8 := h8 lxor dh3 in let tl8 := l8 lxor dl3 in
  let th9 := h9 lxor dh4 in let tl9 := l9 lxor dl4 in
  let th10 := h10 lxor dh0 in let tl10 := l10 lxor dl0 in
  let th11 := h11 lxor dh1 in let tl11 := l11 lxor dl1 in
  let th12 := h12 lxor dh2 in let tl12 := l12 lxor dl2 in
  let th13 := h13 lxor dh3 in let tl13 := l13 lxor dl3 in
  let th14 := h14 lxor dh4 in let tl14 := l14 lxor dl4 in
  let th15 := h15 lxor dh0 in let tl15 := l15 lxor dl0 in
  let th16 := h16 lxor dh1 in let tl16 := l16 lxor dl1 in
  let th17 := h17 lxor dh2 in let tl17 := l17 lxor dl2 in
  let th18 := h18 lxor dh3 in let tl18 := l18 lxor dl3 in
  let th19 := h19 lxor dh4 in let tl19 := l19 lxor dl4 in
  let th20 := h20 lxor dh0 in let tl20 := l20 lxor dl0 in
  let th21 := h21 lxor dh1 in let tl21 := l21 lxor dl1 in
  let th22 := h22 lxor dh2 in let tl22 := l22 lxor dl2 in
  let th23 := h23 lxor dh3 in let tl23 := l23 lxor dl3 in
  let th24 := h24 lxor dh4 in let tl24 := l24 lxor dl4 in
  let bh0 := th0 in let bl0 := tl0 in
  let bh16 := (((tl5 << 4) lor (th5 >> 28)) land m32) in let bl16 := (((th5 << 4) lor (tl5 >> 28)) land m32) in
  let bh7 := (((th10 << 3) lor (tl10 >> 29)) land m32) in let bl7 := (((tl10 << 3) lor (th10 >> 29)) land m32) in
  let bh23 := (((tl15 << 9) lor (th15 >> 23)) land m32) in let bl23 := (((th15 << 9) lor (tl15 >> 23)) land m32) in
  let bh14 := (((th20 << 18) lor (tl20 >> 14)) land m32) in let bl14 := (((tl20 << 18) lor (th20 >> 14)) land m32) in
  let bh10 := (((th1 << 1) lor (tl1 >> 31)) land m32) in let bl10 := (((tl1 << 1) lor (th1 >> 31)) land m32) in
  let bh1 := (((tl6 << 12) lor (th6 >> 20)) land m32) in let bl1 := (((th6 << 12) lor (tl6 >> 20)) land m32) in
  let bh17 := (((th11 << 10) lor (tl11 >> 22)) land m32) in let bl17 := (((tl11 << 10) lor (th11 >> 22)) land m32) in
  let bh8 := (((tl16 << 13) lor (th16 >> 19)) land m32) in let bl8 := (((th16 << 13) lor (tl16 >> 19)) land m32) in
  let bh24 := (((th21 << 2) lor (tl21 >> 30)) land m32) in let bl24 := (((tl21 << 2) lor (th21 >> 30)) land m32) in
  let bh20 := (((tl2 << 30) lor (th2 >> 2)) land m32) in let bl20 := (((th2 << 30) lor (tl2 >> 2)) land m32) in
  let bh11 := (((th7 << 6) lor (tl7 >> 26)) land m32) in let bl11 := (((tl7 << 6) lor (th7 >> 26)) land m32) in
  let bh2 := (((tl12 << 11) lor (th12 >> 21)) land m32) in let bl2 := (((th12 << 11) lor (tl12 >> 21)) land m32) in
  let bh18 := (((th17 << 15) lor (tl17 >> 17)) land m32) in let bl18 := (((tl17 << 15) lor (th17 >> 17)) land m32) in
  let bh9 := (((tl22 << 29) lor (th22 >> 3)) land m32) in let bl9 := (((th22 << 29) lor (tl22 >> 3)) land m32) in
  let bh5 := (((th3 << 28) lor (tl3 >> 4)) land m32) in let bl5 := (((tl3 << 28) lor (th3 >> 4)) land m32) in
  let bh21 := (((tl8 << 23) lor (th8 >> 9)) land m32) in let bl21 := (((th8 << 23) lor (tl8 >> 9)) land m32) in
  let bh12 := (((th13 << 25) lor (tl13 >> 7)) land m32) in let bl12 := (((tl13 << 25) lor (th13 >> 7)) land m32) in
  let bh3 := (((th18 << 21) lor (tl18 >> 11)) land m32) in let bl3 := (((tl18 << 21) lor (th18 >> 11)) land m32) in
  let bh19 := (((tl23 << 24) lor (th23 >> 8)) land m32) in let bl19 := (((th23 << 24) lor (tl23 >> 8)) land m32) in
  let bh15 := (((th4 << 27) lor (tl4 >> 5)) land m32) in let bl15 := (((tl4 << 27) lor (th4 >> 5)) land m32) in
  let bh6 := (((th9 << 20) lor (tl9 >> 12)) land m32) in let bl6 := (((tl9 << 20) lor (th9 >> 12)) land m32) in
  let bh22 := (((tl14 << 7) lor (th14 >> 25)) land m32) in let bl22 := (((th14 << 7) lor (tl14 >> 25)) land m32) in
  let bh13 := (((th19 << 8) lor (tl19 >> 24)) land m32) in let bl13 := (((tl19 << 8) lor (th19 >> 24)) land m32) in
  let bh4 := (((th24 << 14) lor (tl24 >> 18)) land m32) in let bl4 := (((tl24 << 14) lor (th24 >> 18)) land m32) in
  let nh0 := bh0 lxor ((bh1 lxor m32) land bh2) lxor rh in let nl0 := bl0 lxor ((bl1 lxor m32) land bl2) lxor rl in
  let nh1 := bh1 lxor ((bh2 lxor m32) land bh3) in let nl1 := bl1 lxor ((bl2 lxor m32) land bl3) in
  let nh2 := bh2 lxor ((bh3 lxor m32) land bh4) in let nl2 := bl2 lxor ((bl3 lxor m32) land bl4) in
  let nh3 := bh3 lxor ((bh4 lxor m32) land bh0) in let nl3 := bl3 lxor ((bl4 lxor m32) land bl0) in
  let nh4 := bh4 lxor ((bh0 lxor m32) land bh1) in let nl4 := bl4 lxor ((bl0 lxor m32) land bl1) in
  let nh5 := bh5 lxor ((bh6 lxor m32) land bh7) in let nl5 := bl5 lxor ((bl6 lxor m32) land bl7) in
  let nh6 := bh6 lxor ((bh7 lxor m32) land bh8) in let nl6 := bl6 lxor ((bl7 lxor m32) land bl8) in
  let nh7 := bh7 lxor ((bh8 lxor m32) land bh9) in let nl7 := bl7 lxor ((bl8 lxor m32) land bl9) in
  let nh8 := bh8 lxor ((bh9 lxor m32) land bh5) in let nl8 := bl8 lxor ((bl9 lxor m32) land bl5) in
  let nh9 := bh9 lxor ((bh5 lxor m32) land bh6) in let nl9 := bl9 lxor ((bl5 lxor m32) land bl6) in
  let nh10 := bh10 lxor ((bh11 lxor m32) land bh12) in let nl10 := bl10 lxor ((bl11 lxor m32) land bl12) in
  let nh11 := bh11 lxor ((bh12 lxor m32) land bh13) in let nl11 := bl11 lxor ((bl12 lxor m32) land bl13) in
  let nh12 := bh12 lxor ((bh13 lxor m32) land bh14) in let nl12 := bl12 lxor ((bl13 lxor m32) land bl14) in
  let nh13 := bh13 lxor ((bh14 lxor m32) land bh10) in let nl13 := bl13 lxor ((bl14 lxor m32) land bl10) in
  let nh14 := bh14 lxor ((bh10 lxor m32) land bh11) in let nl14 := bl14 lxor ((bl10 lxor m32) land bl11) in
  let nh15 := bh15 lxor ((bh16 lxor m32) land bh17) in let nl15 := bl15 lxor ((bl16 lxor m32) land bl17) in
  let nh16 := bh16 lxor ((bh17 lxor m32) land bh18) in let nl16 := bl16 lxor ((bl17 lxor m32) land bl18) in
  let nh17 := bh17 lxor ((bh18 lxor m32) land bh19) in let nl17 := bl17 lxor ((bl18 lxor m32) land bl19) in
  let nh18 := bh18 lxor ((bh19 lxor m32) land bh15) in let nl18 := bl18 lxor ((bl19 lxor m32) land bl15) in
  let nh19 := bh19 lxor ((bh15 lxor m32) land bh16) in let nl19 := bl19 lxor ((bl15 lxor m32) land bl16) in
  let nh20 := bh20 lxor ((bh21 lxor m32) land bh22) in let nl20 := bl20 lxor ((bl21 lxor m32) land bl22) in
  let nh21 := bh21 lxor ((bh22 lxor m32) land bh23) in let nl21 := bl21 lxor ((bl22 lxor m32) land bl23) in
  let nh22 := bh22 lxor ((bh23 lxor m32) land bh24) in let nl22 := bl22 lxor ((bl23 lxor m32) land bl24) in
  let nh23 := bh23 lxor ((bh24 lxor m32) land bh20) in let nl23 := bl23 lxor ((bl24 lxor m32) land bl20) in
  let nh24 := bh24 lxor ((bh20 lxor m32) land bh21) in let nl24 := bl24 lxor ((bl20 lxor m32) land bl21) in
  St nh0 nl0 nh1 nl1 nh2 nl2 nh3 nl3 nh4 nl4 nh5 nl5 nh6 nl6 nh7 nl7 nh8 nl8 nh9 nl9 nh10 nl10 nh11 nl11 nh12 nl12 nh13 nl13 nh14 nl14 nh15 nl15 nh16 nl16 nh17 nl17 nh18 nl18 nh19 nl19 nh20 nl20 nh21 nl21 nh22 nl22 nh23 nl23 nh24 nl24
  end.
Definition RC : list (int*int) := [(0, 1); (0, 32898); (2147483648, 32906); (2147483648, 2147516416); (0, 32907); (0, 2147483649); (2147483648, 2147516545); (2147483648, 32777); (0, 138); (0, 136); (0, 2147516425); (0, 2147483658); (0, 2147516555); (2147483648, 139); (2147483648, 32905); (2147483648, 32771); (2147483648, 32770); (2147483648, 128); (0, 32778); (2147483648, 2147483658); (2147483648, 2147516545); (2147483648, 32896); (0, 2147483649); (2147483648, 2147516424)].
Definition keccakf (s : st) : st := fold_left (fun s rc => round s (fst rc) (snd rc)) RC s.
Definition le4 (bs : list int) : int :=
  match bs with b0 :: b1 :: b2 :: b3 :: _ => b0 lor (b1 << 8) lor (b2 << 16) lor (b3 << 24) | _ => 0 end.
Fixpoint lanes (n : nat) (bs : list int) : list (int*int) :=
  match n with O => [] | S k => (le4 (skipn 4 bs), le4 bs) :: lanes k (skipn 8 bs) end.
Definition g (l : list (int*int)) (i : nat) := nth i l (0,0).
Definition absorb (s : st) (blk : list int) : st :=
  let L := lanes 17 blk in
  match s with St h0 l0 h1 l1 h2 l2 h3 l3 h4 l4 h5 l5 h6 l6 h7 l7 h8 l8 h9 l9 h10 l10 h11 l11 h12 l12 h13 l13 h14 l14 h15 l15 h16 l16 h17 l17 h18 l18 h19 l19 h20 l20 h21 l21 h22 l22 h23 l23 h24 l24 =>
  keccakf (St
    (h0 lxor fst (g L 0)) (l0 lxor snd (g L 0))
    (h1 lxor fst (g L 1)) (l1 lxor snd (g L 1))
    (h2 lxor fst (g L 2)) (l2 lxor snd (g L 2))
    (h3 lxor fst (g L 3)) (l3 lxor snd (g L 3))
    (h4 lxor fst (g L 4)) (l4 lxor snd (g L 4))
    (h5 lxor fst (g L 5)) (l5 lxor snd (g L 5))
    (h6 lxor fst (g L 6)) (l6 lxor snd (g L 6))
    (h7 lxor fst (g L 7)) (l7 lxor snd (g L 7))
    (h8 lxor fst (g L 8)) (l8 lxor snd (g L 8))
    (h9 lxor fst (g L 9)) (l9 lxor snd (g L 9))
    (h10 lxor fst (g L 10)) (l10 lxor snd (g L 10))
    (h11 lxor fst (g L 11)) (l11 lxor snd (g L 11))
    (h12 lxor fst (g L 12)) (l12 lxor snd (g L 12))
    (h13 lxor fst (g L 13)) (l13 lxor snd (g L 13))
    (h14 lxor fst (g L 14)) (l14 lxor snd (g L 14))
    (h15 lxor fst (g L 15)) (l15 lxor snd (g L 15))
    (h16 lxor fst (g L 16)) (l16 lxor snd (g L 16))
    h17 l17
    h18 l18
    h19 l19
    h20 l20
    h21 l21
    h22 l22
    h23 l23
    h24 l24
  ) end.
Definition bytes4 (x : int) : list int := [x land 255; (x >> 8) land 255; (x >> 16) land 255; (x >> 24) land 255].
Definition squeeze (s : st) : list int := match s with St h0 l0 h1 l1 h2 l2 h3 l3 h4 l4 h5 l5 h6 l6 h7 l7 h8 l8 h9 l9 h10 l10 h11 l11 h12 l12 h13 l13 h14 l14 h15 l15 h16 l16 h17 l17 h18 l18 h19 l19 h20 l20 h21 l21 h22 l22 h23 l23 h24 l24 =>
  bytes4 l0 ++ bytes4 h0 ++ bytes4 l1 ++ bytes4 h1 ++ bytes4 l2 ++ bytes4 h2 ++ bytes4 l3 ++ bytes4 h3 end.
Fixpoint chunks (k fuel : nat) (l : list int) : list (list int) :=
  match fuel with O => [] | S f => match l with [] => [] | _ => firstn k l :: chunks k f (skipn k l) end end.
Definition rate := 136%nat.
Definition pad (m : list int) : list int :=
  let q := Nat.sub rate (Nat.modulo (length m) rate) in
  if Nat.eqb q 1 then m ++ [129] else m ++ [1] ++ repeat 0 (Nat.sub q 2) ++ [128].
Definition st0 := St 0 0 0 0 0 0 0 0 0 0 0 0 0 0 0 0 0 0 0 0 0 0 0 0 0 0 0 0 0 0 0 0 0 0 0 0 0 0 0 0 0 0 0 0 0 0 0 0 0 0.
Definition keccak256 (m : list int) : list int :=
  let p := pad m in squeeze (fold_left absorb (chunks rate (S (length p)) p) st0).
Definition toN (l : list int) : N := fold_left (fun acc b => (acc * 256 + Z.to_N (to_Z b))%N) l 0%N.
Example keccak_empty : N.eqb (toN (keccak256 [])) 0xc5d2460186f7233c927e7db2dcc703c0e500b653ca82273b7bfad8045d85a470%N = true.
Proof. vm_compute. reflexivity. Qed.

