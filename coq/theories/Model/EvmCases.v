(* Model/Contracts.v (hand transcription of the Solidity side) against the REAL contract bytecode.
   harness/evm deploys the bridge (behind its proxy) and the L1 PolygonZkEVMGlobalExitRootV2 contract with the repository's
   own bindings in go-ethereum's simulated backend and records what the contracts answered. A case = the observations of one
   operation list on one fresh deployment; `corr_evm` replays them on the Gallina definitions with the Gallina Keccak:

   (a) every BridgeEvent (fields as decoded by the binding the repository's downloader uses): deposit count = dc_count,
       get_leaf_value fields (keccakN metadata) = bridge.getLeafValue(fields, keccak256(metadata)) = bridgesync.Bridge.Hash()
       = Model.BridgeStore.bridge_leaf; after the deposit dc_get_root (dc_deposit ...) = bridge.getRoot(), dc_count = depositCount();
   (b) every direct bridge.getLeafValue(...) answer = get_leaf_value; every direct ger.getLeafValue(...) answer = l1info_leaf_value;
   (c) every UpdateL1InfoTree event (block fields as sync.EVMDownloader reads them from the header): ger_of mer rer =
       ger.getLastGlobalExitRoot(), l1info_leaf_value ger parentHash timestamp = ger.getLeafValue(...), the L1 info root
       dc_get_root (dc_deposit ...) = ger.getRoot() = l1InfoRootMap(depositCount) = UpdateL1InfoTreeV2.currentL1InfoRoot, leaf counts,
       UpdateL1InfoTreeV2.(blockhash, minTimestamp) = header.(ParentHash, Time); a new mainnet exit root = the bridge's root.

   Here the contract is the reference and the Gallina transcription is what is being validated, so the correspondence
   predicate and the property predicate coincide: spec_evm := corr_evm. Definitions only. *)
From Coq Require Import NArith List Bool.
From Verif Require Import Base.Bytes Base.FastBytes Base.Hash Model.Merkle Model.BridgeStore Model.Contracts Model.FindCall Model.Abi.
Import ListNotations.
Open Scope N_scope.

(* a BridgeEvent + the two hashes observed for it (contract getLeafValue, repository Bridge.Hash) + the metadata hash the EVM-side
   keccak produced (argument of the getLeafValue call) *)
Record bobs := mkBO { bo_ev : bridge_ev; bo_leaf_contract : N; bo_meta_hash : N; bo_leaf_repo : N;
                      bo_data : list N;      (* the log's data as 32-byte words (what the chain emitted) *)
                      bo_log_index : N }.    (* the log's index in its block *)

(* UpdateL1InfoTreeV2 of the same update: currentL1InfoRoot, leafCount, blockhash, minTimestamp *)
Record l1v2 := mkV2 { v2_root : N; v2_count : N; v2_blockhash : N; v2_ts : N }.
(* UpdateL1InfoTree: mainnet / rollup exit root, header.ParentHash, header.Time; contract-side GER and getLeafValue answer
   (absent when a later update in the same block overwrote the contract's last roots) *)
Record l1obs := mkL1 { lo_mer : N; lo_rer : N; lo_parent : N; lo_ts : N; lo_contract : option (N * N); lo_v2 : option l1v2 }.

(* views read after a block: bridge depositCount/getRoot, GER depositCount/getRoot/l1InfoRootMap(depositCount),
   lastMainnetExitRoot, lastRollupExitRoot, getLastGlobalExitRoot *)
Record after := mkAfter { a_bcount : N; a_broot : N; a_gcount : N; a_groot : N; a_grootmap : N; a_mer : N; a_rer : N; a_ger : N }.

(* tree.GetProof(j, root of version k) of the REAL aggkit append-only tree fed with the bridge leaves, handed to the REAL
   bridge.verifyMerkleProof / calculateRoot; then the same proof with sibling `tlevel` replaced *)
Record vobs := mkV { vo_k : N; vo_j : N; vo_leaf : N; vo_root : N; vo_proof : list N; vo_ok : bool; vo_calc : N;
                     vo_tlevel : nat; vo_tsib : N; vo_tok : bool }.

Inductive step :=
| STx (ok : bool) (bevs : list bobs) (l1evs : list l1obs) (aft : option after)   (* one mined transaction (or an empty block) *)
| SLeaf (lt onet oaddr dnet daddr amount mh answer : N)                          (* bridge.getLeafValue, direct *)
| SL1Leaf (ger bh ts answer : N)                                                 (* ger.getLeafValue, direct *)
| SVerify (vs : list vobs).                                                      (* proofs served by the aggkit tree, judged by the bridge contract *)

Record ecase := mkECase { e_init : after; e_steps : list step }.

(* ---- check codes (what disagreed); harness-side names in props/evm_common.py ---- *)
Definition K_LEAF_EVENT := 1.      (* get_leaf_value(event fields, keccakN metadata) <> bridge.getLeafValue *)
Definition K_LEAF_REPO := 2.       (* get_leaf_value <> bridgesync.Bridge.Hash() of the decoded event *)
Definition K_LEAF_MODEL := 3.      (* BridgeStore.bridge_leaf <> bridge.getLeafValue *)
Definition K_META_HASH := 4.       (* keccakN metadata <> keccak256(metadata) *)
Definition K_BCOUNT := 5.          (* event depositCount / depositCount() *)
Definition K_BROOT := 6.           (* dc_get_root <> bridge.getRoot() *)
Definition K_GER := 7.             (* ger_of mer rer <> getLastGlobalExitRoot() *)
Definition K_L1LEAF := 8.          (* l1info_leaf_value <> ger.getLeafValue on the event's values *)
Definition K_GCOUNT := 9.          (* L1 info leaf count *)
Definition K_GROOT := 10.          (* dc_get_root <> ger.getRoot() / l1InfoRootMap / UpdateL1InfoTreeV2.currentL1InfoRoot *)
Definition K_V2FIELDS := 11.       (* UpdateL1InfoTreeV2.(blockhash, minTimestamp) <> header.(ParentHash, Time) *)
Definition K_MER := 12.            (* new mainnet exit root <> bridge root; last roots <> last event's roots *)
Definition K_REVERT := 13.         (* a reverted transaction left logs *)
Definition K_LEAF_DIRECT := 14.    (* get_leaf_value <> direct bridge.getLeafValue *)
Definition K_L1LEAF_DIRECT := 15.  (* l1info_leaf_value <> direct ger.getLeafValue *)
Definition K_INIT := 16.           (* empty trees *)
Definition K_CALC := 17.           (* dc_calculate_rootN <> bridge.calculateRoot *)
Definition K_VERIFY := 18.         (* dc_verify_merkle_proof <> bridge.verifyMerkleProof (served or tampered proof) *)
Definition K_VLEAF := 19.          (* the leaf / root handed over is not the model's j-th leaf / root of version k *)
Definition K_REJECTED := 20.       (* THE PROPERTY: the contract rejected a proof served by the node (or the proof has not 32 siblings) *)
Definition K_TAMPER_OK := 21.      (* the contract accepted a tampered proof *)
Definition K_NODE_LEAF := 23.      (* THE PROPERTY (no model involved): Bridge.Hash() of the Bridge the real appender built from the log <> the
                                      contract's getLeafValue for the event as emitted *)
Definition K_EVENT_DECODE := 22.   (* the Bridge the REAL log appender built <> Model/Abi.v decode_bridge_event of the log's data, or its
                                      block position <> the log index *)

Definition chk (b : bool) (code : N) : list N := if b then [] else [code].

(* model state: the two deposit contracts with their current roots (computed once per change), last mainnet / rollup exit root *)
Record mstate := mkM { m_b : dcontract; m_broot : N; m_g : dcontract; m_groot : N; m_mer : N; m_rer : N;
                       m_hist : list (N * N) }.   (* (leaf, root after it), newest first *)
Definition m_init : mstate := let r := dc_get_root dc_init in mkM dc_init r dc_init r 0 0 [].

Fixpoint set_nth (n : nat) (x : N) (l : list N) : list N :=
  match l, n with [], _ => [] | _ :: t, O => x :: t | a :: t, S n' => a :: set_nth n' x t end.

Definition do_verify (m : mstate) (v : vobs) : list N :=
  let h := rev (m_hist m) in
  let k := N.to_nat (vo_k v) in let j := N.to_nat (vo_j v) in
  chk (match nth_error h j, nth_error h (k - 1) with
       | Some (leaf, _), Some (_, root) => (leaf =? vo_leaf v) && (root =? vo_root v) && (0 <? vo_k v) && (vo_j v <? vo_k v)
       | _, _ => false end) K_VLEAF ++
  chk (dc_calculate_rootN (vo_leaf v) (vo_proof v) (vo_j v) =? vo_calc v) K_CALC ++
  chk (Bool.eqb (dc_verify_merkle_proof (vo_leaf v) (vo_proof v) (vo_j v) (vo_root v)) (vo_ok v)) K_VERIFY ++
  chk (Bool.eqb (dc_verify_merkle_proof (vo_leaf v) (set_nth (vo_tlevel v) (vo_tsib v) (vo_proof v)) (vo_j v) (vo_root v)) (vo_tok v)) K_VERIFY ++
  chk (vo_ok v && Nat.eqb (length (vo_proof v)) 32) K_REJECTED ++
  chk (negb (vo_tok v)) K_TAMPER_OK.

Definition leaf_of_ev (b : bridge_ev) : N :=
  get_leaf_value (b_lt b) (b_onet b) (b_oaddr b) (b_dnet b) (b_daddr b) (b_amount b) (keccakN (b_meta b)).

Definition do_bev (acc : mstate * list N) (o : bobs) : mstate * list N :=
  let '(m, bad) := acc in
  let b := bo_ev o in
  let leaf := leaf_of_ev b in
  let c' := dc_deposit (m_b m) leaf in
  let r' := dc_get_root c' in
  (mkM c' r' (m_g m) (m_groot m) (m_mer m) (m_rer m) ((bo_leaf_repo o, r') :: m_hist m),
   bad ++ chk (leaf =? bo_leaf_contract o) K_LEAF_EVENT ++ chk (leaf =? bo_leaf_repo o) K_LEAF_REPO
       ++ chk (bridge_leaf b =? bo_leaf_contract o) K_LEAF_MODEL ++ chk (keccakN (b_meta b) =? bo_meta_hash o) K_META_HASH
       ++ chk (b_dc b =? dc_count (m_b m)) K_BCOUNT
       ++ chk (bo_leaf_repo o =? bo_leaf_contract o) K_NODE_LEAF
       ++ chk (match decode_bridge_event (flat_map (be_fast 32) (bo_data o)) with
               | Some f => (bf_lt f =? b_lt b) && (bf_onet f =? b_onet b) && (bf_oaddr f =? b_oaddr b) && (bf_dnet f =? b_dnet b) &&
                           (bf_daddr f =? b_daddr b) && (bf_amount f =? b_amount b) && bytes_eqb (bf_meta f) (b_meta b) && (bf_dc f =? b_dc b)
               | None => false
               end && (b_pos b =? bo_log_index o)) K_EVENT_DECODE).

Definition do_l1 (acc : mstate * list N) (o : l1obs) : mstate * list N :=
  let '(m, bad) := acc in
  let g := ger_of (lo_mer o) (lo_rer o) in
  let leaf := l1info_leaf_value g (lo_parent o) (lo_ts o) in
  let c' := dc_deposit (m_g m) leaf in
  let root := dc_get_root c' in
  (mkM (m_b m) (m_broot m) c' root (lo_mer o) (lo_rer o) (m_hist m),
   bad ++ (match lo_contract o with
           | Some (cg, cleaf) => chk (g =? cg) K_GER ++ chk (leaf =? cleaf) K_L1LEAF
           | None => [] end)
       ++ (match lo_v2 o with
           | Some v => chk (v2_root v =? root) K_GROOT ++ chk (v2_count v =? dc_count c') K_GCOUNT
                       ++ chk ((v2_blockhash v =? lo_parent o) && (v2_ts v =? lo_ts o)) K_V2FIELDS
           | None => [] end)
       (* only the bridge can change the mainnet exit root, and it reports its own current root *)
       ++ chk ((lo_mer o =? m_mer m) || (lo_mer o =? m_broot m)) K_MER).

Definition check_after (m : mstate) (a : after) : list N :=
  chk (a_bcount a =? dc_count (m_b m)) K_BCOUNT ++ chk (a_broot a =? m_broot m) K_BROOT ++
  chk (a_gcount a =? dc_count (m_g m)) K_GCOUNT ++ chk (a_groot a =? m_groot m) K_GROOT ++
  chk ((a_gcount a =? 0) || (a_grootmap a =? m_groot m)) K_GROOT ++
  chk (a_ger a =? ger_of (a_mer a) (a_rer a)) K_GER ++
  (* lastRollupExitRoot also moves without a new leaf (global exit root already known), so it is not tied to the events;
     lastMainnetExitRoot is the one of the last leaf or the bridge's current root *)
  chk ((a_mer a =? m_mer m) || (a_mer a =? m_broot m)) K_MER.

Definition do_step (m : mstate) (s : step) : mstate * list N :=
  match s with
  | STx ok bevs l1evs aft =>
      let '(m1, bad1) := fold_left do_bev bevs (m, []) in
      let '(m2, bad2) := fold_left do_l1 l1evs (m1, bad1) in
      (m2, bad2 ++ chk (ok || (Nat.eqb (length bevs) 0 && Nat.eqb (length l1evs) 0)) K_REVERT
               ++ match aft with Some a => check_after m2 a | None => [] end)
  | SLeaf lt onet oaddr dnet daddr amount mh answer =>
      (m, chk (get_leaf_value lt onet oaddr dnet daddr amount mh =? answer) K_LEAF_DIRECT)
  | SL1Leaf g bh ts answer =>
      (m, chk (l1info_leaf_value g bh ts =? answer) K_L1LEAF_DIRECT)
  | SVerify vs => (m, flat_map (do_verify m) vs)
  end.

Fixpoint run_steps (i : nat) (m : mstate) (ss : list step) : list (nat * N) :=
  match ss with
  | [] => []
  | s :: t => let '(m', bad) := do_step m s in map (fun c => (i, c)) bad ++ run_steps (S i) m' t
  end.

(* every disagreement as (step index, check code); step index 0 = the initial views, step k+1 = k-th operation *)
Definition evm_diag (c : ecase) : list (nat * N) :=
  map (fun k => (O, k)) (match check_after m_init (e_init c) with [] => [] | _ => [K_INIT] end) ++ run_steps 1 m_init (e_steps c).

Definition corr_evm (c : ecase) : bool :=
  match evm_diag c with [] => negb (Nat.eqb (length (e_steps c)) 0) | _ => false end.

(* the contract is the reference here; what is validated is the transcription itself, so corr and spec coincide *)
Definition spec_evm (c : ecase) : bool := corr_evm c.

Fixpoint bad_indices {A} (f : A -> bool) (i : nat) (l : list A) : list nat :=
  match l with [] => [] | x :: t => if f x then bad_indices f (S i) t else i :: bad_indices f (S i) t end.
