(* C06 correspondence: executable comparison of the composed model (Model/ReorgDetector.v) with observations of the real
   ReorgDetector + EVMDriver + EVMDownloader (harness/c06), and the executable form of the property itself evaluated on
   those observations with naive references (no model function under test involved: only [watched_events],
   [node_header], list filters). *)
From Coq Require Import NArith List Bool.
From Verif Require Import Model.Downloader Model.ReorgDetector.
Import ListNotations.
Open Scope N_scope.

(* script events as the harness takes them (chain versions by index) *)
Inductive sev :=
| SW (v head fin : N)            (* w *)
| SP (err : bool)                (* p *)
| SH                             (* h *)
| SHA                            (* H *)
| ST (ferr : bool) (errat : N)   (* t; errat = 0: no transient header failure, k: the k-th numbered header call fails *)
| SR                             (* r *)
| SM                             (* m *)
| SN (ferr : bool) (errat : N).  (* n: tick, node stopped while the subscriber is being notified, started again *)

(* a processor call observed by the harness *)
Record pop := { a_at : N;          (* lock stream: index of the script event during which the call was made *)
                a_reorg : bool;    (* Reorg(a_num) / ProcessBlock(a_num, a_hash, a_evs) *)
                a_num : N; a_hash : N; a_evs : list ev }.

Record case06 := {
  k_free : bool;                                     (* false: lock stream, true: free-running stream *)
  k_cfg : config;
  k_versions : list (list (N * list rawlog));        (* versions[i][k] = (hash id, logs) of block k *)
  k_w0 : N * N * N;                                  (* initial world: version, head, finalized answer *)
  k_script : list sev;
  k_quiet : bool;                                    (* generator's claim: long quiescent fully-finalized tail *)
  o_ops : list pop;
  o_store : list pblock;                             (* final store *)
  o_lp : N;
  o_rewinds : list N;
  o_mem : list header;                               (* final tracked headers in memory *)
  o_rows : list header;                              (* final rows of tracked_block *)
  o_trace : list (N * N * N * N);                    (* lock: (len store, lp, len memory, queued) after every event *)
  o_done : bool
}.

(* ---- equality tests ---- *)
Fixpoint list_eqb {A} (eqb : A -> A -> bool) (a b : list A) : bool :=
  match a, b with
  | [], [] => true
  | x :: a', y :: b' => eqb x y && list_eqb eqb a' b'
  | _, _ => false
  end.
Definition pair_eqb (a b : N * N) : bool := N.eqb (fst a) (fst b) && N.eqb (snd a) (snd b).
Definition evs_eqb : list ev -> list ev -> bool := list_eqb pair_eqb.
Definition pblock_eqb (a b : pblock) : bool :=
  N.eqb (p_num a) (p_num b) && N.eqb (p_hash a) (p_hash b) && evs_eqb (p_evs a) (p_evs b).
Definition quad_eqb (a b : N * N * N * N) : bool :=
  let '(a1, a2, a3, a4) := a in let '(b1, b2, b3, b4) := b in
  N.eqb a1 b1 && N.eqb a2 b2 && N.eqb a3 b3 && N.eqb a4 b4.
Definition rawlog_eqb (a b : rawlog) : bool :=
  N.eqb (l_addr a) (l_addr b) && N.eqb (l_topic a) (l_topic b) && Bool.eqb (l_removed a) (l_removed b) && N.eqb (l_idx a) (l_idx b).

(* ---- worlds of the script ---- *)
Definition ver_of (c : case06) (v : N) : version := version_of_list (nth (N.to_nat v) (k_versions c) []).
Definition mk_world (c : case06) (x : N * N * N) : world :=
  let '(v, h, f) := x in {| w_ver := ver_of c v; w_head := h; w_fin := f |}.
Definition to_event (c : case06) (e : sev) : event :=
  match e with
  | SW v h f => EWorld (mk_world c (v, h, f))
  | SP err => EPoll err
  | SH => EHandle
  | SHA => EHandleAll
  | ST ferr errat => ETick ferr (match errat with 0 => None | _ => Some (N.to_nat (errat - 1)) end)
  | SR => ERestart
  | SM => ECrashMid
  | SN ferr errat => ECrashNotify ferr (match errat with 0 => None | _ => Some (N.to_nat (errat - 1)) end)
  end.

(* ---- model == implementation ? (lock stream) ---- *)
Definition snap (s : sys) : N * N * N * N :=
  (N.of_nat (length (y_store s)), lp (y_store s), N.of_nat (length (t_mem (y_det s))), N.of_nat (length (y_chan s))).
Fixpoint run_trace (cfg : config) (s : sys) (es : list event) : sys * list (N * N * N * N) :=
  match es with
  | [] => (s, [])
  | e :: rest => let s1 := step cfg s e in
                 let '(s2, tr) := run_trace cfg s1 rest in (s2, snap s1 :: tr)
  end.

(* free stream: the event blocks a fresh model node stores on the final chain *)
Fixpoint last_world (c : case06) (w : N * N * N) (es : list sev) : N * N * N :=
  match es with
  | [] => w
  | SW v h f :: rest => last_world c (v, h, f) rest
  | _ :: rest => last_world c w rest
  end.
Fixpoint settle_script (n : nat) : list event :=
  match n with O => [] | S k => EPoll false :: EHandleAll :: settle_script k end.

Definition corr (c : case06) : bool :=
  if k_free c then
    let wf := mk_world c (last_world c (k_w0 c) (k_script c)) in
    (* the real node went through the reorgs on its own schedule; a fresh model node that only ever saw the final chain
       (first head - 1, then head, so that the tip rises once) must hold the same event blocks *)
    let w1 := {| w_ver := w_ver wf; w_head := w_head wf - 1; w_fin := w_head wf - 1 |} in
    let n := N.to_nat (2 * w_head wf + 8) in
    let s := run (k_cfg c) (sys_init w1) (settle_script n ++ [EWorld wf] ++ settle_script n) in
    o_done c && list_eqb pblock_eqb (filter has_events (o_store c)) (filter has_events (y_store s))
  else
    let '(s, tr) := run_trace (k_cfg c) (sys_init (mk_world c (k_w0 c))) (map (to_event c) (k_script c)) in
    o_done c &&
    list_eqb pblock_eqb (o_store c) (y_store s) &&
    N.eqb (o_lp c) (lp (y_store s)) &&
    list_eqb N.eqb (o_rewinds c) (y_rewinds s) &&
    list_eqb pair_eqb (o_mem c) (t_mem (y_det s)) &&
    list_eqb pair_eqb (o_rows c) (t_db (y_det s)) &&
    list_eqb quad_eqb (o_trace c) tr.

(* ---- the property on what the implementation did ---- *)
(* world in force while script event i runs *)
Fixpoint worlds_of (c : case06) (w : N * N * N) (es : list sev) : list (N * N * N) :=
  match es with
  | [] => []
  | SW v h f :: rest => (v, h, f) :: worlds_of c (v, h, f) rest
  | _ :: rest => w :: worlds_of c w rest
  end.

(* Reorg(b) on store S while the node is in world w:
   - if some processed block is no longer on the node's chain (other hash, or above the head), b is at or below the first
     such block;
   - otherwise nothing may be dropped (b above every processed block). *)
Definition rewind_ok (w : world) (S : list pblock) (b : N) : bool :=
  match filter (fun p => negb (canonicalb w p)) S with
  | [] => forallb (fun p => p_num p <? b) S
  | repl => forallb (fun p => b <=? p_num p) repl
  end.

(* free-running stream: a tick may straddle a chain switch (headers of low blocks read from the old chain, of high blocks
   from the new one), so a single Reorg call need not be at the FIRST replaced block; it must still name a processed block
   that some world of the script has replaced (or drop nothing); that the node ends at or below the first replaced block
   is then part of [converged]. *)
Definition rewind_ok_free (w : world) (S : list pblock) (b : N) : bool :=
  forallb (fun p => p_num p <? b) S || existsb (fun p => (p_num p =? b) && negb (canonicalb w p)) S.

Fixpoint check_ops (c : case06) (ws : list (N * N * N)) (S : list pblock) (ops : list pop) : bool :=
  match ops with
  | [] => true
  | o :: rest =>
    if a_reorg o then
      (if k_free c
       then existsb (fun x => rewind_ok_free (mk_world c x) S (a_num o)) (k_w0 c :: ws)   (* justified by SOME world of the script *)
       else rewind_ok (mk_world c (nth (N.to_nat (a_at o)) ws (k_w0 c))) S (a_num o))
      && check_ops c ws (filter (fun p => p_num p <? a_num o) S) rest
    else check_ops c ws (S ++ [{| p_num := a_num o; p_hash := a_hash o; p_evs := a_evs o |}]) rest
  end.

Fixpoint increasing (prev : option N) (l : list N) : bool :=
  match l with
  | [] => true
  | x :: t => (match prev with None => true | Some p => p <? x end) && increasing (Some x) t
  end.

(* generator well-formedness: any two versions share a prefix and differ in every hash above it; equal hash => equal logs *)
Fixpoint linked_from (diverged : bool) (u v : list (N * list rawlog)) : bool :=
  match u, v with
  | x :: u', y :: v' =>
    if diverged then negb (fst x =? fst y) && linked_from true u' v'
    else if fst x =? fst y then list_eqb rawlog_eqb (snd x) (snd y) && linked_from false u' v'
         else linked_from true u' v'
  | _, _ => true
  end.
Definition linkedb (vs : list (list (N * list rawlog))) : bool :=
  forallb (fun u => forallb (fun v => linked_from false u v) vs) vs &&
  forallb (fun u => forallb (fun x => negb (fst x =? 0)) u) vs.

(* the final store is what a node that only ever saw the final chain holds at the same last-processed block:
   exactly the event blocks of 1..lp with the final chain's hashes and events, plus empty markers that are blocks of the
   final chain; the last processed block is the head; nothing is tracked any more *)
Definition converged (c : case06) : bool :=
  let wf := mk_world c (last_world c (k_w0 c) (k_script c)) in
  let S := o_store c in
  increasing None (map p_num S) &&
  forallb (canonicalb wf) S &&
  list_eqb pblock_eqb (filter has_events S) (ref_store (k_cfg c) (w_ver wf) (o_lp c)) &&
  N.eqb (o_lp c) (last (map p_num S) 0) &&
  N.eqb (o_lp c) (w_head wf) &&
  match o_mem c with [] => true | _ => false end &&
  (* lock stream: no row left.  Free stream: AddBlockToTrack updates the memory map and INSERTs the row in two steps, and a
     concurrent tick that untracks the (finalized, matching) block in between DELETEs before the INSERT lands: the row stays
     behind although memory is empty.  Tolerated there iff every left-over row is a block of the final chain (a later
     start loads it and the first tick drops it); reported as an observation, see props/c06.py *)
  (if k_free c then forallb (fun r => canonicalb wf {| p_num := fst r; p_hash := snd r; p_evs := [] |}) (o_rows c)
   else match o_rows c with [] => true | _ => false end).

Definition spec (c : case06) : bool :=
  o_done c &&
  check_ops c (worlds_of c (k_w0 c) (k_script c)) [] (o_ops c) &&
  (if k_quiet c && linkedb (k_versions c) then converged c else true).

Fixpoint bad_indices {A} (f : A -> bool) (i : nat) (l : list A) : list nat :=
  match l with [] => [] | x :: t => if f x then bad_indices f (S i) t else i :: bad_indices f (S i) t end.
