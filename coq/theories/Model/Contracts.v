(* Hand transcription of the Solidity side (specification of what L1/L2 contracts compute).
   DepositContractBase._addLeaf / getRoot (used by the bridge for the local exit tree and by the
   global exit root contract for the L1 info tree), getLeafValue. Definitions only. *)
From Coq Require Import List Arith NArith.
From Verif Require Import Base.Bytes Base.FastBytes Base.Hash Model.Merkle.
Import ListNotations.
Local Close Scope N_scope.

Section DepositContract.
Context {hash : Type}.
Variable node : hash -> hash -> hash.
Variable z0 : hash.

(* _addLeaf: size = ++depositCount; walk up while bit `height` of size is 0, hashing with the stored branch;
   store the running node at the first height whose bit is 1. `bit` = bits of the NEW size. *)
Fixpoint dc_add_loop (fuel h : nat) (bit : nat -> bool) (cur : hash) (branch : nat -> hash) : nat -> hash :=
  match fuel with
  | O => branch                              (* unreachable for size < 2^32 (the contract asserts) *)
  | S fuel' =>
      if bit h then upd branch h cur
      else dc_add_loop fuel' (S h) bit (node (branch h) cur) branch
  end.
Definition dc_add (H : nat) (bit_newsize : nat -> bool) (leaf : hash) (branch : nat -> hash) : nat -> hash :=
  dc_add_loop H 0 bit_newsize leaf branch.

(* getRoot: node = 0; for each height: bit set => H(branch[h], node) else H(node, zero_h). `bit` = bits of depositCount *)
Fixpoint dc_root_loop (fuel h : nat) (bit : nat -> bool) (cur zeroh : hash) (branch : nat -> hash) : hash :=
  match fuel with
  | O => cur
  | S fuel' =>
      dc_root_loop fuel' (S h) bit (if bit h then node (branch h) cur else node cur zeroh) (node zeroh zeroh) branch
  end.
Definition dc_root (H : nat) (bit_size : nat -> bool) (branch : nat -> hash) : hash :=
  dc_root_loop H 0 bit_size z0 z0 branch.

(* calculateRoot(leafHash, smtProof, index): node = leafHash; for each height: bit `height` of index set =>
   H(smtProof[height], node) else H(node, smtProof[height]). verifyMerkleProof = (calculateRoot(...) == root). *)
Fixpoint dc_calc_loop (fuel h : nat) (bit : nat -> bool) (cur : hash) (proof : nat -> hash) : hash :=
  match fuel with
  | O => cur
  | S fuel' => dc_calc_loop fuel' (S h) bit (if bit h then node (proof h) cur else node cur (proof h)) proof
  end.
Definition dc_calculate_root (H : nat) (bit_index : nat -> bool) (leaf : hash) (proof : nat -> hash) : hash :=
  dc_calc_loop H 0 bit_index leaf proof.
End DepositContract.

(* ---- executable instance over Keccak, N-indexed ---- *)
Open Scope N_scope.
Definition bitsN (i : N) : nat -> bool := fun h => N.testbit i (N.of_nat h).
Record dcontract := mkDC { dc_count : N; dc_branch : list N }.
Definition dc_init : dcontract := mkDC 0 (repeat 0 32).
Definition dc_deposit (c : dcontract) (leaf : N) : dcontract :=
  let size := dc_count c + 1 in
  mkDC size (cache_to_list 32 (dc_add nodeN 32 (bitsN size) leaf (cache_of_list 0 (dc_branch c)))).
Definition dc_get_root (c : dcontract) : N := dc_root nodeN 0 32 (bitsN (dc_count c)) (cache_of_list 0 (dc_branch c)).
(* bytes32[32] smtProof: the ABI fixes the length; a shorter list reads 0 (the harness always passes 32 entries) *)
Definition dc_calculate_rootN (leaf : N) (proof : list N) (index : N) : N :=
  dc_calculate_root nodeN 32 (bitsN index) leaf (cache_of_list 0 proof).
Definition dc_verify_merkle_proof (leaf : N) (proof : list N) (index root : N) : bool :=
  N.eqb (dc_calculate_rootN leaf proof index) root.

(* PolygonZkEVMBridgeV2.getLeafValue: keccak256(abi.encodePacked(uint8 leafType, uint32 originNetwork, address originAddress,
   uint32 destinationNetwork, address destinationAddress, uint256 amount, bytes32 metadataHash)) *)
Definition get_leaf_value (leafType onet oaddr dnet daddr amount metadataHash : N) : N :=
  keccakN (be_fast 1 leafType ++ be_fast 4 onet ++ be_fast 20 oaddr ++ be_fast 4 dnet ++ be_fast 20 daddr
           ++ be_fast 32 amount ++ be_fast 32 metadataHash).

(* PolygonZkEVMGlobalExitRootV2: l1InfoTree leaf = keccak256(abi.encodePacked(bytes32 ger, bytes32 blockhash(block-1), uint64 timestamp));
   ger = keccak256(abi.encodePacked(mainnetExitRoot, rollupExitRoot)) *)
Definition ger_of (mer rer : N) : N := nodeN mer rer.
Definition l1info_leaf_value (ger parentHash timestamp : N) : N :=
  keccakN (be_fast 32 ger ++ be_fast 32 parentHash ++ be_fast 8 timestamp).
