(* C20 model: bridgesync/downloader.go  findCall / setClaimCalldata / tryDecodeClaimCalldata and
   bridgesync/processor.go  decodeEtrogCalldata / decodePreEtrogCalldata.  Definitions only.

   The call trace of a transaction (debug_traceTransaction, callTracer) is a nested tree of frames.
   ABI unpacking of a frame's input bytes is abstract here (Section variables `selector`, `unpack`);
   the selector dispatch, the global-index comparison, the field extraction, the explicit LIFO stack
   and the treatment of reverted frames are transcribed from the Go code one-for-one. *)
From Coq Require Import NArith List Bool.
Import ListNotations.
Open Scope N_scope.

(* downloader.go: claimAssetEtrogMethodID ... ; tied to the source by Gen/SourceFacts.v (Properties/C20.v) *)
Definition sel_asset_etrog : N := 0xccaa2d11.
Definition sel_msg_etrog   : N := 0xf5efcd79.
Definition sel_asset_pre   : N := 0x2cffd02e.
Definition sel_msg_pre     : N := 0x2d2c9d94.

(* the two contract generations (two ABIs) *)
Inductive gen := Etrog | PreEtrog.
Definition gen_eqb (a b : gen) : bool :=
  match a, b with Etrog, Etrog => true | PreEtrog, PreEtrog => true | _, _ => false end.

(* what a claim call carries and the node records.  Hashes and addresses are numbers (big-endian value),
   a proof is the list of its 32 siblings, a byte string is (length, big-endian value). *)
Record details := {
  d_proof_ler : list N;      (* smtProofLocalExitRoot / smtProof *)
  d_proof_rer : list N;      (* smtProofRollupExitRoot (Etrog only; [] for pre-Etrog calldata) *)
  d_mer : N;                 (* mainnetExitRoot *)
  d_rer : N;                 (* rollupExitRoot *)
  d_dest_net : N;            (* destinationNetwork *)
  d_metadata : nat * N;      (* metadata *)
}.

(* bridgesync.Claim: the global index of the event, the fields setClaimCalldata may write, and
   `cl_rest` standing for all other fields (block, position, tx hash, origin, destination address, amount, ...) *)
Record claim := {
  cl_gi : N;
  cl_rest : list N;
  cl_from : N;               (* FromAddress *)
  cl_proof_ler : list N;     (* ProofLocalExitRoot *)
  cl_proof_rer : list N;     (* ProofRollupExitRoot *)
  cl_mer : N;                (* MainnetExitRoot *)
  cl_rer : N;                (* RollupExitRoot *)
  cl_ger : N;                (* GlobalExitRoot *)
  cl_dest_net : N;           (* DestinationNetwork *)
  cl_metadata : nat * N;     (* Metadata *)
  cl_is_message : bool;      (* IsMessage *)
}.

Inductive errkind :=
| ENotFound        (* db.ErrNotFound: stack exhausted *)
| ERootReverted    (* "root call reverted" *)
| EShort           (* "input too short" *)
| ESelector        (* "unrecognized method ID" *)
| EUnpack          (* ABI unpack error *)
| ERpc             (* client.Call failed *)
| EOutOfFuel.      (* artefact of the model's fuel; proved unreachable *)

(* (found, err) of tryDecodeClaimCalldata / the callback *)
Inductive dres := DFound | DNot | DErr (e : errkind).

Section FindCall.
  Variable input : Type.
  (* input[:4] as a big-endian number; None when len(input) < methodIDLength *)
  Variable selector : input -> option N.
  (* method.Inputs.Unpack(input[4:]) with the ABI of the given generation, followed by the type assertions of
     decode{Etrog,PreEtrog}Calldata: the call's global index and its details; None = error *)
  Variable unpack : gen -> input -> option (N * details).
  (* crypto.Keccak256Hash(mainnetExitRoot, rollupExitRoot) *)
  Variable hash2 : N -> N -> N.

  (* type call struct { From, To, Value, Err *string, Input, Calls []call } *)
  Inductive call := Call (to from : N) (err : bool) (inp : input) (calls : list call).
  Definition c_to c := match c with Call t _ _ _ _ => t end.
  Definition c_from c := match c with Call _ f _ _ _ => f end.
  Definition c_err c := match c with Call _ _ e _ _ => e end.
  Definition c_inp c := match c with Call _ _ _ i _ => i end.
  Definition c_calls c := match c with Call _ _ _ _ l => l end.

  Inductive result := ROk (c : call) | RErr (e : errkind).

  (* number of frames of a tree / of a stack of trees (the fuel bound) *)
  Fixpoint size (c : call) : nat :=
    match c with Call _ _ _ _ l =>
      S ((fix sl (l : list call) := match l with [] => 0 | x :: t => size x + sl t end) l) end%nat.
  Definition sizes (l : list call) : nat := fold_right (fun c n => (size c + n)%nat) 0%nat l.

  (* ---- processor.go: decodeEtrogCalldata / decodePreEtrogCalldata ---- *)
  (* the assignments made after the global index matched; pre-Etrog calldata has no rollup proof, that
     field of the claim is left as it is; IsMessage is not written here *)
  Definition set_details (g : gen) (cl : claim) (d : details) (sender : N) : claim :=
    {| cl_gi := cl_gi cl; cl_rest := cl_rest cl;
       cl_from := sender;
       cl_proof_ler := d_proof_ler d;
       cl_proof_rer := match g with Etrog => d_proof_rer d | PreEtrog => cl_proof_rer cl end;
       cl_mer := d_mer d; cl_rer := d_rer d; cl_ger := hash2 (d_mer d) (d_rer d);
       cl_dest_net := d_dest_net d; cl_metadata := d_metadata d;
       cl_is_message := cl_is_message cl |}.

  Definition decode_calldata (g : gen) (cl : claim) (sender : N) (data : N * details) : bool * claim :=
    let '(gi, d) := data in
    if gi =? cl_gi cl then (true, set_details g cl d sender)   (* actualGlobalIndex.Cmp(c.GlobalIndex) == 0 *)
    else (false, cl).                                          (* "not the claim we're looking for" *)

  Definition set_is_message (cl : claim) (m : bool) : claim :=
    {| cl_gi := cl_gi cl; cl_rest := cl_rest cl; cl_from := cl_from cl; cl_proof_ler := cl_proof_ler cl;
       cl_proof_rer := cl_proof_rer cl; cl_mer := cl_mer cl; cl_rer := cl_rer cl; cl_ger := cl_ger cl;
       cl_dest_net := cl_dest_net cl; cl_metadata := cl_metadata cl; cl_is_message := m |}.

  (* ---- downloader.go: tryDecodeClaimCalldata ---- *)
  (* the switch on the method ID: generation and "is the message selector of that generation" *)
  Definition dispatch (s : N) : option (gen * bool) :=
    if (s =? sel_asset_etrog) || (s =? sel_msg_etrog) then Some (Etrog, s =? sel_msg_etrog)
    else if (s =? sel_asset_pre) || (s =? sel_msg_pre) then Some (PreEtrog, s =? sel_msg_pre)
    else None.

  Definition try_decode (cl : claim) (sender : N) (inp : input) : dres * claim :=
    match selector inp with
    | None => (DErr EShort, cl)
    | Some s =>
      match dispatch s with
      | None => (DErr ESelector, cl)
      | Some (g, is_msg) =>
        match unpack g inp with
        | None => (DErr EUnpack, cl)
        | Some data =>
          let '(found, cl') := decode_calldata g cl sender data in
          if found then (DFound, set_is_message cl' is_msg) else (DNot, cl')
        end
      end
    end.

  (* the closure passed by setClaimCalldata *)
  Definition callback (cl : claim) (c : call) : dres * claim :=
    if c_err c then (DNot, cl) else try_decode cl (c_from c) (c_inp c).

  (* ---- downloader.go: findCall ---- *)
  (* "Add non-reverted calls to the stack": children pushed in order, so the last one is popped first *)
  Definition push_children (c : call) (stack : list call) : list call :=
    rev (filter (fun x => negb (c_err x)) (c_calls c)) ++ stack.

  (* the loop `for callStack.Len() > 0`; head of the list = top of the stack *)
  Fixpoint dfs (fuel : nat) (target : N) (stack : list call) (cl : claim) : result * claim :=
    match fuel with
    | O => (RErr EOutOfFuel, cl)
    | S fuel' =>
      match stack with
      | [] => (RErr ENotFound, cl)
      | c :: rest =>
        if c_err c then dfs fuel' target rest cl                         (* "Skip reverted calls" *)
        else if c_to c =? target then
          match callback cl c with
          | (DErr e, cl') => (RErr e, cl')
          | (DFound, cl') => (ROk c, cl')
          | (DNot, cl') => dfs fuel' target (push_children c rest) cl'
          end
        else dfs fuel' target (push_children c rest) cl
      end
    end.

  Definition find_call (root : call) (target : N) (cl : claim) : result * claim :=
    dfs (S (size root)) target [root] cl.

  (* ---- downloader.go: method setClaimCalldata of Claim; trace = what client.Call wrote, None = RPC error ---- *)
  Definition set_claim_calldata (trace : option call) (bridge : N) (cl : claim) : result * claim :=
    match trace with
    | None => (RErr ERpc, cl)
    | Some root =>
      if c_err root then (RErr ERootReverted, cl)
      else find_call root bridge cl
    end.

  (* ================= specification vocabulary (used by the theorems and by C20Cases.spec) ================= *)

  (* a frame's input seen as a claim call: generation, message flag of its selector, global index, details *)
  Definition decode_claim (inp : input) : option (gen * bool * N * details) :=
    match selector inp with
    | None => None
    | Some s =>
      match dispatch s with
      | None => None
      | Some (g, m) => match unpack g inp with None => None | Some (gi, d) => Some (g, m, gi, d) end
      end
    end.

  Definition gindex_of (inp : input) : option N :=
    match decode_claim inp with Some (_, _, gi, _) => Some gi | None => None end.

  (* d is reached from c through frames none of which is reverted (c and d included) *)
  Inductive live : call -> call -> Prop :=
  | live_here c : c_err c = false -> live c c
  | live_child c x d : c_err c = false -> In x (c_calls c) -> live x d -> live c d.

  (* d is any frame of the tree c *)
  Inductive subcall : call -> call -> Prop :=
  | sub_here c : subcall c c
  | sub_child c x d : In x (c_calls c) -> subcall x d -> subcall c d.

  (* the property's quantifier: every call addressed to the bridge is a claim call *)
  Definition all_bridge_calls_are_claims (bridge : N) (root : call) : Prop :=
    forall d, subcall root d -> c_to d = bridge -> decode_claim (c_inp d) <> None.
  (* what the completeness proof really needs: only the live ones *)
  Definition live_bridge_calls_are_claims (bridge : N) (root : call) : Prop :=
    forall d, live root d -> c_to d = bridge -> decode_claim (c_inp d) <> None.

  (* the call the property speaks about *)
  Definition matching (bridge gi : N) (root d : call) : Prop :=
    live root d /\ c_to d = bridge /\ gindex_of (c_inp d) = Some gi.

  (* what must be recorded for a found call: field by field *)
  Definition records (cl0 cl1 : claim) (sender : N) (g : gen) (m : bool) (d : details) : Prop :=
    cl_gi cl1 = cl_gi cl0 /\ cl_rest cl1 = cl_rest cl0 /\
    cl_from cl1 = sender /\ cl_is_message cl1 = m /\
    cl_proof_ler cl1 = d_proof_ler d /\
    cl_proof_rer cl1 = match g with Etrog => d_proof_rer d | PreEtrog => cl_proof_rer cl0 end /\
    cl_mer cl1 = d_mer d /\ cl_rer cl1 = d_rer d /\ cl_ger cl1 = hash2 (d_mer d) (d_rer d) /\
    cl_dest_net cl1 = d_dest_net d /\ cl_metadata cl1 = d_metadata d.

  (* the order in which findCall visits the live frames: a frame, then its children last-to-first, depth first *)
  Fixpoint visit_order (c : call) : list call :=
    match c with Call _ _ e _ l =>
      if e then [] else
      c :: (fix go (l : list call) := match l with [] => [] | x :: t => go t ++ visit_order x end) l
    end.

  (* findCall as a scan of that order: the first bridge frame on which the callback says found / error decides *)
  Fixpoint scan (target : N) (l : list call) (cl : claim) : result * claim :=
    match l with
    | [] => (RErr ENotFound, cl)
    | c :: t =>
      if c_to c =? target then
        match callback cl c with
        | (DErr e, cl') => (RErr e, cl')
        | (DFound, cl') => (ROk c, cl')
        | (DNot, cl') => scan target t cl'
        end
      else scan target t cl
    end.

  (* naive reference enumerations (natural order) *)
  Fixpoint live_calls (c : call) : list call :=
    match c with Call _ _ e _ l =>
      if e then [] else
      c :: (fix go (l : list call) := match l with [] => [] | x :: t => live_calls x ++ go t end) l
    end.
  Fixpoint all_calls (c : call) : list call :=
    match c with Call _ _ _ _ l =>
      c :: (fix go (l : list call) := match l with [] => [] | x :: t => all_calls x ++ go t end) l
    end.
End FindCall.

Arguments Call {input}.
Arguments c_to {input}. Arguments c_from {input}. Arguments c_err {input}.
Arguments c_inp {input}. Arguments c_calls {input}.
Arguments ROk {input}. Arguments RErr {input}.
