(* C16 — model of the injected-GER index (package lastgersync, PP mode). Definitions only.

   Go sources mirrored one-for-one:
     lastgersync/evmdownloader_pp.go   Download loop, buildAppender
     sync/evmdownloader.go             WaitForNewBlocks, GetEventsByBlockRange (EVMDownloaderImplementation)
     sync/evmdriver.go                 Sync: start at lastProcessed+1, ProcessBlock per delivered block, Reorg + reset
     lastgersync/processor.go          ProcessBlock, handleGEREvent, Reorg, GetLastProcessedBlock,
                                       GetFirstGERAfterL1InfoTreeIndex
     lastgersync/migrations/*.sql      block(num PK); imported_global_exit_root(block_num PK REFERENCES block ON DELETE
                                       CASCADE, global_exit_root, l1_info_tree_index)
   The download step exists twice: [dl_current] is the loop as written today, [dl_fixed] the repaired loop
   (fetch [fromBlock, tip], then fromBlock = tip+1). *)
From Coq Require Import NArith List Bool.
Import ListNotations.
Open Scope N_scope.

(* ------------------------------------------------------------------------------------------------ *)
(* L2 chain                                                                                          *)
(* ------------------------------------------------------------------------------------------------ *)

(* One log of the L2 GER manager: UpdateHashChainValue (l_rm = false, insertion of l_ger) or
   UpdateRemovalHashChainValue (l_rm = true). l_idx is what l1InfoTreeSync.GetInfoByGlobalExitRoot(l_ger)
   answers for the L1 info tree index (an oracle for this package); it is not used for removals.
   While the L1 info tree syncer has not stored the leaf yet the lookup fails, the appender returns the error and
   GetEventsByBlockRange retries the same log until it succeeds (sync/evmdownloader.go, loop around appenderFn):
   the model is the outcome of that loop, i.e. the event always carries the index, it is never dropped. *)
Record log := { l_rm : bool; l_ger : N; l_idx : N }.

(* An L2 history: the GER-manager logs of every block, in log order. The property quantifies over histories
   with at most one such log per block ([one_per_block]). *)
Definition chain := N -> list log.
Definition one_per_block (ch : chain) : Prop := forall n, (length (ch n) <= 1)%nat.

(* chain after a reorg whose first replaced block is b: old below b, new from b on *)
Definition splice (ch : chain) (b : N) (ch' : chain) : chain := fun n => if n <? b then ch n else ch' n.

(* GEREvent after the appender; sync.EVMBlock restricted to what the processor reads: (Num, Events) *)
Definition event := log.
Definition block := (N * list event)%type.

(* buildAppender: both callbacks do `b.Events = []any{...}` — the slice is REPLACED, not appended to.
   Removal events carry L1InfoTreeIndex 0. *)
Definition append_log (evs : list event) (l : log) : list event :=
  [if l_rm l then {| l_rm := true; l_ger := l_ger l; l_idx := 0 |} else l].
Definition appender (logs : list log) : list event := fold_left append_log logs [].

Fixpoint nseq (from : N) (len : nat) : list N :=
  match len with O => [] | S k => from :: nseq (N.succ from) k end.
(* block numbers from..to, ascending; empty when from > to *)
Definition nrange (from to : N) : list N := nseq from (N.to_nat (N.succ to - from)).

(* GetEventsByBlockRange(from, to): one EVMBlock per block that has at least one log, ascending, events built by
   the appender *)
Definition get_events_by_block_range (ch : chain) (from to : N) : list block :=
  flat_map (fun n => match ch n with [] => [] | ls => [(n, appender ls)] end) (nrange from to).

(* ------------------------------------------------------------------------------------------------ *)
(* PP downloader                                                                                     *)
(* ------------------------------------------------------------------------------------------------ *)

(* A downloader = which polled tip ends WaitForNewBlocks (dl_wait from tip), and what one loop iteration
   delivers and the next fromBlock (dl_step). *)
Record dl := { dl_wait : N -> N -> bool; dl_step : chain -> N -> N -> list block * N }.

(* AS WRITTEN TODAY:
     fromBlock = d.WaitForNewBlocks(ctx, fromBlock)            -- returns the first polled tip > fromBlock
     for _, block := range d.GetEventsByBlockRange(ctx, fromBlock, fromBlock) { downloadedCh <- *block } *)
Definition pp_wait (from tip : N) : bool := from <? tip.
Definition pp_step (ch : chain) (from tip : N) : list block * N :=
  (get_events_by_block_range ch tip tip, tip).
Definition dl_current : dl := {| dl_wait := pp_wait; dl_step := pp_step |}.

(* FIXED:
     lastBlock := d.WaitForNewBlocks(ctx, fromBlock-1)          -- uint64 arithmetic; the driver passes >= 1
     for _, block := range d.GetEventsByBlockRange(ctx, fromBlock, lastBlock) { downloadedCh <- *block }
     fromBlock = lastBlock + 1 *)
Definition u64_pred (n : N) : N := if n =? 0 then 2^64 - 1 else n - 1.
Definition pp_wait_fixed (from tip : N) : bool := u64_pred from <? tip.
Definition pp_step_fixed (ch : chain) (from tip : N) : list block * N :=
  (get_events_by_block_range ch from tip, tip + 1).
Definition dl_fixed : dl := {| dl_wait := pp_wait_fixed; dl_step := pp_step_fixed |}.

(* The Download loop against a poll schedule: [polls] is the tip returned by each successive
   HeaderByNumber(blockFinality) call of WaitForNewBlocks; a poll that does not satisfy the wait condition is
   consumed and the ticker fires again. Schedule exhausted = context cancelled. Returns the blocks sent on
   downloadedCh, in order, and the final fromBlock. *)
Fixpoint download (d : dl) (ch : chain) (from : N) (polls : list N) : list block * N :=
  match polls with
  | [] => ([], from)
  | t :: ps =>
      if dl_wait d from t then
        let '(bs, from') := dl_step d ch from t in
        let '(rest, f) := download d ch from' ps in (bs ++ rest, f)
      else download d ch from ps
  end.

(* ------------------------------------------------------------------------------------------------ *)
(* processor (SQLite store)                                                                          *)
(* ------------------------------------------------------------------------------------------------ *)

Record row := { r_blk : N; r_ger : N; r_idx : N }.          (* imported_global_exit_root *)
Record store := { s_blocks : list N; s_rows : list row }.   (* block; imported_global_exit_root (insertion order) *)
Definition empty_store : store := {| s_blocks := []; s_rows := [] |}.

(* handleGEREvent. Removal: DELETE ... WHERE global_exit_root = $1 (every row holding that root).
   Insertion: meddler.Insert; PRIMARY KEY(block_num) violated => error. *)
Definition apply_event (b : N) (rows : list row) (e : event) : option (list row) :=
  if l_rm e then Some (filter (fun r => negb (r_ger r =? l_ger e)) rows)
  else if existsb (fun r => r_blk r =? b) rows then None
  else Some (rows ++ [{| r_blk := b; r_ger := l_ger e; r_idx := l_idx e |}]).

Fixpoint apply_events (b : N) (rows : list row) (evs : list event) : option (list row) :=
  match evs with
  | [] => Some rows
  | e :: t => match apply_event b rows e with None => None | Some rows' => apply_events b rows' t end
  end.

(* ProcessBlock: one transaction; INSERT INTO block (PRIMARY KEY num), then the events in order; any error
   rolls everything back (None; the driver retries the same block and finally exits). *)
Definition process_block (st : store) (blk : block) : option store :=
  let '(b, evs) := blk in
  if existsb (N.eqb b) (s_blocks st) then None
  else match apply_events b (s_rows st) evs with
       | None => None
       | Some rows' => Some {| s_blocks := s_blocks st ++ [b]; s_rows := rows' |}
       end.

Fixpoint process_all (st : store) (bs : list block) : option store :=
  match bs with
  | [] => Some st
  | b :: t => match process_block st b with None => None | Some st' => process_all st' t end
  end.

(* Reorg: DELETE FROM block WHERE num >= $1; rows of imported_global_exit_root go with their block
   (ON DELETE CASCADE, effective because the DSN sets _foreign_keys=on — both facts are regenerated from the
   source into Gen/SourceFacts.v and checked in Properties/C16.v). *)
Definition reorg (b : N) (st : store) : store :=
  {| s_blocks := filter (fun n => n <? b) (s_blocks st);
     s_rows := filter (fun r => r_blk r <? b) (s_rows st) |}.

(* GetLastProcessedBlock: SELECT num FROM block ORDER BY num DESC LIMIT 1; no rows => 0 *)
Definition last_processed (st : store) : N := fold_left N.max (s_blocks st) 0.

(* GetFirstGERAfterL1InfoTreeIndex: SELECT l1_info_tree_index, global_exit_root ... WHERE l1_info_tree_index >= $1
   ORDER BY l1_info_tree_index ASC LIMIT 1. Among equal indexes the earliest row is taken (SQLite leaves that
   order open; rows with equal index carry the same root whenever the index is a function of the root). *)
Definition better (best : option row) (r : row) : option row :=
  match best with
  | None => Some r
  | Some b => if r_idx r <? r_idx b then Some r else best
  end.
Definition first_ger_after (st : store) (x : N) : option (N * N) :=
  match fold_left better (filter (fun r => x <=? r_idx r) (s_rows st)) None with
  | None => None                                   (* db.ErrNotFound *)
  | Some r => Some (r_idx r, r_ger r)
  end.

(* ------------------------------------------------------------------------------------------------ *)
(* node = driver + downloader + processor, over a sequence of segments                               *)
(* ------------------------------------------------------------------------------------------------ *)

(* A segment starts a fresh Download goroutine at lastProcessed+1 on the existing store (EVMDriver.Sync, label
   `reset`). It begins either with a restart of the node (None) or with a reorg notification
   (Some (b, ch'): the chain is replaced from block b on by ch', the driver calls processor.Reorg(b)).
   Then the downloader sees the given poll schedule. *)
Definition segment := (option (N * chain) * list N)%type.

Definition seg_begin (ch : chain) (st : store) (ro : option (N * chain)) : chain * store :=
  match ro with None => (ch, st) | Some (b, ch') => (splice ch b ch', reorg b st) end.

(* returns: chain in force, store after the segment (None = a ProcessBlock failed, node stuck), blocks delivered *)
Definition run_seg (d : dl) (ch : chain) (st : store) (s : segment) : chain * option store * list block :=
  let '(ch1, st1) := seg_begin ch st (fst s) in
  let bs := fst (download d ch1 (last_processed st1 + 1) (snd s)) in
  (ch1, process_all st1 bs, bs).

Fixpoint run_node (d : dl) (ch : chain) (st : store) (segs : list segment) : chain * option store * list block :=
  match segs with
  | [] => (ch, Some st, [])
  | s :: t =>
      let '(ch1, ost, bs) := run_seg d ch st s in
      match ost with
      | None => (ch1, None, bs)
      | Some st1 => let '(ch2, ost2, bs2) := run_node d ch1 st1 t in (ch2, ost2, bs ++ bs2)
      end
  end.

(* ------------------------------------------------------------------------------------------------ *)
(* reference notions used by the theorems (the "spec side")                                          *)
(* ------------------------------------------------------------------------------------------------ *)

Definition apply_block (st : store) (blk : block) : store :=
  match process_block st blk with Some st' => st' | None => st end.

(* the store of a node that, from an empty database, processed every event block of ch up to block h, in order *)
Definition asif_store (ch : chain) (h : N) : store :=
  fold_left apply_block (get_events_by_block_range ch 1 h) empty_store.

(* root g with index i was injected in block b *)
Definition injected_at (ch : chain) (b g i : N) : Prop := ch b = [{| l_rm := false; l_ger := g; l_idx := i |}].
(* block m removes root g *)
Definition removed_at (ch : chain) (m g : N) : Prop := exists l, In l (ch m) /\ l_rm l = true /\ l_ger l = g.

(* (g, i) was injected in a block 1 <= b <= L and no block in (b, L] removes g *)
Definition live (ch : chain) (L g i : N) : Prop :=
  exists b, 1 <= b /\ b <= L /\ injected_at ch b g i /\ forall m, b < m -> m <= L -> ~ removed_at ch m g.

(* a reorg at b is "benign" when it does not undo an already processed removal: no removal log of the current
   chain in blocks b..h (h = highest block the node has fetched through) *)
Definition no_removal_in (ch : chain) (b h : N) : Prop :=
  forall m l, b <= m -> m <= h -> In l (ch m) -> l_rm l = false.

(* the reorgs of a run are all benign: evaluated along the run of downloader d *)
Fixpoint benign (d : dl) (ch : chain) (st : store) (segs : list segment) : Prop :=
  match segs with
  | [] => True
  | s :: t =>
      match fst s with None => True | Some (b, _) => no_removal_in ch b (last_processed st) end /\
      match run_seg d ch st s with
      | (ch1, Some st1, _) => benign d ch1 st1 t
      | (_, None, _) => True
      end
  end.

(* poll schedule of the most recent segment *)
Definition last_polls (segs : list segment) : list N := snd (last segs (None, [])).

(* concrete chains from an association list (block, log), used by witnesses and by the case files *)
Definition ins (g i : N) : log := {| l_rm := false; l_ger := g; l_idx := i |}.
Definition rmv (g : N) : log := {| l_rm := true; l_ger := g; l_idx := 0 |}.
Definition chain_of (h : list (N * log)) : chain := fun n => map snd (filter (fun p => fst p =? n) h).

(* ------------------------------------------------------------------------------------------------ *)
(* ProcessBlock under an injected storage fault (properties C07 / C04 quantify over this store too)  *)
(* ------------------------------------------------------------------------------------------------ *)

(* which kind of row write a storage statement performs; a fault is "the k-th (from 0) row write of that kind
   inside this ProcessBlock call fails" (SQL trigger raising ABORT: the statement is undone, the transaction stays
   usable, the Go code gets an error from tx.Exec / meddler.Insert). DELETE ... WHERE global_exit_root = $1 writes
   one row per deleted row. *)
Inductive gtable := GBlockIns | GGerIns | GGerDel.
Definition gtable_eqb (a b : gtable) : bool :=
  match a, b with GBlockIns, GBlockIns | GGerIns, GGerIns | GGerDel, GGerDel => true | _, _ => false end.
Definition gfault := option (gtable * nat).     (* None = no fault *)
Inductive gerr := GFault | GConstraint.

(* transaction context: working rows of imported_global_exit_root, row-write counters *)
Record gtx := mkGtx { g_rows : list row; g_ins : nat; g_del : nat }.

(* is one of the writes number lo .. lo+n-1 of kind t the faulted one? *)
Definition hits_at (f : gfault) (t : gtable) (lo n : nat) : bool :=
  match f with
  | Some (t', k) => gtable_eqb t t' && Nat.leb lo k && Nat.ltb k (lo + n)
  | None => false
  end.

(* handleGEREvent / handleGERInsertion inside the transaction *)
Definition process_event_f (f : gfault) (b : N) (x : gtx) (e : event) : gerr + gtx :=
  if l_rm e then
    let m := length (filter (fun r => r_ger r =? l_ger e) (g_rows x)) in
    if hits_at f GGerDel (g_del x) m then inl GFault
    else inr (mkGtx (filter (fun r => negb (r_ger r =? l_ger e)) (g_rows x)) (g_ins x) (g_del x + m))
  else if hits_at f GGerIns (g_ins x) 1 then inl GFault
  else if existsb (fun r => r_blk r =? b) (g_rows x) then inl GConstraint
  else inr (mkGtx (g_rows x ++ [{| r_blk := b; r_ger := l_ger e; r_idx := l_idx e |}]) (S (g_ins x)) (g_del x)).

Fixpoint process_events_f (f : gfault) (b : N) (x : gtx) (evs : list event) : gerr + gtx :=
  match evs with
  | [] => inr x
  | e :: t => match process_event_f f b x e with inl err => inl err | inr x' => process_events_f f b x' t end
  end.

(* ProcessBlock: every error is returned (`return err`), the deferred tx.Rollback() then discards the whole
   transaction, block row included; only the fault-free path reaches tx.Commit(). *)
Definition process_block_f (f : gfault) (st : store) (blk : block) : option gerr * store :=
  let '(b, evs) := blk in
  if hits_at f GBlockIns 0 1 then (Some GFault, st)
  else if existsb (N.eqb b) (s_blocks st) then (Some GConstraint, st)
  else match process_events_f f b (mkGtx (s_rows st) 0 0) evs with
       | inl err => (Some err, st)
       | inr x => (None, {| s_blocks := s_blocks st ++ [b]; s_rows := g_rows x |})
       end.
