(* C02 / C03 model (definitions only): the certificate send protocol of the aggsender.

   Transcribed, same case order, from
     aggsender/aggsender.go                        sendCertificates (one loop iteration: epoch event / status-check tick),
                                                   sendCertificate, saveCertificateToStorage
     aggsender/statuschecker/cert_status_checker.go CheckPendingCertificatesStatus, updateCertificateStatus
     aggsender/flows/flow_pp.go                    GetCertificateBuildParams, BuildCertificate
     aggsender/flows/flow_base.go                  GetCertificateBuildParamsInternal, getLastSentBlockAndRetryCount,
                                                   limitCertSize (as an arbitrary cut), verifyRetryCertStartingBlock,
                                                   BuildCertificate, getNextHeightAndPreviousLER, getNewLocalExitRoot,
                                                   getBridgeExits, getImportedBridgeExits / ConvertClaimToImportedBridgeExit
     aggsender/flows/flow_aggchain_prover.go       GetCertificateBuildParams (FEP variant, prover as an oracle)
     aggsender/db/aggsender_db_storage.go          SaveLastSentCertificate (replace at height), GetLastSentCertificateHeader,
                                                   GetCertificateHeadersByStatus(NonSettledStatuses), UpdateCertificateStatus
     aggsender/query/bridge_query.go, bridgesync/processor.go  GetBridges / GetClaims (ORDER BY block_num, block_pos),
                                                   GetExitRootByIndex, GetLastProcessedBlock
   The Agglayer is a deliberately permissive environment: it accepts every certificate (recording it Pending) unless the
   next call was scripted to fail, and moves certificates Pending -> Proven -> Candidate -> Settled or {open} -> InError.

   The model is generic in
     hash            exit roots and leaf hashes
     bev, cev        payload of a bridge / claim event (everything the node stores about it); b_leaf = Bridge.Hash(),
                     b_dc = DepositCount
     tree, t_add     the append-only exit tree of bridgesync (AddLeaf returning the new root)
   The theory (Proofs/AggsenderProofs.v) assumes of the tree only that it is SOME function of the appended leaves;
   the executable instance at the end of this file uses the frontier algorithm of Model/Merkle.v over real Keccak
   (the algorithm of tree/appendonlytree.go, proved equal to the reference Merkle root in C01). *)
From Coq Require Import NArith List Bool.
From Verif Require Import Base.Bytes Base.FastBytes Base.Hash Model.Merkle Model.TreeStore Model.BridgeStore
  Model.Reconcile Model.GlobalIndex Model.Commitment.
Import ListNotations.
Open Scope N_scope.

(* ------------------------------------------------------------------------------------------ *)
(* the Agglayer side *)
Record acert := AC { a_id : N; a_height : N; a_st : status }.

(* Pending -> Proven -> Candidate -> Settled, any non-settled (open) status -> InError *)
Definition valid_move (a b : status) : bool :=
  match a, b with
  | Pending, Proven | Proven, Candidate | Candidate, Settled => true
  | Pending, InError | Proven, InError | Candidate, InError => true
  | _, _ => false
  end.

Definition agg_status (a : list acert) (id : N) : option status :=
  match find (fun c => a_id c =? id) a with Some c => Some (a_st c) | None => None end.
Definition agg_set (a : list acert) (id : N) (s : status) : list acert :=
  map (fun c => if a_id c =? id then AC (a_id c) (a_height c) s else c) a.

Fixpoint last_opt {A} (l : list A) : option A :=
  match l with [] => None | [x] => Some x | _ :: t => last_opt t end.
Definition is_nil {A} (l : list A) : bool := match l with [] => true | _ => false end.

Section Model.
Variable hash : Type.
Variables bev cev : Type.
Variable b_leaf : bev -> hash.          (* bridgesync Bridge.Hash() *)
Variable b_dc : bev -> N.               (* Bridge.DepositCount *)
Variable tree : Type.
Variable t_add : tree -> hash -> tree * hash.   (* exitTree.AddLeaf: new tree, new root *)
(* configuration *)
Variable retry_immediately : bool.      (* cfg.RetryCertAfterInError *)
Variable start_block : N.               (* BaseFlowConfig.StartL2Block *)
Variable start_ler : hash.              (* getStartLER() *)
Variable require_events : bool.         (* PPFlow: an empty range builds nothing; aggchain-prover flow: allowEmptyCert *)
Variable cert_type : N.                 (* CertificateType.ToInt(): 1 = pp, 2 = fep *)

(* one synced L2 block: its bridge and claim events in on-chain order (block_pos ascending) *)
Record blk := Blk { k_num : N; k_bridges : list bev; k_claims : list cev }.

(* one row of certificate_info; r_exits / r_imported are the exits of the signed certificate stored with it *)
Record row := Row { height : N; cid : N; st : status; from : N; to : N; prev : hash; new : hash; retry : N;
                    r_exits : list bev; r_imported : list cev;
                    r_hasprev : bool   (* PreviousLocalExitRoot != nil: always for rows written by sendCertificate; a row
                                          rebuilt at start-up from an Agglayer header may lack it *) }.

Record state := State {
  l2 : list blk;              (* processed blocks, chain order *)
  synced : N;                 (* GetLastProcessedBlock *)
  tr : tree;                  (* the exit tree *)
  roots : list hash;          (* root table: entry i = root recorded for deposit count i *)
  rows : list row;            (* certificate_info, highest height first *)
  agg : list acert;           (* certificates the Agglayer has received *)
  next_id : N;                (* id the Agglayer gives to the next certificate it accepts *)
  fail_next : bool            (* the next call to the Agglayer fails *)
}.

(* a certificate as received by the Agglayer *)
Record submission := Sub {
  s_height : N; s_prev : hash; s_new : hash; s_from : N; s_to : N;
  s_exits : list bev;         (* BridgeExits, as the events they were converted from *)
  s_imported : list cev;      (* ImportedBridgeExits likewise *)
  s_retry : N;                (* RetryCount of the build parameters; > 0 = replacement of a certificate in error *)
  s_meta : N * N * N;         (* metadata: FromBlock, Offset = uint32(ToBlock - FromBlock), CertType *)
  s_id : N
}.

Inductive event :=
| NewBlock (skip : N) (bs : list bev) (cs : list cev)   (* the syncer processes block synced+skip+1 with these events *)
| EpochTick (cut : N)            (* cut: by how much limitCertSize shortens the range; any value *)
| StatusTick (cut : N)
| AggMove (id : N) (s : status)
| AggFailNext.

(* ---- L2 queries ---- *)
Definition in_rng (f t : N) (b : blk) : bool := (f <=? k_num b) && (k_num b <=? t).
(* GetBridges / GetClaims (from, to): WHERE block_num >= from AND block_num <= to ORDER BY block_num, block_pos *)
Definition bridges_in (l : list blk) (f t : N) : list bev := flat_map k_bridges (filter (in_rng f t) l).
Definition claims_in (l : list blk) (f t : N) : list cev := flat_map k_claims (filter (in_rng f t) l).

(* ProcessBlock: deposit counts must continue the tree (AddLeaf refuses any other index) *)
Fixpoint valid_dcs (n : N) (bs : list bev) : bool :=
  match bs with [] => true | b :: t => (b_dc b =? n) && valid_dcs (n + 1) t end.
Definition add_leaves (t : tree) (rs : list hash) (bs : list bev) : tree * list hash :=
  fold_left (fun acc b => let '(t', r) := t_add (fst acc) (b_leaf b) in (t', snd acc ++ [r])) bs (t, rs).

(* ---- CheckPendingCertificatesStatus ----
   GetCertificateHeadersByStatus(NonSettledStatuses) ORDER BY height ASC, then one GetCertificateHeader per row.
   The first failing call ends the visit with {ExistPendingCerts: true, ExistNewInErrorCert: false}; updates made
   before it stay. [rows] is kept highest first, so the visit recurses into the tail first. *)
Inductive cpres := CpAbort | CpOk (pending newerr called : bool).

Fixpoint poll_pending (failing : bool) (a : list acert) (rs : list row) : list row * cpres :=
  match rs with
  | [] => ([], CpOk false false false)
  | r :: t =>
    let '(t', res) := poll_pending failing a t in
    match res with
    | CpAbort => (r :: t', CpAbort)
    | CpOk p e called =>
      if is_open (st r) then
        if failing && negb called then (r :: t', CpAbort)          (* the scripted failure hits the first call *)
        else match agg_status a (cid r) with
             | None => (r :: t', CpAbort)                           (* unknown certificate: the call errors *)
             | Some s' =>
               (Row (height r) (cid r) s' (from r) (to r) (prev r) (new r) (retry r) (r_exits r) (r_imported r) (r_hasprev r) :: t',
                CpOk (p || is_open s') (e || (negb (is_in_error (st r)) && is_in_error s')) true)
             end
      else (r :: t', CpOk p e called)
    end
  end.
(* types.CertStatus *)
Definition cp_pending (r : cpres) : bool := match r with CpAbort => true | CpOk p _ _ => p end.
Definition cp_newerr (r : cpres) : bool := match r with CpAbort => false | CpOk _ e _ => e end.
(* was a call made to the Agglayer (the scripted failure is consumed by the first call) *)
Definition cp_called (r : cpres) : bool := match r with CpAbort => true | CpOk _ _ c => c end.

(* ---- building a certificate ---- *)
(* getLastSentBlockAndRetryCount *)
Definition last_sent_block (last : option row) : N * N :=
  match last with
  | None => (start_block, 0)
  | Some r => if is_in_error (st r) then ((if 0 <? from r then from r - 1 else to r), retry r + 1) else (to r, 0)
  end.
(* getNextHeightAndPreviousLER; [rs] = the table (GetCertificateHeaderByHeight for the fallback) *)
Definition next_height_ler (rs : list row) (last : option row) : option (N * hash) :=
  match last with
  | None => Some (0, start_ler)
  | Some r => if negb (is_closed (st r)) then None
              else if is_settled (st r) then Some (height r + 1, new r)
              else if is_in_error (st r) then
                if r_hasprev r then Some (height r, prev r)                     (* reuse the stored previous LER *)
                else if height r =? 0 then Some (0, start_ler)                  (* the first one *)
                else match find (fun q => height q =? height r - 1) rs with     (* the previous certificate must be settled *)
                     | None => None
                     | Some q => if is_settled (st q) then Some (height r, new q) else None
                     end
              else None
  end.
(* getNewLocalExitRoot: no bridges => previous LER; else GetExitRootByIndex(MaxDepositCount = count of the LAST bridge) *)
Definition new_ler (rs : list hash) (bs : list bev) (p : hash) : option hash :=
  match last_opt bs with None => Some p | Some b => nth_error rs (N.to_nat (b_dc b)) end.

(* BuildCertificate: metadata = NewCertificateMetadata(FromBlock, uint32(ToBlock-FromBlock), CreatedAt, CertType) *)
Definition meta_of (f t : N) : N * N * N := (f, u64_sub t f mod 2^32, cert_type).

(* the part of GetCertificateBuildParams + BuildCertificate after the block range [f,t] has been fixed *)
Definition build_range (s : state) (last : option row) (rc f t : N) : option (submission * N) :=
  (* GetBridges / GetClaims refuse a range that ends beyond the syncer's last processed block (the range of a certificate in
     error that is resent as it is can be in that position after an L2 reorg, until the syncer has caught up) *)
  if synced s <? t then None else
  let bs := bridges_in (l2 s) f t in
  let cs := claims_in (l2 s) f t in
  if require_events && is_nil bs && is_nil cs then None else                      (* PPFlow: buildParams.IsEmpty() *)
  (* VerifyBuildParams: verifyRetryCertStartingBlock (IsARetry: RetryCount > 0 && LastSentCertificate != nil) *)
  if (0 <? rc) && match last with Some r => negb (f =? from r) | None => false end then None else
  match next_height_ler (rows s) last with
  | None => None
  | Some (h, p) =>
    match new_ler (roots s) bs p with
    | None => None
    | Some n => Some (Sub h p n f t bs cs rc (meta_of f t) (next_id s), rc)
    end
  end.

(* PPFlow.GetCertificateBuildParams + BuildCertificate *)
Definition build (s : state) (cut : N) : option (submission * N) :=
  let last := hd_error (rows s) in                 (* GetLastSentCertificateHeader: ORDER BY height DESC LIMIT 1 *)
  let '(prev_to, rc) := last_sent_block last in
  if synced s <=? prev_to then None else           (* errNoNewBlocks *)
  let f := prev_to + 1 in
  let t := N.max f (synced s - cut) in             (* limitCertSize keeps the first block *)
  build_range s last rc f t.

(* AggchainProverFlow.GetCertificateBuildParams with the prover as an oracle:
   prover lastProvenBlock requestedEnd = Some EndBlock | None (no proof built yet / error).
   [has_proof]: the stored InError certificate still has its aggchain proof (same range is resent without the prover). *)
Definition build_fep (prover : N -> N -> option N) (has_proof : bool) (s : state) (cut : N) : option (submission * N) :=
  let last := hd_error (rows s) in
  let via_prover (rc f t : N) :=
    match prover (f - 1) t with
    | None => None
    | Some e => if (f <=? e) && (e <=? t) then build_range s last rc f e else None    (* adjustBlockRange: Range errors outside *)
    end in
  match last with
  | Some r =>
    if is_in_error (st r) then
      (* "resending the same InError certificate": same FromBlock and ToBlock, RetryCount + 1 *)
      if has_proof then build_range s last (retry r + 1) (from r) (to r) else via_prover (retry r + 1) (from r) (to r)
    else
      let '(prev_to, rc) := last_sent_block last in
      if synced s <=? prev_to then None else
      via_prover rc (prev_to + 1) (N.max (prev_to + 1) (synced s - cut))
  | None =>
    let '(prev_to, rc) := last_sent_block last in
    if synced s <=? prev_to then None else
    via_prover rc (prev_to + 1) (N.max (prev_to + 1) (synced s - cut))
  end.

(* SaveLastSentCertificate: the row of the same height is replaced *)
Definition replace_top (rs : list row) (r : row) : list row :=
  match rs with
  | x :: t => if height x =? height r then r :: t else r :: rs
  | [] => [r]
  end.
Definition sub_row (sb : submission) (rc : N) : row :=
  Row (s_height sb) (s_id sb) Pending (s_from sb) (s_to sb) (s_prev sb) (s_new sb) rc (s_exits sb) (s_imported sb) true.

Definition set_rows_fail (s : state) (rs : list row) (fl : bool) : state :=
  State (l2 s) (synced s) (tr s) (roots s) rs (agg s) (next_id s) fl.

(* sendCertificate around a builder *)
Definition send_with (s : state) (b : option (submission * N)) : state * list submission :=
  match b with
  | None => (s, [])                                   (* nothing to send, or an error before the Agglayer is called *)
  | Some (sb, rc) =>
    if fail_next s then (set_rows_fail s (rows s) false, [])          (* SendCertificate failed: nothing is stored *)
    else (State (l2 s) (synced s) (tr s) (roots s) (replace_top (rows s) (sub_row sb rc))
                (AC (s_id sb) (s_height sb) Pending :: agg s) (next_id s + 1) false, [sb])
  end.

(* one event. [bld] is the flow's builder (build for the PP flow). *)
Definition step_gen (bld : state -> N -> option (submission * N)) (s : state) (e : event) : state * list submission :=
  match e with
  | NewBlock skip bs cs =>
      if valid_dcs (N.of_nat (length (roots s))) bs then
        let num := synced s + skip + 1 in
        let '(t', rs') := add_leaves (tr s) (roots s) bs in
        (State (l2 s ++ [Blk num bs cs]) num t' rs' (rows s) (agg s) (next_id s) (fail_next s), [])
      else (s, [])                                   (* the processor refuses the block (and halts: outside C02) *)
  | AggFailNext => (set_rows_fail s (rows s) true, [])
  | AggMove id x =>
      match agg_status (agg s) id with
      | Some cur => if valid_move cur x
                    then (State (l2 s) (synced s) (tr s) (roots s) (rows s) (agg_set (agg s) id x) (next_id s) (fail_next s), [])
                    else (s, [])
      | None => (s, [])
      end
  | EpochTick cut =>
      (* case epoch := <-chEpoch: CheckPendingCertificatesStatus; if !ExistPendingCerts { sendCertificate } *)
      let '(rs, res) := poll_pending (fail_next s) (agg s) (rows s) in
      let s1 := set_rows_fail s rs (if cp_called res then false else fail_next s) in
      if cp_pending res then (s1, []) else send_with s1 (bld s1 cut)
  | StatusTick cut =>
      (* case <-checkCertChannel: if !ExistPendingCerts && ExistNewInErrorCert && cfg.RetryCertAfterInError { sendCertificate } *)
      let '(rs, res) := poll_pending (fail_next s) (agg s) (rows s) in
      let s1 := set_rows_fail s rs (if cp_called res then false else fail_next s) in
      if negb (cp_pending res) && cp_newerr res && retry_immediately then send_with s1 (bld s1 cut) else (s1, [])
  end.

Definition step : state -> event -> state * list submission := step_gen build.

(* a run and everything it submitted, in order *)
Fixpoint run_from (s : state) (evs : list event) : state * list submission :=
  match evs with
  | [] => (s, [])
  | e :: t => let '(s1, subs) := step s e in let '(s2, subs') := run_from s1 t in (s2, subs ++ subs')
  end.
Definition run (s : state) (evs : list event) : state := fold_left (fun s e => fst (step s e)) evs s.

(* settled certificates of the local table, in height order *)
Definition settled_rows (rs : list row) : list row := rev (filter (fun r => is_settled (st r)) rs).
End Model.

Arguments Blk {bev cev}. Arguments k_num {bev cev}. Arguments k_bridges {bev cev}. Arguments k_claims {bev cev}.
Arguments Row {hash bev cev}. Arguments height {hash bev cev}. Arguments cid {hash bev cev}. Arguments st {hash bev cev}.
Arguments from {hash bev cev}. Arguments to {hash bev cev}. Arguments prev {hash bev cev}. Arguments new {hash bev cev}.
Arguments retry {hash bev cev}. Arguments r_exits {hash bev cev}. Arguments r_imported {hash bev cev}. Arguments r_hasprev {hash bev cev}.
Arguments State {hash bev cev tree}. Arguments l2 {hash bev cev tree}. Arguments synced {hash bev cev tree}.
Arguments tr {hash bev cev tree}. Arguments roots {hash bev cev tree}. Arguments rows {hash bev cev tree}.
Arguments agg {hash bev cev tree}. Arguments next_id {hash bev cev tree}. Arguments fail_next {hash bev cev tree}.
Arguments Sub {hash bev cev}. Arguments s_height {hash bev cev}. Arguments s_prev {hash bev cev}. Arguments s_new {hash bev cev}.
Arguments s_from {hash bev cev}. Arguments s_to {hash bev cev}. Arguments s_exits {hash bev cev}.
Arguments s_imported {hash bev cev}. Arguments s_retry {hash bev cev}. Arguments s_meta {hash bev cev}. Arguments s_id {hash bev cev}.
Arguments NewBlock {bev cev}. Arguments EpochTick {bev cev}. Arguments StatusTick {bev cev}.
Arguments AggMove {bev cev}. Arguments AggFailNext {bev cev}.
Arguments in_rng {bev cev}. Arguments bridges_in {bev cev}. Arguments claims_in {bev cev}.
Arguments sub_row {hash bev cev}. Arguments replace_top {hash bev cev}. Arguments settled_rows {hash bev cev}.
Arguments set_rows_fail {hash bev cev tree}. Arguments send_with {hash bev cev tree}.
Arguments poll_pending {hash bev cev}.

(* ------------------------------------------------------------------------------------------ *)
(* Reference instance of the tree: the tree IS the list of its leaves and its root is an arbitrary function of
   them. The theory is proved for every tree that refines this one (Proofs/AggsenderProofs.v tree_spec). *)
Section RefTree.
Variable hash : Type.
Variable root_of : list hash -> hash.
Definition ref_add (t : list hash) (x : hash) : list hash * hash := (t ++ [x], root_of (t ++ [x])).
End RefTree.

(* ------------------------------------------------------------------------------------------ *)
(* Executable instance: real Keccak-256, events with every field.                               *)
(* ------------------------------------------------------------------------------------------ *)
(* a claim event as stored by bridgesync (fields the certificate reads; the proofs and exit roots belong to C09) *)
Record claim_ev := mkC {
  c_pos : N; c_gi : N;                              (* block position; GlobalIndex as the on-chain number *)
  c_onet : N; c_oaddr : N; c_dnet : N; c_daddr : N; c_amount : N; c_meta : bytes; c_is_msg : bool }.

(* frontier of tree/appendonlytree.go: number of leaves, lastLeftCache *)
Definition xtree : Type := N * list N.
Definition xtree_empty : xtree := (0, repeat 0 HEIGHT).
(* AddLeaf at index = number of leaves (Merkle.add_leaf = the hashing loop of AddLeaf; zh = Tree.zeroHashes) *)
Definition xtree_add (t : xtree) (leaf : N) : xtree * N :=
  let '(n, c) := t in
  let '(root, c') := Merkle.add_leaf nodeN zh HEIGHT (bitN n) leaf (cache_of_list 0 c) in
  ((n + 1, cache_to_list HEIGHT c'), root).

(* convertBridgeMetadata: nil for empty metadata, else its Keccak-256 *)
Definition conv_meta (m : bytes) : option bytes := match m with [] => None | _ => Some (keccak_bytes m) end.
(* getBridgeExits *)
Definition to_exit (b : bridge_ev) : bridge_exit :=
  {| x_leaf_type := b_lt b; x_orig_net := b_onet b; x_orig_addr := b_oaddr b; x_dest_net := b_dnet b;
     x_dest_addr := b_daddr b; x_amount := Some (b_amount b); x_metadata := conv_meta (b_meta b) |}.
(* ConvertClaimToImportedBridgeExit: the exit and the decoded global index (ClaimData: C09) *)
Definition to_imported (c : claim_ev) : bridge_exit * (bool * N * N) :=
  ({| x_leaf_type := if c_is_msg c then 1 else 0; x_orig_net := c_onet c; x_orig_addr := c_oaddr c;
      x_dest_net := c_dnet c; x_dest_addr := c_daddr c; x_amount := Some (c_amount c);
      x_metadata := conv_meta (c_meta c) |},
   GlobalIndex.decode (c_gi c)).

(* emptyLER of flow_base.go = root of the empty depth-32 tree (zh 32) *)
Definition empty_ler : N := zh HEIGHT.

Definition xstate := state N bridge_ev claim_ev xtree.
Definition xevent := event bridge_ev claim_ev.
Definition xsub := submission N bridge_ev claim_ev.
Definition xrow := row N bridge_ev claim_ev.
Definition xstate_empty : xstate := State [] 0 xtree_empty [] [] [] 0 false.
(* PP flow, certificate type 1 *)
Definition xstep (retry_now : bool) (start_blk : N) (start_root : N) : xstate -> xevent -> xstate * list xsub :=
  step N bridge_ev claim_ev bridge_leaf b_dc xtree xtree_add retry_now start_blk start_root true 1.

(* ------------------------------------------------------------------------------------------ *)
(* Restart and recovery (executable instance only).                                             *)
(* A restart creates new AggSender objects on the same certificate database (or on an empty one: database lost) and
   runs one iteration of CheckInitialStatus; that iteration is NOT re-modelled here: it is Model/Reconcile.v's
   [recover] (C13: CheckPendingCertificatesStatus, initialStatus.process, executeInitialStatusAction,
   newCertificateInfoFromAgglayerCertHeader) applied to the table and to the Agglayer's view. While the recovery is
   refused the node stays in CheckInitialStatus: every tick is another attempt and nothing is sent.
   A crash tick is a tick during which the process dies between "SendCertificate accepted" and the local save,
   followed by the restart.
   The theorems of Proofs/AggsenderProofs.v are about [step] (restart-free schedules); these events extend the
   executable model that is compared with the real code (see Properties/C02.v for what is and is not proved). *)
Record xinfo := XI { xi_id : N; xi_from : N; xi_to : N; xi_prev : N; xi_new : N }.   (* what the Agglayer keeps of a certificate *)

Section Restart.     (* exit roots are numbers (Reconcile.v's headers); event payloads and the tree stay generic *)
Variables bev cev : Type.
Variable b_leaf : bev -> N.
Variable b_dc : bev -> N.
Variable tree : Type.
Variable t_add : tree -> N -> tree * N.
Variable retry_now : bool.
Variable start_blk : N.
Variable start_root : N.
Variable require_events : bool.
Variable cert_type : N.
Variable agg_prev : bool.            (* the Agglayer's headers carry prev_local_exit_root *)
Notation cstate := (state N bev cev tree).
Notation crow := (row N bev cev).
Notation csub := (submission N bev cev).

Record rstate := XR { xr_core : cstate; xr_info : list xinfo; xr_recovering : bool }.
Inductive revent := RCore (e : event bev cev) | RRestart (lost : bool) | RCrashTick (epoch : bool) (cut : N).

Definition to_rrow (r : crow) : Reconcile.row :=
  {| r_height := height r; r_retry := retry r; r_id := cid r; r_status := st r;
     r_prev_ler := if r_hasprev r then Some (prev r) else None; r_new_ler := new r; r_from := from r; r_to := to r;
     r_created := None; r_ctype := cert_type; r_from_agg := false |}.
Definition of_rrow (l : list (blk bev cev)) (r : Reconcile.row) : crow :=
  Row (r_height r) (r_id r) (r_status r) (r_from r) (r_to r) (match r_prev_ler r with Some p => p | None => 0 end)
      (r_new_ler r) (r_retry r) (bridges_in l (r_from r) (r_to r)) (claims_in l (r_from r) (r_to r))
      (match r_prev_ler r with Some _ => true | None => false end).
(* the header the Agglayer serves: metadata V2 as BuildCertificate wrote it; prev_local_exit_root only when [agg_prev] *)
Definition hdr_of (info : list xinfo) (c : acert) : hdr :=
  let i := match find (fun i => xi_id i =? a_id c) info with Some i => i | None => XI (a_id c) 0 0 0 0 end in
  {| h_height := a_height c; h_id := a_id c; h_status := a_st c; h_new_ler := xi_new i;
     h_prev_ler := if agg_prev then Some (xi_prev i) else None;
     h_meta := meta_encode (new_metadata (xi_from i) (xi_to i) 0 cert_type) |}.
(* [agg] is kept newest first: latest settled = first settled one; latest pending = the newest unless it is settled *)
Definition view_of (info : list xinfo) (a : list acert) : aggview :=
  {| a_settled := option_map (hdr_of info) (find (fun c => is_settled (a_st c)) a);
     a_pending := match a with c :: _ => if is_settled (a_st c) then None else Some (hdr_of info c) | [] => None end;
     a_known := map (hdr_of info) a |}.

(* one iteration of CheckInitialStatus on a fresh process; the scripted failure does not outlive the old process *)
Definition recover_x (lost : bool) (s : rstate) : rstate :=
  let c := xr_core s in
  let store0 := {| s_info := if lost then [] else map to_rrow (rows c); s_hist := [] |} in
  let '(store1, out) := Reconcile.recover false (view_of (xr_info s) (agg c)) store0 in
  let rows1 := map (of_rrow (l2 c)) (rev (sort_by_height (s_info store1))) in
  XR (State (l2 c) (synced c) (tr c) (roots c) rows1 (agg c) (next_id c) false) (xr_info s) (refused out).

Definition info_of (subs : list csub) : list xinfo := map (fun sb => XI (s_id sb) (s_from sb) (s_to sb) (s_prev sb) (s_new sb)) subs.

Definition rstep (s : rstate) (e : revent) : rstate * list csub :=
  let core_step := step N bev cev b_leaf b_dc tree t_add retry_now start_blk start_root require_events cert_type in
  (* the same tick with a builder that builds nothing = the status refresh alone *)
  let poll_only := step_gen N bev cev b_leaf b_dc tree t_add retry_now (fun _ _ => None) in
  match e with
  | RCore ev =>
      match ev, xr_recovering s with
      | EpochTick _, true | StatusTick _, true => (recover_x false s, [])       (* still inside CheckInitialStatus *)
      | _, _ => let '(c', subs) := core_step (xr_core s) ev in (XR c' (xr_info s ++ info_of subs) (xr_recovering s), subs)
      end
  | RRestart lost => (recover_x lost s, [])
  | RCrashTick epoch cut =>
      if xr_recovering s then (recover_x false s, []) else
      let ev := if epoch then EpochTick cut else StatusTick cut in
      let '(c', subs) := core_step (xr_core s) ev in
      (* the certificate reached the Agglayer, the row did not reach the table *)
      let c'' := match subs with
                 | [] => c'
                 | _ => State (l2 c') (synced c') (tr c') (roots c') (rows (fst (poll_only (xr_core s) ev))) (agg c') (next_id c') (fail_next c')
                 end in
      (recover_x false (XR c'' (xr_info s ++ info_of subs) false), subs)
  end.
End Restart.
Arguments XR {bev cev tree}. Arguments xr_core {bev cev tree}. Arguments xr_info {bev cev tree}. Arguments xr_recovering {bev cev tree}.
Arguments RCore {bev cev}. Arguments RRestart {bev cev}. Arguments RCrashTick {bev cev}.
Arguments info_of {bev cev}.

(* the executable instance: PP flow over real Keccak *)
Definition xrstate := rstate bridge_ev claim_ev xtree.
Definition xrevent := revent bridge_ev claim_ev.
Definition xrstep (retry_now : bool) (start_blk start_root : N) (agg_prev : bool) : xrstate -> xrevent -> xrstate * list xsub :=
  rstep bridge_ev claim_ev bridge_leaf b_dc xtree xtree_add retry_now start_blk start_root true 1 agg_prev.

(* the executable instance of the aggchain-prover flow: certificate type 2, empty certificates allowed, the stored proof
   of a certificate in error is always there (rows written by sendCertificate), the prover scripted by a rule:
   with f = lastProven+1 and t = requestedEnd: 0 t | 1 f+(t-f)/2 | 2 f | 3 t+1 | 4 f-1 | else no proof *)
Definition prover_of (rule : N) (lp t : N) : option N :=
  let f := lp + 1 in
  if rule =? 0 then Some t else if rule =? 1 then Some (f + (t - f) / 2) else if rule =? 2 then Some f
  else if rule =? 3 then Some (t + 1) else if rule =? 4 then Some lp else None.
Definition xstep_fep (retry_now : bool) (start_blk start_root rule : N) : xstate -> xevent -> xstate * list xsub :=
  step_gen N bridge_ev claim_ev bridge_leaf b_dc xtree xtree_add retry_now
           (build_fep N bridge_ev claim_ev b_dc xtree start_blk start_root false 2 (prover_of rule) true).
