(* Reference (specification) Merkle trees: the plain recursive definition of the root of a
   zero-padded binary tree. No algorithmic content; these are what the theorems compare against. *)
From Coq Require Import List Arith.
Import ListNotations.

Section MerkleSpec.
Context {hash : Type}.
Variable node : hash -> hash -> hash.
Variable z0 : hash.

(* append-only tree: root of the height-h subtree number k when only the first n leaves f 0 .. f (n-1) exist *)
Fixpoint sub (f : nat -> hash) (h k n : nat) : hash :=
  match h with
  | 0 => if k <? n then f k else z0
  | S h' => node (sub f h' (2*k) n) (sub f h' (2*k+1) n)
  end.
(* the Merkle root of the depth-d tree holding the first n leaves of f *)
Definition mroot (f : nat -> hash) (d n : nat) : hash := sub f d 0 n.

(* updatable (sparse) tree: a version is a total leaf function g (z0 where nothing was written) *)
Fixpoint ssub (g : nat -> hash) (h k : nat) : hash :=
  match h with 0 => g k | S h' => node (ssub g h' (2*k)) (ssub g h' (2*k+1)) end.
Definition sroot (g : nat -> hash) (d : nat) : hash := ssub g d 0.
End MerkleSpec.
