(* C12 - the bridge API's claim flow. Definitions only.
   Transcription of /repo/bridgeservice/bridge.go (ClaimProofHandler, L1InfoTreeIndexForBridgeHandler,
   InjectedL1InfoLeafHandler, getFirstL1InfoTreeIndexForL1Bridge / ForL2Bridge), bridgeservice/utils.go (parseUintQuery)
   and of the facade functions of /repo/l1infotreesync/l1infotreesync.go and /repo/bridgesync/bridgesync.go they call.

   Part 1 (Section ClaimFlow) is generic: the three syncers behind the service are RECORDS OF QUERY FUNCTIONS (the
   interfaces Bridger / L1InfoTreer of bridge_interfaces.go, with the two tree lookups getRHTNode exposed because
   GetProof / GetLeaf are Go code of tree/tree.go, not storage), the digest type is abstract. The theorems of
   Proofs/ClaimFlowProofs.v quantify over ANY such stores that satisfy stated well-formedness facts.
   Part 2 is an executable instance over Model/TreeStore + Model/BridgeStore (real Keccak) with a thin model of the
   l1infotreesync processor restricted to the two event kinds and the tables the bridge service reads
   (l1info_leaf, verify_batches, rollup exit tree); it is what the correspondence check runs.
   Halted syncers (every facade method answers ErrInconsistentState) are property C14's subject and not modelled here. *)
From Coq Require Import NArith ZArith List Bool.
From Verif Require Import Base.Bytes Base.FastBytes Base.Hash Model.Merkle Model.TreeStore Model.BridgeStore.
Import ListNotations.
Open Scope N_scope.

(* error classes of the service. EBadParam k: query parameter number k (0 network_id, 1 leaf_index, 2 deposit_count)
   absent / not a number / out of range (HTTP 400); EUnsupported: network id neither 0 nor the service's own (HTTP 400);
   the others are HTTP 500. EFuel is the model's own: the loop bound of the binary search was exhausted
   (excluded by the termination theorems of Proofs/ClaimFlowProofs.v). *)
Inductive cerr := ENotFound | ENotOnL1Info | ENetZero | EUnsupported | EBadParam (k : N) | EFuel.
Inductive cres (A : Type) := Ok (a : A) | Err (e : cerr).
Arguments Ok {A} a.
Arguments Err {A} e.

(* uint64 arithmetic of the search loops *)
Definition mask64 : N := N.ones 64.
Definition add1_64 (x : N) : N := N.land (x + 1) mask64.          (* targetBlock + 1 *)
Definition sub1_64 (x : N) : N := if x =? 0 then mask64 else x - 1. (* targetBlock - 1 : wraps to MaxUint64 at block 0 *)
Definition FUEL : nat := 64.

(* a query-string parameter as the handler sees it *)
Inductive qparam := PMissing | PBad | PNum (n : N).   (* absent or empty | not a uint64 | a uint64 *)
(* utils.go parseUintQuery[uint32](c, key, mandatory = true, _) *)
Definition parse_u32 (key : N) (p : qparam) : cres N :=
  match p with
  | PNum n => if n <=? 4294967295 then Ok n else Err (EBadParam key)
  | _ => Err (EBadParam key)
  end.

Section ClaimFlow.
Context {hash : Type}.
Variable z0 : hash.              (* common.Hash{} *)
Variable zh : nat -> hash.       (* Tree.zeroHashes *)
Variable H : nat.                (* types.DefaultHeight *)

(* l1infotreesync.L1InfoTreeLeaf / VerifyBatches, the fields the service reads *)
Record info := mkInfo { i_block : N; i_pos : N; i_index : N; i_mer : hash; i_rer : hash }.
Record verified := mkVer { v_block : N; v_pos : N; v_rollup : N; v_exit : hash; v_rer : hash }.

(* bridgeservice.Bridger (the part the claim flow uses) *)
Record bridger := mkBridger {
  br_node : hash -> option (hash * hash);     (* exitTree.getRHTNode *)
  br_root_index : hash -> option N }.         (* exitTree.GetRootByHash(h).Index ; None = db.ErrNotFound *)
(* BridgeSync.GetProof = exitTree.GetProof = getSiblings (zero-hash fallback, never an error on a healthy database) *)
Definition br_get_proof (b : bridger) (dc : N) (root : hash) : list hash := swalk zh (br_node b) H root (bitN dc).
(* BridgeSync.GetRootByLER *)
Definition br_get_root_by_ler (b : bridger) (ler : hash) : cres N :=
  match br_root_index b ler with Some i => Ok i | None => Err ENotFound end.

(* bridgeservice.L1InfoTreer *)
Record l1infotreer := mkL1I {
  li_node : hash -> option (hash * hash);               (* rollupExitTree.getRHTNode *)
  li_info_by_index : N -> option info;                  (* GetInfoByIndex *)
  li_last_info : option info;                           (* GetLastInfo *)
  li_first_info : option info;                          (* GetFirstInfo *)
  li_first_info_after : N -> option info;               (* GetFirstInfoAfterBlock *)
  li_last_verified : N -> option verified;              (* GetLastVerifiedBatches(rollupID) *)
  li_first_verified : N -> option verified;             (* GetFirstVerifiedBatches(rollupID) *)
  li_first_verified_after : N -> N -> option verified;  (* GetFirstVerifiedBatchesAfterBlock(rollupID, block) *)
  li_first_info_with_rer : hash -> option info }.       (* GetFirstL1InfoWithRollupExitRoot *)

Definition opt_res {A} (o : option A) : cres A := match o with Some a => Ok a | None => Err ENotFound end.

(* L1InfoTreeSync.GetRollupExitTreeMerkleProof: tree.EmptyProof for network 0, else rollupExitTree.GetProof(networkID-1, root) *)
Definition get_rollup_exit_tree_merkle_proof (li : l1infotreer) (net : N) (root : hash) : list hash :=
  if net =? 0 then repeat z0 H else swalk zh (li_node li) H root (bitN (net - 1)).
(* L1InfoTreeSync.GetLocalExitRoot: error for network 0, else rollupExitTree.GetLeaf(networkID-1, rollupExitRoot) (strict descent) *)
Definition get_local_exit_root (li : l1infotreer) (net : N) (rer : hash) : cres hash :=
  if net =? 0 then Err ENetZero
  else match walk (li_node li) H rer (bitN (net - 1)) with Some (_, y) => Ok y | None => Err ENotFound end.

(* the service: its own network id, the two bridge syncers, the L1 info tree syncer, the injected-GER syncer *)
Record stores := mkStores {
  s_net : N; s_l1 : bridger; s_l2 : bridger; s_li : l1infotreer;
  s_ger_after : N -> option N }.    (* LastGERer.GetFirstGERAfterL1InfoTreeIndex(i).L1InfoTreeIndex *)

(* ClaimProofHandler after parameter parsing. Result: (proofLocalExitRoot, proofRollupExitRoot, l1InfoTreeLeaf) *)
Definition claim_proof (S : stores) (net idx dc : N) : cres (list hash * list hash * info) :=
  match li_info_by_index (s_li S) idx with
  | None => Err ENotFound
  | Some inf =>
    let finish (pl : list hash) :=
      Ok (pl, get_rollup_exit_tree_merkle_proof (s_li S) net (i_rer inf), inf) in
    if net =? 0 then finish (br_get_proof (s_l1 S) dc (i_mer inf))                  (* case networkID == mainnetNetworkID *)
    else if net =? s_net S then                                                       (* case networkID == b.networkID *)
      match get_local_exit_root (s_li S) net (i_rer inf) with
      | Err e => Err e
      | Ok ler => finish (br_get_proof (s_l2 S) dc ler)
      end
    else Err EUnsupported
  end.

(* the loop shared (textually) by both searches: `probe t` = the info / verified-batches row found at or after
   block t together with the Index of the tree root its exit root names *)
Fixpoint bsearch {A} (probe : N -> cres (A * N)) (fuel : nat) (dc lower upper : N) (best : A) : cres A :=
  if upper <? lower then Ok best else                 (* for lowerLimit <= upperLimit *)
  match fuel with
  | O => Err EFuel
  | S fuel' =>
    let target := lower + (upper - lower) / 2 in
    match probe target with
    | Err e => Err e
    | Ok (x, ridx) =>
      if ridx <? dc then bsearch probe fuel' dc (add1_64 target) upper best
      else if ridx =? dc then Ok x                      (* bestResult = target; break *)
      else bsearch probe fuel' dc lower (sub1_64 target) x
    end
  end.

Definition probe_l1 (S : stores) (t : N) : cres (info * N) :=
  match li_first_info_after (s_li S) t with
  | None => Err ENotFound
  | Some x => match br_root_index (s_l1 S) (i_mer x) with None => Err ENotFound | Some r => Ok (x, r) end
  end.
(* getFirstL1InfoTreeIndexForL1Bridge *)
Definition first_index_l1 (S : stores) (dc : N) : cres N :=
  match li_last_info (s_li S) with None => Err ENotFound | Some last =>
  match br_root_index (s_l1 S) (i_mer last) with None => Err ENotFound | Some ridx =>
  if ridx <? dc then Err ENotOnL1Info else
  match li_first_info (s_li S) with None => Err ENotFound | Some first =>
  match bsearch (probe_l1 S) FUEL dc (i_block first) (i_block last) last with
  | Err e => Err e
  | Ok best => Ok (i_index best)
  end end end end.

Definition probe_l2 (S : stores) (t : N) : cres (verified * N) :=
  match li_first_verified_after (s_li S) (s_net S) t with
  | None => Err ENotFound
  | Some v => match br_root_index (s_l2 S) (v_exit v) with None => Err ENotFound | Some r => Ok (v, r) end
  end.
(* getFirstL1InfoTreeIndexForL2Bridge *)
Definition first_index_l2 (S : stores) (dc : N) : cres N :=
  match li_last_verified (s_li S) (s_net S) with None => Err ENotFound | Some last =>
  match br_root_index (s_l2 S) (v_exit last) with None => Err ENotFound | Some ridx =>
  if ridx <? dc then Err ENotOnL1Info else
  match li_first_verified (s_li S) (s_net S) with None => Err ENotFound | Some first =>
  match bsearch (probe_l2 S) FUEL dc (v_block first) (v_block last) last with
  | Err e => Err e
  | Ok best =>
    match li_first_info_with_rer (s_li S) (v_rer best) with
    | None => Err ENotFound
    | Some inf => Ok (i_index inf)
    end
  end end end end.

(* L1InfoTreeIndexForBridgeHandler after parameter parsing *)
Definition l1_info_tree_index (S : stores) (net dc : N) : cres N :=
  if net =? 0 then first_index_l1 S dc
  else if s_net S =? net then first_index_l2 S dc
  else Err EUnsupported.

(* InjectedL1InfoLeafHandler after parameter parsing *)
Definition injected_l1_info_leaf (S : stores) (net idx : N) : cres info :=
  if net =? 0 then opt_res (li_info_by_index (s_li S) idx)
  else if s_net S =? net then
    match s_ger_after S idx with
    | None => Err ENotFound
    | Some i => opt_res (li_info_by_index (s_li S) i)
    end
  else Err EUnsupported.

(* the three handlers with their parameter parsing, in the order of the source *)
Definition bindr {A B} (r : cres A) (f : A -> cres B) : cres B := match r with Ok a => f a | Err e => Err e end.
Definition claim_proof_handler (S : stores) (pnet pidx pdc : qparam) :=
  bindr (parse_u32 0 pnet) (fun net => bindr (parse_u32 1 pidx) (fun idx => bindr (parse_u32 2 pdc) (fun dc =>
  claim_proof S net idx dc))).
Definition l1_info_tree_index_handler (S : stores) (pnet pdc : qparam) :=
  bindr (parse_u32 0 pnet) (fun net => bindr (parse_u32 2 pdc) (fun dc => l1_info_tree_index S net dc)).
Definition injected_l1_info_leaf_handler (S : stores) (pnet pidx : qparam) :=
  bindr (parse_u32 0 pnet) (fun net => bindr (parse_u32 1 pidx) (fun idx => injected_l1_info_leaf S net idx)).

(* ---- what "covers" means (the property's words): the mainnet exit root / the rollup's local exit root named by the
   info leaf is a recorded exit-tree root whose index is >= the bridge's deposit count ---- *)
Definition covers_l1 (S : stores) (x : info) (dc : N) : Prop :=
  exists ridx, br_root_index (s_l1 S) (i_mer x) = Some ridx /\ dc <= ridx.
Definition covers_l2 (S : stores) (x : info) (dc : N) : Prop :=
  exists ler ridx, get_local_exit_root (s_li S) (s_net S) (i_rer x) = Ok ler /\
                   br_root_index (s_l2 S) ler = Some ridx /\ dc <= ridx.
Definition covers (S : stores) (net : N) (x : info) (dc : N) : Prop :=
  if net =? 0 then covers_l1 S x dc else covers_l2 S x dc.
End ClaimFlow.

Arguments mkInfo {hash}.
Arguments mkVer {hash}.
Arguments mkBridger {hash}.
Arguments mkL1I {hash}.
Arguments mkStores {hash}.

(* ===================================================================================================== *)
(* Part 2: executable instance                                                                            *)
(* ===================================================================================================== *)

(* l1infotreesync processor, restricted to UpdateL1InfoTree and VerifyBatches events and to the tables the bridge
   service reads. The L1 info Merkle tree itself (l1InfoTree.AddLeaf) is not read by the claim flow and is not modelled. *)
Inductive ievent :=
| IUpdate (pos mer rer : N)
| IVerify (pos rid exit : N).
Record iblock := mkIBlock { ib_num : N; ib_events : list ievent }.

Record l1idb := mkL1idb {
  l_blocks : list N;                 (* block.num PRIMARY KEY *)
  l_infos : list (@info N);          (* l1info_leaf, insertion order; PRIMARY KEY (block_num, block_pos) *)
  l_gers : list N;                   (* l1info_leaf.global_exit_root UNIQUE *)
  l_verified : list (@verified N);   (* verify_batches; PRIMARY KEY (block_num, block_pos) *)
  l_rtree : tdb }.                   (* rollup exit tree (UpdatableTree) *)
Definition l1idb_empty := mkL1idb [] [] [] [] tdb_empty.

(* event.RollupID - 1 in uint32 *)
Definition rid_index (rid : N) : N := N.land (rid + 4294967295) 4294967295.

(* ORDER BY block_num, block_pos *)
Definition kle (b1 p1 b2 p2 : N) : bool := (b1 <? b2) || ((b1 =? b2) && (p1 <=? p2)).
Definition min_by {A} (kb kp : A -> N) (l : list A) : option A :=
  fold_left (fun acc x => match acc with None => Some x
                                     | Some a => if kle (kb a) (kp a) (kb x) (kp x) then Some a else Some x end) l None.
Definition max_by {A} (kb kp : A -> N) (l : list A) : option A :=
  fold_left (fun acc x => match acc with None => Some x
                                     | Some a => if kle (kb x) (kp x) (kb a) (kp a) then Some a else Some x end) l None.

Definition l_last_info (d : l1idb) := max_by (@i_block N) (@i_pos N) (l_infos d).

(* processVerifyBatches *)
Definition process_verify (d : l1idb) (blk pos rid exit : N) : option l1idb :=
  if exit =? 0 then Some d else
  let idx := rid_index rid in
  let is_new := match last_root (l_rtree d) with
                | None => true
                | Some lr => match get_leaf (l_rtree d) idx (r_hash lr) with None => true | Some lf => negb (lf =? exit) end
                end in
  if negb is_new then Some d else
  match upsert_leaf_exec (l_rtree d) blk pos idx exit with
  | inl _ => None
  | inr (newroot, t') =>
    if existsb (fun v => (v_block v =? blk) && (v_pos v =? pos)) (l_verified d) then None else
    Some (mkL1idb (l_blocks d) (l_infos d) (l_gers d) (l_verified d ++ [mkVer blk pos rid exit newroot]) t')
  end.

(* one event of ProcessBlock; `next` = initialL1InfoIndex + l1InfoLeavesAdded *)
Definition l1i_process_event (blk : N) (st : l1idb * N) (e : ievent) : option (l1idb * N) :=
  let '(d, next) := st in
  match e with
  | IUpdate pos mer rer =>
    let ger := nodeN mer rer in
    if existsb (fun x => (i_block x =? blk) && (i_pos x =? pos)) (l_infos d) then None else
    if existsb (N.eqb ger) (l_gers d) then None else
    Some (mkL1idb (l_blocks d) (l_infos d ++ [mkInfo blk pos next mer rer]) (l_gers d ++ [ger]) (l_verified d) (l_rtree d),
          next + 1)
  | IVerify pos rid exit =>
    match process_verify d blk pos rid exit with None => None | Some d' => Some (d', next) end
  end.

(* processor.ProcessBlock: 0 = ok, 3 = constraint / storage error (transaction rolled back, state unchanged) *)
Definition l1i_process_block (d : l1idb) (k : iblock) : N * l1idb :=
  if existsb (N.eqb (ib_num k)) (l_blocks d) then (3, d) else
  let d0 := mkL1idb (l_blocks d ++ [ib_num k]) (l_infos d) (l_gers d) (l_verified d) (l_rtree d) in
  let next := match l_last_info d with None => 0 | Some x => N.land (i_index x + 1) 4294967295 end in
  match fold_left (fun acc e => match acc with None => None | Some st => l1i_process_event (ib_num k) st e end)
                  (ib_events k) (Some (d0, next)) with
  | None => (3, d)
  | Some (d', _) => (0, d')
  end.

(* the facade queries on this store *)
Definition l1i_iface (d : l1idb) : @l1infotreer N :=
  let of_rollup rid := filter (fun v => v_rollup v =? rid) (l_verified d) in
  mkL1I (lookup (l_rtree d))
        (fun idx => find (fun x => i_index x =? idx) (l_infos d))
        (l_last_info d)
        (min_by (@i_block N) (@i_pos N) (l_infos d))
        (fun b => min_by (@i_block N) (@i_pos N) (filter (fun x => b <=? i_block x) (l_infos d)))
        (fun rid => max_by (@v_block N) (@v_pos N) (of_rollup rid))
        (fun rid => min_by (@v_block N) (@v_pos N) (of_rollup rid))
        (fun rid b => min_by (@v_block N) (@v_pos N) (filter (fun v => b <=? v_block v) (of_rollup rid)))
        (fun rer => min_by (@i_block N) (@i_pos N) (filter (fun x => i_rer x =? rer) (l_infos d))).

Definition bridger_of (t : tdb) : @bridger N :=
  mkBridger (lookup t) (fun h => option_map r_pos (root_by_hash t h)).

(* the service in front of the three stores; the injected-GER syncer of the harness is the identity *)
Definition exec_stores (net : N) (l1 l2 : bdb) (li : l1idb) : @stores N :=
  mkStores net (bridger_of (d_tree l1)) (bridger_of (d_tree l2)) (l1i_iface li) (fun i => Some i).

Definition x_claim_proof_handler := @claim_proof_handler N 0 zh HEIGHT.
Definition x_l1_info_tree_index_handler := @l1_info_tree_index_handler N.
Definition x_injected_l1_info_leaf_handler := @injected_l1_info_leaf_handler N.
