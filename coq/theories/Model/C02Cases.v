(* C02 / C03 correspondence: a schedule, what the REAL aggsender loop did on it (certificates received by the
   scripted Agglayer, certificate_info rows after every event), the model run on the same schedule (corr), and the two
   properties evaluated on the implementation's observations with naive references (spec_c02, spec_c03). *)
From Coq Require Import NArith ZArith List Bool Uint63.
From Verif Require Import Base.Bytes Base.FastBytes Base.Hash Model.Merkle Model.TreeStore Model.BridgeStore Model.Contracts
  Model.GlobalIndex Model.Commitment Model.Reconcile Model.AggsenderProtocol.
From Verif Require Model.CertCut.
Import ListNotations.
Open Scope N_scope.

(* numbers are transcribed as 60-bit limbs of primitive integers (fast to parse), rebuilt here *)
Definition n63 (i : int) : N := Z.to_N (Uint63.to_Z i).
Definition nb (limbs : list int) : N := fold_right (fun i acc => n63 i + N.shiftl acc 60) 0 limbs.
(* per-case table of the 256-bit values (exit roots), referred to by position *)
Definition hx (tbl : list N) (k : nat) : N := nth k tbl 0.

(* ---------- the schedule ---------- *)
Inductive xop :=
| XBlock (skip : N) (bs : list bridge_ev) (cs : list claim_ev)
| XEpoch (max : N)                 (* MaxCertSize during this iteration *)
| XStatus (max : N)
| XMove (id : N) (s : status)
| XMoveLast (s : status)           (* the Agglayer moves the certificate it accepted last *)
| XFail
| XRestart (lost : bool)           (* new process on the same / an empty certificate database, start-up reconciliation *)
| XCrashEpoch (max : N)            (* epoch tick during which the process dies between "accepted" and "row stored"; restart *)
| XCrashStatus (max : N)
| XTickF (epoch : bool) (max rule : N)    (* aggchain-prover flow: a tick; rule = what the scripted prover answers *)
| XReorg (b : N)                   (* L2 reorg: the bridge syncer's Reorg(b); only blocks no live (non-InError) certificate covers *)
| XNop.                            (* a generated L2 reorg the harness did not apply (it would drop certified blocks) *)

(* ---------- observations ---------- *)
Record exit_obs := mkXO { xo_exit : bridge_exit; xo_hash : N }.                 (* fields + BridgeExit.Hash() *)
Record imp_obs := mkIO { io_exit : exit_obs; io_gi : bool * N * N }.
Record sub_obs := mkSO { so_id : N; so_height : N; so_prev : N; so_new : N; so_meta : bytes;
                         so_exits : list exit_obs; so_imp : list imp_obs }.
Record row_obs := mkRO { ro_height : N; ro_id : option N; ro_status : status; ro_from : N; ro_to : N;
                         ro_prev : option N; ro_new : N; ro_retry : N }.
Record step_obs := mkST { st_subs : list sub_obs; st_rows : option (list row_obs) (* None: same as after the previous event *);
                          st_synced : N;
                          st_refused : option bool (* a start-up reconciliation ran during this event: was it refused *) }.
(* c_seeds: certificates that exist before the sender starts (rows of certificate_info = the Agglayer's records),
   ascending height, ids 0,1,2,... *)
Record case02 := mkCase02 { c_fep : bool (* aggchain-prover flow instead of the PP flow *); c_retry : bool; c_aggprev : bool (* Agglayer headers carry prev_local_exit_root *);
                            c_start : N; c_start_ler : N; c_pre : list xop; c_seeds : list row_obs;
                            c_steps : list xop; c_obs : list step_obs }.

(* ---------- equality helpers ---------- *)
Fixpoint list_eqb {A} (eqb : A -> A -> bool) (a b : list A) : bool :=
  match a, b with [], [] => true | x :: a', y :: b' => eqb x y && list_eqb eqb a' b' | _, _ => false end.
Fixpoint list_rel {A B} (r : A -> B -> bool) (a : list A) (b : list B) : bool :=
  match a, b with [], [] => true | x :: a', y :: b' => r x y && list_rel r a' b' | _, _ => false end.
Definition opt_eqb {A} (eqb : A -> A -> bool) (a b : option A) : bool :=
  match a, b with None, None => true | Some x, Some y => eqb x y | _, _ => false end.
Definition exit_eqb (a b : bridge_exit) : bool :=
  (x_leaf_type a =? x_leaf_type b) && (x_orig_net a =? x_orig_net b) && (x_orig_addr a =? x_orig_addr b) &&
  (x_dest_net a =? x_dest_net b) && (x_dest_addr a =? x_dest_addr b) && opt_eqb N.eqb (x_amount a) (x_amount b) &&
  opt_eqb bytes_eqb (x_metadata a) (x_metadata b).
Definition exit_obs_eqb (a b : exit_obs) : bool := exit_eqb (xo_exit a) (xo_exit b) && (xo_hash a =? xo_hash b).
Definition imp_obs_eqb (a b : imp_obs) : bool := exit_obs_eqb (io_exit a) (io_exit b) && triple_eqb (io_gi a) (io_gi b).
Definition row_obs_eqb (a b : row_obs) : bool :=
  (ro_height a =? ro_height b) && opt_eqb N.eqb (ro_id a) (ro_id b) && status_eqb (ro_status a) (ro_status b) &&
  (ro_from a =? ro_from b) && (ro_to a =? ro_to b) && opt_eqb N.eqb (ro_prev a) (ro_prev b) && (ro_new a =? ro_new b) &&
  (ro_retry a =? ro_retry b).

(* ------------------------------------------------------------------------------------------ *)
(* model side                                                                                   *)
(* ------------------------------------------------------------------------------------------ *)
(* the size limit of a tick as a cut: limitCertSize (C17 model, real size estimate) applied to the range the flow
   starts from, after the status refresh *)
Definition cc_events {A} (meta_len : A -> N) (idn : A -> N) (sel : blk bridge_ev claim_ev -> list A) (l : list (blk bridge_ev claim_ev))
  (f t : N) : list CertCut.event :=
  flat_map (fun b => map (fun e => CertCut.Ev (k_num b) (meta_len e) (idn e)) (sel b)) (filter (in_rng f t) l).
Definition cut_of_ty (ty : CertCut.cert_type) (start : N) (s : xstate) (max : N) : N :=
  let '(rs, _) := poll_pending (fail_next s) (agg s) (rows s) in
  let last := hd_error rs in
  let '(prev_to, rc) := last_sent_block N bridge_ev claim_ev start last in
  if synced s <=? prev_to then 0 else
  let f := prev_to + 1 in
  let p := CertCut.P f (synced s)
             (cc_events (fun e => N.of_nat (length (b_meta e))) b_dc k_bridges (l2 s) f (synced s))
             (cc_events (fun e => N.of_nat (length (c_meta e))) c_gi k_claims (l2 s) f (synced s))
             (Z.of_N rc) (match last with Some _ => true | None => false end) ty in
  match CertCut.limit_cert_size_exec CertCut.estimated_size max p with
  | CertCut.LDone c' => synced s - CertCut.p_to c'
  | _ => 0
  end.

Definition cut_of := cut_of_ty CertCut.TPP.

Definition to_event (start : N) (s : xstate) (x : xop) : xrevent :=
  match x with
  | XBlock skip bs cs => RCore (NewBlock skip bs cs)
  | XEpoch max => RCore (EpochTick (cut_of start s max))
  | XStatus max => RCore (StatusTick (cut_of start s max))
  | XMove id st => RCore (AggMove id st)
  | XMoveLast st => RCore (AggMove (if next_id s =? 0 then 0 else next_id s - 1) st)    (* id 0 with no certificate: ignored *)
  | XFail => RCore AggFailNext
  | XRestart lost => RRestart lost
  | XCrashEpoch max => RCrashTick true (cut_of start s max)
  | XCrashStatus max => RCrashTick false (cut_of start s max)
  | XTickF _ _ _ => RCore (AggMove (next_id s) Pending)              (* not an event of the PP flow: ignored *)
  | XReorg _ | XNop => RCore (AggMove (next_id s) Pending)           (* XReorg is applied by corr_run itself; XNop: ignored *)
  end.

(* L2 reorg of blocks that no live certificate covers. NOT an event of the proved protocol model (Model/AggsenderProtocol.v,
   Proofs/AggsenderProofs.v): it is applied to the executable state here, for the correspondence only. The bridge syncer
   deletes blocks >= b and their deposits; the exit tree and the root table are those of the remaining deposits. *)
Definition ext_reorg (b : N) (s : xstate) : xstate :=
  let l' := filter (fun k => k_num k <? b) (l2 s) in
  let '(t', rs') := fold_left (fun acc k => add_leaves N bridge_ev bridge_leaf xtree xtree_add (fst acc) (snd acc) (k_bridges k)) l' (xtree_empty, []) in
  State l' (fold_left N.max (map (fun k => k_num k) l') 0) t' rs' (rows s) (agg s) (next_id s) (fail_next s).

(* what the model expects the Agglayer to receive / the table to hold, in the shape of the observations *)
Definition exp_exit (b : bridge_ev) : exit_obs := mkXO (to_exit b) (bridge_leaf b).
Definition exp_imp (c : claim_ev) : imp_obs :=
  let '(x, gi) := to_imported c in mkIO (mkXO x (of_be_fast (exit_hash keccakN x))) gi.
Definition meta_bytes (m : N * N * N) : bytes -> bool := fun obs =>
  (* created_at is wall-clock time: every other byte of the 32 must match *)
  let '(f, off, ty) := m in
  match meta_decode obs with
  | Some d => (m_version d =? 2) && (m_from d =? f) && (m_offset d =? off) && (m_ctype d =? ty) &&
              bytes_eqb (skipn 18 obs) (repeat 0 14%nat) && Nat.eqb (length obs) 32
  | None => false
  end.
Definition sub_matches (m : xsub) (o : sub_obs) : bool :=
  (s_id m =? so_id o) && (s_height m =? so_height o) && (s_prev m =? so_prev o) && (s_new m =? so_new o) &&
  meta_bytes (s_meta m) (so_meta o) &&
  list_eqb exit_obs_eqb (map exp_exit (s_exits m)) (so_exits o) && list_eqb imp_obs_eqb (map exp_imp (s_imported m)) (so_imp o).
Definition exp_row (r : xrow) : row_obs :=
  mkRO (height r) (Some (cid r)) (st r) (from r) (to r) (if r_hasprev r then Some (prev r) else None) (new r) (retry r).

(* run the schedule on the model and compare after every event; [last] = the last observed table *)
Fixpoint corr_run (retry aggprev : bool) (start ler : N) (s : xrstate) (steps : list xop) (obs : list step_obs) (last : list row_obs) : bool :=
  match steps, obs with
  | [], [] => true
  | x :: steps', o :: obs' =>
    let '(s', subs) := match x with
                       | XReorg b => (XR (ext_reorg b (xr_core s)) (xr_info s) (xr_recovering s), [])
                       | _ => xrstep retry start ler aggprev s (to_event start (xr_core s) x)
                       end in
    let rows_now := match st_rows o with Some r => r | None => last end in
    list_rel sub_matches subs (st_subs o) &&
    list_eqb row_obs_eqb (map exp_row (rev (rows (xr_core s')))) rows_now &&       (* certificate_info ORDER BY height ASC *)
    (synced (xr_core s') =? st_synced o) &&
    match st_refused o with Some b => Bool.eqb b (xr_recovering s') | None => true end &&
    corr_run retry aggprev start ler s' steps' obs' rows_now
  | _, _ => false
  end.

(* the pre-history is synced before the sender exists *)
Definition pre_state (pre : list xop) : xstate :=
  fold_left (fun s x => match x with XBlock skip bs cs => fst (xstep false 0 0 s (NewBlock skip bs cs)) | _ => s end) pre xstate_empty.

Definition seed_row (s : xstate) (o : row_obs) : xrow :=
  Row (ro_height o) (match ro_id o with Some i => i | None => 0 end) (ro_status o) (ro_from o) (ro_to o)
      (match ro_prev o with Some p => p | None => 0 end) (ro_new o) (ro_retry o)
      (bridges_in (l2 s) (ro_from o) (ro_to o)) (claims_in (l2 s) (ro_from o) (ro_to o))
      (match ro_prev o with Some _ => true | None => false end).
Definition seeded_state (s : xstate) (seeds : list row_obs) : xrstate :=
  XR (State (l2 s) (synced s) (tr s) (roots s) (rev (map (seed_row s) seeds))
            (rev (map (fun o => AC (match ro_id o with Some i => i | None => 0 end) (ro_height o) (ro_status o)) seeds))
            (N.of_nat (length seeds)) false)
     (map (fun o => XI (match ro_id o with Some i => i | None => 0 end) (ro_from o) (ro_to o)
                       (match ro_prev o with Some p => p | None => 0 end) (ro_new o)) seeds)
     false.

(* aggchain-prover flow: the same loop around build_fep, the prover answering by the tick's rule *)
Fixpoint corr_run_fep (retry : bool) (start ler : N) (s : xstate) (steps : list xop) (obs : list step_obs) (last : list row_obs) : bool :=
  match steps, obs with
  | [], [] => true
  | x :: steps', o :: obs' =>
    let '(s', subs) :=
      match x with
      | XTickF epoch max rule =>
          let cut := cut_of_ty CertCut.TFEP start s max in
          xstep_fep retry start ler rule s (if epoch then EpochTick cut else StatusTick cut)
      | XReorg b => (ext_reorg b s, [])
      | _ => match to_event start s x with RCore e => xstep_fep retry start ler 0 s e | _ => (s, []) end
      end in
    let rows_now := match st_rows o with Some r => r | None => last end in
    list_rel sub_matches subs (st_subs o) &&
    list_eqb row_obs_eqb (map exp_row (rev (rows s'))) rows_now &&
    (synced s' =? st_synced o) &&
    corr_run_fep retry start ler s' steps' obs' rows_now
  | _, _ => false
  end.

Definition corr (c : case02) : bool :=
  if c_fep c then corr_run_fep (c_retry c) (c_start c) (c_start_ler c) (pre_state (c_pre c)) (c_steps c) (c_obs c) [] else
  let s0 := seeded_state (pre_state (c_pre c)) (c_seeds c) in
  (* getStartLER(): the tree root at the start block (the empty-tree root when nothing was deposited) *)
  corr_run (c_retry c) (c_aggprev c) (c_start c) (c_start_ler c) s0 (c_steps c) (c_obs c) [].

(* ------------------------------------------------------------------------------------------ *)
(* the properties, on the implementation's observations                                         *)
(* ------------------------------------------------------------------------------------------ *)
(* naive environment: the L2 history as a list of blocks, the Agglayer's certificates in order of acceptance *)
Record ecert := mkEC { ec_height : N; ec_status : status; ec_from : N; ec_to : N; ec_prev : N; ec_new : N;
                       ec_exits : list bridge_exit; ec_imp : list (bridge_exit * (bool * N * N)) }.
Record env := mkEnv { e_hist : list (N * list bridge_ev * list claim_ev); e_synced : N; e_certs : list ecert }.

Definition ec_set (c : ecert) (s : status) : ecert :=
  mkEC (ec_height c) s (ec_from c) (ec_to c) (ec_prev c) (ec_new c) (ec_exits c) (ec_imp c).
Fixpoint set_nth {A} (l : list A) (k : nat) (f : A -> A) : list A :=
  match l, k with [], _ => [] | x :: t, O => f x :: t | x :: t, S k' => x :: set_nth t k' f end.
Definition env_move (e : env) (id : N) (s : status) : env :=
  match nth_error (e_certs e) (N.to_nat id) with
  | Some c => if valid_move (ec_status c) s then mkEnv (e_hist e) (e_synced e) (set_nth (e_certs e) (N.to_nat id) (fun c => ec_set c s)) else e
  | None => e
  end.

(* reference: events of the blocks f..t in chain order, by filtering the history *)
Definition hist_bridges (e : env) (f t : N) : list bridge_ev :=
  flat_map (fun b => let '(n, bs, _) := b in if (f <=? n) && (n <=? t) then bs else []) (e_hist e).
Definition hist_claims (e : env) (f t : N) : list claim_ev :=
  flat_map (fun b => let '(n, _, cs) := b in if (f <=? n) && (n <=? t) then cs else []) (e_hist e).

(* reference conversions (field by field, written independently of the model's to_exit / to_imported) *)
Definition ref_meta (m : bytes) : option bytes := if Nat.eqb (length m) 0 then None else Some (keccak_bytes m).
Definition ref_exit_ok (b : bridge_ev) (x : bridge_exit) : bool :=
  (x_leaf_type x =? b_lt b) && (x_orig_net x =? b_onet b) && (x_orig_addr x =? b_oaddr b) && (x_dest_net x =? b_dnet b) &&
  (x_dest_addr x =? b_daddr b) && opt_eqb N.eqb (x_amount x) (Some (b_amount b)) && opt_eqb bytes_eqb (x_metadata x) (ref_meta (b_meta b)).
Definition ref_imp_ok (c : claim_ev) (i : bridge_exit * (bool * N * N)) : bool :=
  let x := fst i in
  (x_leaf_type x =? (if c_is_msg c then 1 else 0)) && (x_orig_net x =? c_onet c) && (x_orig_addr x =? c_oaddr c) &&
  (x_dest_net x =? c_dnet c) && (x_dest_addr x =? c_daddr c) && opt_eqb N.eqb (x_amount x) (Some (c_amount c)) &&
  opt_eqb bytes_eqb (x_metadata x) (ref_meta (c_meta c)) && triple_eqb (snd i) (GlobalIndex.decode (c_gi c)).

(* the block range a certificate declares: its metadata (V2: FromBlock, Offset) *)
Definition sub_range (o : sub_obs) : option (N * N) :=
  match meta_decode (so_meta o) with
  | Some d => if m_version d =? 2 then Some (m_from d, m_from d + m_offset d) else None
  | None => None
  end.

Definition is_closed_b (s : status) : bool := match s with InError | Settled => true | _ => false end.
(* the settled certificate of greatest height *)
Definition last_settled (cs : list ecert) : option ecert :=
  fold_left (fun acc c => if status_eqb (ec_status c) Settled
                          then match acc with Some a => if ec_height a <? ec_height c then Some c else acc | None => Some c end
                          else acc) cs None.

(* C02, first two sentences, for one received certificate *)
Definition sub_ok_b (start ler : N) (e : env) (o : sub_obs) : bool :=
  match sub_range o with
  | None => false
  | Some (f, t) =>
    let '(h, p, f0) := match last_settled (e_certs e) with
                       | Some c => (ec_height c + 1, ec_new c, ec_to c + 1)
                       | None => (0, ler, start + 1)
                       end in
    (* no earlier certificate is undecided *)
    forallb (fun c => is_closed_b (ec_status c)) (e_certs e) &&
    (* height, previous exit root, first block *)
    (so_height o =? h) && (so_prev o =? p) && (f =? f0) &&
    (* a certificate at the same height is one in error, and the replacement keeps its first block *)
    forallb (fun c => negb (ec_height c =? so_height o) || (status_eqb (ec_status c) InError && (ec_from c =? f))) (e_certs e) &&
    (f <=? t) && (t <=? e_synced e)
  end.

Definition env_accept (e : env) (o : sub_obs) : env :=
  let '(f, t) := match sub_range o with Some r => r | None => (0, 0) end in
  mkEnv (e_hist e) (e_synced e)
        (e_certs e ++ [mkEC (so_height o) Pending f t (so_prev o) (so_new o) (map xo_exit (so_exits o))
                            (map (fun i => (xo_exit (io_exit i), io_gi i)) (so_imp o))]).

Definition env_step (e : env) (x : xop) : env :=
  match x with
  | XBlock skip bs cs => let n := e_synced e + skip + 1 in mkEnv (e_hist e ++ [(n, bs, cs)]) n (e_certs e)
  | XMove id s => env_move e id s
  | XMoveLast s => match length (e_certs e) with O => e | S k => env_move e (N.of_nat k) s end
  | XReorg b =>
      let h' := filter (fun x => let '(n, _, _) := x in n <? b) (e_hist e) in
      mkEnv h' (fold_left N.max (map (fun x => let '(n, _, _) := x in n) h') 0) (e_certs e)
  | _ => e
  end.

(* settled certificates in height order (insertion sort by height) *)
Fixpoint insert_h (c : ecert) (l : list ecert) : list ecert :=
  match l with [] => [c] | x :: t => if ec_height c <=? ec_height x then c :: l else x :: insert_h c t end.
Definition settled_sorted (cs : list ecert) : list ecert :=
  fold_right insert_h [] (filter (fun c => status_eqb (ec_status c) Settled) cs).
Fixpoint strictly_increasing (l : list N) : bool :=
  match l with a :: ((b :: _) as t) => (a <? b) && strictly_increasing t | _ => true end.

(* C02, last sentence: the settled certificates, read in height order, contain every bridge exit and claim of the
   blocks they cover (start+1 .. last block of the last settled one) exactly once and in chain order *)
Definition settled_once_b (start : N) (e : env) : bool :=
  let ss := settled_sorted (e_certs e) in
  let upto := match last_opt ss with Some c => ec_to c | None => start end in
  strictly_increasing (map ec_height ss) &&
  list_rel ref_exit_ok (hist_bridges e (start + 1) upto) (concat (map ec_exits ss)) &&
  list_rel ref_imp_ok (hist_claims e (start + 1) upto) (concat (map ec_imp ss)).

Fixpoint spec02_run (start ler : N) (e : env) (steps : list xop) (obs : list step_obs) : bool :=
  match steps, obs with
  | [], _ => settled_once_b start e
  | x :: steps', o :: obs' =>
    let e1 := env_step e x in
    (* certificates received during this event, one after the other *)
    let '(ok, e2) := fold_left (fun acc so => let '(ok, e) := acc in (ok && sub_ok_b start ler e so, env_accept e so))
                               (st_subs o) (true, e1) in
    ok && settled_once_b start e2 && spec02_run start ler e2 steps' obs'
  | _ :: _, [] => false
  end.

Definition pre_env (pre : list xop) : env := fold_left env_step pre (mkEnv [] 0 []).
(* seeded certificates are part of the environment: their content is taken to be the events of their range *)
Definition seed_env (e : env) (seeds : list row_obs) : env :=
  mkEnv (e_hist e) (e_synced e)
        (map (fun o => mkEC (ro_height o) (ro_status o) (ro_from o) (ro_to o) (match ro_prev o with Some p => p | None => 0 end) (ro_new o)
                            (map to_exit (hist_bridges e (ro_from o) (ro_to o)))
                            (map to_imported (hist_claims e (ro_from o) (ro_to o)))) seeds).
Definition spec_c02 (c : case02) : bool :=
  spec02_run (c_start c) (c_start_ler c) (seed_env (pre_env (c_pre c)) (c_seeds c)) (c_steps c) (c_obs c) &&
  negb (Nat.eqb (length (c_obs c)) 0).

(* ---- C03 ---- *)
(* reference exit tree: the DepositContract of Model/Contracts.v fed with getLeafValue of every deposit *)
Definition ref_leaf (b : bridge_ev) : N :=
  get_leaf_value (b_lt b) (b_onet b) (b_oaddr b) (b_dnet b) (b_daddr b) (b_amount b) (keccakN (b_meta b)).

Definition cert_ok_b (ctype : N) (crash : bool) (e : env) (rows : list row_obs) (o : sub_obs) : bool :=
  match sub_range o with
  | None => false
  | Some (f, t) =>
    (* the tree whose root is the previous LER: all deposits of the blocks before the range *)
    let before := fold_left dc_deposit (map ref_leaf (hist_bridges e 0 (f - 1))) dc_init in
    let after := fold_left dc_deposit (map xo_hash (so_exits o)) before in
    (* every exit's hash is the Agglayer's leaf hash of its fields *)
    forallb (fun x => xo_hash x =? of_be_fast (exit_hash keccakN (xo_exit x))) (so_exits o) &&
    (1 <=? f) && (so_prev o =? dc_get_root before) && (so_new o =? dc_get_root after) &&
    (* exits = events of the range, in chain order, every field *)
    list_rel ref_exit_ok (hist_bridges e f t) (map xo_exit (so_exits o)) &&
    list_rel ref_imp_ok (hist_claims e f t) (map (fun i => (xo_exit (io_exit i), io_gi i)) (so_imp o)) &&
    (* the metadata's range is the one recorded with the certificate; type pp; V2 layout *)
    (* (after a crash tick the row is the one the start-up reconciliation rebuilt, if it accepted to) *)
    match find (fun r => opt_eqb N.eqb (ro_id r) (Some (so_id o))) rows with
    | Some r => (ro_from r =? f) && (ro_to r =? t)
    | None => crash
    end &&
    match meta_decode (so_meta o) with Some d => (m_ctype d =? ctype) && Nat.eqb (length (so_meta o)) 32 | None => false end
  end.

Fixpoint spec03_run (ctype : N) (e : env) (steps : list xop) (obs : list step_obs) (last : list row_obs) : bool :=
  match steps, obs with
  | [], _ => true
  | x :: steps', o :: obs' =>
    let e1 := env_step e x in
    let rows_now := match st_rows o with Some r => r | None => last end in
    forallb (cert_ok_b ctype (match x with XCrashEpoch _ | XCrashStatus _ => true | _ => false end) e1 rows_now) (st_subs o) &&
    spec03_run ctype (fold_left env_accept (st_subs o) e1) steps' obs' rows_now
  | _ :: _, [] => false
  end.
Definition spec_c03 (c : case02) : bool :=
  spec03_run (if c_fep c then 2 else 1) (seed_env (pre_env (c_pre c)) (c_seeds c)) (c_steps c) (c_obs c) [] && negb (Nat.eqb (length (c_obs c)) 0).

Fixpoint bad_indices {A} (f : A -> bool) (i : nat) (l : list A) : list nat :=
  match l with [] => [] | x :: t => if f x then bad_indices f (S i) t else i :: bad_indices f (S i) t end.
