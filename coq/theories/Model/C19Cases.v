(* C19 correspondence: executable comparison of the model with observations of the Go code,
   and the executable form of the property itself evaluated on those observations. *)
From Coq Require Import NArith List Bool.
From Verif Require Import Base.Bytes Base.Hash Model.GlobalIndex.
Import ListNotations.
Open Scope N_scope.

Definition bn (bs : bytes) : nat * N := (length bs, of_be bs).
Definition bn_eqb (a b : nat * N) : bool := Nat.eqb (fst a) (fst b) && N.eqb (snd a) (snd b).

(* observations for a triple (m, r, l) *)
Record obs_triple := {
  t_m : bool; t_r : N; t_l : N;
  t_enc : N;                 (* GenerateGlobalIndex(m, r, l) *)
  t_dec : bool * N * N;      (* DecodeGlobalIndex(t_enc) *)
  t_wire : nat * N;          (* convertToProtoImportedBridgeExit(...).GlobalIndex.Value *)
  t_commit : nat * N;        (* ImportedBridgeExit.GlobalIndexToLittleEndianBytes() *)
  t_gihash : N;              (* GlobalIndex.Hash() *)
  t_prover : nat * N;        (* aggchainproofclient request global index *)
}.

(* observations for an on-chain value v (< 2^256) *)
Record obs_value := {
  v_v : N;
  v_dec : bool * N * N;      (* DecodeGlobalIndex(v) *)
  v_reenc : N;               (* GenerateGlobalIndex(decoded) *)
  v_wire : nat * N;          (* wire bytes for the decoded triple *)
  v_commit : nat * N;        (* commitment bytes for the decoded triple *)
  v_opt_le : nat * N;        (* BigIntToLittleEndianBytes(v) (optimistic-mode consumer) *)
  v_exit_hash : N;           (* BridgeExit.Hash() of the fixed claim used (input to the optimistic hash) *)
  v_opt_hash : N;            (* CalculateCommitImportedBrdigeExitsHashFromClaims([claim with GlobalIndex v]) *)
}.

(* observations for ONE certificate / prover request carrying the claims b_ts in order (claim i has its own bridge exit) *)
Record obs_batch := {
  b_ts : list (bool * N * N);
  b_wire : list (nat * N);     (* SubmitCertificateRequest built by the real SendCertificate: imported_bridge_exits[i].global_index *)
  b_prover : list (nat * N);   (* GenerateAggchainProofRequest: imported_bridge_exits[i].global_index *)
  b_exit_hash : list N;        (* BridgeExit.Hash() of claim i *)
  b_ler : N;
  b_pp_hash : N;               (* Certificate.PPHashToSign() *)
  b_opt_hash : N;              (* optimistic commitment over claims whose GlobalIndex = GenerateGlobalIndex(triple i) *)
}.

Inductive case19 := CT (o : obs_triple) | CV (o : obs_value) | CB (o : obs_batch).

Fixpoint all2 {A B} (f : A -> B -> bool) (l1 : list A) (l2 : list B) : bool :=
  match l1, l2 with
  | [], [] => true
  | a :: t1, b :: t2 => f a b && all2 f t1 t2
  | _, _ => false
  end.
Fixpoint zipcat {A B} (f : A -> B -> bytes) (l1 : list A) (l2 : list B) : bytes :=
  match l1, l2 with a :: t1, b :: t2 => f a b ++ zipcat f t1 t2 | _, _ => [] end.

(* model == implementation ? *)
Definition corr_triple (o : obs_triple) : bool :=
  let t := (t_m o, t_r o, t_l o) in
  N.eqb (t_enc o) (enc3 t) && triple_eqb (t_dec o) (decode (enc3 t)) &&
  bn_eqb (t_wire o) (bn (wire_gi t)) && bn_eqb (t_commit o) (bn (commit_gi t)) &&
  N.eqb (t_gihash o) (keccakN (commit_gi t)) && bn_eqb (t_prover o) (bn (prover_gi t)).
Definition corr_value (o : obs_value) : bool :=
  let t := decode (v_v o) in
  triple_eqb (v_dec o) t && N.eqb (v_reenc o) (enc3 t) &&
  bn_eqb (v_wire o) (bn (wire_gi t)) && bn_eqb (v_commit o) (bn (commit_gi t)) &&
  bn_eqb (v_opt_le o) (bn (optimistic_gi (v_v o))) &&
  N.eqb (v_opt_hash o) (keccakN (optimistic_gi (v_v o) ++ be 32 (v_exit_hash o))).
Definition corr_batch (o : obs_batch) : bool :=
  all2 (fun t w => bn_eqb w (bn (wire_gi t))) (b_ts o) (b_wire o) &&
  all2 (fun t w => bn_eqb w (bn (prover_gi t))) (b_ts o) (b_prover o) &&
  Nat.eqb (length (b_exit_hash o)) (length (b_ts o)) &&
  N.eqb (b_pp_hash o) (keccakN (be 32 (b_ler o) ++ be 32 (keccakN (concat (map (fun t => be 32 (keccakN (commit_gi t))) (b_ts o)))))) &&
  N.eqb (b_opt_hash o) (keccakN (zipcat (fun t h => optimistic_gi (enc3 t) ++ be 32 h) (b_ts o) (b_exit_hash o))).
Definition corr (c : case19) : bool := match c with CT o => corr_triple o | CV o => corr_value o | CB o => corr_batch o end.

(* the property, evaluated on what the implementation returned (no model function involved
   except byte-order helpers le/be) *)
Definition layout (m : bool) (r l : N) : N := (if m then 2^64 else r * 2^32) + l.
Definition spec_triple (o : obs_triple) : bool :=
  let v := layout (t_m o) (t_r o) (t_l o) in
  N.eqb (t_enc o) v && triple_eqb (t_dec o) (canon (t_m o, t_r o, t_l o)) &&
  bn_eqb (t_wire o) (32%nat, v) && bn_eqb (t_prover o) (32%nat, v) &&
  bn_eqb (t_commit o) (bn (le 32 v)) &&
  (* the hashed commitment of the global index commits to the same number (reference: Gallina Keccak over the LE image) *)
  N.eqb (t_gihash o) (keccakN (le 32 v)).
Definition spec_value (o : obs_value) : bool :=
  let v := v_v o in
  if canonicalb v then
    N.eqb (v_reenc o) v && bn_eqb (v_wire o) (32%nat, v) &&
    bn_eqb (v_commit o) (bn (le 32 v)) && bn_eqb (v_opt_le o) (bn (le 32 v))
  else true.
(* every claim of the certificate keeps ITS OWN global index at every carrier: wire message, prover request, the signed
   (pessimistic) commitment and the optimistic commitment, judged against the layout and the Gallina Keccak only *)
Definition layout3 (t : bool * N * N) : N := let '(m, r, l) := t in layout m r l.
Definition spec_batch (o : obs_batch) : bool :=
  negb (Nat.eqb (length (b_ts o)) 0) &&
  all2 (fun t w => bn_eqb w (32%nat, layout3 t)) (b_ts o) (b_wire o) &&
  all2 (fun t w => bn_eqb w (32%nat, layout3 t)) (b_ts o) (b_prover o) &&
  Nat.eqb (length (b_exit_hash o)) (length (b_ts o)) &&
  N.eqb (b_pp_hash o) (keccakN (be 32 (b_ler o) ++ be 32 (keccakN (concat (map (fun t => be 32 (keccakN (le 32 (layout3 t)))) (b_ts o)))))) &&
  N.eqb (b_opt_hash o) (keccakN (zipcat (fun t h => le 32 (layout3 t) ++ be 32 h) (b_ts o) (b_exit_hash o))).
Definition spec (c : case19) : bool := match c with CT o => spec_triple o | CV o => spec_value o | CB o => spec_batch o end.

Fixpoint bad_indices {A} (f : A -> bool) (i : nat) (l : list A) : list nat :=
  match l with [] => [] | x :: t => if f x then bad_indices f (S i) t else i :: bad_indices f (S i) t end.
