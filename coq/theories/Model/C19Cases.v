(* C19 correspondence: executable comparison of the model with observations of the Go code,
   and the executable form of the property itself evaluated on those observations. *)
From Coq Require Import NArith List Bool.
From Verif Require Import Base.Bytes Base.Hash Model.GlobalIndex.
Import ListNotations.
Open Scope N_scope.

Definition bn (bs : bytes) : nat * N := (length bs, of_be bs).
Definition bn_eqb (a b : nat * N) : bool := Nat.eqb (fst a) (fst b) && N.eqb (snd a) (snd b).

(* observations for a triple (m, r, l) *)
Record obs_triple := {
  t_m : bool; t_r : N; t_l : N;
  t_enc : N;                 (* GenerateGlobalIndex(m, r, l) *)
  t_dec : bool * N * N;      (* DecodeGlobalIndex(t_enc) *)
  t_wire : nat * N;          (* convertToProtoImportedBridgeExit(...).GlobalIndex.Value *)
  t_commit : nat * N;        (* ImportedBridgeExit.GlobalIndexToLittleEndianBytes() *)
  t_gihash : N;              (* GlobalIndex.Hash() *)
  t_prover : nat * N;        (* aggchainproofclient request global index *)
}.

(* observations for an on-chain value v (< 2^256) *)
Record obs_value := {
  v_v : N;
  v_dec : bool * N * N;      (* DecodeGlobalIndex(v) *)
  v_reenc : N;               (* GenerateGlobalIndex(decoded) *)
  v_wire : nat * N;          (* wire bytes for the decoded triple *)
  v_commit : nat * N;        (* commitment bytes for the decoded triple *)
  v_opt_le : nat * N;        (* BigIntToLittleEndianBytes(v) (optimistic-mode consumer) *)
  v_exit_hash : N;           (* BridgeExit.Hash() of the fixed claim used (input to the optimistic hash) *)
  v_opt_hash : N;            (* CalculateCommitImportedBrdigeExitsHashFromClaims([claim with GlobalIndex v]) *)
}.

Inductive case19 := CT (o : obs_triple) | CV (o : obs_value).

(* model == implementation ? *)
Definition corr_triple (o : obs_triple) : bool :=
  let t := (t_m o, t_r o, t_l o) in
  N.eqb (t_enc o) (enc3 t) && triple_eqb (t_dec o) (decode (enc3 t)) &&
  bn_eqb (t_wire o) (bn (wire_gi t)) && bn_eqb (t_commit o) (bn (commit_gi t)) &&
  N.eqb (t_gihash o) (keccakN (commit_gi t)) && bn_eqb (t_prover o) (bn (prover_gi t)).
Definition corr_value (o : obs_value) : bool :=
  let t := decode (v_v o) in
  triple_eqb (v_dec o) t && N.eqb (v_reenc o) (enc3 t) &&
  bn_eqb (v_wire o) (bn (wire_gi t)) && bn_eqb (v_commit o) (bn (commit_gi t)) &&
  bn_eqb (v_opt_le o) (bn (optimistic_gi (v_v o))) &&
  N.eqb (v_opt_hash o) (keccakN (optimistic_gi (v_v o) ++ be 32 (v_exit_hash o))).
Definition corr (c : case19) : bool := match c with CT o => corr_triple o | CV o => corr_value o end.

(* the property, evaluated on what the implementation returned (no model function involved
   except byte-order helpers le/be) *)
Definition layout (m : bool) (r l : N) : N := (if m then 2^64 else r * 2^32) + l.
Definition spec_triple (o : obs_triple) : bool :=
  let v := layout (t_m o) (t_r o) (t_l o) in
  N.eqb (t_enc o) v && triple_eqb (t_dec o) (canon (t_m o, t_r o, t_l o)) &&
  bn_eqb (t_wire o) (32%nat, v) && bn_eqb (t_prover o) (32%nat, v) &&
  bn_eqb (t_commit o) (bn (le 32 v)) &&
  (* the hashed commitment of the global index commits to the same number (reference: Gallina Keccak over the LE image) *)
  N.eqb (t_gihash o) (keccakN (le 32 v)).
Definition spec_value (o : obs_value) : bool :=
  let v := v_v o in
  if canonicalb v then
    N.eqb (v_reenc o) v && bn_eqb (v_wire o) (32%nat, v) &&
    bn_eqb (v_commit o) (bn (le 32 v)) && bn_eqb (v_opt_le o) (bn (le 32 v))
  else true.
Definition spec (c : case19) : bool := match c with CT o => spec_triple o | CV o => spec_value o end.

Fixpoint bad_indices {A} (f : A -> bool) (i : nat) (l : list A) : list nat :=
  match l with [] => [] | x :: t => if f x then bad_indices f (S i) t else i :: bad_indices f (S i) t end.
