(* C12: correspondence (`corr`) and property (`spec`) predicates on observations of the real BridgeService
   (harness/c12). A case = joint history (L1 bridge blocks, L2 bridge blocks, L1 info tree blocks) + every request sent
   through the real gin router with what came back (HTTP status, error class, decoded proofs / leaf / index).
   `corr`: the model handlers of Model/ClaimFlow.v on the model stores give exactly the observed answers.
   `spec`: the property itself on the observed answers, against references that do not use the model under test:
           bridge leaves by the contract's getLeafValue, exit roots by the DepositContract transcription (Model/Contracts.v),
           the rollup exit tree by a plain recursive sparse root, `covers` evaluated from the case's history, and the returned
           siblings re-hashed with the Gallina Keccak. *)
From Coq Require Import NArith ZArith List Bool Uint63.
From Verif Require Import Base.Bytes Base.FastBytes Base.Hash Model.Merkle Model.TreeStore Model.BridgeStore Model.Contracts Model.ClaimFlow.
Import ListNotations.
Open Scope N_scope.

(* big numbers are transcribed as little-endian 60-bit limbs (primitive integer literals parse ~100x faster) *)
Definition n63 (i : int) : N := Z.to_N (Uint63.to_Z i).
Definition nb (limbs : list int) : N := fold_right (fun i acc => n63 i + N.shiftl acc 60) 0 limbs.

(* one request and its observed answer. kind: 0 claim-proof, 1 l1-info-tree-index, 2 injected-l1-info-leaf.
   err: 0 none, 1 not found, 2 not on L1 info tree yet, 3 network 0 is not a rollup, 4 unsupported network,
        10+k bad parameter k, 98 unclassified. info = (block, pos, index, mer, rer, ger) *)
Record qobs := mkQ {
  q_kind : N; q_net : qparam; q_idx : qparam; q_dc : qparam;
  q_status : N; q_err : N; q_pl : list N; q_pr : list N;
  q_info : option (N * N * N * N * N * N); q_index : option N }.
Record case12 := mkCase12 {
  c_net : N; c_l1b : list block; c_l2b : list block; c_l1i : list iblock;
  c_res1 : list N; c_res2 : list N; c_resi : list N; c_qs : list qobs }.

Fixpoint list_eqb {A} (eqb : A -> A -> bool) (a b : list A) : bool :=
  match a, b with [], [] => true | x :: a', y :: b' => eqb x y && list_eqb eqb a' b' | _, _ => false end.
Definition opt_eqb {A} (eqb : A -> A -> bool) (a b : option A) : bool :=
  match a, b with None, None => true | Some x, Some y => eqb x y | _, _ => false end.
Definition n6_eqb (a b : N * N * N * N * N * N) : bool :=
  let '(a1, a2, a3, a4, a5, a6) := a in let '(b1, b2, b3, b4, b5, b6) := b in
  (a1 =? b1) && (a2 =? b2) && (a3 =? b3) && (a4 =? b4) && (a5 =? b5) && (a6 =? b6).

(* ---------- the model run ---------- *)
Definition bcode (r : option perr) : N :=
  match r with None => 0 | Some PConstraint => 3 | Some PInconsistent => 1 | Some (PTree _) => 1 | Some PFault => 2 end.
Definition run_bridge (bs : list block) : list N * bstate :=
  fold_left (fun acc k => let '(rs, st) := acc in let '(r, st') := process_block None st k in (rs ++ [bcode r], st'))
            bs ([], bstate_new).
Definition run_l1i (bs : list iblock) : list N * l1idb :=
  fold_left (fun acc k => let '(rs, d) := acc in let '(r, d') := l1i_process_block d k in (rs ++ [r], d'))
            bs ([], l1idb_empty).

Definition err_code (e : cerr) : N * N :=     (* HTTP status, class *)
  match e with
  | ENotFound => (500, 1) | ENotOnL1Info => (500, 2) | ENetZero => (500, 3) | EUnsupported => (400, 4)
  | EBadParam k => (400, 10 + k) | EFuel => (500, 99)
  end.
Definition info_obs (x : @info N) := (i_block x, i_pos x, i_index x, i_mer x, i_rer x, nodeN (i_mer x) (i_rer x)).

(* the model's answer in the shape of an observation *)
Definition model_answer (S : @stores N) (q : qobs) : qobs :=
  let mk st er pl pr inf ix := mkQ (q_kind q) (q_net q) (q_idx q) (q_dc q) st er pl pr inf ix in
  let fail e := let '(st, er) := err_code e in mk st er [] [] None None in
  match q_kind q with
  | 0 => match x_claim_proof_handler S (q_net q) (q_idx q) (q_dc q) with
         | Ok (pl, pr, x) => mk 200 0 pl pr (Some (info_obs x)) None
         | Err e => fail e end
  | 1 => match x_l1_info_tree_index_handler S (q_net q) (q_dc q) with
         | Ok i => mk 200 0 [] [] None (Some i)
         | Err e => fail e end
  | _ => match x_injected_l1_info_leaf_handler S (q_net q) (q_idx q) with
         | Ok x => mk 200 0 [] [] (Some (info_obs x)) None
         | Err e => fail e end
  end.
Definition answer_eqb (a b : qobs) : bool :=
  (q_status a =? q_status b) && (q_err a =? q_err b) && list_eqb N.eqb (q_pl a) (q_pl b) && list_eqb N.eqb (q_pr a) (q_pr b) &&
  opt_eqb n6_eqb (q_info a) (q_info b) && opt_eqb N.eqb (q_index a) (q_index b).

Definition corr (c : case12) : bool :=
  let '(r1, st1) := run_bridge (c_l1b c) in
  let '(r2, st2) := run_bridge (c_l2b c) in
  let '(ri, li) := run_l1i (c_l1i c) in
  let S := exec_stores (c_net c) (st_db st1) (st_db st2) li in
  list_eqb N.eqb r1 (c_res1 c) && list_eqb N.eqb r2 (c_res2 c) && list_eqb N.eqb ri (c_resi c) &&
  forallb (fun q => answer_eqb (model_answer S q) q) (c_qs c).

(* ---------- references for the property predicate ---------- *)
(* blocks the node reported as processed *)
Definition ok_blocks {B} (bs : list B) (rs : list N) : list B := map fst (filter (fun p => snd p =? 0) (combine bs rs)).
Definition bridges_of (bs : list block) : list bridge_ev :=
  flat_map (fun k => flat_map (fun e => match e with EBridge b => [b] | _ => [] end) (k_events k)) bs.
(* PolygonZkEVMBridgeV2.getLeafValue on the event's fields *)
Definition ref_leaf (b : bridge_ev) : N :=
  get_leaf_value (b_lt b) (b_onet b) (b_oaddr b) (b_dnet b) (b_daddr b) (b_amount b) (keccakN (b_meta b)).
(* DepositContract roots after 1, 2, ... deposits: entry k is the exit root whose index (last deposit count) is k *)
Fixpoint contract_roots (c : dcontract) (leaves : list N) : list N :=
  match leaves with [] => [] | l :: t => let c' := dc_deposit c l in dc_get_root c' :: contract_roots c' t end.
Fixpoint index_of (x : N) (l : list N) (i : N) : option N :=
  match l with [] => None | y :: t => if x =? y then Some i else index_of x t (i + 1) end.

(* rollup exit tree by plain recursion over the key bits; m = (position, non-zero value) with distinct positions *)
Fixpoint ref_sroot (h : nat) (m : list (N * N)) : N :=
  match h with
  | O => match m with (_, v) :: _ => v | [] => 0 end
  | S h' =>
    match m with
    | [] => zh (S h')
    | _ => nodeN (ref_sroot h' (filter (fun kv => negb (N.testbit (fst kv) (N.of_nat h'))) m))
                 (ref_sroot h' (filter (fun kv => N.testbit (fst kv) (N.of_nat h')) m))
    end
  end.
Definition ref_rid_index (rid : N) : N := if rid =? 0 then 4294967295 else rid - 1.
Definition ref_set (m : list (N * N)) (k v : N) : list (N * N) := (k, v) :: filter (fun kv => negb (fst kv =? k)) m.
(* every version of the rollup exit tree: (root, leaves), after each VerifyBatches event with a non-zero exit root *)
Fixpoint ref_versions (m : list (N * N)) (es : list ievent) : list (N * list (N * N)) :=
  match es with
  | [] => []
  | IVerify _ rid exit :: t =>
    if exit =? 0 then ref_versions m t
    else let m' := ref_set m (ref_rid_index rid) exit in (ref_sroot 32 m', m') :: ref_versions m' t
  | _ :: t => ref_versions m t
  end.

Record refdata := mkRef {
  rf_net : N;
  rf_leaves1 : list (N * N); rf_leaves2 : list (N * N);     (* (deposit count, leaf) of the recorded bridges *)
  rf_roots1 : list N; rf_roots2 : list N;                   (* exit roots by index *)
  rf_infos : list (N * N);                                  (* (mer, rer) of info leaf 0, 1, ... *)
  rf_versions : list (N * list (N * N)) }.
Definition mk_ref (c : case12) : refdata :=
  let b1 := bridges_of (ok_blocks (c_l1b c) (c_res1 c)) in
  let b2 := bridges_of (ok_blocks (c_l2b c) (c_res2 c)) in
  let ies := flat_map ib_events (ok_blocks (c_l1i c) (c_resi c)) in
  mkRef (c_net c)
        (map (fun b => (b_dc b, ref_leaf b)) b1) (map (fun b => (b_dc b, ref_leaf b)) b2)
        (contract_roots dc_init (map ref_leaf b1)) (contract_roots dc_init (map ref_leaf b2))
        (flat_map (fun e => match e with IUpdate _ mer rer => [(mer, rer)] | _ => [] end) ies)
        (ref_versions [] ies).

Definition assoc (k : N) (m : list (N * N)) : option N := option_map snd (find (fun kv => fst kv =? k) m).

(* `covers`, from the history: Some (exit root the local proof must reach) when the info leaf (mer, rer) covers deposit
   count dc of network net; None otherwise *)
Definition ref_cover (R : refdata) (net : N) (inf : N * N) (dc : N) : option N :=
  let '(mer, rer) := inf in
  if net =? 0 then
    match index_of mer (rf_roots1 R) 0 with Some k => if dc <=? k then Some mer else None | None => None end
  else
    match find (fun v => fst v =? rer) (rf_versions R) with
    | None => None
    | Some (_, m) =>
      match assoc (net - 1) m with
      | None => None
      | Some ler => match index_of ler (rf_roots2 R) 0 with Some k => if dc <=? k then Some ler else None | None => None end
      end
    end.

Definition u32 (n : N) : bool := n <=? 4294967295.

(* the property on one observed answer *)
Definition spec_q (R : refdata) (q : qobs) : bool :=
  match q_net q with
  | PNum net =>
    if negb (u32 net) then true else
    let supported := (net =? 0) || (net =? rf_net R) in
    match q_kind q with
    | 0 => (* claim proof: for a recorded bridge and a covering info leaf the proofs must verify *)
      match q_idx q, q_dc q with
      | PNum idx, PNum dc =>
        if negb (u32 idx && u32 dc && supported) then true else
        match nth_error (rf_infos R) (N.to_nat idx) with
        | None => true
        | Some (mer, rer) =>
          match ref_cover R net (mer, rer) dc, assoc dc (if net =? 0 then rf_leaves1 R else rf_leaves2 R) with
          | Some target, Some leaf =>
            (q_status q =? 200) && (q_err q =? 0) &&
            Nat.eqb (length (q_pl q)) 32 && Nat.eqb (length (q_pr q)) 32 &&
            (calculate_root leaf (q_pl q) dc =? target) &&
            (if net =? 0 then target =? mer else calculate_root target (q_pr q) (net - 1) =? rer) &&
            match q_info q with
            | Some (_, _, i, m', r', g) => (i =? idx) && (m' =? mer) && (r' =? rer) && (g =? nodeN mer rer)
            | None => false
            end
          | _, _ => true
          end
        end
      | _, _ => true
      end
    | 1 => (* index lookup: a returned index covers; anything else is an error *)
      match q_dc q with
      | PNum dc =>
        if negb (u32 dc) then true else
        if (q_status q =? 200) then
          supported &&
          match q_index q with
          | Some i => match nth_error (rf_infos R) (N.to_nat i) with
                      | Some inf => match ref_cover R net inf dc with Some _ => true | None => false end
                      | None => false end
          | None => false
          end
        else negb (q_err q =? 0)
      | _ => true
      end
    | _ => true
    end
  | _ => true
  end.

Definition spec (c : case12) : bool :=
  let R := mk_ref c in
  forallb (spec_q R) (c_qs c) && negb (Nat.eqb (length (c_qs c)) 0).

Fixpoint bad_indices {A} (f : A -> bool) (i : nat) (l : list A) : list nat :=
  match l with [] => [] | x :: t => if f x then bad_indices f (S i) t else i :: bad_indices f (S i) t end.
