(* Executable model of /repo/tree: the `root` and `rht` tables, AppendOnlyTree (with its in-memory
   frontier cache and lastIndex, rollback callbacks included) and UpdatableTree, over real Keccak-256.
   Definitions only. Digests are N (big-endian value of the 32 bytes). *)
From Coq Require Import NArith ZArith List Bool FMapAVL OrderedTypeEx.
From Verif Require Import Base.Bytes Base.Hash Model.Merkle.
Import ListNotations.
Open Scope N_scope.

Module NM := FMapAVL.Make(N_as_OT).

Definition HEIGHT : nat := 32.      (* types.DefaultHeight; tied to the source by Gen/SourceFacts.v *)

(* Tree.zeroHashes, computed once *)
Definition zero_table : list N := Eval vm_compute in
  (fix go (n : nat) (cur : N) : list N := match n with O => [cur] | S k => cur :: go k (nodeN cur cur) end) HEIGHT 0.
Definition zh (h : nat) : N := nth h zero_table 0.

Definition bitN (i : N) : nat -> bool := fun h => N.testbit i (N.of_nat h).

Record root_row := mkRoot { r_hash : N; r_pos : N; r_block : N; r_bpos : N }.
Record tdb := mkTdb { t_roots : list root_row;             (* table <prefix>root, PRIMARY KEY(hash); insertion order *)
                      t_rht : NM.t (N * N) }.              (* table <prefix>rht,  PRIMARY KEY(hash) *)
Definition tdb_empty : tdb := mkTdb [] (NM.empty _).

Inductive terr := ENotFound | EInvalidIndex | EConstraint | EOther.

(* in-memory part of AppendOnlyTree *)
Record tmem := mkTmem { m_last : Z; m_cache : list N }.
Definition tmem_new : tmem := mkTmem (-2)%Z (repeat 0 HEIGHT).   (* NewAppendOnlyTree: lastIndex = -2 *)

Definition lookup (db : tdb) : N -> option (N * N) := fun k => NM.find k (t_rht db).

(* storeNodes: insert, ignoring duplicates (existing row kept) *)
Definition store_node (m : NM.t (N * N)) (n : N * (N * N)) : NM.t (N * N) :=
  match NM.find (fst n) m with Some _ => m | None => NM.add (fst n) (snd n) m end.
Definition store_nodes (m : NM.t (N * N)) (ns : list (N * (N * N))) := fold_left store_node ns m.

(* storeRoot: PRIMARY KEY(hash) *)
Definition store_root (db : tdb) (r : root_row) : option tdb :=
  if existsb (fun x => N.eqb (r_hash x) (r_hash r)) (t_roots db) then None
  else Some (mkTdb (t_roots db ++ [r]) (t_rht db)).

(* getLastRootWithTx: ORDER BY block_num DESC, block_position DESC LIMIT 1 *)
Definition root_after (a b : root_row) : bool :=      (* a sorts before b in DESC order *)
  (r_block b <? r_block a) || ((r_block a =? r_block b) && (r_bpos b <? r_bpos a)).
Definition last_root (db : tdb) : option root_row :=
  fold_left (fun acc r => match acc with None => Some r | Some a => if root_after r a then Some r else Some a end)
            (t_roots db) None.
Definition root_by_index (db : tdb) (i : N) : option root_row := find (fun r => N.eqb (r_pos r) i) (t_roots db).
Definition root_by_hash (db : tdb) (h : N) : option root_row := find (fun r => N.eqb (r_hash r) h) (t_roots db).

(* Tree.Reorg: DELETE FROM root WHERE block_num >= b   (rht is NOT cleaned) *)
Definition tree_reorg (db : tdb) (b : N) : tdb :=
  mkTdb (filter (fun r => r_block r <? b) (t_roots db)) (t_rht db).

(* ---- generic part: parametrised by the node hash and the zero-hash table, so that the theorems of
   Proofs/TreeStoreProofs.v hold for every (injective) node function; the executable instances below fix
   node := Keccak-256 over 64 bytes and zhf := the precomputed table ---- *)
Module Gen.
Section S.
Variable HT : nat.                    (* tree height: a parameter here so that no proof can unfold 2^32 *)
Variable node : N -> N -> N.
Variable zhf : nat -> N.

(* Tree.GetProof / getSiblings and Tree.GetLeaf *)
Definition get_proof (db : tdb) (idx root : N) : list N := swalk zhf (lookup db) HT root (bitN idx).
Definition get_proof_used_zero (db : tdb) (idx root : N) : bool := swalk_used_zero (lookup db) HT root (bitN idx).
Definition get_leaf (db : tdb) (idx root : N) : option N :=
  match walk (lookup db) HT root (bitN idx) with Some (_, y) => Some y | None => None end.
(* tree.CalculateRoot *)
Definition calculate_root (leaf : N) (proof : list N) (idx : N) : N := calc node 0 proof leaf (bitN idx).

(* AppendOnlyTree.initCache *)
Definition init_cache (db : tdb) : terr + tmem :=
  match last_root db with
  | None => inr (mkTmem (-1)%Z (repeat 0 HT))
  | Some lr =>
    match init_walk (lookup db) HT (r_hash lr) (bitN (r_pos lr)) (cache_of_list 0 (repeat 0 HT)) with
    | None => inl ENotFound
    | Some c => inr (mkTmem (Z.of_N (r_pos lr)) (cache_to_list HT c))
    end
  end.

(* AppendOnlyTree.AddLeaf. Returns the memory as it is after initCache / the hashing loop but BEFORE
   `lastIndex++` (these effects survive an error), and the new db on success; the caller applies
   `mem_commit_leaf` when both storage calls succeeded. *)
Definition add_leaf_exec (db : tdb) (mem : tmem) (blk bpos idx leaf : N) : tmem * (terr + tdb) :=
  let chk (mem : tmem) :=
    let c := cache_of_list 0 (m_cache mem) in
    let '(root, c', nodes) := Merkle.climb3 node zhf HT 0 (bitN idx) leaf c in
    (* the cache is written during the loop, before any storage call *)
    let mem1 := mkTmem (m_last mem) (cache_to_list HT c') in
    match store_root db (mkRoot root idx blk bpos) with
    | None => (mem1, inl EConstraint)
    | Some db1 =>
      (mem1, inr (mkTdb (t_roots db1) (store_nodes (t_rht db1) nodes)))
    end in
  if Z.eqb (Z.of_N idx) (m_last mem + 1)%Z then chk mem
  else match init_cache db with
       | inl e => (mem, inl e)
       | inr mem' => if Z.eqb (Z.of_N idx) (m_last mem' + 1)%Z then chk mem' else (mem', inl EInvalidIndex)
       end.

Definition mem_commit_leaf (mem : tmem) : tmem := mkTmem (m_last mem + 1)%Z (m_cache mem).

(* rollback callbacks registered by the successful AddLeaf calls of a transaction.
   Current source (after fix F1): every callback invalidates the cache (lastIndex := -2).
   `rollback_mem_unfixed` is the pre-fix behaviour (lastIndex-- per callback, cache kept), kept for the refutation. *)
Definition rollback_mem (mem : tmem) (n_added : nat) : tmem :=
  match n_added with O => mem | S _ => mkTmem (-2)%Z (m_cache mem) end.
Definition rollback_mem_unfixed (mem : tmem) (n_added : nat) : tmem :=
  mkTmem (m_last mem - Z.of_nat n_added)%Z (m_cache mem).

(* UpdatableTree.UpsertLeaf: returns new root hash and db *)
Definition upsert_leaf_exec (db : tdb) (blk bpos idx leaf : N) : terr + (N * tdb) :=
  let root := match last_root db with None => zhf HT | Some r => r_hash r end in
  let sibs := swalk zhf (lookup db) HT root (bitN idx) in
  let '(newroot, nodes) := upsert_climb node 0 sibs leaf (bitN idx) in
  match store_root db (mkRoot newroot idx blk bpos) with
  | None => inl EConstraint
  | Some db1 => inr (newroot, mkTdb (t_roots db1) (store_nodes (t_rht db1) nodes))
  end.

End S.
End Gen.

(* ---- executable instances (real Keccak) ---- *)
Definition get_proof := Gen.get_proof HEIGHT zh.
Definition get_proof_used_zero := Gen.get_proof_used_zero HEIGHT.
Definition get_leaf := Gen.get_leaf HEIGHT.
Definition calculate_root := Gen.calculate_root nodeN.
Definition init_cache := Gen.init_cache HEIGHT.
Definition add_leaf_exec := Gen.add_leaf_exec HEIGHT nodeN zh.
Definition mem_commit_leaf := Gen.mem_commit_leaf.
Definition rollback_mem := Gen.rollback_mem.
Definition rollback_mem_unfixed := Gen.rollback_mem_unfixed.
Definition upsert_leaf_exec := Gen.upsert_leaf_exec HEIGHT nodeN zh.
