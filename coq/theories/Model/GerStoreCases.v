(* Injected-GER store under storage faults (C07) and reorgs (C04): executable comparison of the model
   (Model/GerIndex.v: process_block_f, reorg) with the real lastgersync processor, and the "as if" property evaluated
   on the implementation's observations against a TWIN run of the real code (fault-free / never saw the dropped blocks). *)
From Coq Require Import NArith List Bool.
From Verif Require Import Model.GerIndex.
Import ListNotations.
Open Scope N_scope.

(* everything observable of the store *)
Record snap := {
  sn_last : N;                         (* GetLastProcessedBlock *)
  sn_blocks : list N;                  (* block ORDER BY num *)
  sn_rows : list row;                  (* imported_global_exit_root ORDER BY block_num *)
  sn_answers : list (option (N * N));  (* GetFirstGERAfterL1InfoTreeIndex per query *)
}.

(* result of one ProcessBlock call: 0 ok, 1 injected fault, 2 constraint, 3 other error *)
Definition rescode := N.
Definition res_of (r : option gerr) : rescode :=
  match r with None => 0 | Some GFault => 1 | Some GConstraint => 2 end.

Fixpoint list_eqb {X} (eqb : X -> X -> bool) (a b : list X) : bool :=
  match a, b with
  | [], [] => true
  | x :: a', y :: b' => eqb x y && list_eqb eqb a' b'
  | _, _ => false
  end.
Definition row_eqb (a b : row) : bool := (r_blk a =? r_blk b) && (r_ger a =? r_ger b) && (r_idx a =? r_idx b).
Definition ans_eqb (a b : option (N * N)) : bool :=
  match a, b with
  | None, None => true
  | Some (i, g), Some (i', g') => (i =? i') && (g =? g')
  | _, _ => false
  end.
Definition snap_eqb (a b : snap) : bool :=
  (sn_last a =? sn_last b) && list_eqb N.eqb (sn_blocks a) (sn_blocks b) &&
  list_eqb row_eqb (sn_rows a) (sn_rows b) && list_eqb ans_eqb (sn_answers a) (sn_answers b).

Definition snap_of (st : store) (qs : list N) : snap :=
  {| sn_last := last_processed st; sn_blocks := s_blocks st; sn_rows := s_rows st;
     sn_answers := map (first_ger_after st) qs |}.

(* ---- C07: blocks processed with injected faults, then again without ---- *)

(* one ProcessBlock call of the faulted run: fault installed, result, store afterwards *)
Definition attempt := (gfault * rescode * snap)%type.

Record fop := {
  fo_num : N; fo_events : list event;
  fo_attempts : list attempt;      (* faulted attempts followed by the fault-free one *)
  fo_twin : rescode * snap;        (* the twin processes the block once, without fault *)
}.

Record case_c07 := { f_queries : list N; f_init : snap; f_ops : list fop }.

Fixpoint corr_attempts (st : store) (blk : block) (qs : list N) (l : list attempt) : option store :=
  match l with
  | [] => Some st
  | (f, r, sn) :: t =>
      let '(res, st') := process_block_f f st blk in
      if (res_of res =? r) && snap_eqb (snap_of st' qs) sn then corr_attempts st' blk qs t else None
  end.

(* model == implementation, for the faulted run and for the twin *)
Fixpoint corr_fops (st tw : store) (qs : list N) (ops : list fop) : bool :=
  match ops with
  | [] => true
  | o :: t =>
      let blk := (fo_num o, fo_events o) in
      match corr_attempts st blk qs (fo_attempts o) with
      | None => false
      | Some st' =>
          let '(res, tw') := process_block_f None tw blk in
          (res_of res =? fst (fo_twin o)) && snap_eqb (snap_of tw' qs) (snd (fo_twin o)) && corr_fops st' tw' qs t
      end
  end.
Definition corr_c07 (c : case_c07) : bool :=
  snap_eqb (snap_of empty_store (f_queries c)) (f_init c) && corr_fops empty_store empty_store (f_queries c) (f_ops c).

(* the property on the implementation's observations: an attempt that reports an error leaves everything as the
   twin had it before the block; an attempt that reports success leaves everything as the twin has it after the
   block; at the end of the block's attempts the run is where the twin is *)
Fixpoint asif_attempts (prev next : snap) (done : bool) (l : list attempt) : option bool :=
  match l with
  | [] => Some done
  | (_, r, sn) :: t =>
      if done then (if snap_eqb sn next then asif_attempts prev next true t else None)
      else if r =? 0 then (if snap_eqb sn next then asif_attempts prev next true t else None)
      else (if snap_eqb sn prev then asif_attempts prev next false t else None)
  end.

Fixpoint asif_fops (prev : snap) (ops : list fop) : bool :=
  match ops with
  | [] => true
  | o :: t =>
      let '(tr, tsn) := fo_twin o in
      (* the twin itself: an error leaves it unchanged *)
      ((tr =? 0) || snap_eqb tsn prev) &&
      match asif_attempts prev tsn false (fo_attempts o) with
      | None => false
      | Some done => Bool.eqb done (tr =? 0) && asif_fops tsn t
      end
  end.
Definition spec_asif_c07 (c : case_c07) : bool := asif_fops (f_init c) (f_ops c).

(* ---- C04: reorgs; the twin never saw the dropped blocks ---- *)

Inductive rop :=
| RBlock (num : N) (events : list event) (res : rescode)
| RReorg (first : N) (run twin : snap).       (* observations right after the reorg *)

Record case_c04 := { r_queries : list N; r_ops : list rop; r_final : snap * snap }.

Fixpoint corr_rops (st : store) (qs : list N) (ops : list rop) : option store :=
  match ops with
  | [] => Some st
  | RBlock n evs r :: t =>
      let '(res, st') := process_block_f None st (n, evs) in
      if res_of res =? r then corr_rops st' qs t else None
  | RReorg b run _ :: t =>
      let st' := reorg b st in
      if snap_eqb (snap_of st' qs) run then corr_rops st' qs t else None
  end.
Definition corr_c04 (c : case_c04) : bool :=
  match corr_rops empty_store (r_queries c) (r_ops c) with
  | None => false
  | Some st => snap_eqb (snap_of st (r_queries c)) (fst (r_final c))
  end.

Definition spec_asif_c04 (c : case_c04) : bool :=
  forallb (fun o => match o with RBlock _ _ _ => true | RReorg _ run twin => snap_eqb run twin end) (r_ops c) &&
  snap_eqb (fst (r_final c)) (snd (r_final c)).

Fixpoint bad_indices {X} (f : X -> bool) (i : nat) (l : list X) : list nat :=
  match l with [] => [] | x :: t => if f x then bad_indices f (S i) t else i :: bad_indices f (S i) t end.
