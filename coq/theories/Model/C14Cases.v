(* C14 correspondence: executable comparison of the model (Model/Halt.v + the regenerated facade_methods list) with
   observations of the real syncers, and the executable form of the property itself evaluated on those observations.
   Definitions only. *)
From Coq Require Import NArith List Bool String.
From Verif Require Import Model.Halt Gen.SourceFacts.
Import ListNotations.
Open Scope N_scope.

(* what the harness records after every operation of a history *)
Record step_obs := {
  so_out : outcome;   (* OpBlock: result class of processor.ProcessBlock; OpReorg: of processor.Reorg;
                         OpQuery: result class of the facade method of the case *)
  so_last : N;        (* SELECT MAX(num) FROM block (0 when empty), read directly from the SQLite file *)
  so_rows : N;        (* SELECT COUNT( * ) FROM block *)
}.

Inductive scen :=
| SBridge (ops : list (op (list bevent)))
| SL1 (ops : list (op (list levent))).

Inductive case14 :=
| CMethod (recv meth : string) (s : scen) (obs : list step_obs)
      (* one exported method of one syncer (found by reflection) called at every OpQuery of the history *)
| CMethods (recv : string) (called skipped : list string).
      (* the reflection-enumerated method set of *recv: methods called / hook methods (name prefix Verif) not called *)

Definition lookup_method (recv meth : string) : option fmethod :=
  find (fun m => String.eqb (fm_recv m) recv && String.eqb (fm_name m) meth) facade_methods.

Definition methods_of (recv : string) : list string :=
  map fm_name (filter (fun m => String.eqb (fm_recv m) recv) facade_methods).
Definition hooks_of (recv : string) : list string :=
  map snd (filter (fun m => String.eqb (fst m) recv) facade_hook_methods).

Fixpoint list_eqb {A} (eqb : A -> A -> bool) (a b : list A) : bool :=
  match a, b with
  | [], [] => true
  | x :: s, y :: t => eqb x y && list_eqb eqb s t
  | _, _ => false
  end.

(* ---------------------------------------------------------------------------------------------- *)
(* corr: model == implementation ?                                                                 *)
(* ---------------------------------------------------------------------------------------------- *)
Section Corr.
  Variable row : Type.
  Variable row_num : row -> N.
  Variable input : Type.
  Variable mem : Type.
  Variable row_has_leaves : row -> bool.
  Variable apply : mem -> list row -> N -> input -> apply_result row * mem.
  Variable on_reorg : mem -> mem.

  Fixpoint corr_steps (m : fmethod) (ops : list (op input)) (st : state row mem) (obs : list step_obs) : bool :=
    match ops, obs with
    | [], [] => true
    | o :: t, ob :: obs' =>
        let r := step row row_num input mem row_has_leaves apply on_reorg o st in
        let st' := snd r in
        (match o with
         | OpQuery => Bool.eqb (is_inconsistent (so_out ob)) (is_inconsistent (run_method row mem m st OOk))
         | _ => outcome_eqb (so_out ob) (fst r)
         end)
        && (so_last ob =? last_block row row_num mem st') && (so_rows ob =? block_count row mem st')
        && corr_steps m t st' obs'
    | _, _ => false
    end.

  (* what the model itself would show the harness (used to state that the model meets `spec` on every history) *)
  Fixpoint model_obs (m : fmethod) (ops : list (op input)) (st : state row mem) : list step_obs :=
    match ops with
    | [] => []
    | o :: t =>
        let r := step row row_num input mem row_has_leaves apply on_reorg o st in
        let st' := snd r in
        {| so_out := match o with OpQuery => run_method row mem m st OOk | _ => fst r end;
           so_last := last_block row row_num mem st'; so_rows := block_count row mem st' |} :: model_obs m t st'
    end.
End Corr.

Definition corr_method (recv meth : string) (s : scen) (obs : list step_obs) : bool :=
  match lookup_method recv meth with
  | None => false            (* found by reflection, unknown to the translator *)
  | Some m =>
      match s with
      | SBridge ops => String.eqb recv "BridgeSync" &&
                       corr_steps brow br_num (list bevent) bmem b_has_leaves b_apply b_on_reorg m ops b_init obs
      | SL1 ops => String.eqb recv "L1InfoTreeSync" &&
                   corr_steps lrow lr_num (list levent) unit l_has_leaves l_apply l_on_reorg m ops l_init obs
      end
  end.

Definition corr (c : case14) : bool :=
  match c with
  | CMethod recv meth s obs => corr_method recv meth s obs
  | CMethods recv called skipped =>
      list_eqb String.eqb called (methods_of recv) && list_eqb String.eqb skipped (hooks_of recv)
  end.

(* ---------------------------------------------------------------------------------------------- *)
(* spec: the property, evaluated on what the implementation returned                               *)
(* ---------------------------------------------------------------------------------------------- *)
(* Reference bookkeeping, from observations only: `acc` = blocks the implementation ACCEPTED (ProcessBlock returned
   nil) and that no later reorg removed, newest first; `h` = "ProcessBlock has reported the inconsistency and no reorg
   has removed a processed block since".
   Two parts of the property:
     fail-stop  (always checked): once the inconsistency error was returned, every further ProcessBlock returns it and
                nothing is stored, every data query returns it, a reorg clears the condition iff it removed a processed
                block (a Reorg that returns an error removed nothing and clears nothing); a syncer that is not in that
                condition never answers a query with the inconsistency error;
     detection  (checked when detect = true): a syncer that is not in that condition returns the inconsistency error
                for a block exactly when the block contradicts the store, by the reference notion of inconsistency per
                syncer below (naive, not the model's scan). *)
Section Spec.
  Variable input : Type.
  Variable inconsistent_block : list (N * input) -> input -> bool.

  Fixpoint spec_steps (detect touches : bool) (ops : list (op input)) (acc : list (N * input)) (h : bool)
           (pl pr : N) (obs : list step_obs) : bool :=
    match ops, obs with
    | [], [] => true
    | o :: t, ob :: obs' =>
        let out := so_out ob in
        match o with
        | OpBlock n e =>
            if h then
              (* halted: the inconsistency error, and the syncer does not advance *)
              is_inconsistent out && (so_last ob =? pl) && (so_rows ob =? pr)
              && spec_steps detect touches t acc true (so_last ob) (so_rows ob) obs'
            else
              let contradicts := negb (existsb (fun x => fst x =? n) acc) && inconsistent_block acc e in
              (if detect then Bool.eqb (is_inconsistent out) contradicts else true)
              && (if is_inconsistent out then
                    (* the inconsistency is reported: nothing stored, halted from now on *)
                    (so_last ob =? pl) && (so_rows ob =? pr)
                    && spec_steps detect touches t acc true (so_last ob) (so_rows ob) obs'
                  else
                    spec_steps detect touches t (if outcome_eqb out OOk then (n, e) :: acc else acc) false
                               (so_last ob) (so_rows ob) obs')
        | OpReorg b =>
            let acc' := filter (fun x => fst x <? b) acc in
            let removed := negb (Nat.eqb (List.length acc') (List.length acc)) in
            (* cleared iff the reorg removed at least one processed block *)
            spec_steps detect touches t acc' (h && negb removed) (so_last ob) (so_rows ob) obs'
        | OpQuery =>
            (if h then implb touches (is_inconsistent out) else negb (is_inconsistent out))
            && spec_steps detect touches t acc h (so_last ob) (so_rows ob) obs'
        | OpReorgFault _ b =>
            if outcome_eqb out OOk then
              (* the fault did not hit: an ordinary reorg *)
              let acc' := filter (fun x => fst x <? b) acc in
              let removed := negb (Nat.eqb (List.length acc') (List.length acc)) in
              spec_steps detect touches t acc' (h && negb removed) (so_last ob) (so_rows ob) obs'
            else
              (* Reorg returned an error: its transaction was rolled back, no processed block was removed, so the
                 condition is NOT cleared; what follows is judged with the same bookkeeping *)
              (so_last ob =? pl) && (so_rows ob =? pr)
              && spec_steps detect touches t acc h (so_last ob) (so_rows ob) obs'
        end
    | _, _ => false
    end.
End Spec.

(* bridge: the deposit counts of the block's bridge events are not stored, stored+1, ... *)
Fixpoint b_counts (evs : list bevent) : list N :=
  match evs with [] => [] | BBridge dc :: t => dc :: b_counts t | BOther :: t => b_counts t end.
Fixpoint n_seq (start : N) (len : nat) : list N :=
  match len with O => [] | S k => start :: n_seq (start + 1) k end.
Definition b_stored (acc : list (N * list bevent)) : N :=
  fold_right (fun x a => N.of_nat (List.length (b_counts (snd x))) + a) 0 acc.
Definition ref_b_gap (stored : N) (evs : list bevent) : bool :=
  negb (list_eqb N.eqb (b_counts evs) (n_seq stored (List.length (b_counts evs)))).
Definition ref_b_inconsistent (acc : list (N * list bevent)) (evs : list bevent) : bool :=
  ref_b_gap (b_stored acc) evs.

(* L1 info tree: the first announcement of the block that does not pass is a mismatch (announced root differs from the
   root of the last leaf, or announced leaf count differs from the number of leaves); an announcement on an empty tree
   is a plain error. Announcements are located by position; the leaves before position i are those of firstn i. *)
Definition l_roots_in (evs : list levent) : list N :=
  flat_map (fun e => match e with LLeaf r => [r] | _ => [] end) evs.          (* oldest first *)
Definition l_stored (acc : list (N * list levent)) : list N :=
  flat_map (fun x => rev (l_roots_in (snd x))) acc.                            (* newest first *)
Definition ref_mismatch (roots_newest_first : list N) (root count : N) : option bool :=
  match hd_error roots_newest_first with
  | None => None
  | Some h => Some (negb ((h =? root) && (N.of_nat (List.length roots_newest_first) mod uint32_mod =? count)))
  end.
Definition verdict_at (evs : list levent) (all : list N) (i : nat) : option (option bool) :=
  match nth_error evs i with
  | Some (LAnnounce root count) => Some (ref_mismatch (rev (l_roots_in (firstn i evs)) ++ all) root count)
  | _ => None
  end.
Definition not_passing (v : option (option bool)) : bool :=
  match v with Some (Some false) | None => false | _ => true end.
Definition ref_l_mismatch_block (all : list N) (evs : list levent) : bool :=
  match find not_passing (map (verdict_at evs all) (seq 0 (List.length evs))) with
  | Some (Some (Some true)) => true
  | _ => false
  end.
Definition ref_l_inconsistent (acc : list (N * list levent)) (evs : list levent) : bool :=
  ref_l_mismatch_block (l_stored acc) evs.

Definition touches_of (recv meth : string) : bool :=
  match lookup_method recv meth with Some m => fm_touches m | None => true end.   (* unknown method: assume a data query *)

Definition spec (c : case14) : bool :=
  match c with
  | CMethod recv meth s obs =>
      match s with
      | SBridge ops => spec_steps (list bevent) ref_b_inconsistent true (touches_of recv meth) ops [] false 0 0 obs
      | SL1 ops => spec_steps (list levent) ref_l_inconsistent true (touches_of recv meth) ops [] false 0 0 obs
      end
  | CMethods _ _ _ => true
  end.

Fixpoint bad_indices {A} (f : A -> bool) (i : nat) (l : list A) : list nat :=
  match l with [] => [] | x :: t => if f x then bad_indices f (S i) t else i :: bad_indices f (S i) t end.
