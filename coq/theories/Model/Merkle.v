(* Generic Merkle-tree algorithms of /repo/tree, over an abstract hash. Definitions only.
   Index bits are passed as a function `bit : nat -> bool` (bit h = index & (1<<h) > 0) so that the
   same definitions serve the nat-indexed theory (bit := Nat.testbit i) and the executable
   N-indexed model (bit := fun h => N.testbit i (N.of_nat h)).
   The reverse-hash-table and the frontier cache are passed as lookup functions for the same reason. *)
From Coq Require Import List Arith.
Import ListNotations.

Section Merkle.
Context {hash : Type}.
Variable node : hash -> hash -> hash.
Variable z0 : hash.

(* tree.generateZeroHashes *)
Fixpoint zero (h : nat) : hash :=
  match h with 0 => z0 | S h' => node (zero h') (zero h') end.
(* The algorithms read zero hashes from a table (Tree.zeroHashes); `zh h` is that table. The theory
   instantiates zh := zero, the executable model a precomputed list proved equal to `zero` up to 32. *)
Variable zh : nat -> hash.
(* zero siblings for levels 0 .. h-1 *)
Fixpoint zeros (h : nat) : list hash := match h with 0 => [] | S h' => zeros h' ++ [zh h'] end.

Definition cache := nat -> hash.
Definition upd (c : cache) (h : nat) (x : hash) : cache := fun h' => if Nat.eqb h' h then x else c h'.

(* AppendOnlyTree.AddLeaf main loop: h from `h` upwards, `fuel` levels left *)
Fixpoint climb (fuel h : nat) (bit : nat -> bool) (cur : hash) (c : cache) : hash * cache :=
  match fuel with
  | 0 => (cur, c)
  | S fuel' =>
      if bit h
      then climb fuel' (S h) bit (node (c h) cur) c                 (* add child to the right *)
      else climb fuel' (S h) bit (node cur (zh h)) (upd c h cur)  (* add child to the left, refresh cache *)
  end.
(* the tree nodes produced on the way (newNodes): (hash, left, right), level 1 first *)
Fixpoint climb_nodes (fuel h : nat) (bit : nat -> bool) (cur : hash) (c : cache) : list (hash * (hash * hash)) :=
  match fuel with
  | 0 => []
  | S fuel' =>
      if bit h
      then let p := node (c h) cur in (p, (c h, cur)) :: climb_nodes fuel' (S h) bit p c
      else let p := node cur (zh h) in (p, (cur, zh h)) :: climb_nodes fuel' (S h) bit p (upd c h cur)
  end.
(* single pass computing root, cache and nodes (what the executable model runs; each hash computed once) *)
Fixpoint climb3 (fuel h : nat) (bit : nat -> bool) (cur : hash) (c : cache) : hash * cache * list (hash * (hash * hash)) :=
  match fuel with
  | 0 => (cur, c, [])
  | S fuel' =>
      if bit h
      then let p := node (c h) cur in
           let '(r, c', ns) := climb3 fuel' (S h) bit p c in (r, c', (p, (c h, cur)) :: ns)
      else let p := node cur (zh h) in
           let '(r, c', ns) := climb3 fuel' (S h) bit p (upd c h cur) in (r, c', (p, (cur, zh h)) :: ns)
  end.
Definition add_leaf (H : nat) (bit : nat -> bool) (leaf : hash) (c : cache) : hash * cache := climb H 0 bit leaf c.
Definition add_leaf_nodes (H : nat) (bit : nat -> bool) (leaf : hash) (c : cache) := climb_nodes H 0 bit leaf c.

(* reverse hash table as a lookup function *)
Definition rht := hash -> option (hash * hash).

(* strict top-down walk: siblings (level 0 first) and the leaf reached; None when a node is missing.
   = Tree.GetLeaf descent; also the success path of getSiblings *)
Fixpoint walk (m : rht) (h : nat) (x : hash) (bit : nat -> bool) : option (list hash * hash) :=
  match h with
  | 0 => Some ([], x)
  | S h' =>
    match m x with
    | None => None
    | Some (l, r) =>
      if bit h'
      then match walk m h' r bit with Some (s, y) => Some (s ++ [l], y) | None => None end
      else match walk m h' l bit with Some (s, y) => Some (s ++ [r], y) | None => None end
    end
  end.

(* Tree.getSiblings: NotFound => zero hash for this level and, because currentNodeHash is not
   advanced, for every level below (no descent after a miss). Second component: hasUsedZeroHashes *)
Fixpoint swalk (m : rht) (h : nat) (x : hash) (bit : nat -> bool) : list hash :=
  match h with
  | 0 => []
  | S h' => match m x with
            | None => zeros (S h')
            | Some (l, r) => if bit h' then swalk m h' r bit ++ [l] else swalk m h' l bit ++ [r]
            end
  end.
Fixpoint swalk_used_zero (m : rht) (h : nat) (x : hash) (bit : nat -> bool) : bool :=
  match h with
  | 0 => false
  | S h' => match m x with
            | None => true
            | Some (l, r) => if bit h' then swalk_used_zero m h' r bit else swalk_used_zero m h' l bit
            end
  end.

(* tree.CalculateRoot *)
Fixpoint calc (lvl : nat) (sibs : list hash) (cur : hash) (bit : nat -> bool) : hash :=
  match sibs with
  | [] => cur
  | s :: t => calc (S lvl) t (if bit lvl then node s cur else node cur s) bit
  end.

(* AppendOnlyTree.initCache: walk down the path of the last leaf, remember the Left child at every level *)
Fixpoint init_walk (m : rht) (h : nat) (x : hash) (bit : nat -> bool) (c : cache) : option cache :=
  match h with
  | 0 => Some c
  | S h' =>
    match m x with
    | None => None
    | Some (l, r) => init_walk m h' (if bit h' then r else l) bit (upd c h' l)
    end
  end.

(* UpdatableTree.UpsertLeaf: siblings of the current last root, then the new path; nodes level 1 first *)
Fixpoint upsert_climb (lvl : nat) (sibs : list hash) (cur : hash) (bit : nat -> bool) : hash * list (hash * (hash * hash)) :=
  match sibs with
  | [] => (cur, [])
  | s :: t =>
    let '(l, r) := if bit lvl then (s, cur) else (cur, s) in
    let p := node l r in
    let '(root, ns) := upsert_climb (S lvl) t p bit in
    (root, (p, (l, r)) :: ns)
  end.

(* Tree.storeNodes: INSERT, ignoring a UNIQUE violation on the hash (the existing row is kept) *)
Variable heq_dec : forall a b : hash, {a = b} + {a <> b}.
Definition ins (m : rht) (k : hash) (v : hash * hash) : rht :=
  fun x => if heq_dec x k then (match m k with Some v' => Some v' | None => Some v end) else m x.
Definition ins_all (m : rht) (ns : list (hash * (hash * hash))) : rht :=
  fold_left (fun m n => ins m (fst n) (snd n)) ns m.

Definition cache_to_list (H : nat) (c : cache) : list hash := map c (seq 0 H).
Definition cache_of_list (l : list hash) : cache := fun h => nth h l z0.
End Merkle.
