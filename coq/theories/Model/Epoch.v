(* C18 — epoch notifier (aggsender/epoch_notifier_per_block.go). Definitions only.

   Part 1 mirrors the Go code one-for-one: epochNumber, startingBlockEpoch, endBlockEpoch, percentEpoch,
   isNotificationRequired, step, the initial status of startInternal, Validate.
   Part 2 is the reference the property is stated against ("first qualifying block per epoch"); it does not
   mention `step`.

   Numbers are unbounded `N`. The Go code computes on uint64/uint; no operation of `step` can wrap unless a
   block number reaches 2^64-2 (epochNumber(b)+1 with NumBlockPerEpoch = 1), which is outside what a chain
   delivers; the check's inputs stay below 2^63 (stated in props/c18.py ASSUMPTIONS).

   FLOATS. The Go code compares float64 quotients:
       percentEpoch      = float64(elapsed) / float64(N)
       thresholdPercent  = float64(P) / 100.0
       maxTreshold       = float64(N-1) / float64(N)
       if thresholdPercent > maxTreshold { thresholdPercent = maxTreshold }
       if percentEpoch < thresholdPercent { no notification }
   Here a quotient is the exact rational (numerator, denominator) and `<` is cross-multiplication (`qlt`).
   What this assumes about float64: correctly rounded IEEE-754 binary64 division (round to nearest even) and
   exact uint64->float64 conversion of the operands, in which case the two comparisons above have the same
   outcome as on the exact rationals whenever N < 2^40. That statement is proved over Flocq's binary64 in
   Proofs/EpochFloatProofs.v (`float_threshold_agrees`); the float transcription itself is Model/EpochFloat.v.
   For N >= 2^40 nothing is claimed (and for N around 2^50 the two do differ, see Properties/C18.v). *)
From Coq Require Import NArith List Bool.
Import ListNotations.
Open Scope N_scope.

(* ---------------------------------------------------------------------------------------------- *)
(* Part 1: the Go code                                                                              *)
(* ---------------------------------------------------------------------------------------------- *)

Record status := St { last_block_seen : N; waiting_for_epoch : N }.      (* internalStatus *)
Record event := Ev { ev_epoch : N; ev_pending : N }.                     (* EpochEvent{Epoch, ExtraInfo.PendingBlocks} *)

(* exact rationals num/den with den > 0 *)
Definition qlt (x y : N * N) : bool := fst x * snd y <? fst y * snd x.   (* x < y *)

Section Epoch.
Variable S0 : N.       (* Config.StartingEpochBlock *)
Variable n : N.        (* Config.NumBlockPerEpoch *)
Variable P : N.        (* Config.EpochNotificationPercentage *)

(* Validate: NumBlockPerEpoch != 0 and percentage < 100 *)
Definition config_valid : bool := negb (n =? 0) && (P <? 100).

Definition epoch_number (b : N) : N := if b <? S0 then 0 else 1 + (b - S0) / n.
Definition starting_block_epoch (e : N) : N := if e =? 0 then S0 - 1 else S0 + (e - 1) * n.
Definition end_block_epoch (e : N) : N := starting_block_epoch (e + 1).

(* percentEpoch: elapsedBlocks / NumBlockPerEpoch *)
Definition percent_epoch (b : N) : N * N := (b - starting_block_epoch (epoch_number b), n).

(* isNotificationRequired(currentBlock, lastEpochNotified) *)
Definition is_notification_required (b last_epoch_notified : N) : bool * N :=
  let percent := percent_epoch b in
  let threshold := (P, 100) in
  let max_threshold := (n - 1, n) in
  let threshold := if qlt max_threshold threshold then max_threshold else threshold in
  if qlt percent threshold then (false, epoch_number b)
  else
    let next_epoch := epoch_number b + 1 in
    (last_epoch_notified <? next_epoch, epoch_number b).

(* infoEpoch *)
Definition pending_blocks (b closing : N) : N := end_block_epoch closing - b.

Definition step (s : status) (b : N) : status * option event :=
  if b <? S0 then (s, None)
  else if b <=? last_block_seen s then (s, None)
  else
    let s1 := St b (waiting_for_epoch s) in
    let '(need, closing) := is_notification_required b (waiting_for_epoch s1) in
    if need then (St b (closing + 1), Some (Ev closing (pending_blocks b closing)))
    else (s1, None).

(* startInternal *)
Definition init : status := St S0 (epoch_number S0).

(* the loop of startInternal over a list of deliveries: (block, epoch) of every published event *)
Fixpoint run (s : status) (bs : list N) : list (N * N) :=
  match bs with
  | [] => []
  | b :: t => let '(s', o) := step s b in
              match o with Some e => (b, ev_epoch e) :: run s' t | None => run s' t end
  end.

(* same loop keeping the delivery index and the whole event (for the correspondence) *)
Fixpoint run_ix (i : nat) (s : status) (bs : list N) : list (nat * N * event) :=
  match bs with
  | [] => []
  | b :: t => let '(s', o) := step s b in
              match o with Some e => (i, b, e) :: run_ix (S i) s' t | None => run_ix (S i) s' t end
  end.

(* status and output after every single step (for the correspondence from arbitrary statuses) *)
Fixpoint trace (s : status) (bs : list N) : list (status * option event) :=
  match bs with
  | [] => []
  | b :: t => let r := step s b in r :: trace (fst r) t
  end.

(* ---------------------------------------------------------------------------------------------- *)
(* Part 2: the reference                                                                            *)
(* ---------------------------------------------------------------------------------------------- *)

(* epoch e >= 1 consists of the blocks S0+(e-1)n .. S0+e*n-1 (Proofs: ref_epoch_spec) *)
Definition ref_epoch (b : N) : N := 1 + (b - S0) / n.
Definition ref_first_block (e : N) : N := S0 + (e - 1) * n.

(* "at or beyond the configured percentage": position/n >= P/100; the last block of an epoch always counts
   (this is the configured meaning of the clamp thresholdPercent <= (n-1)/n, DESIGN.md C18) *)
Definition ref_qualifies (b : N) : bool :=
  let pos := b - ref_first_block (ref_epoch b) in
  (P * n <=? 100 * pos) || (pos =? n - 1).

(* b is kept iff it qualifies and no block delivered earlier qualified in the same epoch *)
Fixpoint first_qualifying (earlier l : list N) : list N :=
  match l with
  | [] => []
  | b :: t =>
      if ref_qualifies b && negb (existsb (fun b' => ref_qualifies b' && (ref_epoch b' =? ref_epoch b)) earlier)
      then b :: first_qualifying (b :: earlier) t
      else first_qualifying (b :: earlier) t
  end.
End Epoch.

(* the deliveries that are new maxima above `seen` (for an increasing sequence above S0: all of them) *)
Fixpoint effective (seen : N) (bs : list N) : list N :=
  match bs with
  | [] => []
  | b :: t => if seen <? b then b :: effective b t else effective seen t
  end.

(* what subscribers must receive: (block, epoch) for the first qualifying block of every epoch that has one.
   The initial status says "S0 has been seen", so deliveries count from the first block above S0. *)
Definition expected (S0 n P : N) (bs : list N) : list (N * N) :=
  map (fun b => (b, ref_epoch S0 n b)) (first_qualifying S0 n P [] (effective S0 bs)).
