(* C10 correspondence: executable comparison of the model with observations of the Go code (`corr`), and the
   executable form of the property itself evaluated on those observations (`spec`).  Definitions only. *)
From Coq Require Import NArith ZArith List Bool Uint63.
From Verif Require Import Base.Bytes Base.Hash Model.GlobalIndex Model.Commitment.
Import ListNotations.
Open Scope N_scope.

(* transcription of numbers: Coq parses big N literals very slowly, primitive 63-bit integer literals fast; the case
   files give every number as little-endian 60-bit limbs, rebuilt here inside vm_compute *)
Definition n63 (i : int) : N := Z.to_N (Uint63.to_Z i).
Definition nb (limbs : list int) : N := fold_right (fun i acc => n63 i + N.shiftl acc 60) 0 limbs.

(* ---- structural equality tests ---- *)
Definition opt_eqb {A} (f : A -> A -> bool) (a b : option A) : bool :=
  match a, b with None, None => true | Some x, Some y => f x y | _, _ => false end.
Fixpoint list_eqb {A} (f : A -> A -> bool) (a b : list A) : bool :=
  match a, b with [] , [] => true | x :: a', y :: b' => f x y && list_eqb f a' b' | _, _ => false end.
Definition pair_eqb {A B} (f : A -> A -> bool) (g : B -> B -> bool) (a b : A * B) : bool :=
  f (fst a) (fst b) && g (snd a) (snd b).

Definition exit_eqb (a b : bridge_exit) : bool :=
  N.eqb (x_leaf_type a) (x_leaf_type b) && N.eqb (x_orig_net a) (x_orig_net b) && N.eqb (x_orig_addr a) (x_orig_addr b) &&
  N.eqb (x_dest_net a) (x_dest_net b) && N.eqb (x_dest_addr a) (x_dest_addr b) &&
  opt_eqb N.eqb (x_amount a) (x_amount b) && opt_eqb bytes_eqb (x_metadata a) (x_metadata b).
Definition mproof_eqb (a b : merkle_proof) : bool :=
  N.eqb (mp_root a) (mp_root b) && list_eqb N.eqb (mp_siblings a) (mp_siblings b).
Definition l1leaf_eqb (a b : l1_leaf) : bool :=
  N.eqb (l1_index a) (l1_index b) && N.eqb (l1_rer a) (l1_rer b) && N.eqb (l1_mer a) (l1_mer b) &&
  N.eqb (l1_ger a) (l1_ger b) && N.eqb (l1_block_hash a) (l1_block_hash b) && N.eqb (l1_timestamp a) (l1_timestamp b).
Definition claim_eqb (a b : claim) : bool :=
  match a, b with
  | ClaimMainnet a1 a2 l, ClaimMainnet b1 b2 m => mproof_eqb a1 b1 && mproof_eqb a2 b2 && l1leaf_eqb l m
  | ClaimRollup a1 a2 a3 l, ClaimRollup b1 b2 b3 m => mproof_eqb a1 b1 && mproof_eqb a2 b2 && mproof_eqb a3 b3 && l1leaf_eqb l m
  | _, _ => false
  end.
Definition gi_eqb (a b : global_index) : bool :=
  Bool.eqb (gi_mainnet a) (gi_mainnet b) && N.eqb (gi_rollup a) (gi_rollup b) && N.eqb (gi_leaf a) (gi_leaf b).
Definition imported_eqb (a b : imported_exit) : bool :=
  exit_eqb (ie_exit a) (ie_exit b) && claim_eqb (ie_claim a) (ie_claim b) && gi_eqb (ie_gi a) (ie_gi b).
Definition ctx_eqb : list (bytes * bytes) -> list (bytes * bytes) -> bool := list_eqb (pair_eqb bytes_eqb bytes_eqb).
Definition agg_eqb (a b : aggchain_data) : bool :=
  match a, b with
  | AdNone, AdNone => true
  | AdSignature s, AdSignature t => bytes_eqb s t
  | AdProof p v k a c s, AdProof p' v' k' a' c' s' =>
    bytes_eqb p p' && bytes_eqb v v' && bytes_eqb k k' && N.eqb a a' && ctx_eqb c c' && bytes_eqb s s'
  | _, _ => false
  end.
Definition cert_eqb (a b : certificate) : bool :=
  N.eqb (c_network a) (c_network b) && N.eqb (c_height a) (c_height b) && N.eqb (c_prev_ler a) (c_prev_ler b) &&
  N.eqb (c_new_ler a) (c_new_ler b) && list_eqb exit_eqb (c_exits a) (c_exits b) &&
  list_eqb imported_eqb (c_imported a) (c_imported b) && N.eqb (c_metadata a) (c_metadata b) &&
  bytes_eqb (c_custom a) (c_custom b) && agg_eqb (c_aggchain a) (c_aggchain b) && N.eqb (c_leaf_count a) (c_leaf_count b).

Definition w_exit_eqb (a b : w_exit) : bool :=
  N.eqb (w_leaf_type a) (w_leaf_type b) && N.eqb (w_dest_net a) (w_dest_net b) && bytes_eqb (w_dest_addr a) (w_dest_addr b) &&
  N.eqb (w_orig_net a) (w_orig_net b) && bytes_eqb (w_orig_addr a) (w_orig_addr b) &&
  opt_eqb bytes_eqb (w_amount a) (w_amount b) && opt_eqb bytes_eqb (w_metadata a) (w_metadata b).
Definition w_mproof_eqb (a b : w_mproof) : bool :=
  bytes_eqb (w_root a) (w_root b) && list_eqb bytes_eqb (w_siblings a) (w_siblings b).
Definition w_l1leaf_eqb (a b : w_l1leaf) : bool :=
  N.eqb (w_l1_index a) (w_l1_index b) && bytes_eqb (w_rer a) (w_rer b) && bytes_eqb (w_mer a) (w_mer b) &&
  bytes_eqb (w_ger a) (w_ger b) && bytes_eqb (w_block_hash a) (w_block_hash b) && N.eqb (w_timestamp a) (w_timestamp b).
Definition w_claim_eqb (a b : w_claim) : bool :=
  match a, b with
  | WMainnet a1 a2 l, WMainnet b1 b2 m => w_mproof_eqb a1 b1 && w_mproof_eqb a2 b2 && w_l1leaf_eqb l m
  | WRollup a1 a2 a3 l, WRollup b1 b2 b3 m => w_mproof_eqb a1 b1 && w_mproof_eqb a2 b2 && w_mproof_eqb a3 b3 && w_l1leaf_eqb l m
  | _, _ => false
  end.
Definition w_imported_eqb (a b : w_imported) : bool :=
  w_exit_eqb (w_ie_exit a) (w_ie_exit b) && bytes_eqb (w_gi a) (w_gi b) && w_claim_eqb (w_ie_claim a) (w_ie_claim b).
Definition w_agg_eqb (a b : w_aggchain) : bool :=
  match a, b with
  | WSignature s, WSignature t => bytes_eqb s t
  | WGeneric v p k a c s, WGeneric v' p' k' a' c' s' =>
    bytes_eqb v v' && bytes_eqb p p' && bytes_eqb k k' && bytes_eqb a a' && ctx_eqb c c' && bytes_eqb s s'
  | _, _ => false
  end.
Definition w_cert_eqb (a b : w_cert) : bool :=
  N.eqb (wc_network a) (wc_network b) && N.eqb (wc_height a) (wc_height b) && N.eqb (wc_leaf_count a) (wc_leaf_count b) &&
  bytes_eqb (wc_prev_ler a) (wc_prev_ler b) && bytes_eqb (wc_new_ler a) (wc_new_ler b) && bytes_eqb (wc_meta a) (wc_meta b) &&
  bytes_eqb (wc_custom a) (wc_custom b) && w_agg_eqb (wc_agg a) (wc_agg b) &&
  list_eqb w_exit_eqb (wc_exits a) (wc_exits b) && list_eqb w_imported_eqb (wc_imported a) (wc_imported b).

(* ---- the pieces of the stored JSON text the harness extracts ---- *)
Definition jexit_p : Type := jstr * jstr * option jstr.                       (* leaf_type, amount, metadata *)
Definition jimp_p : Type := jexit_p * jstr * list jstr.                        (* bridge_exit, claim tag, child member names *)
Definition jproj : Type := list jexit_p * list jimp_p * option (list (jstr * jstr)).
Definition proj_exit (j : j_exit) : jexit_p := (j_leaf_type j, j_amount j, j_metadata j).
Definition proj_imp (j : j_imported) : jimp_p :=
  (proj_exit (j_ie_exit j), j_tag (j_ie_claim j), map fst (j_leafs (j_ie_claim j)) ++ map fst (j_proofs (j_ie_claim j))).
Definition proj_cert (j : j_cert) : jproj :=
  (map proj_exit (jc_exits j), map proj_imp (jc_imported j), option_map ja_fields (jc_aggchain j)).
Definition jexit_p_eqb (a b : jexit_p) : bool :=
  let '(l1, a1, m1) := a in let '(l2, a2, m2) := b in bytes_eqb l1 l2 && bytes_eqb a1 a2 && opt_eqb bytes_eqb m1 m2.
Definition jimp_p_eqb (a b : jimp_p) : bool :=
  let '(e1, t1, k1) := a in let '(e2, t2, k2) := b in jexit_p_eqb e1 e2 && bytes_eqb t1 t2 && list_eqb bytes_eqb k1 k2.
Definition jproj_eqb (a b : jproj) : bool :=
  let '(e1, i1, g1) := a in let '(e2, i2, g2) := b in
  list_eqb jexit_p_eqb e1 e2 && list_eqb jimp_p_eqb i1 i2 && opt_eqb (list_eqb (pair_eqb bytes_eqb bytes_eqb)) g1 g2.

(* ---- single-field perturbations (the harness applies the same description to the Go certificate) ---- *)
Inductive cfield := CNetwork | CHeight | CPrevLer | CNewLer | CMetadata | CLeafCount.
Inductive xfield := XLeafType | XOrigNet | XOrigAddr | XDestNet | XDestAddr.
Inductive gfield := GFlag | GRollup | GLeaf.
Inductive lfield := LIndex | LRer | LMer | LGer | LBlockHash | LTimestamp.
Inductive pert :=
| PCert (f : cfield) (v : N)
| PCustom (v : bytes)
| PAggParams (v : N)
| PAggSig (v : bytes)
| PExitN (imp : bool) (i : nat) (f : xfield) (v : N)
| PExitAmount (imp : bool) (i : nat) (a : option N)
| PExitMeta (imp : bool) (i : nat) (m : option bytes)
| PGi (i : nat) (f : gfield) (v : N)
| PProofRoot (i j : nat) (v : N)
| PProofSib (i j n : nat) (v : N)
| PL1 (i : nat) (f : lfield) (v : N)
| PClaimKind (i : nat)
| PSwap (imp : bool) (i : nat)
| PDropLast (imp : bool).

Fixpoint upd_nth {A} (i : nat) (f : A -> A) (l : list A) : list A :=
  match l, i with
  | [], _ => []
  | x :: t, O => f x :: t
  | x :: t, S k => x :: upd_nth k f t
  end.
Fixpoint swap_at {A} (i : nat) (l : list A) : list A :=
  match l, i with
  | x :: y :: t, O => y :: x :: t
  | x :: t, S k => x :: swap_at k t
  | _, _ => l
  end.

Definition mk_cert n h p nw ex im md cu ag lc : certificate :=
  {| c_network := n; c_height := h; c_prev_ler := p; c_new_ler := nw; c_exits := ex; c_imported := im; c_metadata := md;
     c_custom := cu; c_aggchain := ag; c_leaf_count := lc |}.
Definition mk_exit lt onet oa dn da am md : bridge_exit :=
  {| x_leaf_type := lt; x_orig_net := onet; x_orig_addr := oa; x_dest_net := dn; x_dest_addr := da; x_amount := am; x_metadata := md |}.
Definition on_exit (f : bridge_exit -> bridge_exit) (imp : bool) (i : nat) (c : certificate) : certificate :=
  if imp then set_imported c (upd_nth i (fun im => {| ie_exit := f (ie_exit im); ie_claim := ie_claim im; ie_gi := ie_gi im |}) (c_imported c))
  else set_exits c (upd_nth i f (c_exits c)).
Definition on_claim (f : claim -> claim) (i : nat) (c : certificate) : certificate :=
  set_imported c (upd_nth i (fun im => {| ie_exit := ie_exit im; ie_claim := f (ie_claim im); ie_gi := ie_gi im |}) (c_imported c)).
Definition on_gi (f : global_index -> global_index) (i : nat) (c : certificate) : certificate :=
  set_imported c (upd_nth i (fun im => {| ie_exit := ie_exit im; ie_claim := ie_claim im; ie_gi := f (ie_gi im) |}) (c_imported c)).
Definition claim_proofs (cl : claim) : list merkle_proof :=
  match cl with ClaimMainnet a b _ => [a; b] | ClaimRollup a b c _ => [a; b; c] end.
Definition claim_with_proofs (cl : claim) (ps : list merkle_proof) : claim :=
  match cl, ps with
  | ClaimMainnet _ _ l, [a; b] => ClaimMainnet a b l
  | ClaimRollup _ _ _ l, [a; b; c] => ClaimRollup a b c l
  | _, _ => cl
  end.
Definition claim_with_leaf (cl : claim) (l : l1_leaf) : claim :=
  match cl with ClaimMainnet a b _ => ClaimMainnet a b l | ClaimRollup a b c _ => ClaimRollup a b c l end.

Definition apply_pert (p : pert) (c : certificate) : certificate :=
  match p with
  | PCert f v =>
    mk_cert (match f with CNetwork => v | _ => c_network c end) (match f with CHeight => v | _ => c_height c end)
            (match f with CPrevLer => v | _ => c_prev_ler c end) (match f with CNewLer => v | _ => c_new_ler c end)
            (c_exits c) (c_imported c) (match f with CMetadata => v | _ => c_metadata c end) (c_custom c) (c_aggchain c)
            (match f with CLeafCount => v | _ => c_leaf_count c end)
  | PCustom v => set_custom c v
  | PAggParams v =>
    match c_aggchain c with AdProof pr ve vk _ cx s => set_aggchain c (AdProof pr ve vk v cx s) | _ => c end
  | PAggSig v =>
    match c_aggchain c with
    | AdProof pr ve vk pa cx _ => set_aggchain c (AdProof pr ve vk pa cx v)
    | AdSignature _ => set_aggchain c (AdSignature v)
    | AdNone => c
    end
  | PExitN imp i f v =>
    on_exit (fun b => mk_exit (match f with XLeafType => v | _ => x_leaf_type b end) (match f with XOrigNet => v | _ => x_orig_net b end)
                              (match f with XOrigAddr => v | _ => x_orig_addr b end) (match f with XDestNet => v | _ => x_dest_net b end)
                              (match f with XDestAddr => v | _ => x_dest_addr b end) (x_amount b) (x_metadata b)) imp i c
  | PExitAmount imp i a =>
    on_exit (fun b => mk_exit (x_leaf_type b) (x_orig_net b) (x_orig_addr b) (x_dest_net b) (x_dest_addr b) a (x_metadata b)) imp i c
  | PExitMeta imp i m =>
    on_exit (fun b => mk_exit (x_leaf_type b) (x_orig_net b) (x_orig_addr b) (x_dest_net b) (x_dest_addr b) (x_amount b) m) imp i c
  | PGi i f v =>
    on_gi (fun g => {| gi_mainnet := match f with GFlag => negb (v =? 0) | _ => gi_mainnet g end;
                       gi_rollup := match f with GRollup => v | _ => gi_rollup g end;
                       gi_leaf := match f with GLeaf => v | _ => gi_leaf g end |}) i c
  | PProofRoot i j v =>
    on_claim (fun cl => claim_with_proofs cl (upd_nth j (fun m => {| mp_root := v; mp_siblings := mp_siblings m |}) (claim_proofs cl))) i c
  | PProofSib i j n v =>
    on_claim (fun cl => claim_with_proofs cl
                (upd_nth j (fun m => {| mp_root := mp_root m; mp_siblings := upd_nth n (fun _ => v) (mp_siblings m) |}) (claim_proofs cl))) i c
  | PL1 i f v =>
    on_claim (fun cl => let l := claim_leaf cl in
                claim_with_leaf cl {| l1_index := match f with LIndex => v | _ => l1_index l end;
                                      l1_rer := match f with LRer => v | _ => l1_rer l end;
                                      l1_mer := match f with LMer => v | _ => l1_mer l end;
                                      l1_ger := match f with LGer => v | _ => l1_ger l end;
                                      l1_block_hash := match f with LBlockHash => v | _ => l1_block_hash l end;
                                      l1_timestamp := match f with LTimestamp => v | _ => l1_timestamp l end |}) i c
  | PClaimKind i =>
    on_claim (fun cl => match cl with ClaimMainnet a b l => ClaimRollup a a b l | ClaimRollup a b c' l => ClaimMainnet a c' l end) i c
  | PSwap imp i => if imp then set_imported c (swap_at i (c_imported c)) else set_exits c (swap_at i (c_exits c))
  | PDropLast imp => if imp then set_imported c (removelast (c_imported c)) else set_exits c (removelast (c_exits c))
  end.

(* ---- equality tests on the covered projections ---- *)
Definition cov_exit_eqb (a b : covered_exit_t) : bool :=
  let '(a1, a2, a3, a4, a5, a6, a7) := a in let '(b1, b2, b3, b4, b5, b6, b7) := b in
  N.eqb a1 b1 && N.eqb a2 b2 && N.eqb a3 b3 && N.eqb a4 b4 && N.eqb a5 b5 && N.eqb a6 b6 && bytes_eqb a7 b7.
Definition cov_mproof_eqb : N * list N -> N * list N -> bool := pair_eqb N.eqb (list_eqb N.eqb).
Definition cov_claim_eqb (a b : covered_claim_t) : bool :=
  let '(k1, p1, (g1, h1, t1)) := a in let '(k2, p2, (g2, h2, t2)) := b in
  Bool.eqb k1 k2 && list_eqb cov_mproof_eqb p1 p2 && N.eqb g1 g2 && N.eqb h1 h2 && N.eqb t1 t2.
Definition cov_imported_eqb (a b : covered_imported_t) : bool :=
  let '(e1, c1, g1) := a in let '(e2, c2, g2) := b in cov_exit_eqb e1 e2 && cov_claim_eqb c1 c2 && N.eqb g1 g2.
Definition cov_id_eqb (a b : covered_id_t) : bool :=
  let '(n1, h1, p1, w1, e1, i1) := a in let '(n2, h2, p2, w2, e2, i2) := b in
  N.eqb n1 n2 && N.eqb h1 h2 && N.eqb p1 p2 && N.eqb w1 w2 && list_eqb cov_exit_eqb e1 e2 && list_eqb cov_imported_eqb i1 i2.
Definition cov_pp_eqb (a b : covered_pp_t) : bool := pair_eqb N.eqb (list_eqb N.eqb) a b.
Definition cov_fep_eqb (a b : covered_fep_t) : bool :=
  let '(w1, l1, h1, p1) := a in let '(w2, l2, h2, p2) := b in
  N.eqb w1 w2 && list_eqb (pair_eqb N.eqb cov_exit_eqb) l1 l2 && N.eqb h1 h2 && bytes_eqb p1 p2.

(* ---- execution instance: real Keccak-256 ---- *)
Definition K := keccakN.
Definition hN (bs : bytes) : N := of_be bs.                 (* digest bytes as a number, to compare with the observed hex *)
Definition id_of (c : certificate) : N := hN (cert_hash K c).
Definition pp_of (c : certificate) : N := hN (pp_hash_to_sign K c).
Definition fep_of (c : certificate) : N := hN (fep_hash_to_sign K c).
Definition h3_of (c : certificate) : N * N * N := (id_of c, pp_of c, fep_of c).
Definition h3_eqb (a b : N * N * N) : bool :=
  let '(a1, a2, a3) := a in let '(b1, b2, b3) := b in N.eqb a1 b1 && N.eqb a2 b2 && N.eqb a3 b3.

(* proof, version, vkey, params, context, custom chain data: the aggchain proof handed to the FEP flow *)
Definition prover_t : Type := bytes * bytes * bytes * N * list (bytes * bytes) * bytes.

Record obs := {
  o_fep : bool;                                    (* scheme: false = PP flow, true = aggchain-prover flow *)
  o_in : certificate;                              (* what baseFlow.BuildCertificate returned *)
  o_prover : prover_t;
  o_err : bool;                                    (* BuildCertificate failed *)
  o_signer_calls : N;
  o_signer_in : N;                                 (* hash handed to the signer *)
  o_sig_out : bytes;                               (* what the signer returned *)
  o_recover_ok : bool;                             (* Go: ecrecover(signer_in, attached signature) = configured key *)
  o_final : certificate;                           (* the certificate handed to SendCertificate and to json.Marshal *)
  o_wire : option w_cert;                          (* captured protobuf request *)
  o_h : N * N * N;                                 (* Certificate.Hash, PPHashToSign, FEPHashToSign of the final certificate *)
  o_sub_exits : list N;                            (* BridgeExit.Hash per exit *)
  o_sub_imp : list (N * N * N * N * list N * N);   (* ImportedBridgeExit.Hash, its BridgeExit / ClaimData / GlobalIndex hashes, proofs, leaf *)
  o_json : option jproj;                           (* None: json.Marshal panicked *)
  o_rt : option certificate;                       (* certificate read back from the stored copy *)
  o_hrt : N * N * N;
  o_perts : list (pert * (N * N * N));
}.

(* ---- corr: model = implementation, byte for byte ---- *)
Definition model_final (o : obs) : certificate :=
  let '(proof, version, vkey, params, ctx, custom) := o_prover o in
  if o_fep o then sign_step_fep K (fun _ => o_sig_out o) (o_in o) proof version vkey params ctx custom
  else sign_step_pp K (fun _ => o_sig_out o) (o_in o).
Definition model_signer_in (o : obs) : N :=
  let '(proof, version, vkey, params, ctx, custom) := o_prover o in
  if o_fep o then hN (signer_input_fep K (o_in o) proof version vkey params ctx custom) else hN (signer_input_pp K (o_in o)).
Definition model_sub_imp (i : imported_exit) : N * N * N * N * list N * N :=
  (hN (imported_hash K i), hN (exit_hash K (ie_exit i)), hN (claim_hash K (ie_claim i)), hN (gi_hash K (ie_gi i)),
   map (fun m => hN (mproof_hash K m)) (claim_proofs (ie_claim i)), hN (l1leaf_hash K (claim_leaf (ie_claim i)))).
Definition sub_imp_eqb (a b : N * N * N * N * list N * N) : bool :=
  let '(a1, a2, a3, a4, a5, a6) := a in let '(b1, b2, b3, b4, b5, b6) := b in
  N.eqb a1 b1 && N.eqb a2 b2 && N.eqb a3 b3 && N.eqb a4 b4 && list_eqb N.eqb a5 b5 && N.eqb a6 b6.

Definition corr (o : obs) : bool :=
  let c := o_final o in
  negb (o_err o) &&
  cert_eqb (model_final o) c &&
  N.eqb (model_signer_in o) (o_signer_in o) &&
  h3_eqb (h3_of c) (o_h o) &&
  list_eqb N.eqb (map (fun b => hN (exit_hash K b)) (c_exits c)) (o_sub_exits o) &&
  list_eqb sub_imp_eqb (map model_sub_imp (c_imported c)) (o_sub_imp o) &&
  opt_eqb w_cert_eqb (to_wire c) (o_wire o) &&
  opt_eqb jproj_eqb (option_map proj_cert (to_json c)) (o_json o) &&
  opt_eqb cert_eqb (json_round_trip c) (o_rt o) &&
  match o_rt o with Some rt => h3_eqb (h3_of rt) (o_hrt o) | None => true end &&
  forallb (fun ph => h3_eqb (h3_of (apply_pert (fst ph) c)) (snd ph)) (o_perts o).

(* ---- spec: the property, on what the implementation produced ---- *)
Definition covered_eqb (a b : certificate) : bool :=
  cov_id_eqb (covered_id K a) (covered_id K b) && cov_pp_eqb (covered_pp a) (covered_pp b) &&
  cov_fep_eqb (covered_fep K a) (covered_fep K b).
Definition scheme_hash (o : obs) (h : N * N * N) : N := let '(_, pp, fep) := h in if o_fep o then fep else pp.

Definition spec_sign (o : obs) : bool :=
  negb (o_err o) && N.eqb (o_signer_calls o) 1 &&
  bytes_eqb (cert_signature (o_final o)) (o_sig_out o) &&       (* the attached signature is the signer's output *)
  o_recover_ok o &&
  N.eqb (o_signer_in o) (scheme_hash o (o_h o)).                 (* signed hash = the implementation's commitment of the FINAL certificate *)

(* canonical certificates: what is SENT carries every covered field, and the commitment recomputed (reference
   definition) from the message alone is the hash that was signed and the identity the node computed *)
Definition spec_wire (o : obs) : bool :=
  if canonicalb (o_final o) then
    match o_wire o with
    | None => false
    | Some w =>
      let r := of_wire w in
      covered_eqb r (o_final o) &&
      N.eqb (o_signer_in o) (if o_fep o then fep_of r else pp_of r) &&
      h3_eqb (h3_of r) (o_h o) &&
      bytes_eqb (cert_signature r) (o_sig_out o)
    end
  else
    N.eqb (o_signer_in o) (if o_fep o then fep_of (o_final o) else pp_of (o_final o)) &&
    (* whatever else is non-canonical: the global index WORD of every imported exit on the wire is the number both commitments cover
       (GenerateGlobalIndex: a set mainnet flag clears the rollup index) *)
    match o_wire o with
    | None => true
    | Some w => list_eqb bytes_eqb (map w_gi (wc_imported w)) (map (fun i => fbe 32 (gi_value (ie_gi i))) (c_imported (o_final o)))
    end.
(* the STORED copy reproduces the covered fields, the commitments and the signature *)
Definition spec_stored (o : obs) : bool :=
  if canonicalb (o_final o) then
    match o_rt o with
    | None => false
    | Some rt => covered_eqb rt (o_final o) && h3_eqb (o_hrt o) (o_h o) && bytes_eqb (cert_signature rt) (o_sig_out o)
    end
  else true.
(* sensitivity: a perturbed certificate has a different commitment iff it differs in a field covered by that commitment *)
Definition spec_pert (o : obs) (ph : pert * (N * N * N)) : bool :=
  let c := o_final o in
  let c' := apply_pert (fst ph) c in
  let '(id0, pp0, fep0) := o_h o in
  let '(id1, pp1, fep1) := snd ph in
  Bool.eqb (negb (N.eqb id0 id1)) (negb (cov_id_eqb (covered_id K c') (covered_id K c))) &&
  Bool.eqb (negb (N.eqb pp0 pp1)) (negb (cov_pp_eqb (covered_pp c') (covered_pp c))) &&
  Bool.eqb (negb (N.eqb fep0 fep1)) (negb (cov_fep_eqb (covered_fep K c') (covered_fep K c))).
Definition spec (o : obs) : bool :=
  spec_sign o && spec_wire o && spec_stored o && forallb (spec_pert o) (o_perts o).

Fixpoint bad_indices {A} (f : A -> bool) (i : nat) (l : list A) : list nat :=
  match l with [] => [] | x :: t => if f x then bad_indices f (S i) t else i :: bad_indices f (S i) t end.
