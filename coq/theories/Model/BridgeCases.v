(* Correspondence and property predicates for bridge-store scenarios (C01, C04, C07, C08).
   A case = operation sequence + what the real processor returned (results, snapshots) +, for the as-if
   properties, the observations of a reference ("twin") run of the real processor on the clean history. *)
From Coq Require Import NArith ZArith List Bool.
From Verif Require Import Base.Bytes Base.FastBytes Base.Hash Model.Merkle Model.TreeStore Model.BridgeStore Model.Contracts.
Import ListNotations.
Open Scope N_scope.

Inductive op := OBlock (k : block) (f : fault) | OReorg (b : N) | ORestart | OSnap | OReset
  | OHidden (k : block)                  (* the block is attempted while the node table of the exit tree can neither be read nor written *)
  | ODrive (bs : list (block * fault))    (* the blocks, all buffered, consumed by the real sync.EVMDriver; faults are transient *)
  | OPrestate (n x blk : N).             (* synthetic pre-state: an exit tree of n (>= 1) equal leaves x recorded at block blk (root row + path nodes only) *)

(* result codes: 0 ok, 1 inconsistent, 2 fault, 3 constraint, 9 other *)
Definition code_of (r : option perr) : N :=
  match r with None => 0 | Some PInconsistent => 1 | Some PFault => 2 | Some PConstraint => 3 | Some (PTree _) => 9 end.

Record proofobs := mkPO { po_root : N; po_idx : N; po_sibs : list N; po_calc : option N; po_byler : option N }.
Record snap := mkSnap {
  sn_last : N; sn_halted : bool; sn_memlast : Z;
  sn_roots : list (N * option (N * N * N));        (* idx -> (hash, block, bpos) *)
  sn_bridges : list (N * N * N * N * N);           (* block, pos, tag, dc, leaf *)
  sn_bridges_err : bool;
  sn_claims : list (N * N * N);
  sn_tm : list (N * N * N);
  sn_legacy : list (N * N * N);
  sn_bridges_pg : list (N * N * N * N);            (* block, pos, tag, dc ; deposit_count DESC *)
  sn_claims_pg : list (N * N * N);
  sn_proofs : list proofobs;
  sn_extra : list N }.                             (* digests of further facade answers; compared with the twin only (not modelled) *)

Record bcase := mkCase {
  c_ops : list op; c_res : list N; c_snaps : list snap; c_leaves : list N;
  c_twin_ops : list op; c_twin_res : list N; c_twin_snaps : list snap }.

(* ---------- equality helpers ---------- *)
Fixpoint list_eqb {A} (eqb : A -> A -> bool) (a b : list A) : bool :=
  match a, b with [], [] => true | x :: a', y :: b' => eqb x y && list_eqb eqb a' b' | _, _ => false end.
Definition opt_eqb {A} (eqb : A -> A -> bool) (a b : option A) : bool :=
  match a, b with None, None => true | Some x, Some y => eqb x y | _, _ => false end.
Definition n3_eqb (a b : N * N * N) : bool := let '(a1, a2, a3) := a in let '(b1, b2, b3) := b in (a1 =? b1) && (a2 =? b2) && (a3 =? b3).
Definition n4_eqb (a b : N * N * N * N) : bool := let '(a1, a2, a3, a4) := a in let '(b1, b2, b3, b4) := b in (a1 =? b1) && (a2 =? b2) && (a3 =? b3) && (a4 =? b4).
Definition n5_eqb (a b : N * N * N * N * N) : bool :=
  let '(a1, a2, a3, a4, a5) := a in let '(b1, b2, b3, b4, b5) := b in (a1 =? b1) && (a2 =? b2) && (a3 =? b3) && (a4 =? b4) && (a5 =? b5).
Definition rootobs_eqb (a b : N * option (N * N * N)) : bool := (fst a =? fst b) && opt_eqb n3_eqb (snd a) (snd b).
Definition proofobs_eqb (a b : proofobs) : bool :=
  (po_root a =? po_root b) && (po_idx a =? po_idx b) && list_eqb N.eqb (po_sibs a) (po_sibs b) &&
  opt_eqb N.eqb (po_calc a) (po_calc b) && opt_eqb N.eqb (po_byler a) (po_byler b).
(* snapshot equality on everything a client can query (the in-memory lastIndex is NOT a query) *)
Definition snap_query_eqb (a b : snap) : bool :=
  (sn_last a =? sn_last b) && Bool.eqb (sn_halted a) (sn_halted b) &&
  list_eqb rootobs_eqb (sn_roots a) (sn_roots b) && list_eqb n5_eqb (sn_bridges a) (sn_bridges b) &&
  Bool.eqb (sn_bridges_err a) (sn_bridges_err b) &&
  list_eqb n3_eqb (sn_claims a) (sn_claims b) && list_eqb n3_eqb (sn_tm a) (sn_tm b) &&
  list_eqb n3_eqb (sn_legacy a) (sn_legacy b) && list_eqb n4_eqb (sn_bridges_pg a) (sn_bridges_pg b) &&
  list_eqb n3_eqb (sn_claims_pg a) (sn_claims_pg b) && list_eqb proofobs_eqb (sn_proofs a) (sn_proofs b) &&
  list_eqb N.eqb (sn_extra a) (sn_extra b).
Definition snap_eqb (a b : snap) : bool := snap_query_eqb a b && Z.eqb (sn_memlast a) (sn_memlast b).

(* ---------- the model's snapshot, taken at the points the implementation was observed ---------- *)
(* last successfully processed leaf per deposit count (what the harness uses for CalculateRoot) *)
Definition leaf_of (st : bstate) (dc : N) : option N :=
  option_map (fun r => bridge_leaf (snd r)) (find (fun r => b_dc (snd r) =? dc) (rev (d_bridges (st_db st)))).

Definition row3 (r : row) := (w_block r, w_pos r, w_tag r).
Definition model_snap (st : bstate) (lastleaf : N -> option N) (obs : snap) : snap :=
  let d := st_db st in
  (* a halted syncer answers every query, GetLastProcessedBlock included, with the inconsistency error (observed as 0) *)
  if st_halted st then mkSnap 0 true (m_last (st_mem st)) [] [] false [] [] [] [] [] [] (sn_extra obs) else
  let last := last_processed d in
  mkSnap last false (m_last (st_mem st))
    (map (fun o => (fst o, option_map (fun r => (r_hash r, r_block r, r_bpos r)) (root_by_index (d_tree d) (fst o)))) (sn_roots obs))
    (match get_bridges d 0 last with Some l => map (fun r => (fst r, b_pos (snd r), b_tag (snd r), b_dc (snd r), bridge_leaf (snd r))) l | None => [] end)
    false
    (match get_claims d 0 last with Some l => map row3 l | None => [] end)
    (map row3 (sort_by (fun r => (w_block r, w_pos r)) (d_tm d)))
    (map row3 (sort_by (fun r => (w_block r, w_pos r)) (d_legacy d)))
    (* ORDER BY deposit_count DESC *)
    (rev (map (fun r => (fst r, b_pos (snd r), b_tag (snd r), b_dc (snd r))) (sort_by (fun r => (b_dc (snd r), 0)) (d_bridges d))))
    (map row3 (sort_by (fun r => (w_block r, w_pos r)) (d_claims d)))
    (map (fun o => let sibs := get_proof (d_tree d) (po_idx o) (po_root o) in
                   mkPO (po_root o) (po_idx o) sibs
                        (option_map (fun lf => calculate_root lf sibs (po_idx o)) (lastleaf (po_idx o)))
                        (option_map r_pos (root_by_hash (d_tree d) (po_root o))))
         (sn_proofs obs))
    (sn_extra obs).

(* sync.EVMDriver.handleNewBlock over a buffer of downloaded blocks: ErrInconsistentState => the downloader is cancelled but the
   blocks already buffered are still consumed; any other error => the same block is retried (the injected fault is transient,
   so the retry runs without it); a block that keeps failing blocks the driver for good *)
Definition upd_leaves (m : N -> option N) (k : block) : N -> option N :=
  fold_left (fun m e => match e with EBridge b => fun x => if x =? b_dc b then Some (bridge_leaf b) else m x | _ => m end) (k_events k) m.
Fixpoint drive (bs : list (block * fault)) (st : bstate) (ll : N -> option N) : bstate * (N -> option N) :=
  match bs with
  | [] => (st, ll)
  | (k, f) :: rest =>
    match process_block f st k with
    | (None, st') => drive rest st' (upd_leaves ll k)
    | (Some PInconsistent, st') => drive rest st' ll
    | (Some _, st') =>
      match process_block None st' k with
      | (None, st'') => drive rest st'' (upd_leaves ll k)
      | (Some PInconsistent, st'') => drive rest st'' ll
      | (Some _, st'') => (st'', ll)
      end
    end
  end.

(* synthetic pre-state for high leaf indices: the root row and the 32 path nodes of the last leaf of a tree holding n equal
   leaves x (what a node that had synced n deposits would have on that path). full h = root of a full height-h subtree of x's;
   part h = root of the height-h subtree containing leaf n-1. *)
Fixpoint full_sub (h : nat) (x : N) : N := match h with O => x | S h' => let f := full_sub h' x in nodeN f f end.
Fixpoint prestate_nodes (fuel h : nat) (last x cur : N) : N * list (N * (N * N)) :=
  match fuel with
  | O => (cur, [])
  | S fuel' =>
    let '(l, r) := if N.testbit last (N.of_nat h) then (full_sub h x, cur) else (cur, zh h) in
    let p := nodeN l r in
    let '(root, ns) := prestate_nodes fuel' (S h) last x p in (root, (p, (l, r)) :: ns)
  end.
Definition prestate_tree (n x blk : N) : tdb :=
  let '(root, ns) := prestate_nodes HEIGHT 0 (n - 1) x x in
  mkTdb [mkRoot root (n - 1) blk 0] (store_nodes (NM.empty _) ns).
Definition prestate_state (n x blk : N) : bstate :=
  mkBst (mkBdb [blk] [] [] [] [] (prestate_tree n x blk)) tmem_new false.
(* the DepositContract after n deposits of x: branch[h] = full subtree at every level whose bit is set in n *)
Definition prestate_contract (n x : N) : dcontract := mkDC n (map (fun h => full_sub h x) (seq 0 32)).

(* run the operation list on the model; `lastleaf` tracks the last successfully processed leaf per dc *)
Definition upd_leaf (m : N -> option N) (k v : N) : N -> option N := fun x => if x =? k then Some v else m x.
Fixpoint run_ops (ops : list op) (st : bstate) (lastleaf : N -> option N) (obs : list snap) : list N * list snap :=
  match ops with
  | [] => ([], [])
  | o :: rest =>
    match o with
    | OBlock k f =>
      let '(r, st') := process_block f st k in
      let ll := match r with
                | None => fold_left (fun m e => match e with EBridge b => upd_leaf m (b_dc b) (bridge_leaf b) | _ => m end) (k_events k) lastleaf
                | Some _ => lastleaf end in
      let '(rs, ss) := run_ops rest st' ll obs in (code_of r :: rs, ss)
    | OHidden k =>
      (* executable layer only (the reachability theorems have no such step). The attempt is process_block on the same database with
         an EMPTY node table and the first node insert failing: a cache rebuild that has a root to walk from fails on its first read
         and leaves the memory as it is (lastIndex is set only after the walk); otherwise the first deposit's hashing loop runs
         (memory touched as for any abandoned append) and its first node insert fails. Afterwards the table is back: the
         database is the one before the attempt (a block without deposits succeeds and only adds its other rows). *)
      let d := st_db st in
      let hid := mkBst (set_tree d (mkTdb (t_roots (d_tree d)) (NM.empty _))) (st_mem st) (st_halted st) in
      let '(r, sth) := process_block (Some (TRht, 0%nat)) hid k in
      let st' := match r with
                 | None => mkBst (set_tree (st_db sth) (d_tree d)) (st_mem sth) (st_halted sth)
                 | Some _ => mkBst d (st_mem sth) (st_halted sth)
                 end in
      let code := match r with None => 0 | Some PInconsistent => 1 | Some PConstraint => 3 | Some _ => 9 end in
      let '(rs, ss) := run_ops rest st' lastleaf obs in (code :: rs, ss)
    | OReorg b => let '(rs, ss) := run_ops rest (reorg st b) lastleaf obs in (0 :: rs, ss)
    | ORestart => let '(rs, ss) := run_ops rest (restart st) lastleaf obs in (0 :: rs, ss)
    | OReset => let '(rs, ss) := run_ops rest bstate_new (fun _ => None) obs in (0 :: rs, ss)
    | ODrive bs => let '(st', ll) := drive bs st lastleaf in let '(rs, ss) := run_ops rest st' ll obs in (0 :: rs, ss)
    | OPrestate n x blk => let '(rs, ss) := run_ops rest (prestate_state n x blk) (fun _ => None) obs in (0 :: rs, ss)
    | OSnap =>
      match obs with
      | [] => let '(rs, ss) := run_ops rest st lastleaf [] in (0 :: rs, ss)
      | ob :: obs' => let '(rs, ss) := run_ops rest st lastleaf obs' in (0 :: rs, model_snap st lastleaf ob :: ss)
      end
    end
  end.

Definition block_leaves (k : block) : list N := flat_map (fun e => match e with EBridge b => [bridge_leaf b] | _ => [] end) (k_events k).
Definition all_leaves (ops : list op) : list N :=
  flat_map (fun o => match o with OBlock k _ | OHidden k => block_leaves k | ODrive bs => flat_map (fun kf => block_leaves (fst kf)) bs | _ => [] end) ops.

(* model == implementation, on the main run and on the twin run *)
Definition corr_run (ops : list op) (res : list N) (snaps : list snap) : bool :=
  let '(rs, ss) := run_ops ops bstate_new (fun _ => None) snaps in
  list_eqb N.eqb rs res && list_eqb snap_eqb ss snaps.
Definition corr (c : bcase) : bool :=
  corr_run (c_ops c) (c_res c) (c_snaps c) && list_eqb N.eqb (all_leaves (c_ops c)) (c_leaves c) &&
  corr_run (c_twin_ops c) (c_twin_res c) (c_twin_snaps c).

(* ---------- property predicates on the implementation's observations ---------- *)
(* the deposits of a fault-free, reorg-free history in chain order *)
Definition bridges_of (ops : list op) : list bridge_ev :=
  flat_map (fun o => match o with OBlock k None => flat_map (fun e => match e with EBridge b => [b] | _ => [] end) (k_events k) | _ => [] end) ops.

(* C01: root reported for deposit count i = DepositContract.getRoot() after i+1 deposits of the leaves the node
   itself reports (Bridge.Hash), and each such leaf = getLeafValue(fields, keccak(metadata)). Reorg-free histories. *)
Fixpoint contract_roots (c : dcontract) (leaves : list N) : list N :=
  match leaves with [] => [] | l :: t => let c' := dc_deposit c l in dc_get_root c' :: contract_roots c' t end.
Definition first_prestate (ops : list op) : option (N * N) :=
  match ops with OPrestate n x _ :: _ => Some (n, x) | _ => None end.
Fixpoint list_rel2 {A B} (f : A -> B -> bool) (a : list A) (b : list B) : bool :=
  match a, b with [], [] => true | x :: a', y :: b' => f x y && list_rel2 f a' b' | _, _ => false end.
(* the deposits processed before each snapshot of a reorg-free, fault-free history, snapshot by snapshot *)
Fixpoint bridges_at_snaps (ops : list op) (acc : list bridge_ev) : list (list bridge_ev) :=
  match ops with
  | [] => []
  | OSnap :: t => acc :: bridges_at_snaps t acc
  | o :: t => bridges_at_snaps t (acc ++ bridges_of [o])
  end.
(* what GetBridges(0, last) (the list the certificate builder works from) must be: one row per deposit, in chain order, carrying the
   deposit's block, position and count, and hashing to the contract's leaf value *)
Definition bridges_listed_ok (bs : list bridge_ev) (rows : list (N * N * N * N * N)) : bool :=
  list_rel2 (fun (b : bridge_ev) (r : N * N * N * N * N) =>
              let '(blk, pos, _, dc, leaf) := r in
              (b_dc b =? dc) && (b_pos b =? pos) &&
              (leaf =? get_leaf_value (b_lt b) (b_onet b) (b_oaddr b) (b_dnet b) (b_daddr b) (b_amount b) (keccakN (b_meta b))))
           bs rows.
Definition spec_c01 (c : bcase) : bool :=
  let bs := bridges_of (c_ops c) in
  (* deposit count of the first leaf the node itself appended (n after a synthetic pre-state of n leaves) *)
  let base : N := match first_prestate (c_ops c) with Some (n, _) => n | None => 0 end in
  let expected := match first_prestate (c_ops c) with
                  | Some (n, x) => contract_roots (prestate_contract n x) (c_leaves c)
                  | None => contract_roots dc_init (c_leaves c) end in
  forallb (fun r => N.eqb r 0) (c_res c) &&
  list_eqb N.eqb (c_leaves c)
     (map (fun b => get_leaf_value (b_lt b) (b_onet b) (b_oaddr b) (b_dnet b) (b_daddr b) (b_amount b) (keccakN (b_meta b))) bs) &&
  forallb (fun s =>
     forallb (fun o => if fst o <? base then true else
                       match snd o with
                       | Some (h, _, _) => match nth_error expected (N.to_nat (fst o - base)) with Some e => N.eqb h e | None => false end
                       | None => Nat.leb (length expected) (N.to_nat (fst o - base)) end)
             (sn_roots s) &&
     (* every deposit has a root *)
     Nat.leb (length expected) (length (filter (fun o => negb (fst o <? base) && match snd o with Some _ => true | None => false end) (sn_roots s))))
   (c_snaps c) &&
  list_rel2 (fun bs (s : snap) => negb (sn_bridges_err s) && bridges_listed_ok bs (sn_bridges s)) (bridges_at_snaps (c_ops c) []) (c_snaps c) &&
  negb (Nat.eqb (length (c_snaps c)) 0).

(* C04 / C07: every query answers as on the reference node (twin run of the real code on the clean history) *)
Definition spec_asif (c : bcase) : bool :=
  list_eqb snap_query_eqb (c_snaps c) (c_twin_snaps c) && negb (Nat.eqb (length (c_snaps c)) 0).

(* C08: every proof served hashes, with the leaf at that position, to the root it was asked for,
   and that root is the one recorded for the named leaf count (reference recomputation with Keccak) *)
Definition spec_c08 (c : bcase) : bool :=
  forallb (fun s => forallb (fun p =>
      (* the leaf the node itself reports for that deposit count in this snapshot *)
      match find (fun r => let '(_, _, _, dc, _) := r in dc =? po_idx p) (sn_bridges s) with
      | Some (_, _, _, _, leaf) =>
          N.eqb (calculate_root leaf (po_sibs p) (po_idx p)) (po_root p) && Nat.eqb (length (po_sibs p)) 32 &&
          opt_eqb N.eqb (po_calc p) (Some (po_root p))
      | None => false end) (sn_proofs s)) (c_snaps c).
(* (a history whose deposits were all reorged away serves no proof: nothing to judge; counted as trivial in evidence) *)

Fixpoint bad_indices {A} (f : A -> bool) (i : nat) (l : list A) : list nat :=
  match l with [] => [] | x :: t => if f x then bad_indices f (S i) t else i :: bad_indices f (S i) t end.
