(* Executable model of bridgesync's processor (store + exit tree) : ProcessBlock with storage faults,
   Reorg, restart, and the queries used by the checks. Definitions only.
   Event payloads that the processor only stores and returns are carried as an opaque tag. *)
From Coq Require Import NArith ZArith List Bool.
From Verif Require Import Base.Bytes Base.FastBytes Base.Hash Model.Merkle Model.TreeStore.
Import ListNotations.
Open Scope N_scope.

Record bridge_ev := mkB {
  b_pos : N; b_dc : N;                       (* block position, deposit count *)
  b_lt : N; b_onet : N; b_oaddr : N; b_dnet : N; b_daddr : N; b_amount : N; b_meta : bytes;
  b_tag : N }.

(* Bridge.Hash(): keccak(leafType:1 | originNetwork:4 BE | originAddress:20 | destNetwork:4 BE | destAddress:20 |
                         amount:32 BE (FillBytes) | keccak(metadata)) *)
Definition bridge_leaf_preimage (b : bridge_ev) : bytes :=
  [b_lt b] ++ be_fast 4 (b_onet b) ++ be_fast 20 (b_oaddr b) ++ be_fast 4 (b_dnet b) ++ be_fast 20 (b_daddr b)
  ++ be_fast 32 (b_amount b) ++ keccak_bytes (b_meta b).
Definition bridge_leaf (b : bridge_ev) : N := keccakN (bridge_leaf_preimage b).

Inductive event :=
| EBridge (b : bridge_ev)
| EClaim (pos tag : N)
| ETokenMapping (pos tag : N)
| ELegacy (pos addr tag : N)            (* LegacyTokenMigration with legacy_token_address = addr *)
| ERemoveLegacy (addr : N).             (* DELETE FROM legacy_token_migration WHERE legacy_token_address = addr *)

Record block := mkBlock { k_num : N; k_events : list event }.

Record row := mkRow { w_block : N; w_pos : N; w_tag : N; w_addr : N }.

Record bdb := mkBdb {
  d_blocks : list N;                       (* block.num PRIMARY KEY *)
  d_bridges : list (N * bridge_ev);        (* (block_num, event); PRIMARY KEY (block_num, block_pos) *)
  d_claims : list row;
  d_tm : list row;
  d_legacy : list row;
  d_tree : tdb }.
Definition bdb_empty := mkBdb [] [] [] [] [] tdb_empty.

Record bstate := mkBst { st_db : bdb; st_mem : tmem; st_halted : bool }.
Definition bstate_new := mkBst bdb_empty tmem_new false.

(* which table a storage statement touches; a fault is "the k-th write to table T in this call fails" *)
Inductive table := TBlock | TRoot | TRht | TBridge | TClaim | TTm | TLegacy | TLegacyDel | TCommit.
Definition table_eqb (a b : table) : bool :=
  match a, b with
  | TBlock, TBlock | TRoot, TRoot | TRht, TRht | TBridge, TBridge | TClaim, TClaim | TTm, TTm
  | TLegacy, TLegacy | TLegacyDel, TLegacyDel | TCommit, TCommit => true
  | _, _ => false end.
Definition fault := option (table * nat).      (* None = no fault *)

Inductive perr := PInconsistent | PConstraint | PFault | PTree (e : terr).

(* transaction context: working db, memory, per-table write counters, number of leaves added (rollback callbacks) *)
Record txc := mkTx { x_db : bdb; x_mem : tmem; x_cnt : table -> nat; x_added : nat }.
Definition bump (c : table -> nat) (t : table) : table -> nat := fun t' => if table_eqb t' t then S (c t') else c t'.
(* does this write hit the injected fault? *)
Definition hits (f : fault) (c : table -> nat) (t : table) : bool :=
  match f with Some (t', k) => table_eqb t t' && Nat.eqb (c t) k | None => false end.

(* the node-table fault of the harness counts SUCCESSFUL inserts into rht (an insert refused as duplicate rolls its own
   trigger side effects back): fault (TRht, k) fires on the insert attempted when 32*k+5 new nodes have been written in this
   call. `n_new` = number of new nodes the current leaf writes. *)
Definition hits_rht (f : fault) (c : table -> nat) (n_new : nat) : bool :=
  match f with
  | Some (TRht, k) => Nat.leb (c TRht) (32 * k + 5)%nat && Nat.ltb (32 * k + 5)%nat (c TRht + n_new)%nat
  | _ => false
  end.
Definition bump_by (c : table -> nat) (t : table) (n : nat) : table -> nat := fun t' => if table_eqb t' t then (c t' + n)%nat else c t'.

Definition row_key_exists (rs : list row) (b p : N) : bool := existsb (fun r => (w_block r =? b) && (w_pos r =? p)) rs.

Definition set_tree (d : bdb) (t : tdb) : bdb := mkBdb (d_blocks d) (d_bridges d) (d_claims d) (d_tm d) (d_legacy d) t.

(* ---- generic part (node hash, zero table and leaf hash as parameters; see TreeStore.Gen) ---- *)
Module Gen.
Section S.
Variable HT : nat.
Variable node : N -> N -> N.
Variable zhf : nat -> N.
Variable leafh : bridge_ev -> N.

(* one event of ProcessBlock *)
Definition process_event (f : fault) (blk : N) (x : txc) (e : event) : perr + txc :=
  let d := x_db x in
  match e with
  | EBridge b =>
    (* exitTree.AddLeaf: root insert, then the rht inserts (see hits_rht), lastIndex++ *)
    match TreeStore.Gen.add_leaf_exec HT node zhf (d_tree d) (x_mem x) blk (b_pos b) (b_dc b) (leafh b) with
    | (mem', inl e) => inl (PTree e)
    | (mem', inr t') =>
      let n_new := (NM.cardinal (t_rht t') - NM.cardinal (t_rht (d_tree d)))%nat in
      if hits f (x_cnt x) TRoot then inl PFault else
      if hits_rht f (x_cnt x) n_new then inl PFault else
      let c1 := bump_by (bump (x_cnt x) TRoot) TRht n_new in
      if hits f c1 TBridge then inl PFault else
      if existsb (fun r => (fst r =? blk) && (b_pos (snd r) =? b_pos b)) (d_bridges d) then inl PConstraint else
      inr (mkTx (mkBdb (d_blocks d) (d_bridges d ++ [(blk, b)]) (d_claims d) (d_tm d) (d_legacy d) t')
                (mem_commit_leaf mem') (bump c1 TBridge) (S (x_added x)))
    end
  | EClaim pos tag =>
    if hits f (x_cnt x) TClaim then inl PFault else
    if row_key_exists (d_claims d) blk pos then inl PConstraint else
    inr (mkTx (mkBdb (d_blocks d) (d_bridges d) (d_claims d ++ [mkRow blk pos tag 0]) (d_tm d) (d_legacy d) (d_tree d))
              (x_mem x) (bump (x_cnt x) TClaim) (x_added x))
  | ETokenMapping pos tag =>
    if hits f (x_cnt x) TTm then inl PFault else
    if row_key_exists (d_tm d) blk pos then inl PConstraint else
    inr (mkTx (mkBdb (d_blocks d) (d_bridges d) (d_claims d) (d_tm d ++ [mkRow blk pos tag 0]) (d_legacy d) (d_tree d))
              (x_mem x) (bump (x_cnt x) TTm) (x_added x))
  | ELegacy pos addr tag =>
    if hits f (x_cnt x) TLegacy then inl PFault else
    if row_key_exists (d_legacy d) blk pos then inl PConstraint else
    inr (mkTx (mkBdb (d_blocks d) (d_bridges d) (d_claims d) (d_tm d) (d_legacy d ++ [mkRow blk pos tag addr]) (d_tree d))
              (x_mem x) (bump (x_cnt x) TLegacy) (x_added x))
  | ERemoveLegacy addr =>
    if hits f (x_cnt x) TLegacyDel then inl PFault else
    inr (mkTx (mkBdb (d_blocks d) (d_bridges d) (d_claims d) (d_tm d)
                     (filter (fun r => negb (w_addr r =? addr)) (d_legacy d)) (d_tree d))
              (x_mem x) (bump (x_cnt x) TLegacyDel) (x_added x))
  end.

(* memory and number of registered rollback callbacks after a FAILED event: initCache and the hashing loop may have
   touched the memory; if AddLeaf itself succeeded (failure at the bridge row insert) lastIndex was incremented
   and one more callback is registered *)
Definition after_failed_event (f : fault) (blk : N) (x : txc) (e : event) : tmem * nat :=
  match e with
  | EBridge b =>
    match TreeStore.Gen.add_leaf_exec HT node zhf (d_tree (x_db x)) (x_mem x) blk (b_pos b) (b_dc b) (leafh b) with
    | (mem', inl _) => (mem', x_added x)
    | (mem', inr t') =>
      let n_new := (NM.cardinal (t_rht t') - NM.cardinal (t_rht (d_tree (x_db x))))%nat in
      if hits f (x_cnt x) TRoot || hits_rht f (x_cnt x) n_new then (mem', x_added x)
      else (mem_commit_leaf mem', S (x_added x))
    end
  | _ => (x_mem x, x_added x)
  end.

Fixpoint process_events (f : fault) (blk : N) (x : txc) (es : list event) : (perr * txc * option event) + txc :=
  match es with
  | [] => inr x
  | e :: t => match process_event f blk x e with
              | inl err => inl (err, x, Some e)
              | inr x' => process_events f blk x' t
              end
  end.

(* processor.ProcessBlock under an optional storage fault. Result: error or ok, and the state afterwards.
   On any error the transaction is rolled back: db unchanged, rollback callbacks run on the memory. *)
Definition process_block (f : fault) (st : bstate) (k : block) : option perr * bstate :=
  if st_halted st then (Some PInconsistent, st) else
  let d := st_db st in
  let c0 : table -> nat := fun _ => O in
  if hits f c0 TBlock then (Some PFault, st) else
  if existsb (N.eqb (k_num k)) (d_blocks d) then (Some PConstraint, st) else
  let x0 := mkTx (mkBdb (d_blocks d ++ [k_num k]) (d_bridges d) (d_claims d) (d_tm d) (d_legacy d) (d_tree d))
                 (st_mem st) (bump c0 TBlock) O in
  match process_events f (k_num k) x0 (k_events k) with
  | inl (err, x, oe) =>
    let '(mem1, added) := match oe with Some e => after_failed_event f (k_num k) x e | None => (x_mem x, x_added x) end in
    let halted := match err with PTree EInvalidIndex => true | _ => false end in
    (* only ErrInvalidIndex halts and is reported as ErrInconsistentState; any other error of AddLeaf (a storage
       failure) is returned as it is, so that the driver retries the block *)
    let err' := match err with PTree EInvalidIndex => PInconsistent | PTree EConstraint => PConstraint | e => e end in
    (Some err', mkBst d (rollback_mem mem1 added) halted)
  | inr x =>
    if hits f (x_cnt x) TCommit then (Some PFault, mkBst d (rollback_mem (x_mem x) (x_added x)) false)
    else (None, mkBst (x_db x) (x_mem x) false)
  end.

End S.
End Gen.

(* executable instances *)
Definition process_event := Gen.process_event HEIGHT nodeN zh bridge_leaf.
Definition process_events := Gen.process_events HEIGHT nodeN zh bridge_leaf.
Definition process_block := Gen.process_block HEIGHT nodeN zh bridge_leaf.

(* processor.Reorg: DELETE FROM block WHERE num >= b (children cascade), exitTree.Reorg (root rows deleted, in-memory cache
   invalidated), un-halt iff rows were deleted *)
Definition reorg (st : bstate) (b : N) : bstate :=
  let d := st_db st in
  let keepb (n : N) := n <? b in
  let deleted := length (filter (fun n => negb (keepb n)) (d_blocks d)) in
  mkBst (mkBdb (filter keepb (d_blocks d))
               (filter (fun r => keepb (fst r)) (d_bridges d))
               (filter (fun r => keepb (w_block r)) (d_claims d))
               (filter (fun r => keepb (w_block r)) (d_tm d))
               (filter (fun r => keepb (w_block r)) (d_legacy d))
               (tree_reorg (d_tree d) b))
        (mkTmem (-2)%Z (m_cache (st_mem st)))       (* AppendOnlyTree.Reorg invalidates the cache (fix F7) *)
        (st_halted st && Nat.eqb deleted 0).

(* process restart: a new processor object on the same database *)
Definition restart (st : bstate) : bstate := mkBst (st_db st) tmem_new false.

(* ---- queries ---- *)
Definition last_processed (d : bdb) : N := fold_left N.max (d_blocks d) 0.
Definition exit_root_by_index (d : bdb) (i : N) : option N := option_map r_hash (root_by_index (d_tree d) i).
Definition root_by_ler (d : bdb) (h : N) : option root_row := root_by_hash (d_tree d) h.

(* sorted insertion by (block, pos): ORDER BY block_num ASC, block_pos ASC *)
Definition key_le (a b : N * N) : bool := (fst a <? fst b) || ((fst a =? fst b) && (snd a <=? snd b)).
Fixpoint insert_sorted {A} (key : A -> N * N) (x : A) (l : list A) : list A :=
  match l with [] => [x] | y :: t => if key_le (key x) (key y) then x :: l else y :: insert_sorted key x t end.
Definition sort_by {A} (key : A -> N * N) (l : list A) : list A := fold_right (insert_sorted key) [] l.

(* GetBridges(from, to): error when `to` is beyond the last processed block *)
Definition get_bridges (d : bdb) (from to : N) : option (list (N * bridge_ev)) :=
  if last_processed d <? to then None else
  Some (sort_by (fun r => (fst r, b_pos (snd r))) (filter (fun r => (from <=? fst r) && (fst r <=? to)) (d_bridges d))).
Definition get_rows (rs : list row) (d : bdb) (from to : N) : option (list row) :=
  if last_processed d <? to then None else
  Some (sort_by (fun r => (w_block r, w_pos r)) (filter (fun r => (from <=? w_block r) && (w_block r <=? to)) rs)).
Definition get_claims (d : bdb) := get_rows (d_claims d) d.
