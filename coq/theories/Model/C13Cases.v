(* C13 correspondence: executable comparison of the model with observations of the Go code (corr),
   and the executable form of the property itself evaluated on those observations (spec). *)
From Coq Require Import NArith List Bool.
From Verif Require Import Base.Bytes Model.Reconcile.
Import ListNotations.
Open Scope N_scope.

(* how the harness built the local database through the real storage API *)
Inductive op := OpSave (r : row) | OpStatus (id : N) (s : status).
Definition run_op (keep : bool) (st : store) (o : op) : store :=
  match o with
  | OpSave r => fst (save_last_sent None keep r st)
  | OpStatus id s => update_status st id s
  end.
Definition run_ops (keep : bool) (ops : list op) : store := fold_left (run_op keep) ops empty_store.

Definition hkey := (N * N * N)%type.    (* history table: height, retry_count, certificate id *)

Record case_recover := {
  k_cfg : config; k_ops : list op; k_lost : bool; k_agg : aggview;
  k_scenario : bool;              (* generated from a protocol state satisfying Inv *)
  k_ideal : option row;           (* top row of the database of a node that did not crash *)
  o_before : list row; o_hist_before : list hkey;
  o_outcome : outcome;
  o_after : list row; o_hist_after : list hkey;
  o_next : result (N * N * N);
}.

Inductive fault_class := FHist | FDelete | FInsert | FNone.
Record case_fault := {
  f_keep : bool; f_ops : list op; f_class : fault_class; f_row : row;
  fo_before : list row; fo_hist_before : list hkey;
  fo_err : bool;
  fo_after : list row; fo_hist_after : list hkey;
}.

Record case_meta := {
  mi_raw : option bytes;
  mi_version : N; mi_to_v0 : N; mi_from : N; mi_to : N; mi_created : N; mi_ctype : N;
  mo_enc : bytes;                 (* ToHash() *)
  mo_dec : option cmeta;          (* NewCertificateMetadataFromHash(mo_enc) *)
}.

Inductive case13 := CR (c : case_recover) | CF (c : case_fault) | CM (c : case_meta).

(* ---------- equality tests ---------- *)
Definition optN_eqb (a b : option N) : bool :=
  match a, b with Some x, Some y => x =? y | None, None => true | _, _ => false end.
(* a model row with r_created = None (time.Now) matches any observed creation time *)
Definition row_eqb (m o : row) : bool :=
  (r_height m =? r_height o) && (r_retry m =? r_retry o) && (r_id m =? r_id o) &&
  status_eqb (r_status m) (r_status o) && optN_eqb (r_prev_ler m) (r_prev_ler o) &&
  (r_new_ler m =? r_new_ler o) && (r_from m =? r_from o) && (r_to m =? r_to o) &&
  (match r_created m with None => true | Some x => optN_eqb (Some x) (r_created o) end) &&
  (r_ctype m =? r_ctype o) && Bool.eqb (r_from_agg m) (r_from_agg o).
Fixpoint rows_eqb (m o : list row) : bool :=
  match m, o with
  | [], [] => true
  | x :: m', y :: o' => row_eqb x y && rows_eqb m' o'
  | _, _ => false
  end.
Definition hkey_eqb (a b : hkey) : bool :=
  let '(a1, a2, a3) := a in let '(b1, b2, b3) := b in (a1 =? b1) && (a2 =? b2) && (a3 =? b3).
Definition hkey_of (r : row) : hkey := (r_height r, r_retry r, r_id r).
Definition hist_eqb (m : list row) (o : list hkey) : bool :=
  Nat.eqb (length m) (length o) && forallb (fun k => existsb (fun r => hkey_eqb (hkey_of r) k) m) o.
Definition errkind_code (e : errkind) : N :=
  match e with
  | EAggInconsistent => 0 | ESuspiciousHeight => 1 | ELocalOnly => 2 | EAggLower => 3 | EDifferentId => 4
  | EBadMetadata => 5 | EStorage => 6 | ENotClosed => 7 | ENoPrevSettled => 8 | EPrevNotSettled => 9
  | EUnknownStatus => 10 | EOther => 11 | ERetryFromMismatch => 12
  end.
Definition errkind_eqb (a b : errkind) : bool := errkind_code a =? errkind_code b.
Definition outcome_eqb (a b : outcome) : bool :=
  match a, b with
  | ONone, ONone | OUpdate, OUpdate | OInsert, OInsert => true
  | ORefused x, ORefused y => errkind_eqb x y
  | _, _ => false
  end.
Definition triple_eqb (a b : N * N * N) : bool :=
  let '(a1, a2, a3) := a in let '(b1, b2, b3) := b in (a1 =? b1) && (a2 =? b2) && (a3 =? b3).
Definition next_eqb (a b : result (N * N * N)) : bool :=
  match a, b with
  | Ok x, Ok y => triple_eqb x y
  | Err x, Err y => errkind_eqb x y
  | _, _ => false
  end.
Definition cmeta_eqb (a b : cmeta) : bool :=
  (m_version a =? m_version b) && (m_to_v0 a =? m_to_v0 b) && (m_from a =? m_from b) &&
  (m_offset a =? m_offset b) && (m_created a =? m_created b) && (m_ctype a =? m_ctype b).

(* ---------- corr: model == implementation ? ---------- *)
Definition corr_recover (c : case_recover) : bool :=
  let keep := c_keep_history (k_cfg c) in
  let st0 := run_ops keep (k_ops c) in
  let st1 := if k_lost c then empty_store else st0 in
  let '(st2, out) := recover keep (k_agg c) st1 in
  rows_eqb (sort_by_height (s_info st1)) (o_before c) && hist_eqb (s_hist st1) (o_hist_before c) &&
  outcome_eqb out (o_outcome c) &&
  rows_eqb (sort_by_height (s_info st2)) (o_after c) && hist_eqb (s_hist st2) (o_hist_after c) &&
  next_eqb (next_params (k_cfg c) st2) (o_next c).

Definition stmt_in_class (cl : fault_class) (s : stmt) : bool :=
  match cl, s with
  | FHist, SHistInsert _ | FDelete, SDelete _ | FInsert, SInsert _ => true
  | _, _ => false
  end.
Fixpoint index_of {A} (f : A -> bool) (i : nat) (l : list A) : option nat :=
  match l with [] => None | x :: t => if f x then Some i else index_of f (S i) t end.
(* the trigger fires on the first statement of its class, if the transaction issues one *)
Definition fault_index (cl : fault_class) (keep : bool) (r : row) (st : store) : option nat :=
  index_of (stmt_in_class cl) 0 (save_stmts keep r st).
Definition corr_fault (c : case_fault) : bool :=
  let st0 := run_ops (f_keep c) (f_ops c) in
  let '(st1, ok) := save_last_sent (fault_index (f_class c) (f_keep c) (f_row c) st0) (f_keep c) (f_row c) st0 in
  rows_eqb (sort_by_height (s_info st0)) (fo_before c) && hist_eqb (s_hist st0) (fo_hist_before c) &&
  Bool.eqb (negb ok) (fo_err c) &&
  rows_eqb (sort_by_height (s_info st1)) (fo_after c) && hist_eqb (s_hist st1) (fo_hist_after c).

Definition meta_of_case (c : case_meta) : cmeta :=
  if mi_version c =? 2 then new_metadata (mi_from c) (mi_to c) (mi_created c) (mi_ctype c)
  else {| m_version := mi_version c; m_to_v0 := mi_to_v0 c; m_from := mi_from c;
          m_offset := u64_sub (mi_to c) (mi_from c) mod 2^32; m_created := mi_created c; m_ctype := mi_ctype c |}.
Definition corr_meta (c : case_meta) : bool :=
  let enc := match mi_raw c with Some b => b | None => meta_encode (meta_of_case c) end in
  bytes_eqb enc (mo_enc c) &&
  match meta_decode enc, mo_dec c with
  | Some a, Some b => cmeta_eqb a b
  | None, None => true
  | _, _ => false
  end.

Definition corr (c : case13) : bool :=
  match c with CR c => corr_recover c | CF c => corr_fault c | CM c => corr_meta c end.

(* ---------- spec: the property on what the implementation did ---------- *)
(* top row of a table: the row with the greatest height *)
Fixpoint spec_top (l : list row) : option row :=
  match l with
  | [] => None
  | x :: t => match spec_top t with
              | Some y => if r_height x <? r_height y then Some y else Some x
              | None => Some x
              end
  end.
Fixpoint uniq_heights (l : list row) : bool :=
  match l with [] => true | x :: t => negb (existsb (fun y => r_height y =? r_height x) t) && uniq_heights t end.

(* the records contradict each other: local-only certificate, Agglayer lower than local, different id at the same height *)
Definition contradict (a : aggview) (before : list row) : bool :=
  match spec_top before, latest a with
  | Some _, None => true
  | Some t, Some l => (h_height l <? r_height t) || ((h_height l =? r_height t) && negb (h_id l =? r_id t))
  | None, _ => false
  end.

(* the parameters of the next certificate a node with intact bookkeeping computes, given what the Agglayer says
   about the certificate it sent last: settled -> height+1, its new LER, its last block + 1; in error -> same
   height, same previous LER, same first block; nothing sent -> 0, start LER, start block + 1; otherwise none yet *)
Definition spec_next (cfg : config) (a : aggview) (ideal : option row) : result (N * N * N) :=
  match ideal with
  | None => Ok (0, c_start_ler cfg, c_start_block cfg + 1)
  | Some c =>
      let s := match find (fun h => h_id h =? r_id c) (a_known a) with Some h => h_status h | None => r_status c end in
      match s with
      | Settled => Ok (r_height c + 1, r_new_ler c, r_to c + 1)
      | InError => match r_prev_ler c with Some x => Ok (r_height c, x, r_from c) | None => Err ENoPrevSettled end
      | _ => Err ENotClosed
      end
  end.

Definition latest_is_v0 (a : aggview) : bool :=
  match latest a with Some l => byte_at (h_meta l) 0 =? 0 | None => false end.
Definition latest_lacks_prev (a : aggview) : bool :=
  match latest a with Some l => match h_prev_ler l with None => true | Some _ => false end | None => false end.
Definition top_from_agg (l : list row) : bool :=
  match spec_top l with Some t => r_from_agg t | None => false end.

(* "error or correct, never wrong". Whenever the reference says a certificate can be built, the implementation
   must produce exactly the reference (height, previous LER, first block). Building nothing (an error) is accepted
   only in the two documented boundary classes, each with its own error, and only for a row rebuilt from the header:
   - the header carries no previous LER and the flow finds no settled row below (ENoPrevSettled);
   - the header's metadata is version 0, which does not carry the first block: the retry check of VerifyBuildParams
     refuses to build (ERetryFromMismatch).
   Both are safe and not live; they are counted in the evidence. A wrong value is a violation in every class. *)
Definition next_ok (c : case_recover) : bool :=
  let ref := spec_next (k_cfg c) (k_agg c) (k_ideal c) in
  let rebuilt := top_from_agg (o_after c) in
  match ref, o_next c with
  | Ok x, Ok y => triple_eqb x y
  | Ok _, Err ENoPrevSettled => rebuilt && latest_lacks_prev (k_agg c)
  | Ok _, Err ERetryFromMismatch => rebuilt && latest_is_v0 (k_agg c)
  | Err ENotClosed, Err ENotClosed => true
  | Err ENoPrevSettled, Err _ => true
  | _, _ => false
  end.

Definition spec_recover (c : case_recover) : bool :=
  let con := contradict (k_agg c) (o_before c) in
  let ref := refused (o_outcome c) in
  uniq_heights (o_after c) &&
  (negb con || ref) &&
  (if k_scenario c then (negb ref || con) && (ref || next_ok c) else true).

Definition hkeys_eqb (a b : list hkey) : bool :=
  Nat.eqb (length a) (length b) && forallb (fun k => existsb (hkey_eqb k) a) b.
Definition spec_fault (c : case_fault) : bool :=
  uniq_heights (fo_after c) &&
  if fo_err c then
    (* a failed write leaves the previous record intact *)
    rows_eqb (fo_before c) (fo_after c) && rows_eqb (fo_after c) (fo_before c) &&
    hkeys_eqb (fo_hist_before c) (fo_hist_after c)
  else
    match filter (fun x => r_height x =? r_height (f_row c)) (fo_after c) with
    | [x] => r_id x =? r_id (f_row c)
    | _ => false
    end.

(* what the certificate metadata must carry for the recovery: first block, last block, creation time, type *)
Definition spec_meta (c : case_meta) : bool :=
  match mi_raw c with
  | Some _ => true
  | None =>
      if (mi_version c =? 0) then
        match mo_dec c with Some d => (m_version d =? 0) && (m_to_v0 d =? mi_to_v0 c) | None => false end
      else if (mi_from c <=? mi_to c) && (mi_to c - mi_from c <? 2^32) then
        match mo_dec c with
        | Some d => (m_version d =? mi_version c) && (m_from d =? mi_from c) && (m_from d + m_offset d =? mi_to c) &&
                    (m_created d =? mi_created c) && (if mi_version c =? 2 then m_ctype d =? mi_ctype c else true)
        | None => false
        end
      else true
  end.

Definition spec (c : case13) : bool :=
  match c with CR c => spec_recover c | CF c => spec_fault c | CM c => spec_meta c end.

Fixpoint bad_indices {A} (f : A -> bool) (i : nat) (l : list A) : list nat :=
  match l with [] => [] | x :: t => if f x then bad_indices f (S i) t else i :: bad_indices f (S i) t end.
