(* C09 model: how the aggsender turns L2 claims into the imported bridge exits of a certificate and which
   L1 info root / leaf count the certificate names.  Definitions only.

   Go code transcribed (same order of calls, same error returns):
     aggsender/query/l1info_tree_data_query.go  getLatestProcessedFinalizedBlock, GetLatestFinalizedL1InfoRoot, GetProofForGER
     aggsender/flows/flow_base.go               verifyClaimGERs, ConvertClaimToImportedBridgeExit, getImportedBridgeExits
     aggsender/flows/flow_pp.go                 GetCertificateBuildParams (root.Hash, root.Index + 1), BuildCertificate
     l1infotreesync/processor.go                ProcessBlock (UpdateL1InfoTree), GetLatestInfoUntilBlock, GetProcessedBlockUntil,
                                                GetInfoByGlobalExitRoot;  l1infotreesync.go GetL1InfoTreeRootByIndex,
                                                GetL1InfoTreeMerkleProofFromIndexToRoot (= tree.GetProof, Model/TreeStore.v)
   The L1 side is an abstract record of queries (`l1side`); `exec_l1side` is the executable instance over Model/TreeStore.v
   (the L1 info tree = append-only tree of the l1 info leaf hashes).  The certificate-side structs are those of
   Model/Commitment.v; the global index is decoded with C19's `decode` (Model/GlobalIndex.v). *)
From Coq Require Import NArith ZArith List Bool.
From Verif Require Import Base.Bytes Base.FastBytes Base.Hash Model.Merkle Model.TreeStore Model.Contracts
  Model.GlobalIndex Model.Commitment.
Import ListNotations.
Open Scope N_scope.

Definition mask32 : N := 4294967295.          (* 2^32 - 1 *)
Definition u32 (x : N) : N := N.land x mask32.  (* uint32 arithmetic wraps *)

(* ProofGERToL1Root of either claim kind *)
Definition claim_ger_proof (cl : claim) : merkle_proof :=
  match cl with ClaimMainnet _ p _ => p | ClaimRollup _ _ p _ => p end.

(* ------------------------------------------------------------------------------------------------ *)
(* The L1 side as the aggsender sees it                                                              *)
(* ------------------------------------------------------------------------------------------------ *)

(* l1infotreesync.L1InfoTreeLeaf (row of table l1info_leaf) *)
Record l1info := mkInfo {
  li_block : N; li_pos : N;
  li_index : N;               (* L1InfoTreeIndex *)
  li_parent : N;              (* PreviousBlockHash *)
  li_ts : N;                  (* Timestamp *)
  li_mer : N; li_rer : N; li_ger : N;
  li_hash : N }.              (* Hash: the leaf of the L1 info tree *)

Inductive qerr := QNotFound | QNotProcessed | QNoBlock0.

(* types.L1InfoTreeSyncer, the five methods the querier calls *)
Record l1side := mkL1 {
  q_processed_until : N -> option (N * N);        (* GetProcessedBlockUntil b = (num, hash) of the last block <= b; None = sql.ErrNoRows.  hash 0 = NULL / empty *)
  q_latest_info_until : N -> qerr + l1info;       (* GetLatestInfoUntilBlock *)
  q_root_by_index : N -> option root_row;         (* GetL1InfoTreeRootByIndex; None = db.ErrNotFound *)
  q_info_by_ger : N -> option l1info;             (* GetInfoByGlobalExitRoot;  None = db.ErrNotFound *)
  q_proof : N -> N -> list N }.                   (* GetL1InfoTreeMerkleProofFromIndexToRoot idx root (never fails: zero-hash fallback) *)

(* the L1 RPC node: HeaderByNumber(finalized) = (number, hash); HeaderByNumber(n) = hash of block n.  None = RPC error *)
Record l1client := mkCl { cl_finalized : option (N * N); cl_header : N -> option N }.

Inductive ferr :=
| EClientFinalized            (* "error getting latest finalized L1 block" *)
| EProcessedUntil             (* "error getting latest processed block from l1infotreesyncer" *)
| ENoBlockYet                 (* "l1infotreesyncer did not process any block yet" *)
| EClientHeader               (* "error getting latest processed finalized block" *)
| EHashMismatch               (* "l1infotreesyncer returned a different hash ..." *)
| EInfo (e : qerr)            (* "error getting latest l1 info tree info until block num" *)
| ERootNotFound               (* "error getting L1 Info tree root by index" *)
| EGerMismatch                (* verifyClaimGERs *)
| EGerNotFound.               (* GetProofForGER: "error getting info by global exit root" *)

Section Flow.
Variable hash : bytes -> N.                      (* Keccak-256, digest as a number *)
(* tree.CalculateRoot / newTreeNode / calculateGER: keccak(left 32 bytes ++ right 32 bytes) *)
Definition node (l r : N) : N := hash (fbe 32 l ++ fbe 32 r).

Variable cl : l1client.
Variable q : l1side.

(* L1InfoTreeDataQuerier.getLatestProcessedFinalizedBlock *)
Definition latest_processed_finalized_block : ferr + N :=
  match cl_finalized cl with
  | None => inl EClientFinalized
  | Some (fnum, fhash) =>
    match q_processed_until q fnum with
    | None => inl EProcessedUntil
    | Some (pnum, phash) =>
      if pnum =? 0 then inl ENoBlockYet else
      (* syncer behind the finalized block: ask the L1 node for the syncer's block instead *)
      let hdr := if pnum <? fnum then
                   match cl_header cl pnum with None => None | Some h => Some (pnum, h) end
                 else Some (fnum, fhash) in
      match hdr with
      | None => inl EClientHeader
      | Some (hnum, hhash) =>
        if (phash =? 0) || (phash =? hhash) then inr hnum else inl EHashMismatch
      end
    end
  end.

(* L1InfoTreeDataQuerier.GetLatestFinalizedL1InfoRoot *)
Definition choose_l1_root : ferr + (root_row * l1info) :=
  match latest_processed_finalized_block with
  | inl e => inl e
  | inr blk =>
    match q_latest_info_until q blk with
    | inl e => inl (EInfo e)
    | inr info =>
      match q_root_by_index q (li_index info) with
      | None => inl ERootNotFound
      | Some root => inr (root, info)
      end
    end
  end.

(* flow_pp.go: buildParams.L1InfoTreeLeafCount = root.Index + 1   (uint32) *)
Definition leaf_count_of (r : root_row) : N := u32 (r_pos r + 1).

(* ------------------------------------------------------------------------------------------------ *)
(* Claims                                                                                            *)
(* ------------------------------------------------------------------------------------------------ *)

(* bridgesync.Claim: the fields the flow reads *)
Record claim_ev := mkClaim {
  k_gidx : N;                      (* GlobalIndex *big.Int *)
  k_onet : N; k_oaddr : N;         (* OriginNetwork, OriginAddress *)
  k_dnet : N; k_daddr : N;         (* DestinationNetwork, DestinationAddress *)
  k_amount : N;
  k_proof_ler : list N;            (* ProofLocalExitRoot  (calldata smtProofLocalExitRoot) *)
  k_proof_rer : list N;            (* ProofRollupExitRoot (calldata smtProofRollupExitRoot) *)
  k_mer : N; k_rer : N;            (* MainnetExitRoot, RollupExitRoot (calldata) *)
  k_ger : N;                       (* GlobalExitRoot *)
  k_meta : bytes;
  k_is_msg : bool }.

(* baseFlow.verifyClaimGERs: first claim whose calculateGER(mer, rer) differs from its GlobalExitRoot *)
Fixpoint verify_claim_gers (cs : list claim_ev) : bool :=
  match cs with
  | [] => true
  | c :: t => if node (k_mer c) (k_rer c) =? k_ger c then verify_claim_gers t else false
  end.

(* convertBridgeMetadata: nil when empty, else crypto.Keccak256(metadata) *)
Definition convert_metadata (m : bytes) : option bytes :=
  match m with [] => None | _ => Some (H hash m) end.

(* ConvertClaimToImportedBridgeExit: the bridge exit ... *)
Definition convert_exit (c : claim_ev) : bridge_exit :=
  {| x_leaf_type := if k_is_msg c then 1 else 0;          (* LeafTypeMessage = 1, LeafTypeAsset = 0 *)
     x_orig_net := k_onet c; x_orig_addr := k_oaddr c;
     x_dest_net := k_dnet c; x_dest_addr := k_daddr c;
     x_amount := Some (k_amount c);
     x_metadata := convert_metadata (k_meta c) |}.
(* ... and the global index: bridgesync.DecodeGlobalIndex (it never returns an error) *)
Definition convert_gi (c : claim_ev) : global_index :=
  let '(m, r, l) := decode (k_gidx c) in {| gi_mainnet := m; gi_rollup := r; gi_leaf := l |}.

(* BridgeExit.Hash() as a digest number *)
Definition exit_hash_n (b : bridge_exit) : N := hash (exit_preimage hash b).
(* L1InfoTreeLeaf.Hash() = Inner.Hash() as a digest number *)
Definition l1leaf_hash_n (l : l1_leaf) : N := hash (l1leaf_preimage l).

(* one iteration of the loop of getImportedBridgeExits, rootFromWhichToProve = root *)
Definition build_one (root : N) (c : claim_ev) : ferr + imported_exit :=
  let bx := convert_exit c in
  let gi := convert_gi c in
  (* GetProofForGER: GetInfoByGlobalExitRoot(claim.GlobalExitRoot), then the proof for ITS index against the named root.
     No comparison of l1Info.L1InfoTreeIndex with the root's index is made here. *)
  match q_info_by_ger q (k_ger c) with
  | None => inl EGerNotFound
  | Some info =>
    let ger_proof := q_proof q (li_index info) root in
    let leaf := {| l1_index := li_index info;
                   l1_rer := k_rer c;                        (* RollupExitRoot:  claim.RollupExitRoot  *)
                   l1_mer := k_mer c;                        (* MainnetExitRoot: claim.MainnetExitRoot *)
                   l1_ger := li_ger info;                    (* Inner.GlobalExitRoot: l1Info.GlobalExitRoot *)
                   l1_block_hash := li_parent info;          (* Inner.BlockHash: l1Info.PreviousBlockHash *)
                   l1_timestamp := li_ts info |} in          (* Inner.Timestamp *)
    let p_ger := {| mp_root := root; mp_siblings := ger_proof |} in
    inr {| ie_exit := bx;
           ie_gi := gi;
           ie_claim :=
             if gi_mainnet gi then
               ClaimMainnet {| mp_root := k_mer c; mp_siblings := k_proof_ler c |}        (* ProofLeafMER *)
                            p_ger leaf
             else
               ClaimRollup {| mp_root := calc node 0 (k_proof_ler c) (exit_hash_n bx) (bitN (gi_leaf gi));
                              mp_siblings := k_proof_ler c |}                              (* ProofLeafLER *)
                           {| mp_root := k_rer c; mp_siblings := k_proof_rer c |}          (* ProofLERToRER *)
                           p_ger leaf |}
  end.

(* getImportedBridgeExits: in claim order, the first error aborts *)
Fixpoint build_imported_exits (root : N) (cs : list claim_ev) : ferr + list imported_exit :=
  match cs with
  | [] => inr []
  | c :: t =>
    match build_one root c with
    | inl e => inl e
    | inr ibe => match build_imported_exits root t with inl e => inl e | inr l => inr (ibe :: l) end
    end
  end.

(* what the PP flow puts into the certificate for the claims of the block range:
   PPFlow.GetCertificateBuildParams (VerifyBuildParams, then the finalized root) followed by BuildCertificate.
   None = no certificate (nothing to send). Result: named root, L1InfoTreeLeafCount, ImportedBridgeExits *)
Record cert_claims := mkCC { cc_root : root_row; cc_leaf_count : N; cc_imported : list imported_exit }.
Definition pp_build (cs : list claim_ev) : ferr + option cert_claims :=
  match cs with
  | [] => inr None                                       (* buildParams.IsEmpty() (no bridges in this model) *)
  | _ =>
    if negb (verify_claim_gers cs) then inl EGerMismatch else
    match choose_l1_root with
    | inl e => inl e
    | inr (root, _) =>
      match build_imported_exits (r_hash root) cs with
      | inl e => inl e
      | inr l => inr (Some (mkCC root (leaf_count_of root) l))
      end
    end
  end.

(* the same with a root named from outside (the aggchain-prover flow: verifyBuildParamsAndGenerateProof runs VerifyBuildParams,
   the prover names the root, BuildCertificate proves every claim against it) *)
Definition named_build (root : N) (cs : list claim_ev) : ferr + list imported_exit :=
  if negb (verify_claim_gers cs) then inl EGerMismatch else build_imported_exits root cs.

(* ------------------------------------------------------------------------------------------------ *)
(* What the bridge contract demanded when it accepted the claim (PolygonZkEVMBridgeV2._verifyLeaf)    *)
(* ------------------------------------------------------------------------------------------------ *)

(* getLeafValue(leafType, originNetwork, originAddress, destinationNetwork, destinationAddress, amount, keccak256(metadata)) *)
Definition contract_leaf_value (c : claim_ev) : N :=
  hash (fbe 1 (if k_is_msg c then 1 else 0) ++ fbe 4 (k_onet c) ++ fbe 20 (k_oaddr c) ++ fbe 4 (k_dnet c) ++
        fbe 20 (k_daddr c) ++ fbe 32 (k_amount c) ++ fbe 32 (hash (k_meta c))).
(* globalIndex & 2^64 != 0;  leafIndex = uint32(globalIndex);  indexRollup = uint32(globalIndex >> 32) *)
Definition contract_mainnet_flag (v : N) : bool := N.testbit v 64.
Definition contract_leaf_index (v : N) : N := v mod 2^32.
Definition contract_rollup_index (v : N) : N := (v / 2^32) mod 2^32.
(* verifyMerkleProof(leaf, proof, index, root) = (calculateRoot(leaf, proof, index) == root) *)
Definition contract_accepted (c : claim_ev) : Prop :=
  let v := k_gidx c in
  if contract_mainnet_flag v
  then calc node 0 (k_proof_ler c) (contract_leaf_value c) (bitN (contract_leaf_index v)) = k_mer c
  else calc node 0 (k_proof_rer c)
            (calc node 0 (k_proof_ler c) (contract_leaf_value c) (bitN (contract_leaf_index v)))
            (bitN (contract_rollup_index v)) = k_rer c.
Definition contract_accepted_b (c : claim_ev) : bool :=
  let v := k_gidx c in
  if contract_mainnet_flag v
  then calc node 0 (k_proof_ler c) (contract_leaf_value c) (bitN (contract_leaf_index v)) =? k_mer c
  else calc node 0 (k_proof_rer c)
            (calc node 0 (k_proof_ler c) (contract_leaf_value c) (bitN (contract_leaf_index v)))
            (bitN (contract_rollup_index v)) =? k_rer c.

(* the property's own quantifier restriction: every claim's global exit root is a leaf of the L1 info tree the
   syncer knows, at or below the root the certificate names (the oracle only injects finalized roots) *)
Definition claims_ger_finalized (root : root_row) (cs : list claim_ev) : Prop :=
  forall c, In c cs -> exists L, q_info_by_ger q (k_ger c) = Some L /\ li_index L <= r_pos root.

(* closed-store facts about the L1 side (consequences of C08 / C11 for the real store; Proofs/ClaimProofsProofs.v derives
   them for `exec_l1side` from the closed reverse-hash-table invariant, and checks them by computation on examples) *)
Record l1_sound : Prop := mkSound {
  snd_by_ger : forall g L, q_info_by_ger q g = Some L -> li_ger L = g;
  snd_row : forall g L, q_info_by_ger q g = Some L ->
     li_ger L = node (li_mer L) (li_rer L) /\
     li_hash L = hash (fbe 32 (li_ger L) ++ fbe 32 (li_parent L) ++ fbe 8 (li_ts L));
  snd_root_idx : forall i r, q_root_by_index q i = Some r -> r_pos r = i;
  snd_proof : forall i r g L, q_root_by_index q i = Some r -> q_info_by_ger q g = Some L -> li_index L <= i ->
     calc node 0 (q_proof q (li_index L) (r_hash r)) (li_hash L) (bitN (li_index L)) = r_hash r }.
End Flow.

(* ------------------------------------------------------------------------------------------------ *)
(* Executable instance of the L1 side: the l1infotreesync processor store                            *)
(* ------------------------------------------------------------------------------------------------ *)

(* UpdateL1InfoTree event.  (VerifyBatches events only touch the rollup exit tree and the verify_batches table, which
   none of the queries above reads; the transcription of a case drops them.) *)
Record l1ev := mkUpd { u_pos : N; u_mer : N; u_rer : N; u_parent : N; u_ts : N }.
Record l1block := mkL1B { lb_num : N; lb_hash : N; lb_events : list l1ev }.

Record l1state := mkL1S {
  s_blocks : list (N * N);          (* table block (num PRIMARY KEY, hash) *)
  s_leaves : list l1info;           (* table l1info_leaf, PRIMARY KEY (block_num, block_pos), UNIQUE global_exit_root; insertion order *)
  s_tree : tdb;                     (* l1_info_root / l1_info_rht *)
  s_mem : tmem }.                   (* AppendOnlyTree cache *)
Definition l1state_new : l1state := mkL1S [] [] tdb_empty tmem_new.

Definition key_lt (a b : N * N) : bool := (fst a <? fst b) || ((fst a =? fst b) && (snd a <? snd b)).
(* ORDER BY block_num DESC, block_pos DESC LIMIT 1 *)
Definition max_leaf (ls : list l1info) : option l1info :=
  fold_left (fun acc l => match acc with
                          | None => Some l
                          | Some a => if key_lt (li_block a, li_pos a) (li_block l, li_pos l) then Some l else Some a
                          end) ls None.

(* L1InfoTreeLeaf.GetGlobalExitRoot / GetHash = the contract's values (Model/Contracts.v) *)
Definition info_of (blk idx : N) (e : l1ev) : l1info :=
  let ger := ger_of (u_mer e) (u_rer e) in
  mkInfo blk (u_pos e) idx (u_parent e) (u_ts e) (u_mer e) (u_rer e) ger (l1info_leaf_value ger (u_parent e) (u_ts e)).

(* the UpdateL1InfoTree branch of ProcessBlock's event loop: (leaves, tree, mem, leaves added) *)
Fixpoint process_events (blk init : N) (ls : list l1info) (t : tdb) (mem : tmem) (added : nat) (es : list l1ev)
  : tmem * nat * option (list l1info * tdb) :=
  match es with
  | [] => (mem, added, Some (ls, t))
  | e :: es' =>
    let info := info_of blk (u32 (init + N.of_nat added)) e in
    (* meddler.Insert l1info_leaf: PRIMARY KEY (block_num, block_pos), UNIQUE(global_exit_root) *)
    if existsb (fun l => ((li_block l =? blk) && (li_pos l =? u_pos e)) || (li_ger l =? li_ger info)) ls
    then (mem, added, None)
    else match add_leaf_exec t mem blk (u_pos e) (li_index info) (li_hash info) with
         | (mem', inl _) => (mem', added, None)
         | (mem', inr t') => process_events blk init (ls ++ [info]) t' (mem_commit_leaf mem') (S added) es'
         end
  end.

(* processor.ProcessBlock: one transaction; on any error everything is rolled back (and the tree cache invalidated by the
   rollback callbacks of the leaves already added).  Result: ok? and the new state *)
Definition process_block (st : l1state) (b : l1block) : bool * l1state :=
  if existsb (fun x => fst x =? lb_num b) (s_blocks st) then (false, st) else
  let init := match max_leaf (s_leaves st) with None => 0 | Some l => u32 (li_index l + 1) end in
  match process_events (lb_num b) init (s_leaves st) (s_tree st) (s_mem st) 0 (lb_events b) with
  | (mem', _, Some (ls, t)) => (true, mkL1S (s_blocks st ++ [(lb_num b, lb_hash b)]) ls t mem')
  | (mem', added, None) => (false, mkL1S (s_blocks st) (s_leaves st) (s_tree st) (rollback_mem mem' added))
  end.
Definition process_all (bs : list l1block) (st : l1state) : list bool * l1state :=
  fold_left (fun acc b => let '(ok, st') := process_block (snd acc) b in (fst acc ++ [ok], st')) bs ([], st).

(* queries *)
Definition last_processed (st : l1state) : N := fold_left (fun acc b => N.max acc (fst b)) (s_blocks st) 0.
(* SELECT num, hash FROM block WHERE num <= $1 ORDER BY num DESC LIMIT 1 *)
Definition processed_until (st : l1state) (b : N) : option (N * N) :=
  fold_left (fun acc x => if fst x <=? b then
                            match acc with None => Some x | Some a => if fst a <? fst x then Some x else Some a end
                          else acc) (s_blocks st) None.
Definition latest_info_until (st : l1state) (b : N) : qerr + l1info :=
  if b =? 0 then inl QNoBlock0 else
  if last_processed st <? b then inl QNotProcessed else
  match max_leaf (filter (fun l => li_block l <=? b) (s_leaves st)) with
  | None => inl QNotFound
  | Some l => inr l
  end.
Definition info_by_ger (st : l1state) (g : N) : option l1info := find (fun l => li_ger l =? g) (s_leaves st).

Definition exec_l1side (st : l1state) : l1side :=
  mkL1 (processed_until st) (latest_info_until st) (root_by_index (s_tree st)) (info_by_ger st)
       (fun idx root => get_proof (s_tree st) idx root).

(* the scripted L1 node of a case: finalized header, headers by number *)
Definition client_of (fin : option (N * N)) (hdrs : list (N * N)) : l1client :=
  mkCl fin (fun n => match find (fun x => fst x =? n) hdrs with Some x => Some (snd x) | None => None end).

(* the instances the case files evaluate (real Keccak-256) *)
Definition pp_build_exec (st : l1state) (cl : l1client) (cs : list claim_ev) := pp_build keccakN cl (exec_l1side st) cs.
Definition build_exec (st : l1state) (root : N) (cs : list claim_ev) := build_imported_exits keccakN (exec_l1side st) root cs.
Definition named_build_exec (st : l1state) (root : N) (cs : list claim_ev) := named_build keccakN (exec_l1side st) root cs.

(* finite check of the closed-store facts on a concrete store (sound: Proofs l1_sound_b_ok) *)
Definition row_ok_b (l : l1info) : bool :=
  (li_ger l =? node keccakN (li_mer l) (li_rer l)) &&
  (li_hash l =? keccakN (fbe 32 (li_ger l) ++ fbe 32 (li_parent l) ++ fbe 8 (li_ts l))).
Definition l1_sound_b (st : l1state) : bool :=
  forallb row_ok_b (s_leaves st) &&
  forallb (fun r => forallb (fun l => (r_pos r <? li_index l) ||
                                      (calc (node keccakN) 0 (get_proof (s_tree st) (li_index l) (r_hash r)) (li_hash l) (bitN (li_index l)) =? r_hash r))
                            (s_leaves st)) (t_roots (s_tree st)).
