(* C06 model: reorgdetector/reorgdetector.go (AddBlockToTrack, detectReorgInTrackedList, loadTrackedHeaders),
   reorgdetector_db.go (getTrackedBlocks, saveTrackedBlock, removeTrackedBlockRange), types.go (headersList),
   reorgdetector_sub.go (notifySubscriber) and sync/evmdriver.go (Sync, handleNewBlock, handleReorg), composed with the
   downloader step function of C05 (Model/Downloader.v, sync/evmdownloader.go) and an abstract store.
   Definitions only.

   The downloader's numbered RPC calls (eth_getLogs, eth_getBlockByNumber(n)) always succeed here: C05's call-outcome list
   is [] in every (re)started download (transient failures and the hash-mismatch retry of the downloader are C05's).

   What is modelled as data (environment, not aggkit code):
   * chain versions: a version gives every block number a hash and its logs; the node serves ONE version at a time, up to
     its current head; the world also fixes the number the node answers to the finalized block tag;
   * every RPC answer is read from the world at the moment of the call; the world changes only between steps.
   What is atomic in the model although it is several goroutines in the code (the part of C06 left to the harness's
   sampled schedules): one downloader loop iteration, one handleNewBlock, one detectReorgInTrackedList including the
   ReorgedBlock/ReorgProcessed rendez-vous with the driver's handleReorg. *)
From Coq Require Import NArith List Bool.
From Verif Require Import Model.Downloader.
Import ListNotations.
Open Scope N_scope.

(* ---- chain versions and the node ---- *)
Record version := { v_hash : N -> N;           (* block number -> block hash (0 = no such block in this version) *)
                    v_logs : chain }.          (* block number -> all logs of the block, in log order (C05's [chain]) *)
Definition version_of_list (l : list (N * list rawlog)) : version :=
  {| v_hash := fun k => fst (nth (N.to_nat k) l (0, []));
     v_logs := fun k => snd (nth (N.to_nat k) l (0, [])) |}.

Record world := { w_ver : version;             (* the chain the node is on *)
                  w_head : N;                  (* number of its latest block *)
                  w_fin : N }.                 (* number it answers to the finalized (safe) block tag *)
(* HeaderByNumber(n): not found above the head *)
Definition node_header (w : world) (n : N) : option N :=
  if n <=? w_head w then Some (v_hash (w_ver w) n) else None.
(* eth_getLogs sees nothing above the head *)
Definition node_logs (w : world) : chain := fun k => if k <=? w_head w then v_logs (w_ver w) k else [].

(* ---- the detector's state for one subscriber ---- *)
Definition header := (N * N)%type.                         (* (num, hash) *)
(* headersList: a Go map num -> header.  Represented by the association list sorted by num without duplicate keys,
   so getSorted is the identity. *)
Fixpoint tr_get (tr : list header) (n : N) : option N :=
  match tr with [] => None | x :: t => if fst x =? n then Some (snd x) else tr_get t n end.
Fixpoint tr_add (x : header) (tr : list header) : list header :=            (* hl.headers[h.Num] = h *)
  match tr with
  | [] => [x]
  | y :: t => if fst x <? fst y then x :: y :: t
              else if fst x =? fst y then x :: t
              else y :: tr_add x t
  end.
Definition in_range (a b n : N) : bool := (a <=? n) && (n <=? b).
Definition remove_range (a b : N) (l : list header) : list header := filter (fun x => negb (in_range a b (fst x))) l.

Record detector := { t_mem : list header;       (* rd.trackedBlocks[id] *)
                     t_db : list header }.      (* rows of table tracked_block for id, in rowid order: the table has NO key
                                                   (reorgdetector0001.sql), so it is a multiset of (num, hash) *)
Definition det_empty : detector := {| t_mem := []; t_db := [] |}.

(* AddBlockToTrack + saveTrackedBlock: nothing when the same (num, hash) is already in memory; otherwise the memory entry
   for num is overwritten and a row is INSERTed (never an update: an older row with the same num stays) *)
Definition add_block_to_track (n h : N) (d : detector) : detector :=
  let save := {| t_mem := tr_add (n, h) (t_mem d); t_db := t_db d ++ [(n, h)] |} in
  match tr_get (t_mem d) n with
  | Some h' => if h' =? h then d else save
  | None => save
  end.

(* hdrs.removeRange(a, b) and DELETE FROM tracked_block WHERE num >= a AND num <= b *)
Definition det_remove (a b : N) (d : detector) : detector :=
  {| t_mem := remove_range a b (t_mem d); t_db := remove_range a b (t_db d) |}.

(* loadTrackedHeaders / getTrackedBlocks / newHeadersList: the rows are folded into a map, a later row wins *)
Definition reload_mem (rows : list header) : list header := fold_left (fun m x => tr_add x m) rows [].
Definition reload (d : detector) : detector := {| t_mem := reload_mem (t_db d); t_db := t_db d |}.

(* ---- detectReorgInTrackedList ---- *)
Record tick_env := {
  e_fin : option (N * N);        (* HeaderByNumber(finalized tag) = (number, hash); None: the call fails *)
  e_hdr : N -> option N;         (* HeaderByNumber(n) = hash; None: the call fails (e.g. block not found) *)
  e_errat : option nat           (* Some k: the k-th numbered header call of this tick fails (transient error) *)
}.
Inductive tick_result := TNone | TReorg (b : N) | TErr.

(* the ascending scan over the snapshot [hs] = hdrs.getSorted(); [lastnum] = headers[len(headers)-1].Num.
   headersCache holds the finalized header under its number: no RPC for that number. *)
Fixpoint scan (e : tick_env) (fnum fhash lastnum : N) (errat : option nat) (hs : list header) (d : detector)
  : detector * tick_result :=
  match hs with
  | [] => (d, TNone)
  | x :: rest =>
    let n := fst x in
    let cached := n =? fnum in
    let fails := if cached then false else match errat with Some O => true | _ => false end in
    let errat' := if cached then errat else match errat with Some (S k) => Some k | o => o end in
    if fails then (d, TErr)
    else match (if cached then Some fhash else e_hdr e n) with
         | None => (d, TErr)                                       (* "failed to get the header": return err *)
         | Some c =>
           if snd x =? c then
             (* hash matches: untrack iff at or below the finalized block, then continue *)
             if n <=? fnum then scan e fnum fhash lastnum errat' rest (det_remove n n d)
             else scan e fnum fhash lastnum errat' rest d
           else
             (* first mismatch: notify hdr.Num, delete [hdr.Num, lastnum] from DB and memory, stop *)
             (det_remove n lastnum d, TReorg n)
         end
  end.

Definition detect_tick (e : tick_env) (d : detector) : detector * tick_result :=
  match e_fin e with
  | None => (d, TErr)                                              (* "failed to get the latest finalized block" *)
  | Some (fnum, fhash) => scan e fnum fhash (last (map fst (t_mem d)) 0) (e_errat e) (t_mem d) d
  end.

(* the same scan cut at the moment the subscriber is notified: what has been done to the tracked set when
   notifySubscriber is entered (headers that matched at or below the finalized block are gone; the reported block and
   everything above it are STILL tracked, in memory and in the DB: the range is deleted only after ReorgProcessed) *)
Fixpoint scan_pre (e : tick_env) (fnum fhash : N) (errat : option nat) (hs : list header) (d : detector)
  : detector * tick_result :=
  match hs with
  | [] => (d, TNone)
  | x :: rest =>
    let n := fst x in
    let cached := n =? fnum in
    let fails := if cached then false else match errat with Some O => true | _ => false end in
    let errat' := if cached then errat else match errat with Some (S k) => Some k | o => o end in
    if fails then (d, TErr)
    else match (if cached then Some fhash else e_hdr e n) with
         | None => (d, TErr)
         | Some c =>
           if snd x =? c then
             if n <=? fnum then scan_pre e fnum fhash errat' rest (det_remove n n d)
             else scan_pre e fnum fhash errat' rest d
           else (d, TReorg n)
         end
  end.
Definition detect_pre (e : tick_env) (d : detector) : detector * tick_result :=
  match e_fin e with
  | None => (d, TErr)
  | Some (fnum, fhash) => scan_pre e fnum fhash (e_errat e) (t_mem d) d
  end.

(* the header the tick uses for block n (cache or RPC), ignoring transient errors *)
Definition look (e : tick_env) (n : N) : option N :=
  match e_fin e with
  | Some (fnum, fhash) => if n =? fnum then Some fhash else e_hdr e n
  | None => None
  end.

(* ---- driver + abstract store ---- *)
Record pblock := { p_num : N; p_hash : N; p_evs : list ev }.              (* sync.Block handed to ProcessBlock *)
Record cblock := { c_num : N; c_hash : N; c_evs : list ev; c_fin : bool }. (* EVMBlock on downloadedCh *)
Definition pb_of (c : cblock) : pblock := {| p_num := c_num c; p_hash := c_hash c; p_evs := c_evs c |}.
(* GetLastProcessedBlock of the abstract store: number of the block processed last (0 when empty) *)
Definition lp (store : list pblock) : N := last (map p_num store) 0.
(* processor.Reorg(b): everything from block b on is dropped *)
Definition store_reorg (b : N) (store : list pblock) : list pblock := filter (fun p => p_num p <? b) store.

Record sys := {
  y_world : world;
  y_final : N;                 (* ghost: highest number the node ever answered to the finalized tag *)
  y_store : list pblock;       (* successful ProcessBlock calls not undone by Reorg, in order *)
  y_det : detector;
  y_dl : dl_state;             (* the running Download loop *)
  y_chan : list cblock;        (* blocks sent by the downloader and not yet handled by the driver *)
  y_rewinds : list N           (* arguments of processor.Reorg, in call order *)
}.

Inductive event :=
| EWorld (w : world)           (* the node moves: other chain version and/or head and/or finalized answer *)
| EPoll (err : bool)           (* one block-tag query of the downloader and what follows in the loop (C05's dl_step) *)
| EHandle                      (* the driver takes one block from the channel: handleNewBlock *)
| EHandleAll                   (* ... until the channel is empty *)
| ETick (ferr : bool) (errat : option nat)   (* one detectReorgInTrackedList *)
| ERestart                     (* node stopped and started again *)
| ECrashMid                    (* node stopped inside handleNewBlock after AddBlockToTrack, before ProcessBlock; started again *)
| ECrashNotify (ferr : bool) (errat : option nat).
                               (* one detectReorgInTrackedList during which the node is stopped after the mismatch was found
                                  and the subscriber notified, before processor.Reorg has run (no ReorgProcessed, hence no
                                  deletion of the tracked range); started again.  Without a mismatch: tick, then stop + start *)

Definition set_world (s : sys) (w : world) : sys :=
  {| y_world := w; y_final := N.max (y_final s) (w_fin w); y_store := y_store s; y_det := y_det s; y_dl := y_dl s;
     y_chan := y_chan s; y_rewinds := y_rewinds s |}.

(* the block as the downloader builds it: hash = header of that number on the node's current chain *)
Definition cb_of (w : world) (b : dblock) : cblock :=
  {| c_num := b_num b; c_hash := v_hash (w_ver w) (b_num b); c_evs := b_events b; c_fin := b_fin b |}.
Definition poll_tick (w : world) (err : bool) : tick := {| t_tip := w_head w; t_fin := w_fin w; t_err := err |}.

Definition do_poll (cfg : config) (s : sys) (err : bool) : sys :=
  let w := y_world s in
  let r := dl_step cfg (node_logs w) (y_dl s) (poll_tick w err) in
  {| y_world := w; y_final := y_final s; y_store := y_store s; y_det := y_det s; y_dl := fst r;
     y_chan := y_chan s ++ map (cb_of w) (snd r); y_rewinds := y_rewinds s |}.

(* handleNewBlock: AddBlockToTrack unless IsFinalizedBlock, then ProcessBlock *)
Definition track (c : cblock) (d : detector) : detector :=
  if c_fin c then d else add_block_to_track (c_num c) (c_hash c) d.
Definition do_handle (s : sys) : sys :=
  match y_chan s with
  | [] => s
  | c :: rest =>
    {| y_world := y_world s; y_final := y_final s; y_store := y_store s ++ [pb_of c]; y_det := track c (y_det s);
       y_dl := y_dl s; y_chan := rest; y_rewinds := y_rewinds s |}
  end.
Fixpoint do_handle_n (n : nat) (s : sys) : sys := match n with O => s | S k => do_handle_n k (do_handle s) end.
Definition do_handle_all (s : sys) : sys := do_handle_n (length (y_chan s)) s.

(* handleReorg(b) then `goto reset`: the download is cancelled (its channel is abandoned), processor.Reorg(b),
   a new Download starts at GetLastProcessedBlock()+1 *)
Definition handle_reorg (b : N) (s : sys) : sys :=
  let st := store_reorg b (y_store s) in
  {| y_world := y_world s; y_final := y_final s; y_store := st; y_det := y_det s;
     y_dl := dl_init (sync_from (lp st)) []; y_chan := []; y_rewinds := y_rewinds s ++ [b] |}.

Definition env_of (w : world) (ferr : bool) (errat : option nat) : tick_env :=
  {| e_fin := if ferr then None else Some (w_fin w, v_hash (w_ver w) (w_fin w));
     e_hdr := node_header w; e_errat := errat |}.

Definition set_det (s : sys) (d : detector) : sys :=
  {| y_world := y_world s; y_final := y_final s; y_store := y_store s; y_det := d; y_dl := y_dl s;
     y_chan := y_chan s; y_rewinds := y_rewinds s |}.

(* one ticker firing.  notifySubscriber blocks until the driver has run handleReorg; the tracked range is deleted after it *)
Definition do_tick (s : sys) (ferr : bool) (errat : option nat) : sys :=
  let r := detect_tick (env_of (y_world s) ferr errat) (y_det s) in
  match snd r with
  | TReorg b => set_det (handle_reorg b s) (fst r)
  | _ => set_det s (fst r)
  end.

(* restart: new ReorgDetector on the same DB (Start = loadTrackedHeaders), new driver (Subscribe finds the subscription or
   creates an empty list), Sync starts a Download at GetLastProcessedBlock()+1; the store persists *)
Definition do_restart (s : sys) : sys :=
  {| y_world := y_world s; y_final := y_final s; y_store := y_store s; y_det := reload (y_det s);
     y_dl := dl_init (sync_from (lp (y_store s))) []; y_chan := []; y_rewinds := y_rewinds s |}.
Definition do_crash_mid (s : sys) : sys :=
  match y_chan s with
  | [] => do_restart s
  | c :: _ => do_restart (set_det s (track c (y_det s)))
  end.

Definition do_crash_notify (s : sys) (ferr : bool) (errat : option nat) : sys :=
  let r := detect_pre (env_of (y_world s) ferr errat) (y_det s) in
  do_restart (set_det s (fst r)).

Definition step (cfg : config) (s : sys) (e : event) : sys :=
  match e with
  | EWorld w => set_world s w
  | EPoll err => do_poll cfg s err
  | EHandle => do_handle s
  | EHandleAll => do_handle_all s
  | ETick ferr errat => do_tick s ferr errat
  | ERestart => do_restart s
  | ECrashMid => do_crash_mid s
  | ECrashNotify ferr errat => do_crash_notify s ferr errat
  end.
Definition run (cfg : config) (s : sys) (es : list event) : sys := fold_left (step cfg) es s.

(* a fresh node on an empty store: Start, Subscribe, Sync *)
Definition sys_init (w : world) : sys :=
  {| y_world := w; y_final := w_fin w; y_store := []; y_det := det_empty; y_dl := dl_init (sync_from 0) []; y_chan := [];
     y_rewinds := [] |}.

(* ---- reference notions used by the statements (not by the step function) ---- *)
(* a processed block is canonical for world w: the node has that number and answers the same hash *)
Definition canonical (w : world) (p : pblock) : Prop := node_header w (p_num p) = Some (p_hash p).
Definition canonicalb (w : world) (p : pblock) : bool :=
  match node_header w (p_num p) with Some h => h =? p_hash p | None => false end.
(* hash linkage of two versions: equal non-zero hashes at a height mean equal blocks at and below that height
   (a block hash commits to its parent hash and to its receipts) *)
Definition linked (u v : version) : Prop :=
  forall n, v_hash u n <> 0 -> v_hash u n = v_hash v n ->
            forall m, m <= n -> v_hash u m = v_hash v m /\ v_logs u m = v_logs v m.
(* what a node that only ever saw version v has stored once its last processed block is l: the event blocks of 1..l *)
Definition ref_store (cfg : config) (v : version) (l : N) : list pblock :=
  flat_map (fun k => match watched_events cfg (v_logs v) k with
                     | [] => []
                     | e => [{| p_num := k; p_hash := v_hash v k; p_evs := e |}]
                     end) (range 1 l).
Definition has_events (p : pblock) : bool := match p_evs p with [] => false | _ => true end.
