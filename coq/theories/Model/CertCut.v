(* C17 model: cutting a certificate's block range.
     aggsender/types/certificate_build_params.go : Range, NumberOfBlocks, NumberOfBridges/Claims, IsEmpty, IsARetry, EstimatedSize
     aggsender/flows/flow_base.go                : limitCertSize
     aggsender/flows/max_l2blocknumber_limiter.go: AdaptCertificate (IsEnabled, IsAllowedBlockNumber, isUpcomingNextRange)
     aggsender/types/block_range.go              : CountBlocks, IsEmpty, Gap, getBlockMinusOne
   transcribed one-for-one (same case order, same loop, uint64 / int wrap written explicitly).
   Definitions only. *)
From Coq Require Import NArith ZArith List Bool.
From Verif Require Base.GoNum.
Import ListNotations.
Open Scope N_scope.

(* ------------------------------------------------------------------------------------------ *)
(* machine integers *)

Definition U64 : N := 18446744073709551616.                 (* 2^64 *)
Definition I63 : N := 9223372036854775808.                  (* 2^63 *)
Definition add64 (a b : N) : N := (a + b) mod U64.          (* uint64 a + b *)
Definition sub64 (a b : N) : N := (a + U64 - b) mod U64.    (* uint64 a - b, for a, b < 2^64 *)
Definition int_of_u64 (x : N) : Z :=                        (* Go int(x) on a 64-bit platform *)
  if x <? I63 then Z.of_N x else (Z.of_N x - Z.of_N U64)%Z.

(* ------------------------------------------------------------------------------------------ *)
(* certificate build parameters *)

(* a bridge or a claim, reduced to what the functions under test read: BlockNum and len(Metadata);
   ev_id is an identity tag (DepositCount / GlobalIndex in the harness) that makes drops, duplicates and
   reorderings observable *)
Record event := Ev { ev_block : N; ev_meta : N; ev_id : N }.

Inductive cert_type := TUnknown | TPP | TFEP | TOptimistic.  (* CertificateType 0,1,2,3 *)

Record params := P {
  p_from : N;                 (* FromBlock *)
  p_to : N;                   (* ToBlock *)
  p_bridges : list event;     (* Bridges *)
  p_claims : list event;      (* Claims *)
  p_retry : Z;                (* RetryCount (int) *)
  p_has_last : bool;          (* LastSentCertificate != nil *)
  p_type : cert_type          (* CertificateType *)
}.

Inductive result (E A : Type) := Ok (a : A) | Err (e : E).
Arguments Ok {E A} a.
Arguments Err {E A} e.

Inductive range_err :=
| ENotWithin                  (* "FromBlock %d and ToBlock %d are not within the certificate range" *)
| EFromGtTo.                  (* "FromBlock %d is greater than toBlock %d" *)

Definition in_range (f t : N) (e : event) : bool := (f <=? ev_block e) && (ev_block e <=? t).

(* CertificateBuildParams.Range *)
Definition range_cut (c : params) (f t : N) : result range_err params :=
  if (p_from c =? f) && (p_to c =? t) then Ok c                       (* same range: the receiver itself *)
  else if (f <? p_from c) || (p_to c <? t) then Err ENotWithin
  else if t <? f then Err EFromGtTo
  else Ok (P f t (filter (in_range f t) (p_bridges c)) (filter (in_range f t) (p_claims c))
             (p_retry c) (p_has_last c) (p_type c)).

Definition number_of_bridges (c : params) : N := N.of_nat (length (p_bridges c)).
Definition number_of_claims (c : params) : N := N.of_nat (length (p_claims c)).
(* NumberOfBlocks: int(c.ToBlock - c.FromBlock + 1), uint64 arithmetic then conversion to int *)
Definition number_of_blocks (c : params) : Z := int_of_u64 (add64 (sub64 (p_to c) (p_from c)) 1).
Definition is_empty_cert (c : params) : bool := (number_of_bridges c =? 0) && (number_of_claims c =? 0).
Definition is_retry (c : params) : bool := (0 <? p_retry c)%Z && p_has_last c.

(* ------------------------------------------------------------------------------------------ *)
(* limitCertSize.  [size] is the size estimate (a parameter: the theorems hold for ANY function);
   [max] is cfg.MaxCertSize.  The Go `for {}` loop becomes recursion on explicit fuel; one iteration
   of the loop = one unfolding, same tests in the same order. *)

Inductive lres := LDone (c : params) | LErr (e : range_err) | LOutOfFuel.

Fixpoint limit_loop (size : params -> N) (max : N) (fuel : nat) (cur : params) : lres :=
  match fuel with
  | O => LOutOfFuel
  | S k =>
    if (max =? 0) || (size cur <=? max) then LDone cur
    else if (number_of_blocks cur <=? 1)%Z then LDone cur            (* "Minimum number of blocks reached" *)
    else match range_cut cur (p_from cur) (sub64 (p_to cur) 1) with
         | Err e => LErr e                                            (* "error reducing certificate" *)
         | Ok c' => limit_loop size max k c'
         end
  end.

(* fuel: one iteration per block of the range (proved sufficient in Proofs/CertCutProofs.v) *)
Definition limit_fuel (c : params) : nat := S (N.to_nat (p_to c - p_from c)).
Definition limit_cert_size (size : params -> N) (max : N) (c : params) : lres :=
  limit_loop size max (limit_fuel c) c.

(* for evaluation inside case files: same loop, fuel capped so that absurd ranges cannot make
   N.to_nat explode (limit_loop_fuel_irrelevant: any fuel that does not run out gives the same answer) *)
Definition limit_cert_size_exec (size : params -> N) (max : N) (c : params) : lres :=
  limit_loop size max (S (N.to_nat (N.min (p_to c - p_from c) 4096))) c.

(* ------------------------------------------------------------------------------------------ *)
(* EstimatedSize, executable instance of [size].

   The Go code accumulates float64 values:
       sizeBridges += EstimatedBridgeExitSize (0.09*KB = 92.16); sizeBridges += float64(len(Metadata))   per bridge
       sizeClaims  += EstimatedImportedBridgeExitSize (2.8*KB = 2867.2); += float64(len(Metadata))       per claim
       FEP: 10*KB + float64(len(Claims)*200)      otherwise: 0.07*KB = 71.68
       return uint(sizeBridges + sizeClaims + sizeAggchainData)
   92.16, 2867.2 and 71.68 are not binary64 numbers and the exact (rational) total is an integer for
   many small layouts (2 bridges, pp: 184.32 + 71.68 = 256; 7 bridges + 1 claim, pp: 3584; 5 claims, fep ...),
   so whether uint() truncates to n or n-1 is decided by the rounding of every intermediate sum.
   Observed on the real code: 7 bridges + 1 claim (pp) gives 3583, not 3584. A model with exact rationals
   would therefore disagree with the code exactly at the limits the property speaks about; the model uses
   Flocq's IEEE-754 binary64 (round to nearest even, Bplus/Bdiv of Flocq.IEEE754.BinarySingleNaN), with the same
   order of additions as the Go code. The constants are the nearest doubles of the exact rationals
   (Go evaluates the untyped constant expression 0.09 * 1024 exactly, then rounds once): obtained here as the
   correctly rounded quotient of two exactly representable integers.
   The harness probes limits size-1, size, size+1 of every prefix, and layouts whose exact size is an integer. *)

(* the float64 operations are those of Base/GoNum.v (Flocq BinarySingleNaN binary64), the same the definitions GENERATED from the
   Go source use (Gen/GenBuildParams.v; Proofs/GenAgreeBuildParams.v proves them equal to the definitions below) *)
Definition f64 := GoNum.f64.
Definition f64_of_N (n : N) : f64 := GoNum.f64_of_N n.            (* float64(n), exact for n < 2^53 *)
Definition fadd : f64 -> f64 -> f64 := GoNum.f64_add.
Definition f64_ratio (num den : N) : f64 := GoNum.f64_ratio num den.

Definition kb : N := 1024.                                        (* aggkitcommon.KB = 1 << 10 *)
Definition claim_size_factor : N := 200.                          (* claimSizeFactor *)
Definition est_bridge_exit : f64 := f64_ratio (9 * kb) 100.       (* EstimatedBridgeExitSize         = 0.09 * KB *)
Definition est_imported_exit : f64 := f64_ratio (28 * kb) 10.     (* EstimatedImportedBridgeExitSize = 2.8 * KB *)
Definition est_signature : f64 := f64_ratio (7 * kb) 100.         (* EstimatedAggchainSignatureSize  = 0.07 * KB *)
Definition est_proof : f64 := f64_of_N (10 * kb).                 (* EstimatedAggchainProofSize      = 10 * KB *)

Definition f64_trunc (x : f64) : N := GoNum.f64_to_u64 x.   (* uint(x), x >= 0 and in range *)

Definition sum_events (k : f64) (l : list event) : f64 :=
  fold_left (fun acc e => fadd (fadd acc k) (f64_of_N (ev_meta e))) l (f64_of_N 0).

Definition estimated_size (c : params) : N :=
  let size_bridges := sum_events est_bridge_exit (p_bridges c) in
  let size_claims := sum_events est_imported_exit (p_claims c) in
  let size_aggchain :=
    match p_type c with
    | TFEP => fadd (fadd (f64_of_N 0) est_proof) (f64_of_N (number_of_claims c * claim_size_factor))
    | _ => fadd (f64_of_N 0) est_signature
    end in
  f64_trunc (fadd (fadd size_bridges size_claims) size_aggchain).

(* nil receiver: EstimatedSize() = 0 *)
Definition estimated_size_opt (oc : option params) : N :=
  match oc with None => 0 | Some c => estimated_size c end.

(* ------------------------------------------------------------------------------------------ *)
(* MaxL2BlockNumberLimiter.AdaptCertificate *)

Record limiter := Lim {
  l_max : N;                  (* maxL2BlockNumber; 0 = disabled *)
  l_allow_resize_retry : bool;(* allowToResizeRetryCert *)
  l_require_bridge : bool     (* requireOneBridgeInCertificate *)
}.

Inductive adapt_err :=
| ANil                        (* ErrBuildParamsIsNil *)
| ARetryExceeded              (* ErrMaxL2BlockNumberExceededInARetryCert *)
| ACompleteUpcoming           (* ErrComplete: "just the upcoming next range after the last sent certificate" *)
| ACompleteFar                (* ErrComplete: "Cert has exceeded the maximum block" *)
| ARange (e : range_err)      (* "error adjusting the ToBlock of the certificate" *)
| ANoBridgesButClaims         (* "has no bridges but have %d of ImportedBridges" *)
| ACompleteNothing.           (* ErrComplete: "Nothing to do" *)

Definition is_enabled (l : limiter) : bool := 0 <? l_max l.
Definition is_allowed_block (l : limiter) (b : N) : bool := if is_enabled l then b <=? l_max l else true.
Definition is_upcoming_next_range (l : limiter) (f t : N) : bool :=
  if is_enabled l then (f =? add64 (l_max l) 1) && (l_max l <? t) else false.

Definition adapt_certificate (l : limiter) (oc : option params) : result adapt_err (option params) :=
  if negb (is_enabled l) then Ok oc
  else match oc with
  | None => Err ANil
  | Some c =>
    if is_allowed_block l (p_to c) then Ok (Some c)
    else if is_retry c && negb (l_allow_resize_retry l) then Err ARetryExceeded
    else if is_upcoming_next_range l (p_from c) (p_to c) then Err ACompleteUpcoming
    else if l_max l <? p_from c then Err ACompleteFar
    else match range_cut c (p_from c) (l_max l) with
    | Err e => Err (ARange e)
    | Ok n =>
      if negb (l_require_bridge l) && is_empty_cert n then Ok (Some n)
      else if l_require_bridge l && (number_of_bridges n =? 0) then
        (if 0 <? number_of_claims n then Err ANoBridgesButClaims else Err ACompleteNothing)
      else Ok (Some n)
    end
  end.

(* ------------------------------------------------------------------------------------------ *)
(* BlockRange *)

Record brange := R { rf : N; rt : N }.                            (* FromBlock, ToBlock *)

Definition minus_one (x : N) : N := if 0 <? x then x - 1 else 0.  (* getBlockMinusOne: saturating *)

Definition count_blocks (b : brange) : N :=
  if (rf b =? 0) && (rt b =? 0) then 0
  else if rt b <? rf b then 0
  else add64 (sub64 (rt b) (rf b)) 1.
Definition is_empty_range (b : brange) : bool := count_blocks b =? 0.

Definition gap (b o : brange) : brange :=
  if (minus_one (rf o) <=? rt b) && (minus_one (rf b) <=? rt o) then R 0 0      (* BlockRange{} *)
  else if rt b <? rf o then R (add64 (rt b) 1) (sub64 (rf o) 1)
  else R (add64 (rt o) 1) (minus_one (rf b)).

(* ------------------------------------------------------------------------------------------ *)
(* vocabulary of the property statements (reference notions, no code transcribed below this line) *)

(* c restricted to the blocks f..t: exactly the events of those blocks, in the order of c's lists *)
Definition restrict (c : params) (f t : N) : params :=
  P f t (filter (in_range f t) (p_bridges c)) (filter (in_range f t) (p_claims c)) (p_retry c) (p_has_last c) (p_type c).

(* every event of the certificate lies in the certificate's own block range *)
Definition events_in_range (c : params) : Prop :=
  Forall (fun e => in_range (p_from c) (p_to c) e = true) (p_bridges c) /\
  Forall (fun e => in_range (p_from c) (p_to c) e = true) (p_claims c).

(* a block range from <= to of uint64 numbers with fewer than 2^63 blocks (NumberOfBlocks() fits Go's int) *)
Definition wf_span (c : params) : Prop := p_from c <= p_to c /\ p_to c < U64 /\ p_to c - p_from c + 1 < I63.

(* the certificate respects the configured size limit (0 = no limit) *)
Definition fits (size : params -> N) (max : N) (c : params) : Prop := max = 0 \/ size c <= max.

Definition wf_range (b : brange) : Prop := rf b <= rt b /\ rt b < U64.
(* touching or overlapping: no block lies strictly between the two ranges *)
Definition touching (b o : brange) : Prop := rf o <= rt b + 1 /\ rf b <= rt o + 1.
Definition strictly_between (b o : brange) (k : N) : Prop := (rt b < k /\ k < rf o) \/ (rt o < k /\ k < rf b).
