(* C15 under L1 reorgs: the oracle runs against an L1 info tree history that CHANGES between ticks (the L1 chain is
   reorganised from some block on and the syncer follows the new fork). The tick itself is the one of Model/Oracle.v
   (step takes the history as an argument); what is new is that every tick comes with the history that is canonical
   when it runs. The correspondence and the executable safety clause are the ones of Model/C15Cases.v with the
   history taken per tick. Definitions only.

   A reorg case carries a POOL of leaves (c_hist of the base case: the initial history followed by the leaves of the
   forks) and, per tick, the indices (into the pool, in L1 order) of the leaves that form the canonical history at
   that tick. i_l2add of a tick indexes the history of THAT tick; c_l2init indexes the pool. *)
From Coq Require Import NArith ZArith List Bool.
From Verif Require Import Base.Bytes Base.Hash Model.Oracle Model.C19Cases Model.C15Cases.
Import ListNotations.
Open Scope N_scope.

Definition sel (pool : list row) (ix : list nat) : list row :=
  flat_map (fun k => match nth_error pool k with Some l => [l] | None => [] end) ix.

(* runs over a changing history: every tick with the history that is canonical when it runs *)
Fixpoint run_r (tk : tickfn) (st : state) (sched : list (list row * tin)) : list (N * action) :=
  match sched with
  | [] => []
  | (h, i) :: r => snd (step tk h st i) :: run_r tk (fst (step tk h st i)) r
  end.

Definition targets_before_r (tk : tickfn) (st : state) (sched : list (list row * tin)) : list N :=
  fst st :: map fst (run_r tk st sched).

Record case15r := {
  r_base : case15;                  (* c_hist = the pool *)
  r_hists : list (list nat);        (* per tick; [] for the whole case = linear history = the pool itself at every tick *)
}.

Fixpoint corr_walk_r (tk : tickfn) (tag : Z) (pool : list row) (st : state) (ticks : list (tin * tobs))
    (hs : list (list nat)) : bool :=
  match ticks, hs with
  | [], _ => true
  | (i, o) :: r, h :: hr =>
      let hist := sel pool h in
      let s := step tk hist st i in
      sorted_histb hist && tobs_eqb (predicted tag (fst st) (snd s)) o && corr_walk_r tk tag pool (fst s) r hr
  | _ :: _, [] => false
  end.

Definition corr_with_r (tk : tickfn) (c : case15r) : bool :=
  let b := r_base c in
  let pool := hist_of b in
  negb (c_harness_err b) &&
  list_eqb N.eqb (c_gers b) (map snd pool) &&
  corr_walk_r tk (c_tag b) pool (0, resolve pool (c_l2init b)) (c_ticks b) (r_hists c).

(* safety under reorgs: a root for which InjectGER is called in tick t is the most recent root, at or below the most
   recently sampled block, of the history that is canonical AT TICK t (a root of a fork that has been reorganised away
   is not a root "the L1 info tree holds"), and it was not on L2 *)
Fixpoint safe_walk_r (tag : Z) (pool : list row) (l2 : list N) (last : option N) (ticks : list (tin * tobs))
    (hs : list (list nat)) : bool :=
  match ticks, hs with
  | [], _ => true
  | (i, o) :: r, h :: hr =>
      let hist := sel pool h in
      let l2b := resolve hist (i_l2add i) ++ l2 in
      let last' := if sampled tag i o then Some (i_F i) else last in
      (length (o_inj o ++ o_att o) <=? 1)%nat &&
      forallb (fun g => match last' with
                        | None => false
                        | Some F => opt_eqb (ref_latest hist F) (Some g)
                        end && negb (mem g l2b)) (o_inj o ++ o_att o) &&
      safe_walk_r tag pool (o_inj o ++ l2b) last' r hr
  | _ :: _, [] => false
  end.

Definition spec_safe_r (c : case15r) : bool :=
  let b := r_base c in
  let pool := hist_of b in
  safe_walk_r (c_tag b) pool (resolve pool (c_l2init b)) None (c_ticks b) (r_hists c).

(* what the check evaluates: linear cases exactly as before (safety and both liveness clauses); reorg cases the
   correspondence per tick and the safety clause (the liveness theorems are stated for a history that does not change
   below a sampled block, see DESIGN) *)
Definition corr_any (c : case15r) : bool :=
  match r_hists c with [] => corr (r_base c) | _ => corr_with_r tick_fixed c end.
Definition spec_any (c : case15r) : bool :=
  match r_hists c with [] => spec (r_base c) | _ => spec_safe_r c end.

(* observations of the model on a changing history *)
Fixpoint model_obs_r (tk : tickfn) (tag : Z) (st : state) (sched : list (list row * tin)) : list (tin * tobs) :=
  match sched with
  | [] => []
  | (h, i) :: r => let s := step tk h st i in (i, predicted tag (fst st) (snd s)) :: model_obs_r tk tag (fst s) r
  end.
