(* Correspondence and property predicates for L1-info-tree store scenarios (C11, and the l1infotreesync parts of C04 / C07).
   A case = operation sequence (blocks as header + logs, optional storage fault; reorg; restart; snapshot) + what the real
   processor returned (result codes, snapshots of every facade query) +, for the as-if properties, the observations of a
   reference ("twin") run of the real processor on the clean history +, for cases whose logs come from the real contracts in a
   simulated EVM, what the contracts themselves answered. Definitions only. *)
From Coq Require Import NArith ZArith List Bool Uint63.
From Verif Require Import Base.Bytes Base.FastBytes Base.Hash Model.Merkle Model.TreeStore Model.Contracts Model.L1InfoStore.
Import ListNotations.
Open Scope N_scope.

(* 256-bit values are transcribed as little-endian 60-bit limbs (primitive integer literals parse ~100x faster than N literals) *)
Definition n63 (i : int) : N := Z.to_N (Uint63.to_Z i).
Definition hx (limbs : list int) : N := fold_right (fun i acc => N.lor (n63 i) (N.shiftl acc 60)) 0 limbs.

Inductive op := OBlock (h : header) (logs : list log) (f : fault) | OReorg (b : N) | ORestart | OSnap | OReset.

(* result codes: 0 ok, 1 inconsistent, 2 fault, 3 constraint, 4 not found, 5 invalid index, 9 other *)
Definition code_of (r : option perr) : N :=
  match r with
  | None => 0 | Some PInconsistent => 1 | Some PFault => 2 | Some PConstraint => 3 | Some PNotFound => 4
  | Some PInvalidIndex => 5 | Some POther => 9 end.
(* query codes: 0 ok, 1 not found, 2 not processed, 3 no block 0, 9 other *)
Definition qcode (e : qerr) : N := match e with QNotFound => 1 | QNotProcessed => 2 | QNoBlock0 => 3 | QOther => 9 end.

Record infoq := mkIQ { iq_i : N; iq_leaf : option leaf_row; iq_root : option root_row;
                       iq_proof : option (list N * root_row); iq_calc : option N }.
Record vbq := mkVQ { vq_rid : N; vq_last : option vb_row; vq_first : option vb_row; vq_after : list (N * option vb_row) }.
Record rollupq := mkRQ { rq_root : N; rq_id : N; rq_code : N; rq_leaf : N; rq_proof : list N }.
Record snap := mkSnap {
  sn_last : N; sn_halted : bool; sn_memlast : Z;
  sn_infos : list infoq;                       (* GetInfoByIndex, GetL1InfoTreeRootByIndex, GetL1InfoTreeMerkleProof per index *)
  sn_byger : list (N * option N);              (* GetInfoByGlobalExitRoot: ger -> index of the leaf returned *)
  sn_byrer : list (N * option N);              (* GetFirstL1InfoWithRollupExitRoot *)
  sn_until : list (N * N * option N);          (* GetLatestInfoUntilBlock: block, code, index *)
  sn_after : list (N * option N);              (* GetFirstInfoAfterBlock *)
  sn_first : option N; sn_lastinfo : option N; (* GetFirstInfo, GetLastInfo *)
  sn_lastl1 : option root_row; sn_lastrollup : option root_row;   (* GetLastL1InfoTreeRoot, GetLastRollupExitRoot *)
  sn_vb : list vbq;                            (* GetLastVerifiedBatches, GetFirstVerifiedBatches, GetFirstVerifiedBatchesAfterBlock *)
  sn_rollup : list rollupq;                    (* GetLocalExitRoot, GetRollupExitTreeMerkleProof per (recorded root, network id) *)
  sn_puntil : list (N * option (N * N));       (* GetProcessedBlockUntil *)
  sn_toroot : list (N * N * list N);           (* GetL1InfoTreeMerkleProofFromIndexToRoot: index, root, proof *)
  sn_init : option (N * N * N) }.              (* GetInitL1InfoRootMap *)

Record contract_obs := mkCO { co_l1root : N; co_count : N; co_rollup : N; co_lastger : N; co_leafvals : list N }.

Record lcase := mkCase {
  c_ops : list op; c_res : list N; c_snaps : list snap;
  c_twin_ops : list op; c_twin_res : list N; c_twin_snaps : list snap;
  c_contract : list contract_obs }.

(* ---------- equality helpers ---------- *)
Fixpoint list_eqb {A} (eqb : A -> A -> bool) (a b : list A) : bool :=
  match a, b with [], [] => true | x :: a', y :: b' => eqb x y && list_eqb eqb a' b' | _, _ => false end.
Definition opt_eqb {A} (eqb : A -> A -> bool) (a b : option A) : bool :=
  match a, b with None, None => true | Some x, Some y => eqb x y | _, _ => false end.
Definition pair_eqb {A B} (ea : A -> A -> bool) (eb : B -> B -> bool) (a b : A * B) : bool := ea (fst a) (fst b) && eb (snd a) (snd b).
Definition leaf_eqb (a b : leaf_row) : bool :=
  (l_block a =? l_block b) && (l_bpos a =? l_bpos b) && (l_idx a =? l_idx b) && (l_parent a =? l_parent b) && (l_ts a =? l_ts b) &&
  (l_mer a =? l_mer b) && (l_rer a =? l_rer b) && (l_ger a =? l_ger b) && (l_hash a =? l_hash b).
Definition root_eqb (a b : root_row) : bool :=
  (r_hash a =? r_hash b) && (r_pos a =? r_pos b) && (r_block a =? r_block b) && (r_bpos a =? r_bpos b).
Definition vb_eqb (a b : vb_row) : bool :=
  (vr_block a =? vr_block b) && (vr_pos a =? vr_pos b) && (vr_rid a =? vr_rid b) && (vr_batch a =? vr_batch b) &&
  (vr_sroot a =? vr_sroot b) && (vr_exit a =? vr_exit b) && (vr_agg a =? vr_agg b) && (vr_rer a =? vr_rer b).
Definition infoq_eqb (a b : infoq) : bool :=
  (iq_i a =? iq_i b) && opt_eqb leaf_eqb (iq_leaf a) (iq_leaf b) && opt_eqb root_eqb (iq_root a) (iq_root b) &&
  opt_eqb (pair_eqb (list_eqb N.eqb) root_eqb) (iq_proof a) (iq_proof b) && opt_eqb N.eqb (iq_calc a) (iq_calc b).
Definition vbq_eqb (a b : vbq) : bool :=
  (vq_rid a =? vq_rid b) && opt_eqb vb_eqb (vq_last a) (vq_last b) && opt_eqb vb_eqb (vq_first a) (vq_first b) &&
  list_eqb (pair_eqb N.eqb (opt_eqb vb_eqb)) (vq_after a) (vq_after b).
Definition rollupq_eqb (a b : rollupq) : bool :=
  (rq_root a =? rq_root b) && (rq_id a =? rq_id b) && (rq_code a =? rq_code b) && (rq_leaf a =? rq_leaf b) &&
  list_eqb N.eqb (rq_proof a) (rq_proof b).
Definition n3_eqb (a b : N * N * N) : bool := pair_eqb (pair_eqb N.eqb N.eqb) N.eqb a b.
(* snapshot equality on everything a client can query (the in-memory lastIndex is NOT a query) *)
Definition snap_query_eqb (a b : snap) : bool :=
  (sn_last a =? sn_last b) && Bool.eqb (sn_halted a) (sn_halted b) &&
  list_eqb infoq_eqb (sn_infos a) (sn_infos b) &&
  list_eqb (pair_eqb N.eqb (opt_eqb N.eqb)) (sn_byger a) (sn_byger b) &&
  list_eqb (pair_eqb N.eqb (opt_eqb N.eqb)) (sn_byrer a) (sn_byrer b) &&
  list_eqb (pair_eqb (pair_eqb N.eqb N.eqb) (opt_eqb N.eqb)) (sn_until a) (sn_until b) &&
  list_eqb (pair_eqb N.eqb (opt_eqb N.eqb)) (sn_after a) (sn_after b) &&
  opt_eqb N.eqb (sn_first a) (sn_first b) && opt_eqb N.eqb (sn_lastinfo a) (sn_lastinfo b) &&
  opt_eqb root_eqb (sn_lastl1 a) (sn_lastl1 b) && opt_eqb root_eqb (sn_lastrollup a) (sn_lastrollup b) &&
  list_eqb vbq_eqb (sn_vb a) (sn_vb b) && list_eqb rollupq_eqb (sn_rollup a) (sn_rollup b) &&
  list_eqb (pair_eqb N.eqb (opt_eqb (pair_eqb N.eqb N.eqb))) (sn_puntil a) (sn_puntil b) &&
  list_eqb (pair_eqb (pair_eqb N.eqb N.eqb) (list_eqb N.eqb)) (sn_toroot a) (sn_toroot b) &&
  opt_eqb n3_eqb (sn_init a) (sn_init b).
Definition snap_eqb (a b : snap) : bool := snap_query_eqb a b && Z.eqb (sn_memlast a) (sn_memlast b).

Definition empty_snap (halted : bool) (memlast : Z) : snap :=
  mkSnap 0 halted memlast [] [] [] [] [] None None None None [] [] [] [] None.

(* ---------- the model's snapshot, for the query keys the implementation was observed at ---------- *)
Definition model_snap (st : lstate) (obs : snap) : snap :=
  let d := st_db st in
  (* a halted syncer answers every query, GetLastProcessedBlock included, with the inconsistency error *)
  if st_halted st then empty_snap true (m_last (st_mem st)) else
  mkSnap (last_processed d) false (m_last (st_mem st))
    (map (fun o => let i := iq_i o in
                   let lf := info_by_index d i in
                   let pr := l1_merkle_proof d i in
                   mkIQ i lf (l1_root_by_index d i) pr
                        (match lf, pr with Some l, Some (sibs, _) => Some (calculate_root (l_hash l) sibs i) | _, _ => None end))
         (sn_infos obs))
    (map (fun o => (fst o, option_map l_idx (info_by_ger d (fst o)))) (sn_byger obs))
    (map (fun o => (fst o, option_map l_idx (first_info_with_rer d (fst o)))) (sn_byrer obs))
    (map (fun o => let b := fst (fst o) in
                   match latest_info_until_block d b with inr l => (b, 0, Some (l_idx l)) | inl e => (b, qcode e, None) end) (sn_until obs))
    (map (fun o => (fst o, option_map l_idx (first_info_after_block d (fst o)))) (sn_after obs))
    (option_map l_idx (first_info d)) (option_map l_idx (last_info d))
    (last_l1_root d) (last_rollup_root d)
    (map (fun o => let rid := vq_rid o in
                   mkVQ rid (last_verified d rid) (first_verified d rid)
                        (map (fun a => (fst a, first_verified_after_block d rid (fst a))) (vq_after o))) (sn_vb obs))
    (map (fun o => let '(code, lf) := match local_exit_root d (rq_id o) (rq_root o) with inr x => (0, x) | inl e => (qcode e, 0) end in
                   mkRQ (rq_root o) (rq_id o) code lf (rollup_merkle_proof d (rq_id o) (rq_root o))) (sn_rollup obs))
    (map (fun o => (fst o, processed_block_until d (fst o))) (sn_puntil obs))
    (map (fun o => let '(i, r, _) := o in (i, r, l1_merkle_proof_to_root d i r)) (sn_toroot obs))
    (init_root_map d).

Fixpoint run_ops (ops : list op) (st : lstate) (obs : list snap) : list N * list snap :=
  match ops with
  | [] => ([], [])
  | o :: rest =>
    match o with
    | OBlock h logs f =>
      let '(r, st') := process_block f st (block_of h logs) in
      let '(rs, ss) := run_ops rest st' obs in (code_of r :: rs, ss)
    | OReorg b => let '(rs, ss) := run_ops rest (reorg st b) obs in (0 :: rs, ss)
    | ORestart => let '(rs, ss) := run_ops rest (restart st) obs in (0 :: rs, ss)
    | OReset => let '(rs, ss) := run_ops rest lstate_new obs in (0 :: rs, ss)
    | OSnap =>
      match obs with
      | [] => let '(rs, ss) := run_ops rest st [] in (0 :: rs, ss)
      | ob :: obs' => let '(rs, ss) := run_ops rest st obs' in (0 :: rs, model_snap st ob :: ss)
      end
    end
  end.

(* model == implementation, on the main run and on the twin run *)
Definition corr_run (ops : list op) (res : list N) (snaps : list snap) : bool :=
  let '(rs, ss) := run_ops ops lstate_new snaps in
  list_eqb N.eqb rs res && list_eqb snap_eqb ss snaps.
Definition corr (c : lcase) : bool :=
  corr_run (c_ops c) (c_res c) (c_snaps c) && corr_run (c_twin_ops c) (c_twin_res c) (c_twin_snaps c).

(* C04 / C07 parts: every query answers as on the reference node (twin run of the REAL code on the clean history) *)
Definition spec_asif (c : lcase) : bool :=
  list_eqb snap_query_eqb (c_snaps c) (c_twin_snaps c) && negb (Nat.eqb (length (c_snaps c)) 0).

(* =====================================================================================================
   C11: an independent reference of what the L1 contracts hold, evaluated against the implementation's answers.
   It uses only Model/Contracts.v (DepositContract, leaf layout), the sparse reference root below, and naive
   list filters - none of the processor / tree algorithms of the model under test.
   ===================================================================================================== *)

(* reference sparse Merkle root of the depth-h tree whose non-zero leaves are the (index, value) pairs of m
   (distinct indices); all-zero subtrees are short-circuited with the zero-hash table *)
Fixpoint sroot_ref (h : nat) (m : list (N * N)) : N :=
  match h with
  | O => match m with [] => 0 | e :: _ => snd e end
  | S h' =>
    match m with
    | [] => zh (S h')
    | _ => nodeN (sroot_ref h' (filter (fun e => negb (N.testbit (fst e) (N.of_nat h'))) m))
                 (sroot_ref h' (filter (fun e => N.testbit (fst e) (N.of_nat h')) m))
    end
  end.
Definition map_get (m : list (N * N)) (k : N) : N := match find (fun e => fst e =? k) m with Some e => snd e | None => 0 end.
Definition map_set (m : list (N * N)) (k v : N) : list (N * N) := (k, v) :: filter (fun e => negb (fst e =? k)) m.
Definition nonzero_entries (m : list (N * N)) : list (N * N) := filter (fun e => negb (snd e =? 0)) m.

Record rstate := mkR {
  rs_blocks : list (N * N);          (* processed blocks (num, hash) *)
  rs_leaves : list leaf_row;         (* L1 info leaves in chain order, as the contract has them *)
  rs_dc : dcontract;                 (* the GlobalExitRoot contract's deposit tree *)
  rs_roots : list root_row;          (* root after each leaf *)
  rs_map : list (N * N);             (* rollup tree index -> last NON-ZERO exit root *)
  rs_mgr : list (N * N);             (* rollup tree index -> last exit root (what the rollup manager stores) *)
  rs_vbs : list vb_row;              (* accepted updates with the reference rollup exit root after each *)
  rs_versions : list (N * list (N * N));   (* rollup exit root -> leaf map of that version *)
  rs_rroots : list root_row;         (* rollup tree root rows *)
  rs_init : option (N * N * N);
  rs_nverify : nat;                  (* verify events seen (rollupCount > 0 on the manager) *)
  rs_halted : bool }.
Definition rstate_new := mkR [] [] dc_init [] [] [] [] [] [] None O false.

(* the rollup tree position of a rollup id: id - 1 on uint32 *)
Definition rollup_index (rid : N) : N := if rid =? 0 then 4294967295 else rid - 1.

(* one log on the reference; None = the announcement contradicts the contract state (the node must halt) *)
Definition ref_log (h : header) (s : rstate) (l : log) : option rstate :=
  match l with
  | LUpdate idx mer rer =>
    let ger := ger_of mer rer in
    let lh := l1info_leaf_value ger (h_parent h) (h_ts h) in
    let i := N.of_nat (length (rs_leaves s)) in
    let dc := dc_deposit (rs_dc s) lh in
    Some (mkR (rs_blocks s) (rs_leaves s ++ [mkLeaf (h_num h) idx i (h_parent h) (h_ts h) mer rer ger lh]) dc
              (rs_roots s ++ [mkRoot (dc_get_root dc) i (h_num h) idx])
              (rs_map s) (rs_mgr s) (rs_vbs s) (rs_versions s) (rs_rroots s) (rs_init s) (rs_nverify s) false)
  | LV2 root count _ _ =>
    if (root =? dc_get_root (rs_dc s)) && (count =? dc_count (rs_dc s)) then Some s else None
  | LVerify idx rid batch sroot exit agg =>
    let k := rollup_index rid in
    let mgr := map_set (rs_mgr s) k exit in
    if (exit =? 0) || (map_get (rs_map s) k =? exit)
    then Some (mkR (rs_blocks s) (rs_leaves s) (rs_dc s) (rs_roots s) (rs_map s) mgr (rs_vbs s) (rs_versions s) (rs_rroots s)
                   (rs_init s) (S (rs_nverify s)) false)
    else
      let m := map_set (rs_map s) k exit in
      let r := sroot_ref 32 m in
      Some (mkR (rs_blocks s) (rs_leaves s) (rs_dc s) (rs_roots s) m mgr
                (rs_vbs s ++ [mkVbRow (h_num h) idx rid batch sroot exit agg r]) ((r, m) :: rs_versions s)
                (rs_rroots s ++ [mkRoot r k (h_num h) idx]) (rs_init s) (S (rs_nverify s)) false)
  | LInit count root =>
    Some (mkR (rs_blocks s) (rs_leaves s) (rs_dc s) (rs_roots s) (rs_map s) (rs_mgr s) (rs_vbs s) (rs_versions s) (rs_rroots s)
              (Some (h_num h, count, root)) (rs_nverify s) false)
  end.
Fixpoint ref_logs (h : header) (s : rstate) (ls : list log) : option rstate :=
  match ls with [] => Some s | l :: t => match ref_log h s l with Some s' => ref_logs h s' t | None => None end end.
Definition set_halted (s : rstate) (b : bool) : rstate :=
  mkR (rs_blocks s) (rs_leaves s) (rs_dc s) (rs_roots s) (rs_map s) (rs_mgr s) (rs_vbs s) (rs_versions s) (rs_rroots s) (rs_init s) (rs_nverify s) b.
(* expected result code and next reference state of one block *)
Definition ref_block (s : rstate) (h : header) (ls : list log) : N * rstate :=
  if rs_halted s then (1, s) else
  match ref_logs h s ls with
  | None => (1, set_halted s true)
  | Some s' => (0, mkR (rs_blocks s ++ [(h_num h, h_hash h)]) (rs_leaves s') (rs_dc s') (rs_roots s') (rs_map s') (rs_mgr s') (rs_vbs s')
                       (rs_versions s') (rs_rroots s') (rs_init s') (rs_nverify s') false)
  end.

(* naive reference answers over the chain-ordered lists *)
Definition last_opt {A} (l : list A) : option A := match rev l with [] => None | x :: _ => Some x end.
Definition head_opt {A} (l : list A) : option A := match l with [] => None | x :: _ => Some x end.

Definition ref_snap (s : rstate) (obs : snap) : snap :=
  if rs_halted s then empty_snap true (sn_memlast obs) else
  let leaves := rs_leaves s in
  let lastb := match last_opt (rs_blocks s) with Some b => fst b | None => 0 end in
  mkSnap lastb false (sn_memlast obs)
    (map (fun o => let i := iq_i o in
                   let lf := nth_error leaves (N.to_nat i) in
                   let rt := nth_error (rs_roots s) (N.to_nat i) in
                   (* the sibling list itself is checked by recomputation (proofs_ok); everything else must be equal *)
                   mkIQ i lf rt
                        (match rt, iq_proof o with Some r, Some (sibs, _) => Some (sibs, r) | Some r, None => Some ([], r) | None, _ => None end)
                        (match rt with Some r => Some (r_hash r) | None => None end))
         (sn_infos obs))
    (map (fun o => (fst o, option_map l_idx (find (fun l => l_ger l =? fst o) leaves))) (sn_byger obs))
    (map (fun o => (fst o, option_map l_idx (find (fun l => l_rer l =? fst o) leaves))) (sn_byrer obs))
    (map (fun o => let b := fst (fst o) in
                   if b =? 0 then (b, 3, None) else if lastb <? b then (b, 2, None) else
                   match last_opt (filter (fun l => l_block l <=? b) leaves) with
                   | Some l => (b, 0, Some (l_idx l)) | None => (b, 1, None) end) (sn_until obs))
    (map (fun o => (fst o, option_map l_idx (head_opt (filter (fun l => fst o <=? l_block l) leaves)))) (sn_after obs))
    (option_map l_idx (head_opt leaves)) (option_map l_idx (last_opt leaves))
    (last_opt (rs_roots s)) (last_opt (rs_rroots s))
    (map (fun o => let rid := vq_rid o in
                   let mine := filter (fun r => vr_rid r =? rid) (rs_vbs s) in
                   mkVQ rid (last_opt mine) (head_opt mine)
                        (map (fun a => (fst a, head_opt (filter (fun r => fst a <=? vr_block r) mine))) (vq_after o))) (sn_vb obs))
    (sn_rollup obs)                                (* checked by rollup_ok *)
    (map (fun o => (fst o, last_opt (filter (fun b => fst b <=? fst o) (rs_blocks s)))) (sn_puntil obs))
    (sn_toroot obs)                                (* checked by proofs_ok *)
    (rs_init s).

(* every L1 info tree proof served hashes, with the leaf of that index, to the root it belongs to (Gallina Keccak) *)
Definition proofs_ok (s : rstate) (obs : snap) : bool :=
  forallb (fun o => match iq_proof o, nth_error (rs_leaves s) (N.to_nat (iq_i o)) with
                    | Some (sibs, r), Some lf =>
                        Nat.eqb (length sibs) 32 && (calculate_root (l_hash lf) sibs (iq_i o) =? r_hash r)
                    | None, None => true
                    | _, _ => false end) (sn_infos obs) &&
  forallb (fun o => let '(i, root, sibs) := o in
                    match nth_error (rs_leaves s) (N.to_nat i) with
                    | Some lf => Nat.eqb (length sibs) 32 && (calculate_root (l_hash lf) sibs i =? root) &&
                                 existsb (fun r => (r_hash r =? root) && (i <=? r_pos r)) (rs_roots s)
                    | None => false end) (sn_toroot obs).
(* rollup exit tree: for every recorded root R and network id: the leaf is the last non-zero exit root verified for that
   rollup in the version with root R (not found or zero when there is none), and the proof verifies against R *)
Definition rollup_ok (s : rstate) (obs : snap) : bool :=
  forallb (fun o =>
     if rq_id o =? 0 then (rq_code o =? 9) && list_eqb N.eqb (rq_proof o) (repeat 0 32) else
     match find (fun v => fst v =? rq_root o) (rs_versions s) with
     | None => false
     | Some (_, m) =>
       let want := map_get m (rq_id o - 1) in
       (if want =? 0 then (rq_code o =? 1) || ((rq_code o =? 0) && (rq_leaf o =? 0))
        else (rq_code o =? 0) && (rq_leaf o =? want)) &&
       Nat.eqb (length (rq_proof o)) 32 && (calculate_root want (rq_proof o) (rq_id o - 1) =? rq_root o)
     end) (sn_rollup obs).

(* well-formed L1 history (what the quantifier of C11 ranges over): blocks in increasing order, logs in increasing position,
   global exit roots pairwise distinct (the contract emits an update only for a new GER), at most one InitL1InfoRootMap,
   numbers that fit the store's INTEGER columns (< 2^63), no reorg / fault / reset ops *)
Definition upd_gers (ops : list op) : list N :=
  flat_map (fun o => match o with
                     | OBlock _ logs _ => flat_map (fun l => match l with LUpdate _ mer rer => [ger_of mer rer] | _ => [] end) logs
                     | _ => [] end) ops.
Fixpoint distinct (l : list N) : bool := match l with [] => true | x :: t => negb (existsb (N.eqb x) t) && distinct t end.
Fixpoint increasing (l : list N) : bool :=
  match l with [] => true | x :: t => match t with [] => true | y :: _ => (x <? y) && increasing t end end.
Definition log_pos (l : log) : list N := match l with LUpdate i _ _ => [i] | LVerify i _ _ _ _ _ => [i] | _ => [] end.
Definition log_small (l : log) : bool :=
  match l with
  | LUpdate i _ _ => negb (big64 i)
  | LVerify i rid batch _ _ _ => negb (big64 i) && negb (big64 batch) && (rid <=? mask32)
  | LV2 _ count _ _ => count <=? mask32
  | LInit count _ => count <=? mask32 end.
Definition wf_hist (ops : list op) : bool :=
  forallb (fun o => match o with OBlock h logs None => negb (big64 (h_num h)) && negb (big64 (h_ts h)) && forallb log_small logs &&
                                                     increasing (flat_map log_pos logs)
                               | OBlock _ _ (Some _) | OReorg _ | OReset => false | _ => true end) ops &&
  increasing (flat_map (fun o => match o with OBlock h _ _ => [h_num h] | _ => [] end) ops) &&
  distinct (upd_gers ops) &&
  Nat.leb (length (flat_map (fun o => match o with OBlock _ logs _ => filter (fun l => match l with LInit _ _ => true | _ => false end) logs
                                                 | _ => [] end) ops)) 1.

(* the contracts' own answers (cases whose logs come from the simulated L1): getRoot / depositCount / getLeafValue /
   getLastGlobalExitRoot of the GlobalExitRoot contract and getRollupExitRoot of the rollup manager = Model/Contracts.v *)
Definition contract_ok (before after : rstate) (co : contract_obs) : bool :=
  let added := skipn (length (rs_leaves before)) (rs_leaves after) in
  (co_l1root co =? dc_get_root (rs_dc after)) && (co_count co =? dc_count (rs_dc after)) &&
  list_eqb N.eqb (co_leafvals co) (map l_hash added) &&
  (match last_opt added with Some l => co_lastger co =? l_ger l | None => true end) &&
  (match rs_nverify after with O => true | S _ => co_rollup co =? sroot_ref 32 (nonzero_entries (rs_mgr after)) end).

(* walk the ops with the reference: expected result codes, reference snapshots vs observed, contract observations *)
Fixpoint ref_run (ops : list op) (s : rstate) (res : list N) (obs : list snap) (cos : list contract_obs) : bool :=
  match ops, res with
  | [], [] => match obs with [] => true | _ => false end
  | o :: rest, r :: res' =>
    match o with
    | OBlock h logs _ =>
      let '(code, s') := ref_block s h logs in
      let '(cok, cos') := match cos with [] => (true, []) | co :: t => (contract_ok s s' co, t) end in
      (r =? code) && cok && ref_run rest s' res' obs cos'
    | ORestart => ref_run rest (set_halted s false) res' obs cos
    | OSnap => match obs with
               | [] => false
               | ob :: obs' => snap_query_eqb (ref_snap s ob) ob && (if rs_halted s then true else proofs_ok s ob && rollup_ok s ob) &&
                               ref_run rest s res' obs' cos
               end
    | _ => false
    end
  | _, _ => false
  end.

(* announcements are made by the contract right after it added a leaf: the history never announces on an empty tree *)
Fixpoint v2_after_leaf (ops : list op) (seen : bool) : bool :=
  match ops with
  | [] => true
  | OBlock _ logs _ :: rest =>
    let '(ok, seen') := fold_left (fun acc l => let '(ok, seen) := acc in
                                    match l with LUpdate _ _ _ => (ok, true) | LV2 _ _ _ _ => (ok && seen, seen) | _ => (ok, seen) end)
                                  logs (true, seen) in
    ok && v2_after_leaf rest seen'
  | _ :: rest => v2_after_leaf rest seen
  end.

Definition spec_c11 (c : lcase) : bool :=
  if wf_hist (c_ops c) && v2_after_leaf (c_ops c) false
  then ref_run (c_ops c) rstate_new (c_res c) (c_snaps c) (c_contract c) && negb (Nat.eqb (length (c_snaps c)) 0)
  else true.

Fixpoint bad_indices {A} (f : A -> bool) (i : nat) (l : list A) : list nat :=
  match l with [] => [] | x :: t => if f x then bad_indices f (S i) t else i :: bad_indices f (S i) t end.
