(* Executable model of l1infotreesync: the downloader's log -> Event conversion (downloader.go), the processor
   (processor.go, processor_verifybatches.go, processor_initl1inforootmap.go: ProcessBlock with storage faults, Reorg,
   restart) and every query of the L1InfoTreeSync facade (l1infotreesync.go). Built on Model/TreeStore.v
   (l1 info tree = AppendOnlyTree with prefix l1_info_, rollup exit tree = UpdatableTree with prefix rollup_exit_).
   Definitions only.

   Conventions: digests / addresses are N (big-endian value). uint32 wrap is written where the Go code can reach it
   (`RollupID - 1` for id 0, `root.Index + 1` in the V2 check); the leaf index `initialL1InfoIndex + l1InfoLeavesAdded`
   is left unbounded (a wrap needs 2^32 leaves, which AddLeaf's int64 index test rejects anyway). *)
From Coq Require Import NArith ZArith List Bool.
From Verif Require Import Base.Bytes Base.FastBytes Base.Hash Model.Merkle Model.TreeStore.
Import ListNotations.
Open Scope N_scope.

Definition mask32 : N := 4294967295.
Definition u32 (x : N) : N := N.land x mask32.
(* database/sql refuses to bind a uint64 with the high bit set ("uint64 values with high bit set are not supported"):
   block numbers, log positions, timestamps and batch numbers >= 2^63 make the INSERT fail before it reaches SQLite *)
Definition big64 (x : N) : bool := 9223372036854775808 <=? x.
(* uint32 x - 1 *)
Definition u32_pred (x : N) : N := if x =? 0 then mask32 else x - 1.

(* ---------- L1 side: block headers and logs, as the EVM downloader hands them to the appender ---------- *)
Record header := mkHdr { h_num : N; h_hash : N; h_parent : N; h_ts : N }.
Inductive log :=
| LUpdate (idx mer rer : N)                          (* UpdateL1InfoTree(bytes32 indexed mainnetExitRoot, bytes32 indexed rollupExitRoot) *)
| LV2 (root count bh mints : N)                      (* UpdateL1InfoTreeV2(bytes32 currentL1InfoRoot, uint32 indexed leafCount, uint256 blockhash, uint64 minTimestamp) *)
| LVerify (idx rid batch sroot exit agg : N)         (* VerifyBatches / VerifyBatchesTrustedAggregator (same conversion) *)
| LInit (count root : N).                            (* InitL1InfoRootMap(uint32 leafCount, bytes32 currentL1InfoRoot) *)

(* ---------- l1infotreesync.Event ---------- *)
Record upd_ev := mkU { u_pos : N; u_mer : N; u_rer : N; u_parent : N; u_ts : N }.
Record v2_ev := mkV2 { v_root : N; v_count : N; v_bh : N; v_mints : N }.
Record vb_ev := mkVB { vb_pos : N; vb_rid : N; vb_batch : N; vb_sroot : N; vb_exit : N; vb_agg : N }.
Inductive event := EUpdate (u : upd_ev) | EV2 (v : v2_ev) | EVerify (b : vb_ev) | EInit (count root : N).
Record block := mkBlock { k_num : N; k_hash : N; k_events : list event }.

(* downloader.go buildAppender: BlockPosition = log index, ParentHash = b.ParentHash, Timestamp = b.Timestamp *)
Definition convert (h : header) (l : log) : event :=
  match l with
  | LUpdate idx mer rer => EUpdate (mkU idx mer rer (h_parent h) (h_ts h))
  | LV2 root count bh mints => EV2 (mkV2 root count bh mints)
  | LVerify idx rid batch sroot exit agg => EVerify (mkVB idx rid batch sroot exit agg)
  | LInit count root => EInit count root
  end.
(* sync.EVMDriver: Block{Num, Events, Hash} *)
Definition block_of (h : header) (logs : list log) : block := mkBlock (h_num h) (h_hash h) (map (convert h) logs).

(* L1InfoTreeLeaf.GetGlobalExitRoot: legacy keccak over mainnet || rollup ; GetHash: keccak(ger || previous block hash || uint64 BE timestamp) *)
Definition ger_hash (mer rer : N) : N := nodeN mer rer.
Definition leaf_hash (ger parent ts : N) : N := keccakN (be_fast 32 ger ++ be_fast 32 parent ++ be_fast 8 ts).

(* ---------- tables ---------- *)
Record leaf_row := mkLeaf { l_block : N; l_bpos : N; l_idx : N; l_parent : N; l_ts : N; l_mer : N; l_rer : N; l_ger : N; l_hash : N }.
Record vb_row := mkVbRow { vr_block : N; vr_pos : N; vr_rid : N; vr_batch : N; vr_sroot : N; vr_exit : N; vr_agg : N; vr_rer : N }.
Record ldb := mkLdb {
  d_blocks : list (N * N);                 (* block(num PRIMARY KEY, hash) *)
  d_leaves : list leaf_row;                (* l1info_leaf: PRIMARY KEY (block_num, block_pos), global_exit_root UNIQUE *)
  d_vb : list vb_row;                      (* verify_batches: PRIMARY KEY (block_num, block_pos) *)
  d_init : option (N * N * N);             (* l1info_initial (single row): block_num, leaf_count, l1_info_root *)
  d_l1 : tdb;                              (* l1_info_root / l1_info_rht *)
  d_rollup : tdb }.                        (* rollup_exit_root / rollup_exit_rht *)
Definition ldb_empty := mkLdb [] [] [] None tdb_empty tdb_empty.

Record lstate := mkLst { st_db : ldb; st_mem : tmem; st_halted : bool }.
Definition lstate_new := mkLst ldb_empty tmem_new false.

(* ---------- storage faults: "the statement that would be the k-th SUCCESSFUL write to table T in this call fails" ---------- *)
Inductive table := TBlock | TLeaf | TL1Root | TL1Rht | TRollupRoot | TRollupRht | TVerify | TInit | TCommit.
Definition table_eqb (a b : table) : bool :=
  match a, b with
  | TBlock, TBlock | TLeaf, TLeaf | TL1Root, TL1Root | TL1Rht, TL1Rht | TRollupRoot, TRollupRoot
  | TRollupRht, TRollupRht | TVerify, TVerify | TInit, TInit | TCommit, TCommit => true
  | _, _ => false end.
Definition fault := option (table * nat).
Definition counters := table -> nat.
Definition bump (c : counters) (t : table) : counters := fun t' => if table_eqb t' t then S (c t') else c t'.
Definition hits (f : fault) (c : counters) (t : table) : bool :=
  match f with Some (t', k) => table_eqb t t' && Nat.eqb (c t) k | None => false end.

Inductive perr := PInconsistent | PConstraint | PFault | PNotFound | PInvalidIndex | POther.
Definition perr_of_terr (e : terr) : perr :=
  match e with ENotFound => PNotFound | EInvalidIndex => PInvalidIndex | EConstraint => PConstraint | EOther => POther end.

(* Tree.storeRoot with a fault hook (the trigger fires before the PRIMARY KEY(hash) check) *)
Definition store_root_f (f : fault) (t : table) (c : counters) (db : tdb) (r : root_row) : perr + (tdb * counters) :=
  if hits f c t then inl PFault else
  match store_root db r with None => inl PConstraint | Some db' => inr (db', bump c t) end.
(* Tree.storeNodes with a fault hook: duplicates are ignored (and do not count as writes) *)
Definition store_nodes_f (f : fault) (t : table) (c : counters) (m : NM.t (N * N)) (ns : list (N * (N * N)))
  : option (NM.t (N * N) * counters) :=
  fold_left (fun acc n => match acc with
                          | None => None
                          | Some (m, c) => if hits f c t then None else
                                           match NM.find (fst n) m with
                                           | Some _ => Some (m, c)
                                           | None => Some (NM.add (fst n) (snd n) m, bump c t) end
                          end) ns (Some (m, c)).

(* AppendOnlyTree.AddLeaf on the l1 info tree. First component: the in-memory tree as the call leaves it BEFORE `lastIndex++`
   (initCache and the hashing loop write it even when a storage call then fails). *)
Definition tree_add_f (f : fault) (c : counters) (db : tdb) (mem : tmem) (blk bpos idx leaf : N)
  : tmem * (perr + (tdb * counters)) :=
  let go (mem : tmem) :=
    let '(root, c', nodes) := Merkle.climb3 nodeN zh HEIGHT 0 (bitN idx) leaf (cache_of_list 0 (m_cache mem)) in
    let mem1 := mkTmem (m_last mem) (cache_to_list HEIGHT c') in
    match store_root_f f TL1Root c db (mkRoot root idx blk bpos) with
    | inl e => (mem1, inl e)
    | inr (db1, c1) =>
      match store_nodes_f f TL1Rht c1 (t_rht db1) nodes with
      | None => (mem1, inl PFault)
      | Some (rht', c2) => (mem1, inr (mkTdb (t_roots db1) rht', c2))
      end
    end in
  if Z.eqb (Z.of_N idx) (m_last mem + 1)%Z then go mem
  else match init_cache db with
       | inl e => (mem, inl (perr_of_terr e))
       | inr mem' => if Z.eqb (Z.of_N idx) (m_last mem' + 1)%Z then go mem' else (mem', inl PInvalidIndex)
       end.

(* UpdatableTree.UpsertLeaf on the rollup exit tree *)
Definition upsert_f (f : fault) (c : counters) (db : tdb) (blk bpos idx leaf : N) : perr + (N * tdb * counters) :=
  let root := match last_root db with None => zh HEIGHT | Some r => r_hash r end in
  let sibs := swalk zh (lookup db) HEIGHT root (bitN idx) in
  let '(newroot, nodes) := upsert_climb nodeN 0 sibs leaf (bitN idx) in
  match store_root_f f TRollupRoot c db (mkRoot newroot idx blk bpos) with
  | inl e => inl e
  | inr (db1, c1) =>
    match store_nodes_f f TRollupRht c1 (t_rht db1) nodes with
    | None => inl PFault
    | Some (rht', c2) => inr (newroot, mkTdb (t_roots db1) rht', c2)
    end
  end.

(* processor.isNewValueForRollupExitTree *)
Definition is_new_value (db : tdb) (idx exit : N) : bool :=
  match last_root db with
  | None => true
  | Some r => match get_leaf db idx (r_hash r) with None => true | Some lf => negb (lf =? exit) end
  end.

(* ORDER BY block DESC, pos DESC LIMIT 1 / ASC LIMIT 1 over a table in rowid order *)
Definition key_lt (a b : N * N) : bool := (fst a <? fst b) || ((fst a =? fst b) && (snd a <? snd b)).
Definition max_by {A} (key : A -> N * N) (l : list A) : option A :=
  fold_left (fun acc x => match acc with None => Some x | Some a => if key_lt (key a) (key x) then Some x else Some a end) l None.
Definition min_by {A} (key : A -> N * N) (l : list A) : option A :=
  fold_left (fun acc x => match acc with None => Some x | Some a => if key_lt (key x) (key a) then Some x else Some a end) l None.
Definition leaf_key (l : leaf_row) := (l_block l, l_bpos l).
Definition vb_key (r : vb_row) := (vr_block r, vr_pos r).

(* processor.getLastIndex *)
Definition last_leaf (d : ldb) : option leaf_row := max_by leaf_key (d_leaves d).

(* transaction context: working db, in-memory l1 info tree, write counters, l1InfoLeavesAdded (= registered rollback callbacks) *)
Record txc := mkTx { x_db : ldb; x_mem : tmem; x_cnt : counters; x_added : nat }.
Inductive evres :=
| EvFail (e : perr) (mem : tmem) (added : nat) (halt : bool)
| EvOk (x : txc).

Definition set_leaves (d : ldb) (ls : list leaf_row) (t : tdb) : ldb := mkLdb (d_blocks d) ls (d_vb d) (d_init d) t (d_rollup d).
Definition set_vb (d : ldb) (vs : list vb_row) (t : tdb) : ldb := mkLdb (d_blocks d) (d_leaves d) vs (d_init d) (d_l1 d) t.

(* one event of ProcessBlock; `init_idx` = initialL1InfoIndex computed before the loop *)
Definition process_event (f : fault) (blk init_idx : N) (x : txc) (e : event) : evres :=
  let d := x_db x in
  let c := x_cnt x in
  match e with
  | EUpdate u =>
    let idx := init_idx + N.of_nat (x_added x) in
    let ger := ger_hash (u_mer u) (u_rer u) in
    let lh := leaf_hash ger (u_parent u) (u_ts u) in
    let row := mkLeaf blk (u_pos u) idx (u_parent u) (u_ts u) (u_mer u) (u_rer u) ger lh in
    (* meddler.Insert(tx, "l1info_leaf", info) *)
    if big64 (u_pos u) || big64 (u_ts u) then EvFail POther (x_mem x) (x_added x) false else
    if hits f c TLeaf then EvFail PFault (x_mem x) (x_added x) false else
    if existsb (fun r => ((l_block r =? blk) && (l_bpos r =? u_pos u)) || (l_ger r =? ger)) (d_leaves d)
    then EvFail PConstraint (x_mem x) (x_added x) false else
    let c1 := bump c TLeaf in
    (* l1InfoTree.AddLeaf *)
    match tree_add_f f c1 (d_l1 d) (x_mem x) blk (u_pos u) idx lh with
    | (mem', inl err) => EvFail err mem' (x_added x) false
    | (mem', inr (t', c2)) => EvOk (mkTx (set_leaves d (d_leaves d ++ [row]) t') (mem_commit_leaf mem') c2 (S (x_added x)))
    end
  | EV2 v =>
    match last_root (d_l1 d) with
    | None => EvFail PNotFound (x_mem x) (x_added x) false           (* GetLastRoot: not found; no halt *)
    | Some r =>
      if negb (r_hash r =? v_root v) || negb (u32 (r_pos r + 1) =? v_count v)
      then EvFail PInconsistent (x_mem x) (x_added x) true           (* sanity check failed: halt *)
      else EvOk x
    end
  | EVerify b =>
    if vb_exit b =? 0 then EvOk x else                                (* empty ExitRoot: skipped *)
    let idx := u32_pred (vb_rid b) in
    if negb (is_new_value (d_rollup d) idx (vb_exit b)) then EvOk x else  (* same ExitRoot: skipped *)
    if big64 (vb_pos b) then EvFail POther (x_mem x) (x_added x) false else     (* storeRoot cannot bind the position *)
    match upsert_f f c (d_rollup d) blk (vb_pos b) idx (vb_exit b) with
    | inl err => EvFail err (x_mem x) (x_added x) false
    | inr (newroot, t', c1) =>
      if big64 (vb_batch b) then EvFail POther (x_mem x) (x_added x) false else
      if hits f c1 TVerify then EvFail PFault (x_mem x) (x_added x) false else
      if existsb (fun r => (vr_block r =? blk) && (vr_pos r =? vb_pos b)) (d_vb d)
      then EvFail PConstraint (x_mem x) (x_added x) false else
      EvOk (mkTx (set_vb d (d_vb d ++ [mkVbRow blk (vb_pos b) (vb_rid b) (vb_batch b) (vb_sroot b) (vb_exit b) (vb_agg b) newroot]) t')
                 (x_mem x) (bump c1 TVerify) (x_added x))
    end
  | EInit count root =>
    if hits f c TInit then EvFail PFault (x_mem x) (x_added x) false else
    match d_init d with
    | Some _ => EvFail PConstraint (x_mem x) (x_added x) false      (* single_row_id PRIMARY KEY *)
    | None => EvOk (mkTx (mkLdb (d_blocks d) (d_leaves d) (d_vb d) (Some (blk, count, root)) (d_l1 d) (d_rollup d))
                         (x_mem x) (bump c TInit) (x_added x))
    end
  end.

Fixpoint process_events (f : fault) (blk init_idx : N) (x : txc) (es : list event) : evres :=
  match es with
  | [] => EvOk x
  | e :: t => match process_event f blk init_idx x e with
              | EvOk x' => process_events f blk init_idx x' t
              | fail => fail
              end
  end.

(* processor.ProcessBlock under an optional storage fault. On any error the transaction is rolled back:
   database unchanged, rollback callbacks (one per successful AddLeaf) run on the in-memory tree. *)
Definition process_block (f : fault) (st : lstate) (k : block) : option perr * lstate :=
  if st_halted st then (Some PInconsistent, st) else
  let d := st_db st in
  let c0 : counters := fun _ => O in
  if big64 (k_num k) then (Some POther, st) else
  if hits f c0 TBlock then (Some PFault, st) else
  if existsb (fun b => fst b =? k_num k) (d_blocks d) then (Some PConstraint, st) else
  let d1 := mkLdb (d_blocks d ++ [(k_num k, k_hash k)]) (d_leaves d) (d_vb d) (d_init d) (d_l1 d) (d_rollup d) in
  let init_idx := match last_leaf d1 with None => 0 | Some l => l_idx l + 1 end in
  match process_events f (k_num k) init_idx (mkTx d1 (st_mem st) (bump c0 TBlock) O) (k_events k) with
  | EvFail err mem added halt => (Some err, mkLst d (rollback_mem mem added) halt)
  | EvOk x =>
    if hits f (x_cnt x) TCommit then (Some PFault, mkLst d (rollback_mem (x_mem x) (x_added x)) false)
    else (None, mkLst (x_db x) (x_mem x) false)
  end.

(* processor.Reorg: DELETE FROM block WHERE num >= b (l1info_leaf, verify_batches, l1info_initial cascade), both trees' Reorg
   (root rows deleted; the append-only tree also invalidates its cache), un-halt iff block rows were deleted *)
Definition reorg (st : lstate) (b : N) : lstate :=
  let d := st_db st in
  let keep (n : N) := n <? b in
  let deleted := length (filter (fun r => negb (keep (fst r))) (d_blocks d)) in
  mkLst (mkLdb (filter (fun r => keep (fst r)) (d_blocks d))
               (filter (fun r => keep (l_block r)) (d_leaves d))
               (filter (fun r => keep (vr_block r)) (d_vb d))
               (match d_init d with Some (blk, c, r) => if keep blk then Some (blk, c, r) else None | None => None end)
               (tree_reorg (d_l1 d) b)
               (tree_reorg (d_rollup d) b))
        (mkTmem (-2)%Z (m_cache (st_mem st)))
        (st_halted st && Nat.eqb deleted 0).

(* process restart: new processor object on the same database (halted is not persisted) *)
Definition restart (st : lstate) : lstate := mkLst (st_db st) tmem_new false.

(* histories *)
Inductive hop := HBlock (k : block) (f : fault) | HReorg (b : N) | HRestart.
Definition step (st : lstate) (o : hop) : lstate :=
  match o with HBlock k f => snd (process_block f st k) | HReorg b => reorg st b | HRestart => restart st end.
Definition run_hist (ops : list hop) (st : lstate) : lstate := fold_left step ops st.

(* ---------- queries of the facade (on a non-halted syncer; a halted one answers ErrInconsistentState to all of them) ---------- *)
Inductive qerr := QNotFound | QNotProcessed | QNoBlock0 | QOther.

Definition last_processed (d : ldb) : N := fold_left (fun acc b => N.max acc (fst b)) (d_blocks d) 0.
(* GetProcessedBlockUntil: SELECT num, hash FROM block WHERE num <= b ORDER BY num DESC LIMIT 1 *)
Definition processed_block_until (d : ldb) (b : N) : option (N * N) :=
  max_by (fun r => (fst r, 0)) (filter (fun r => fst r <=? b) (d_blocks d)).
Definition info_by_index (d : ldb) (i : N) : option leaf_row := find (fun l => l_idx l =? i) (d_leaves d).
Definition info_by_ger (d : ldb) (g : N) : option leaf_row := find (fun l => l_ger l =? g) (d_leaves d).
Definition first_info_with_rer (d : ldb) (r : N) : option leaf_row := min_by leaf_key (filter (fun l => l_rer l =? r) (d_leaves d)).
Definition last_info (d : ldb) : option leaf_row := max_by leaf_key (d_leaves d).
Definition first_info (d : ldb) : option leaf_row := min_by leaf_key (d_leaves d).
Definition first_info_after_block (d : ldb) (b : N) : option leaf_row := min_by leaf_key (filter (fun l => b <=? l_block l) (d_leaves d)).
Definition latest_info_until_block (d : ldb) (b : N) : qerr + leaf_row :=
  if b =? 0 then inl QNoBlock0 else
  if last_processed d <? b then inl QNotProcessed else
  match max_by leaf_key (filter (fun l => l_block l <=? b) (d_leaves d)) with Some l => inr l | None => inl QNotFound end.
Definition l1_root_by_index (d : ldb) (i : N) : option root_row := root_by_index (d_l1 d) i.
Definition last_l1_root (d : ldb) : option root_row := last_root (d_l1 d).
Definition last_rollup_root (d : ldb) : option root_row := last_root (d_rollup d).
(* GetL1InfoTreeMerkleProof(index): root recorded for that index, proof of that index against it *)
Definition l1_merkle_proof (d : ldb) (i : N) : option (list N * root_row) :=
  match root_by_index (d_l1 d) i with Some r => Some (get_proof (d_l1 d) (r_pos r) (r_hash r), r) | None => None end.
Definition l1_merkle_proof_to_root (d : ldb) (i root : N) : list N := get_proof (d_l1 d) i root.
(* GetRollupExitTreeMerkleProof(networkID, root): network 0 => the empty proof *)
Definition rollup_merkle_proof (d : ldb) (id root : N) : list N :=
  if id =? 0 then repeat 0 HEIGHT else get_proof (d_rollup d) (id - 1) root.
(* GetLocalExitRoot(networkID, rollupExitRoot) *)
Definition local_exit_root (d : ldb) (id root : N) : qerr + N :=
  if id =? 0 then inl QOther else
  match get_leaf (d_rollup d) (id - 1) root with Some x => inr x | None => inl QNotFound end.
Definition last_verified (d : ldb) (rid : N) : option vb_row := max_by vb_key (filter (fun r => vr_rid r =? rid) (d_vb d)).
Definition first_verified (d : ldb) (rid : N) : option vb_row := min_by vb_key (filter (fun r => vr_rid r =? rid) (d_vb d)).
Definition first_verified_after_block (d : ldb) (rid b : N) : option vb_row :=
  min_by vb_key (filter (fun r => (vr_rid r =? rid) && (b <=? vr_block r)) (d_vb d)).
Definition init_root_map (d : ldb) : option (N * N * N) := d_init d.
