(* C05 correspondence: executable comparison of the model with observations of the real
   EVMDownloader.Download + EVMDriver.Sync (harness/c05), and the executable form of the property itself
   evaluated on those observations with a naive reference (no model function under test involved). *)
From Coq Require Import NArith List Bool.
From Verif Require Import Model.Downloader.
Import ListNotations.
Open Scope N_scope.

Record case05 := {
  (* input *)
  k_cfg : config;
  k_chain : list (list rawlog);      (* block number = position; every log of the block, in log order *)
  k_lp0 : N;                         (* processor.GetLastProcessedBlock at start; download starts at lp0+1 *)
  k_ticks : list tick;               (* answers of the node to the block-tag header queries, in call order *)
  k_calls : list cres;               (* outcomes of the numbered RPC calls (eth_getLogs, header by number), in call order *)
  (* observations of the real code *)
  o_chan : list dblock;              (* EVMBlocks the real Download put on downloadedCh, in order *)
  o_proc : list (N * list ev);       (* successful ProcessBlock calls made by the real driver, in order *)
  o_tracked : list N;                (* successful AddBlockToTrack calls *)
  o_lp : N;                          (* GetLastProcessedBlock at the end *)
  o_queries : list (N * N);          (* successful eth_getLogs ranges, in order *)
  o_done : bool                      (* the run consumed the whole script and shut down in time *)
}.

(* ---- equality tests ---- *)
Fixpoint list_eqb {A} (eqb : A -> A -> bool) (a b : list A) : bool :=
  match a, b with
  | [], [] => true
  | x :: a', y :: b' => eqb x y && list_eqb eqb a' b'
  | _, _ => false
  end.
Definition pair_eqb (a b : N * N) : bool := N.eqb (fst a) (fst b) && N.eqb (snd a) (snd b).
Definition evs_eqb : list ev -> list ev -> bool := list_eqb pair_eqb.
Definition blk_eqb (a b : N * list ev) : bool := N.eqb (fst a) (fst b) && evs_eqb (snd a) (snd b).
Definition dblock_eqb (a b : dblock) : bool :=
  N.eqb (b_num a) (b_num b) && evs_eqb (b_events a) (b_events b) && Bool.eqb (b_fin a) (b_fin b).

(* ---- model == implementation ? ---- *)
Definition corr (c : case05) : bool :=
  let ch := chain_of_list (k_chain c) in
  let '(s, out, d) := sync_run (k_cfg c) ch (k_lp0 c) (k_calls c) (k_ticks c) in
  o_done c &&
  list_eqb dblock_eqb (o_chan c) out &&
  list_eqb blk_eqb (o_proc c) (d_stored d) &&
  list_eqb N.eqb (o_tracked c) (d_tracked d) &&
  N.eqb (o_lp c) (d_last d) &&
  list_eqb pair_eqb (o_queries c) (dl_queries (k_cfg c) ch (dl_init (sync_from (k_lp0 c)) (k_calls c)) (k_ticks c)).

(* ---- the property on what the implementation did ---- *)
Fixpoint increasing (prev : option N) (l : list N) : bool :=
  match l with
  | [] => true
  | x :: t => (match prev with None => true | Some p => p <? x end) && increasing (Some x) t
  end.

(* blocks = what was handed over, marker = the last-processed marker:
   numbers strictly increasing; each block carries exactly the watched logs of its own block, in log order
   (hence none from other blocks); every block of [from0, marker] that has watched logs was handed over *)
Definition check_seq (cfg : config) (ch : chain) (nblocks : N) (from0 marker : N) (blocks : list (N * list ev)) : bool :=
  increasing None (map fst blocks) &&
  forallb (fun b => (from0 <=? fst b) && evs_eqb (snd b) (watched_events cfg ch (fst b))) blocks &&
  forallb (fun k => match watched_events cfg ch k with [] => true | _ => memN k (map fst blocks) end)
          (range from0 (N.min marker nblocks)).     (* blocks above nblocks carry no logs *)

(* hypothesis of the theorems: the node's tip is never behind the block the download starts from
   (otherwise the case belongs to the separate "tip regressed" stream: reported, not judged) *)
Definition tips_okb (from0 : N) (ticks : list tick) : bool :=
  forallb (fun t => t_err t || (t_tip t =? 0) || (from0 <=? t_tip t + 1)) ticks.

(* hypothesis of the theorems on the numbered calls: none fails with context.Canceled while the downloader is alive and
   the node answers a mismatching header hash at most MaxRetryCountBlockHashMismatch times (streams "cancel" and
   "giveup" are outside: reported, not judged) *)
Definition is_canceled (r : cres) : bool := match r with RCanceled => true | _ => false end.
Definition calls_okb (c : list cres) : bool :=
  negb (existsb is_canceled c) && Nat.leb (mismatches c) max_retry_hash_mismatch.

Definition spec (c : case05) : bool :=
  let cfg := k_cfg c in
  let ch := chain_of_list (k_chain c) in
  let from0 := sync_from (k_lp0 c) in
  let n := N.of_nat (length (k_chain c)) in
  if tips_okb from0 (k_ticks c) && calls_okb (k_calls c) then
    o_done c &&
    (* the channel: the marker is the number of the last block sent *)
    check_seq cfg ch n from0 (last (map b_num (o_chan c)) (k_lp0 c)) (map blk (o_chan c)) &&
    (* the store: the marker is what GetLastProcessedBlock answers *)
    check_seq cfg ch n from0 (o_lp c) (o_proc c) &&
    N.eqb (o_lp c) (last (map fst (o_proc c)) (k_lp0 c))
  else true.

Fixpoint bad_indices {A} (f : A -> bool) (i : nat) (l : list A) : list nat :=
  match l with [] => [] | x :: t => if f x then bad_indices f (S i) t else i :: bad_indices f (S i) t end.
