(* C19 model: bridgesync.GenerateGlobalIndex / DecodeGlobalIndex and the four consumers of a claim's
   global index, transcribed at byte level. Definitions only. *)
From Coq Require Import NArith List Bool.
From Verif Require Import Base.Bytes.
Import ListNotations.
Open Scope N_scope.

(* constants mirrored from bridgesync/processor.go; tied to the source by Gen/SourceFacts.v *)
Definition gi_part_size : nat := 4.
Definition gi_max_size : nat := 9.

(* common.BytesToUint32: big-endian value of <= 4 bytes (Go panics on more; callers never pass more) *)
Definition bytes_to_u32 (bs : bytes) : N := of_be bs.

(* bridgesync.GenerateGlobalIndex *)
Definition encode (m : bool) (r l : N) : N :=
  if m then of_be (big_bytes 1 ++ be gi_part_size 0 ++ be gi_part_size l)
  else of_be (be gi_part_size r ++ be gi_part_size l).

(* bridgesync.DecodeGlobalIndex on globalIndex.Bytes() *)
Definition decode (v : N) : bool * N * N :=
  let bs := big_bytes v in
  let l := length bs in
  if Nat.eqb l 0 then (false, 0, 0) else
  let mainnet := Nat.eqb l gi_max_size in
  let leafFrom := Nat.sub l gi_part_size in              (* max(l-4, 0) *)
  let rollFrom := Nat.sub leafFrom gi_part_size in       (* max(leafFrom-4, 0) *)
  (mainnet,
   bytes_to_u32 (firstn (leafFrom - rollFrom) (skipn rollFrom bs)),
   bytes_to_u32 (skipn leafFrom bs)).

(* aggkitcommon.BigIntToLittleEndianBytes: 32 bytes, reversed minimal big-endian, zero padded *)
Definition big_le32 (v : N) : bytes :=
  let r := rev (big_bytes v) in firstn 32 r ++ repeat 0 (32 - length r).

(* common.BigToHash(x).Bytes() *)
Definition big_to_hash (v : N) : bytes := be 32 v.

(* what the node does with an on-chain claim global index v:
   flow_base.go: DecodeGlobalIndex -> agglayertypes.GlobalIndex{m, r, l} (the certificate's copy) *)
Definition cert_gi (v : N) : bool * N * N := decode v.

Definition enc3 (t : bool * N * N) : N := let '(m, r, l) := t in encode m r l.

(* consumers *)
Definition wire_gi (t : bool * N * N) : bytes := big_to_hash (enc3 t).        (* agglayer/grpc convertToProtoImportedBridgeExit *)
Definition commit_gi (t : bool * N * N) : bytes := big_le32 (enc3 t).         (* ImportedBridgeExit.GlobalIndexToLittleEndianBytes; GlobalIndex.Hash preimage *)
Definition prover_gi (t : bool * N * N) : bytes := big_to_hash (enc3 t).      (* aggchainproofclient request *)
Definition optimistic_gi (v : N) : bytes := big_le32 v.                       (* optimistichash: straight from the claim's big.Int *)

Definition canon (t : bool * N * N) : bool * N * N := let '(m, r, l) := t in (m, if m then 0 else r, l).

(* canonical on-chain values: what the bridge contract's layout can produce for mainnet / rollup claims *)
Definition canonical (v : N) : Prop := v < 2^64 \/ (2^64 <= v /\ v < 2^64 + 2^32).
Definition canonicalb (v : N) : bool := (v <? 2^64) || ((2^64 <=? v) && (v <? 2^64 + 2^32)).

Definition triple_eqb (a b : bool * N * N) : bool :=
  let '(m1, r1, l1) := a in let '(m2, r2, l2) := b in Bool.eqb m1 m2 && N.eqb r1 r2 && N.eqb l1 l2.
