(* C15 correspondence: executable comparison of the oracle model with per-tick observations of the real
   AggOracle (corr), and the executable form of the property itself evaluated on those observations (spec).
   Definitions only. *)
From Coq Require Import NArith ZArith List Bool.
From Verif Require Import Base.Bytes Base.Hash Model.Oracle Model.C19Cases.
Import ListNotations.
Open Scope N_scope.

(* what the harness saw in one tick *)
Record tobs := {
  o_tags : list Z;      (* block tags requested from the L1 client (HeaderByNumber), in order; nil argument = latest = -2 *)
  o_inj : list N;       (* roots for which InjectGER was called and succeeded *)
  o_att : list N;       (* roots for which InjectGER was called and failed *)
  o_err : N;            (* 0 = processLatestGER returned nil; 1..7 = errkind; 99 = something else *)
  o_target : N;         (* blockNumToFetch after the tick *)
}.

Record case15 := {
  c_tag : Z;                        (* configured finality as a block tag: finalized -3, safe -4, latest -2 *)
  c_hist : list (N * N * N);        (* L1 history: (block, mainnet exit root, rollup exit root) in L1 order *)
  c_gers : list N;                  (* GetGlobalExitRoot() of each leaf as computed by the Go code *)
  c_l2init : list nat;              (* indices of roots on L2 before the first tick *)
  c_ticks : list (tin * tobs);
  c_harness_err : bool;             (* the harness could not run the schedule (store refused the history) *)
}.

(* global exit root = keccak256(mainnetExitRoot ++ rollupExitRoot) *)
Definition hist_of (c : case15) : list row := map (fun x => let '(b, m, r) := x in (b, nodeN m r)) (c_hist c).

Definition err_code (e : errkind) : N :=
  match e with EL1 => 1 | ENotProcessed => 2 | ENotFound => 3 | ENoBlock0 => 4 | EInfo => 5 | EIsInjected => 6 | EInject => 7 end.

Definition action_eqb (a b : action) : bool :=
  match a, b with
  | ANone, ANone => true
  | AInject g, AInject h => g =? h
  | AErr e, AErr f => err_code e =? err_code f
  | AInjectFail g, AInjectFail h => g =? h
  | _, _ => false
  end.

Definition list_eqb {A} (eqb : A -> A -> bool) :=
  fix go (a b : list A) : bool :=
    match a, b with
    | [], [] => true
    | x :: a', y :: b' => eqb x y && go a' b'
    | _, _ => false
    end.

(* the observation a tick of the model predicts *)
Definition predicted (tag : Z) (target_before : N) (o : N * action) : tobs :=
  {| o_tags := if target_before =? 0 then [tag] else [];
     o_inj := match snd o with AInject g => [g] | _ => [] end;
     o_att := match snd o with AInjectFail g => [g] | _ => [] end;
     o_err := match snd o with AErr e => err_code e | AInjectFail _ => err_code EInject | _ => 0 end;
     o_target := fst o |}.

Definition tobs_eqb (a b : tobs) : bool :=
  list_eqb Z.eqb (o_tags a) (o_tags b) && list_eqb N.eqb (o_inj a) (o_inj b) && list_eqb N.eqb (o_att a) (o_att b) &&
  (o_err a =? o_err b) && (o_target a =? o_target b).

Fixpoint corr_walk (tk : tickfn) (tag : Z) (hist : list row) (st : state) (ticks : list (tin * tobs)) : bool :=
  match ticks with
  | [] => true
  | (i, o) :: r =>
      let s := step tk hist st i in
      tobs_eqb (predicted tag (fst st) (snd s)) o && corr_walk tk tag hist (fst s) r
  end.

Definition corr_with (tk : tickfn) (c : case15) : bool :=
  let hist := hist_of c in        (* hashed once *)
  negb (c_harness_err c) &&
  sorted_histb hist &&            (* the history is in L1 order: premise of the run theorems *)
  list_eqb N.eqb (c_gers c) (map snd hist) &&
  corr_walk tk (c_tag c) hist (0, resolve hist (c_l2init c)) (c_ticks c).

(* the check compares with the intended (repaired) behaviour; corr_current is kept to show, in evidence and in
   the non-vacuity examples, that the pinned commit matches the model of the code as written *)
Definition corr (c : case15) : bool := corr_with tick_fixed c.
Definition corr_current (c : case15) : bool := corr_with tick c.

(* ------------------------------------------------------------------------------------------- *)
(* The property, evaluated on what the implementation did. Nothing below uses tick / tick_fixed.

   Sampling. A tick "samples" the L1 block F when the implementation asked the L1 client for the configured
   finality tag in that tick and the client answered F (no failure).

   Safety, for every root g for which InjectGER was called (successfully or not) in tick t:
     - some tick s <= t sampled a block; let F be the block of the MOST RECENT such sample;
     - g is the most recent root of the L1 history at or below F (ref_latest: last row with block <= F);
     - g was not on L2 when tick t started (initial roots + roots added by others + roots injected before);
     - at most one injection per tick.
   Liveness (executable form of "keeps injecting while the syncer lags"): whenever a tick s samples a block
   F <> 0 at or below which the history has a root, and the syncer reaches F at a tick t1 >= s of the schedule
   (first tick with lpb >= F), and no dependency fails in ticks s..t1, then some tick in s..t1 either injects
   or ends without error (= found its root on L2 already). The bound t1 is the one of theorem
   C15_progress_under_lag (the repaired tick delivers exactly at t1). *)

Definition any_err (i : tin) : bool := i_l1err i || i_infoerr i || i_isinjerr i || i_injecterr i.
Definition sampled (tag : Z) (i : tin) (o : tobs) : bool := existsb (Z.eqb tag) (o_tags o) && negb (i_l1err i).
Definition opt_eqb (a b : option N) : bool :=
  match a, b with Some x, Some y => x =? y | None, None => true | _, _ => false end.

Fixpoint safe_walk (tag : Z) (hist : list row) (l2 : list N) (last : option N) (ticks : list (tin * tobs)) : bool :=
  match ticks with
  | [] => true
  | (i, o) :: r =>
      let l2b := resolve hist (i_l2add i) ++ l2 in
      let last' := if sampled tag i o then Some (i_F i) else last in
      (length (o_inj o ++ o_att o) <=? 1)%nat &&
      forallb (fun g => match last' with
                        | None => false
                        | Some F => opt_eqb (ref_latest hist F) (Some g)
                        end && negb (mem g l2b)) (o_inj o ++ o_att o) &&
      safe_walk tag hist (o_inj o ++ l2b) last' r
  end.

Definition delivered (o : tobs) : bool := match o_inj o with [] => o_err o =? 0 | _ => true end.

Fixpoint deliver (F : N) (ticks : list (tin * tobs)) : bool :=
  match ticks with
  | [] => true                                  (* the syncer did not reach F within the schedule: no obligation *)
  | (i, o) :: r =>
      if any_err i then true                    (* a dependency failed: no obligation *)
      else if delivered o then true
      else if F <=? i_lpb i then false          (* the syncer has reached F and the oracle still did nothing *)
      else deliver F r
  end.

Fixpoint live_walk (tag : Z) (hist : list row) (ticks : list (tin * tobs)) : bool :=
  match ticks with
  | [] => true
  | (i, o) :: r =>
      (if sampled tag i o && negb (i_F i =? 0) && match ref_latest hist (i_F i) with Some _ => true | None => false end
       then deliver (i_F i) ticks else true) && live_walk tag hist r
  end.

(* Liveness, second clause ("keeps injecting": the oracle may not get stuck on an old block). A tick is "caught up"
   when no dependency fails in it and the syncer has processed every block the L1 client could have reported so far
   (lpb >= max of the finalized numbers of ticks 0..t). After two consecutive caught-up ticks t, t+1 with
   F(t+1) <> 0 and a root at or below F(t+1), L2 must hold a root at least as recent as the most recent root at or
   below F(t+1) (theorem C15_caught_up_two_ticks: the repaired tick puts exactly that root on L2). *)
Definition newer_on_l2 (hist : list row) (m : N) (l2 : list N) : bool :=
  existsb (fun l => opt_eqb (ref_latest hist (N.max m (fst l))) (Some (snd l)) && mem (snd l) l2) hist.

Fixpoint caught_walk (hist : list row) (l2 : list N) (maxF : N) (prev_good : bool) (ticks : list (tin * tobs)) : bool :=
  match ticks with
  | [] => true
  | (i, o) :: r =>
      let l2a := o_inj o ++ resolve hist (i_l2add i) ++ l2 in
      let maxF' := N.max maxF (i_F i) in
      let good := negb (any_err i) && (maxF' <=? i_lpb i) in
      (if prev_good && good && negb (i_F i =? 0) then
         match ref_latest hist (i_F i) with Some _ => newer_on_l2 hist (i_F i) l2a | None => true end
       else true) &&
      caught_walk hist l2a maxF' good r
  end.

Definition spec_safe (c : case15) : bool :=
  let hist := hist_of c in safe_walk (c_tag c) hist (resolve hist (c_l2init c)) None (c_ticks c).
Definition spec_live (c : case15) : bool :=
  let hist := hist_of c in
  live_walk (c_tag c) hist (c_ticks c) && caught_walk hist (resolve hist (c_l2init c)) 0 false (c_ticks c).

Definition spec (c : case15) : bool :=
  let hist := hist_of c in        (* hashed once *)
  safe_walk (c_tag c) hist (resolve hist (c_l2init c)) None (c_ticks c) &&
  live_walk (c_tag c) hist (c_ticks c) &&
  caught_walk hist (resolve hist (c_l2init c)) 0 false (c_ticks c).

(* observations the model itself would produce for a schedule (used to state that the model meets spec) *)
Fixpoint model_obs (tk : tickfn) (tag : Z) (hist : list row) (st : state) (sched : list tin) : list (tin * tobs) :=
  match sched with
  | [] => []
  | i :: r => let s := step tk hist st i in (i, predicted tag (fst st) (snd s)) :: model_obs tk tag hist (fst s) r
  end.
