(* C17 correspondence: executable comparison of the model (Model/CertCut.v) with observations of the Go code
   (`corr`), and the executable form of the property itself evaluated on those observations (`spec`).
   `spec` uses only naive reference definitions: `filter` of the input events by block range, unbounded N
   arithmetic, "test every larger end block" against the sizes the real EstimatedSize returned for
   harness-built prefixes. It does not call range_cut / limit_loop / adapt_certificate / gap. *)
From Coq Require Import NArith ZArith List Bool.
From Verif Require Import Model.CertCut.
Import ListNotations.
Open Scope N_scope.

(* canonical error enum printed by the harness *)
Inductive oerr := ONone | ONotWithin | OFromGtTo | ONil | ORetryExceeded | OCompleteUpcoming | OCompleteFar
                | OCompleteNothing | ONoBridgesButClaims | OOther.

(* what the harness reports about a returned *CertificateBuildParams *)
Record pobs := {
  o_p : params;
  o_size : N;        (* EstimatedSize() *)
  o_nblocks : Z;     (* NumberOfBlocks() *)
  o_nb : N;          (* NumberOfBridges() *)
  o_nc : N;          (* NumberOfClaims() *)
  o_empty : bool;    (* IsEmpty() *)
  o_is_retry : bool  (* IsARetry() *)
}.

Inductive case17 :=
| CRange (c : params) (f t : N) (in_size : N) (in_nblocks : Z) (res : option pobs) (err : oerr)
| CLimit (c : params) (max : N) (in_size : N) (in_nblocks : Z) (sizes : list N) (res : option pobs) (err : oerr)
| CAdapt (c : option params) (l : limiter) (in_size : N) (res : option pobs) (err : oerr)
| CGap (a b : brange) (g : brange) (cnt : N) (empty : bool).

(* ---- equality tests ---- *)
Definition event_eqb (a b : event) : bool :=
  (ev_block a =? ev_block b) && (ev_meta a =? ev_meta b) && (ev_id a =? ev_id b).
Fixpoint list_eqb {A} (eqb : A -> A -> bool) (l1 l2 : list A) : bool :=
  match l1, l2 with
  | [], [] => true
  | x :: t1, y :: t2 => eqb x y && list_eqb eqb t1 t2
  | _, _ => false
  end.
Definition type_eqb (a b : cert_type) : bool :=
  match a, b with TUnknown, TUnknown | TPP, TPP | TFEP, TFEP | TOptimistic, TOptimistic => true | _, _ => false end.
Definition params_eqb (a b : params) : bool :=
  (p_from a =? p_from b) && (p_to a =? p_to b) &&
  list_eqb event_eqb (p_bridges a) (p_bridges b) && list_eqb event_eqb (p_claims a) (p_claims b) &&
  (p_retry a =? p_retry b)%Z && Bool.eqb (p_has_last a) (p_has_last b) && type_eqb (p_type a) (p_type b).
Definition oerr_eqb (a b : oerr) : bool :=
  match a, b with
  | ONone, ONone | ONotWithin, ONotWithin | OFromGtTo, OFromGtTo | ONil, ONil | ORetryExceeded, ORetryExceeded
  | OCompleteUpcoming, OCompleteUpcoming | OCompleteFar, OCompleteFar | OCompleteNothing, OCompleteNothing
  | ONoBridgesButClaims, ONoBridgesButClaims | OOther, OOther => true
  | _, _ => false
  end.
Definition brange_eqb (a b : brange) : bool := (rf a =? rf b) && (rt a =? rt b).

(* ---- model == implementation ? ---- *)

(* the observed accessors of a returned certificate agree with the model's on the same data *)
Definition pobs_consistent (r : pobs) : bool :=
  let c := o_p r in
  (o_size r =? estimated_size c) && (o_nblocks r =? number_of_blocks c)%Z &&
  (o_nb r =? number_of_bridges c) && (o_nc r =? number_of_claims c) &&
  Bool.eqb (o_empty r) (is_empty_cert c) && Bool.eqb (o_is_retry r) (is_retry c).

Definition obs_is (res : option pobs) (err : oerr) (m : params) : bool :=
  match res with Some r => oerr_eqb err ONone && params_eqb (o_p r) m && pobs_consistent r | None => false end.
Definition obs_err (res : option pobs) (err : oerr) (e : oerr) : bool :=
  match res with None => oerr_eqb err e | Some _ => false end.

Definition oerr_of_range (e : range_err) : oerr := match e with ENotWithin => ONotWithin | EFromGtTo => OFromGtTo end.
Definition oerr_of_adapt (e : adapt_err) : oerr :=
  match e with
  | ANil => ONil | ARetryExceeded => ORetryExceeded | ACompleteUpcoming => OCompleteUpcoming
  | ACompleteFar => OCompleteFar | ARange _ => OOther | ANoBridgesButClaims => ONoBridgesButClaims
  | ACompleteNothing => OCompleteNothing
  end.

(* the harness builds the prefix [from .. from+i] of c with its own filter and asks the real EstimatedSize:
   this ties the float64 model of the estimate to the code on every prefix *)
Definition model_prefix_size (c : params) (i : nat) : N :=
  let t := p_from c + N.of_nat i in
  estimated_size (P (p_from c) t (filter (in_range (p_from c) t) (p_bridges c)) (filter (in_range (p_from c) t) (p_claims c))
                    (p_retry c) (p_has_last c) (p_type c)).
Fixpoint sizes_agree (c : params) (i : nat) (sizes : list N) : bool :=
  match sizes with
  | [] => true
  | s :: rest => (s =? model_prefix_size c i) && sizes_agree c (S i) rest
  end.

Definition corr (k : case17) : bool :=
  match k with
  | CRange c f t in_size in_nb res err =>
    (in_size =? estimated_size c) && (in_nb =? number_of_blocks c)%Z &&
    match range_cut c f t with
    | Ok m => obs_is res err m
    | Err e => obs_err res err (oerr_of_range e)
    end
  | CLimit c max in_size in_nb sizes res err =>
    (in_size =? estimated_size c) && (in_nb =? number_of_blocks c)%Z && sizes_agree c 0 sizes &&
    match limit_cert_size_exec estimated_size max c with
    | LDone m => obs_is res err m
    | LErr e => obs_err res err (oerr_of_range e)
    | LOutOfFuel => false
    end
  | CAdapt oc l in_size res err =>
    (in_size =? estimated_size_opt oc) &&
    match adapt_certificate l oc with
    | Ok (Some m) => obs_is res err m
    | Ok None => obs_err res err ONone
    | Err e => obs_err res err (oerr_of_adapt e)
    end
  | CGap a b g cnt empty =>
    brange_eqb g (gap a b) && (cnt =? count_blocks (gap a b)) && Bool.eqb empty (is_empty_range (gap a b))
  end.

(* ---- the property, evaluated on what the implementation returned ---- *)

(* well-formed certificate of the property's quantifier: a block range from <= to < 2^64 whose events all lie in it *)
Definition inb (f t : N) (e : event) : bool := (f <=? ev_block e) && (ev_block e <=? t).
Definition wf_paramsb (c : params) : bool :=
  (p_from c <=? p_to c) && (p_to c <? U64) &&
  forallb (inb (p_from c) (p_to c)) (p_bridges c) && forallb (inb (p_from c) (p_to c)) (p_claims c).

(* the returned certificate r is "c restricted to blocks f..t": same first/last block as asked, exactly the events of
   those blocks in the order of c's lists (nothing dropped, duplicated, reordered), other fields carried over *)
Definition is_restriction (c : params) (f t : N) (r : params) : bool :=
  (p_from r =? f) && (p_to r =? t) &&
  list_eqb event_eqb (p_bridges r) (filter (inb f t) (p_bridges c)) &&
  list_eqb event_eqb (p_claims r) (filter (inb f t) (p_claims c)) &&
  (p_retry r =? p_retry c)%Z && Bool.eqb (p_has_last r) (p_has_last c) && type_eqb (p_type r) (p_type c).

Definition spec_range (c : params) (f t : N) (res : option pobs) (err : oerr) : bool :=
  if negb (wf_paramsb c) then true else
  if (p_from c <=? f) && (f <=? t) && (t <=? p_to c) then
    match res with Some r => oerr_eqb err ONone && is_restriction c f t (o_p r) | None => false end
  else
    match res with Some _ => false | None => negb (oerr_eqb err ONone) end.

(* all blocks t with lo < t <= hi, lo/hi given as offsets from p_from (naive enumeration) *)
Fixpoint all_larger_exceed (sizes : list N) (max : N) (i : nat) (n : nat) : bool :=
  (* offsets i, i+1, ..., i+n-1 all have size > max *)
  match n with
  | O => true
  | S n' => (max <? nth i sizes 0) && all_larger_exceed sizes max (S i) n'
  end.

Definition spec_limit (c : params) (max : N) (sizes : list N) (res : option pobs) (err : oerr) : bool :=
  let span := p_to c - p_from c + 1 in
  if negb (wf_paramsb c && (span <? I63) && (N.of_nat (length sizes) =? span)) then true else
  match res with
  | None => false                                                 (* cutting a well-formed certificate never fails *)
  | Some ro =>
    let r := o_p ro in
    let k := N.to_nat (p_to r - p_from c) in                      (* offset of the returned last block *)
    oerr_eqb err ONone &&
    (p_from c <=? p_to r) && (p_to r <=? p_to c) &&
    is_restriction c (p_from c) (p_to r) r &&                     (* same first block; exactly the events of the kept blocks *)
    (o_size ro =? nth k sizes 0) &&
    (if max =? 0 then p_to r =? p_to c                            (* 0 = no limit: nothing is cut *)
     else
       ((nth k sizes 0 <=? max) || (p_to r =? p_from c)) &&       (* within the limit unless a single block *)
       all_larger_exceed sizes max (S k) (N.to_nat (p_to c - p_to r)))  (* maximal: every larger end block exceeds *)
  end.

Definition is_retryb (c : params) : bool := (1 <=? p_retry c)%Z && p_has_last c.

Definition spec_adapt (oc : option params) (l : limiter) (res : option pobs) (err : oerr) : bool :=
  let max := l_max l in
  match oc with
  | None =>   (* nil certificate: passed through when the limiter is off, refused otherwise *)
    match res with Some _ => false | None => oerr_eqb err (if max =? 0 then ONone else ONil) end
  | Some c =>
    if negb (wf_paramsb c) then true else
    let same := match res with Some r => oerr_eqb err ONone && params_eqb (o_p r) c | None => false end in
    let fails e := match res with Some _ => false | None => oerr_eqb err e end in
    if (max =? 0) || (p_to c <=? max) then same                   (* nothing to cut *)
    else if is_retryb c && negb (l_allow_resize_retry l) then fails ORetryExceeded
    else if max <? p_from c then                                   (* no permitted block at all *)
      (if p_from c =? max + 1 then fails OCompleteUpcoming else fails OCompleteFar)
    else
      let kb := filter (inb (p_from c) max) (p_bridges c) in
      let kc := filter (inb (p_from c) max) (p_claims c) in
      if l_require_bridge l && (length kb =? 0)%nat then
        (if (length kc =? 0)%nat then fails OCompleteNothing else fails ONoBridgesButClaims)
      else
        (* cut: same first block, ends at the largest permitted block = min (to, max) = max, events of the kept blocks *)
        match res with Some r => oerr_eqb err ONone && is_restriction c (p_from c) max (o_p r) | None => false end
  end.

Definition wf_rangeb (a : brange) : bool := (rf a <=? rt a) && (rt a <? U64).

Definition spec_gap (a b g : brange) (cnt : N) (empty : bool) : bool :=
  if negb (wf_rangeb a && wf_rangeb b) then true else
  if (rf b <=? rt a + 1) && (rf a <=? rt b + 1) then              (* touching or overlapping: no block strictly between *)
    brange_eqb g (R 0 0) && empty && (cnt =? 0)
  else if rt a <? rf b then                                        (* a entirely below b *)
    brange_eqb g (R (rt a + 1) (rf b - 1)) && negb empty && (cnt =? rf b - rt a - 1)
  else                                                             (* b entirely below a *)
    brange_eqb g (R (rt b + 1) (rf a - 1)) && negb empty && (cnt =? rf a - rt b - 1).

Definition spec (k : case17) : bool :=
  match k with
  | CRange c f t _ _ res err => spec_range c f t res err
  | CLimit c max _ _ sizes res err => spec_limit c max sizes res err
  | CAdapt oc l _ res err => spec_adapt oc l res err
  | CGap a b g cnt empty => spec_gap a b g cnt empty
  end.

Fixpoint bad_indices {A} (f : A -> bool) (i : nat) (l : list A) : list nat :=
  match l with [] => [] | x :: t => if f x then bad_indices f (S i) t else i :: bad_indices f (S i) t end.
