(* C18 — the float64 form of the epoch notifier's threshold test, as the Go code computes it
   (aggsender/epoch_notifier_per_block.go percentEpoch / isNotificationRequired). Definitions only.

   float64 = IEEE-754 binary64 = Flocq `binary_float 53 1024`; Go's `float64(x)` of an unsigned integer and `/`
   are correctly rounded, round-to-nearest-even; Go's `<` and `>` on floats are false when unordered.
   Everything here computes under vm_compute, so the case files can run it next to the exact model. *)
From Coq Require Import ZArith NArith List Bool.
From Flocq Require Import Core BinarySingleNaN.
From Verif Require Import Base.GoNum Model.Epoch.
Import ListNotations.

(* float64 and its operations: Base/GoNum.v (shared with the definitions generated from the Go source) *)

Open Scope N_scope.

Section EpochFloat.
Variable S0 n P : N.

Definition percent_epoch_f (b : N) : f64 :=
  f64_div (f64_of_N (b - starting_block_epoch S0 n (epoch_number S0 n b))) (f64_of_N n).

Definition is_notification_required_f (b last_epoch_notified : N) : bool * N :=
  let percent := percent_epoch_f b in
  let threshold := f64_div (f64_of_N P) (f64_of_N 100) in                      (* / maxPercent *)
  let max_threshold := f64_div (f64_of_N (n - 1)) (f64_of_N n) in
  let threshold := if f64_lt max_threshold threshold then max_threshold else threshold in   (* thresholdPercent > max *)
  if f64_lt percent threshold then (false, epoch_number S0 n b)
  else
    let next_epoch := epoch_number S0 n b + 1 in
    (last_epoch_notified <? next_epoch, epoch_number S0 n b).

Definition step_f (s : status) (b : N) : status * option event :=
  if b <? S0 then (s, None)
  else if b <=? last_block_seen s then (s, None)
  else
    let s1 := St b (waiting_for_epoch s) in
    let '(need, closing) := is_notification_required_f b (waiting_for_epoch s1) in
    if need then (St b (closing + 1), Some (Ev closing (pending_blocks S0 n b closing)))
    else (s1, None).

Fixpoint run_ix_f (i : nat) (s : status) (bs : list N) : list (nat * N * event) :=
  match bs with
  | [] => []
  | b :: t => let '(s', o) := step_f s b in
              match o with Some e => (i, b, e) :: run_ix_f (S i) s' t | None => run_ix_f (S i) s' t end
  end.
End EpochFloat.
