(* C15 model: one tick of the GER oracle (aggoracle/oracle.go: the body of the Start loop =
   processLatestGER + handleGERProcessingError, with getLastFinalizedGER) and the query it makes to the
   L1 info tree syncer (l1infotreesync/processor.go GetLatestInfoUntilBlock), transcribed one-for-one.
   Two variants that differ ONLY in what happens to the loop variable blockNumToFetch when
   getLastFinalizedGER fails:
     tick        the code as written at the pinned commit: `return err` comes BEFORE `*blockNumToFetch = blockNum`,
                 so the block is never remembered (finding F3);
     tick_fixed  the repaired code: the block is remembered while the syncer has not processed it yet
                 (ErrBlockNotProcessed) and forgotten (0 = ask the L1 client again) on any other failure.
   Definitions only. *)
From Coq Require Import NArith List Bool.
Import ListNotations.
Open Scope N_scope.

(* what a failing tick failed with (the harness maps Go errors to the same enum with errors.Is) *)
Inductive errkind :=
| EL1             (* l1Client.HeaderByNumber failed *)
| ENotProcessed   (* l1infotreesync.ErrBlockNotProcessed *)
| ENotFound       (* l1infotreesync.ErrNotFound (db.ErrNotFound through translateError) *)
| ENoBlock0       (* l1infotreesync.ErrNoBlock0 *)
| EInfo           (* any other failure of the syncer (halted, database) *)
| EIsInjected     (* chainSender.IsGERInjected failed *)
| EInject.        (* chainSender.InjectGER failed *)

Inductive action :=
| ANone                 (* processLatestGER returned nil without injecting: the root is already on L2 *)
| AInject (g : N)       (* InjectGER(g) was called and succeeded *)
| AErr (e : errkind)    (* processLatestGER returned an error before calling InjectGER *)
| AInjectFail (g : N).  (* InjectGER(g) was called and failed *)

(* a row of the syncer's l1info_leaf table: (block_num, global_exit_root); list order = insertion order
   (position, i.e. block_num then block_pos ascending) *)
Definition row := (N * N)%type.

(* the dependencies as one tick sees them *)
Record deps := {
  d_l1 : option N;          (* HeaderByNumber(ctx, blockFinality): Some header.Number | None = error *)
  d_lpb : N;                (* SELECT num FROM block ORDER BY num DESC LIMIT 1 (0 when empty) *)
  d_table : list row;       (* l1info_leaf *)
  d_info_err : bool;        (* the syncer fails for another reason *)
  d_l2 : list N;            (* global exit roots the L2 contract already has *)
  d_isinj_err : bool;       (* IsGERInjected fails *)
  d_inject_err : bool;      (* InjectGER fails *)
}.

(* SELECT * FROM l1info_leaf WHERE block_num <= b ORDER BY block_num DESC, block_pos DESC LIMIT 1 *)
Definition pick (b : N) (best : option row) (l : row) : option row :=
  if fst l <=? b then
    match best with
    | None => Some l
    | Some p => if fst p <=? fst l then Some l else best
    end
  else best.
Definition latest_row (b : N) (table : list row) : option row := fold_left (pick b) table None.

(* processor.GetLatestInfoUntilBlock (+ L1InfoTreeSync wrapper) *)
Definition get_latest_info_until (d : deps) (b : N) : N + errkind :=
  if d_info_err d then inr EInfo else
  if b =? 0 then inr ENoBlock0 else
  if d_lpb d <? b then inr ENotProcessed else
  match latest_row b (d_table d) with
  | None => inr ENotFound
  | Some l => inl (snd l)
  end.

(* AggOracle.getLastFinalizedGER: returns (block number to remember, GER or error) *)
Definition get_last_finalized_ger (d : deps) (target : N) : N * (N + errkind) :=
  match (if target =? 0 then d_l1 d else Some target) with
  | None => (0, inr EL1)
  | Some t =>
      match get_latest_info_until d t with
      | inr e => (t, inr e)
      | inl g => (0, inl g)
      end
  end.

Definition mem (g : N) (l : list N) : bool := existsb (N.eqb g) l.

(* processLatestGER after the fetch succeeded and `*blockNumToFetch = blockNum` was executed *)
Definition after_fetch (d : deps) (target' : N) (g : N) : N * action :=
  if d_isinj_err d then (target', AErr EIsInjected) else
  if mem g (d_l2 d) then (target', ANone) else
  if d_inject_err d then (target', AInjectFail g) else (target', AInject g).

(* value of blockNumToFetch after a failed fetch *)
Definition on_fetch_error (fixed : bool) (target bn : N) (e : errkind) : N :=
  if fixed then match e with ENotProcessed => bn | _ => 0 end
  else target.                       (* as written: `return err` before the assignment *)

Definition tick_with (fixed : bool) (target : N) (d : deps) : N * action :=
  match get_last_finalized_ger d target with
  | (bn, inr e) => (on_fetch_error fixed target bn e, AErr e)
  | (bn, inl g) => after_fetch d bn g
  end.

Definition tick := tick_with false.         (* the code at the pinned commit *)
Definition tick_fixed := tick_with true.    (* the repaired code *)

(* ------------------------------------------------------------------------------------------- *)
(* A world: a fixed L1 info tree history (rows in L1 order) and, per tick, what the environment does. *)

Record tin := {
  i_F : N;                  (* the number the L1 node answers for the configured finality tag at this tick *)
  i_l1err : bool;
  i_lpb : N;                (* last block processed by the syncer when the tick runs *)
  i_infoerr : bool;
  i_l2add : list nat;       (* indices (into the history) of roots somebody else put on L2 before this tick *)
  i_isinjerr : bool;
  i_injecterr : bool;
}.

Definition resolve (hist : list row) (idx : list nat) : list N :=
  flat_map (fun k => match nth_error hist k with Some l => [snd l] | None => [] end) idx.

(* the syncer has processed exactly the blocks <= lpb *)
Definition table_at (hist : list row) (lpb : N) : list row := filter (fun l => fst l <=? lpb) hist.

Definition mkdeps (hist : list row) (l2 : list N) (i : tin) : deps :=
  {| d_l1 := if i_l1err i then None else Some (i_F i);
     d_lpb := i_lpb i;
     d_table := table_at hist (i_lpb i);
     d_info_err := i_infoerr i;
     d_l2 := l2;
     d_isinj_err := i_isinjerr i;
     d_inject_err := i_injecterr i |}.

Definition state := (N * list N)%type.      (* blockNumToFetch, roots on L2 *)
Definition tickfn := N -> deps -> N * action.

Definition l2_before (hist : list row) (st : state) (i : tin) : list N := resolve hist (i_l2add i) ++ snd st.

Definition step (tk : tickfn) (hist : list row) (st : state) (i : tin) : state * (N * action) :=
  let l2 := l2_before hist st i in
  let o := tk (fst st) (mkdeps hist l2 i) in
  ((fst o, match snd o with AInject g => g :: l2 | _ => l2 end), o).

Fixpoint run (tk : tickfn) (hist : list row) (st : state) (sched : list tin) : list (N * action) :=
  match sched with
  | [] => []
  | i :: r => snd (step tk hist st i) :: run tk hist (fst (step tk hist st i)) r
  end.

Fixpoint final (tk : tickfn) (hist : list row) (st : state) (sched : list tin) : state :=
  match sched with
  | [] => st
  | i :: r => final tk hist (fst (step tk hist st i)) r
  end.

Definition injections (os : list (N * action)) : list N :=
  flat_map (fun o => match snd o with AInject g => [g] | _ => [] end) os.

(* value of blockNumToFetch BEFORE each tick *)
Definition targets_before (tk : tickfn) (hist : list row) (st : state) (sched : list tin) : list N :=
  fst st :: map fst (run tk hist st sched).

(* reference notion used by the statements: the most recent root of the L1 history at or below block F *)
Definition ref_latest (hist : list row) (F : N) : option N :=
  match rev (filter (fun l => fst l <=? F) hist) with
  | [] => None
  | l :: _ => Some (snd l)
  end.

Fixpoint sorted_hist (hist : list row) : Prop :=
  match hist with
  | [] => True
  | l :: r => (forall l', In l' r -> fst l <= fst l') /\ sorted_hist r
  end.

Fixpoint sorted_histb (hist : list row) : bool :=
  match hist with
  | [] => true
  | l :: r => forallb (fun l' => fst l <=? fst l') r && sorted_histb r
  end.

Definition errfree (i : tin) : Prop :=
  i_l1err i = false /\ i_infoerr i = false /\ i_isinjerr i = false /\ i_injecterr i = false.

(* the lag schedule of finding F3: a new root in every block b = 1, 2, ...; at tick t (t = 0, 1, ...) the
   finalized block is t + 1 + k and the syncer has processed block t + 1 (k >= 1 blocks behind); no errors.
   The syncer reaches the block sampled at tick t at tick t + k. *)
Definition lag_hist (k n : nat) : list row :=
  map (fun b => (N.of_nat b, 1000 + N.of_nat b)) (seq 1 (n + k)).
Definition lag_tin (k t : nat) : tin :=
  {| i_F := N.of_nat (t + 1 + k); i_l1err := false; i_lpb := N.of_nat (t + 1); i_infoerr := false;
     i_l2add := []; i_isinjerr := false; i_injecterr := false |}.
Definition lag_schedule (k n : nat) : list tin := map (lag_tin k) (seq 0 n).
