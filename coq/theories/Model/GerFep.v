(* C16, FEP mode — model of lastgersync/evmdownloader_fep.go on top of the store of Model/GerIndex.v.
   Definitions only.

   Go sources mirrored one-for-one:
     lastgersync/evmdownloader_fep.go   Download, getGERsFromIndex, populateGreatestInjectedGER
     lastgersync/processor.go           getLatestL1InfoTreeIndex (the rest of the processor is Model/GerIndex.v)
     sync/evmdownloader.go              WaitForNewBlocks, GetBlockHeader
     sync/evmdriver.go                  Sync: start at lastProcessed+1, ProcessBlock per delivered block, Reorg + reset

   In FEP mode the L2 GER manager (PolygonZkEVMGlobalExitRootV2) emits no event the syncer reads: the downloader
   polls for a new tip, lists the leaves of the L1 info tree from `nextL1InfoTreeIndex` on, asks the contract's
   globalExitRootMap for each of them (latest state) and records, in the block of the polled tip, the LAST leaf of
   that list that is injected ("greatest injected GER"). *)
From Coq Require Import NArith List Bool.
From Verif Require Import Model.GerIndex.
Import ListNotations.
Open Scope N_scope.

(* ------------------------------------------------------------------------------------------------ *)
(* the two chains                                                                                    *)
(* ------------------------------------------------------------------------------------------------ *)

(* L1 info tree as the L1 info tree syncer serves it: the global exit root of leaf i is the i-th element.
   GetInfoByIndex(i) = nth i leaves. *)
Definition leaves := list N.

(* L2 in FEP mode: which root was injected (globalExitRootMap[root] set) in which L2 block: (block, root) *)
Definition fchain := list (N * N).

(* GlobalExitRootMap(&bind.CallOpts{Pending: false}, root) != 0 when the node's view of L2 ends at `tip` *)
Definition injected_by (fc : fchain) (tip g : N) : bool :=
  existsb (fun p => (snd p =? g) && (fst p <=? tip)) fc.

(* chain after a reorg whose first replaced block is b *)
Definition fsplice (fc : fchain) (b : N) (fc' : fchain) : fchain :=
  filter (fun p => fst p <? b) fc ++ filter (fun p => b <=? fst p) fc'.

(* ------------------------------------------------------------------------------------------------ *)
(* FEP downloader                                                                                    *)
(* ------------------------------------------------------------------------------------------------ *)

(* processor.getLatestL1InfoTreeIndex: SELECT l1_info_tree_index ... ORDER BY l1_info_tree_index DESC LIMIT 1;
   no row => db.ErrNotFound *)
Definition latest_index (st : store) : option N :=
  match s_rows st with
  | [] => None
  | rows => Some (fold_left N.max (map r_idx rows) 0)
  end.

(* "Determine the next index to start fetching GERs":
     ErrNotFound => 0;  if latestL1InfoTreeIndex > 0 { next = latest + 1 }  (latest = 0 leaves next at 0) *)
Definition fep_init (st : store) : N :=
  match latest_index st with
  | None => 0
  | Some l => if 0 <? l then l + 1 else 0
  end.

(* getGERsFromIndex(next): GetLastL1InfoTreeRoot => ErrNotFound (the syncer holds no leaf: l1 = 0) => nil;
   otherwise leaves next .. lastRoot.Index = l1 - 1, each by GetInfoByIndex. l1 = number of leaves the L1 info
   tree syncer holds at that moment (l1 <= length leaves). Result: (index, root), ascending. *)
Fixpoint gers_from_aux (lv : list N) (i next l1 : N) : list (N * N) :=
  match lv with
  | [] => []
  | g :: t => (if (next <=? i) && (i <? l1) then [(i, g)] else []) ++ gers_from_aux t (N.succ i) next l1
  end.
Definition gers_from (lv : leaves) (next l1 : N) : list (N * N) := gers_from_aux lv 0 next l1.

(* populateGreatestInjectedGER: `b.Events = []any{&Event{GERInfo: gerInfo}}` for every injected leaf of the list,
   in order: the slice is replaced, the last injected one stays *)
Definition greatest_injected (fc : fchain) (tip : N) (gers : list (N * N)) : list event :=
  fold_left (fun evs ig => if injected_by fc tip (snd ig) then [ins (snd ig) (fst ig)] else evs) gers [].

(* One iteration of the loop once WaitForNewBlocks returned `tip`: the block handed to the driver.
   The loop's last statement,
       if e, ok := block.Events[0].( *GlobalExitRootInfo ); ok { nextL1InfoTreeIndex = e.L1InfoTreeIndex + 1 }
   never fires: the element is a pointer to Event (built two lines above), so the type assertion fails and
   nextL1InfoTreeIndex keeps, for the whole life of the Download call, the value computed at its start. *)
Definition fep_block (lv : leaves) (fc : fchain) (next tip l1 : N) : block :=
  (tip, greatest_injected fc tip (gers_from lv next l1)).

(* A poll = (tip returned by HeaderByNumber(finality), number of leaves the L1 info tree syncer holds then).
   fromBlock = d.WaitForNewBlocks(ctx, fromBlock): the first polled tip > fromBlock ends the wait, other polls
   are consumed. Schedule exhausted = context cancelled. *)
Fixpoint fep_download (lv : leaves) (fc : fchain) (next from : N) (polls : list (N * N)) : list block :=
  match polls with
  | [] => []
  | (t, l1) :: ps =>
      if from <? t then fep_block lv fc next t l1 :: fep_download lv fc next t ps
      else fep_download lv fc next from ps
  end.

(* ------------------------------------------------------------------------------------------------ *)
(* node = driver + downloader + processor                                                            *)
(* ------------------------------------------------------------------------------------------------ *)

Definition fsegment := (option (N * fchain) * list (N * N))%type.

Definition fseg_begin (fc : fchain) (st : store) (ro : option (N * fchain)) : fchain * store :=
  match ro with None => (fc, st) | Some (b, fc') => (fsplice fc b fc', reorg b st) end.

Definition frun_seg (lv : leaves) (fc : fchain) (st : store) (s : fsegment) : fchain * option store * list block :=
  let '(fc1, st1) := fseg_begin fc st (fst s) in
  let bs := fep_download lv fc1 (fep_init st1) (last_processed st1 + 1) (snd s) in
  (fc1, process_all st1 bs, bs).

Fixpoint frun_node (lv : leaves) (fc : fchain) (st : store) (segs : list fsegment) : fchain * option store * list block :=
  match segs with
  | [] => (fc, Some st, [])
  | s :: t =>
      let '(fc1, ost, bs) := frun_seg lv fc st s in
      match ost with
      | None => (fc1, None, bs)
      | Some st1 => let '(fc2, ost2, bs2) := frun_node lv fc1 st1 t in (fc2, ost2, bs ++ bs2)
      end
  end.

(* ------------------------------------------------------------------------------------------------ *)
(* reference notions (the "spec side")                                                               *)
(* ------------------------------------------------------------------------------------------------ *)

(* root g, which is leaf i of the L1 info tree, has been injected on L2 in a block <= L *)
Definition finjected (lv : leaves) (fc : fchain) (L g i : N) : Prop :=
  nth_error lv (N.to_nat i) = Some g /\ exists b, In (b, g) fc /\ b <= L.

(* hypothesis of completeness: whenever the downloader polls, the L1 info tree syncer already holds every leaf
   whose root is injected on L2 up to the polled tip (the oracle injects only roots it read from that syncer) *)
Definition poll_sees (lv : leaves) (fc : fchain) (p : N * N) : Prop :=
  forall i g, finjected lv fc (fst p) g i -> i < snd p.

Fixpoint fvisible (lv : leaves) (fc : fchain) (st : store) (segs : list fsegment) : Prop :=
  match segs with
  | [] => True
  | s :: t =>
      (forall p, In p (snd s) -> poll_sees lv (fst (fseg_begin fc st (fst s))) p) /\
      match frun_seg lv fc st s with
      | (fc1, Some st1, _) => fvisible lv fc1 st1 t
      | (_, None, _) => True
      end
  end.
