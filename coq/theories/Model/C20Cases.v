(* C20 correspondence: the model instantiated on already-decoded inputs, compared with observations of the real
   setClaimCalldata (`corr`), and the property itself evaluated on those observations with a naive reference
   (`spec`).  Definitions only. *)
From Coq Require Import NArith List Bool.
From Verif Require Import Base.Bytes Base.FastBytes Base.Hash Model.FindCall Model.Abi.
Import ListNotations.
Open Scope N_scope.

(* ---- execution instance of the abstract input ----
   x_sel  : the first four bytes of the real calldata the harness put on the wire (None: shorter than 4 bytes);
   x_body : for calldata the harness built by ABI-packing a claim with the bindings of generation g:
            (g, global index, details); None for bytes that are not a packed claim.
   x_raw  : the bytes on the wire, given for frames addressed to the bridge ([] elsewhere: findCall never looks at the
            input of other frames). THE MODEL RUNS ON x_raw (Model/Abi.v: byte-level ABI decoding); x_sel / x_body are the
            harness's independent description (what it packed, or what go-ethereum reads by argument name from mutated
            calldata) and are used by `spec` and by `abi_agree` only. *)
Record xinput := { x_sel : option N; x_body : option (gen * N * details); x_raw : bytes }.
Definition x_selector (i : xinput) : option N := x_sel i.
Definition x_unpack (g : gen) (i : xinput) : option (N * details) :=
  match x_body i with
  | Some (g', gi, d) => if gen_eqb g g' then Some (gi, d) else None   (* packed for the other ABI: unpack fails *)
  | None => None
  end.
(* crypto.Keccak256Hash(mer[:], rer[:]) *)
Definition x_hash2 (a b : N) : N := keccakN (be 32 a ++ be 32 b).

Definition xcall := call xinput.
Definition XC (to from : N) (err : bool) (i : xinput) (l : list xcall) : xcall := Call to from err i l.
Definition XI (s : option N) (b : option (gen * N * details)) : xinput := {| x_sel := s; x_body := b; x_raw := [] |}.
Definition XR (s : option N) (b : option (gen * N * details)) (raw : bytes) : xinput := {| x_sel := s; x_body := b; x_raw := raw |}.
(* calldata written as selector, 32-byte words, remaining bytes (compact in the case files) *)
Definition raw_of (sel : N) (words : list N) (tail : bytes) : bytes := be_fast 4 sel ++ flat_map (be_fast 32) words ++ tail.
(* the byte-level instance of the ABI layer *)
Definition r_selector (i : xinput) : option N := b_selector (x_raw i).
Definition r_unpack (g : gen) (i : xinput) : option (N * details) := b_unpack g (x_raw i).
Definition DT (ler rer : list N) (mer rr dn : N) (md : nat * N) : details :=
  {| d_proof_ler := ler; d_proof_rer := rer; d_mer := mer; d_rer := rr; d_dest_net := dn; d_metadata := md |}.
Definition CL (gi : N) (rest : list N) (from : N) (ler rer : list N) (mer rr ger dn : N) (md : nat * N) (msg : bool) : claim :=
  {| cl_gi := gi; cl_rest := rest; cl_from := from; cl_proof_ler := ler; cl_proof_rer := rer; cl_mer := mer;
     cl_rer := rr; cl_ger := ger; cl_dest_net := dn; cl_metadata := md; cl_is_message := msg |}.
(* a 32-element proof whose i-th sibling is base + i*step (mod 2^256); the glue uses it only when the observed /
   generated 32 hashes are exactly of that form *)
Definition mask256 : N := Eval vm_compute in 2^256 - 1.   (* a literal; x mod 2^256 = N.land x mask256, linear time *)
Definition mkproof (base step : N) : list N :=
  map (fun i => N.land (base + N.of_nat i * step) mask256) (seq 0 32).

(* error enum shared with the harness: 0 = nil error *)
Definition code_of (r : result xinput) : N :=
  match r with
  | ROk _ => 0
  | RErr ENotFound => 1 | RErr ERootReverted => 2 | RErr EShort => 3 | RErr ESelector => 4
  | RErr EUnpack => 5 | RErr ERpc => 6 | RErr EOutOfFuel => 7
  end.

Record case20 := {
  k_bridge : N;
  k_trace : option xcall;      (* what the fake RPC client returned; None = the RPC call failed *)
  k_claim0 : claim;            (* the claim before setClaimCalldata *)
  k_err : N;                   (* observed error, code as above (99 = unclassified) *)
  k_claim1 : claim;            (* the claim after setClaimCalldata *)
  (* the same claim through the REAL log appender (bridgesync.buildAppender, syncFullClaims): pre-Etrog event?, the ClaimEvent log's data as
     32-byte words, and whether the appender ended with the same error class / appended the same Claim as the direct call *)
  k_log : option (bool * list N * bool);
}.
Definition K b t c0 e c1 : case20 := {| k_bridge := b; k_trace := t; k_claim0 := c0; k_err := e; k_claim1 := c1; k_log := None |}.
Definition KL b t c0 e c1 lg : case20 := {| k_bridge := b; k_trace := t; k_claim0 := c0; k_err := e; k_claim1 := c1; k_log := Some lg |}.

Fixpoint listN_eqb (a b : list N) : bool :=
  match a, b with [], [] => true | x :: a', y :: b' => (x =? y) && listN_eqb a' b' | _, _ => false end.
Definition bn_eqb' (a b : nat * N) : bool := Nat.eqb (fst a) (fst b) && (snd a =? snd b).
Definition claim_eqb (a b : claim) : bool :=
  (cl_gi a =? cl_gi b) && listN_eqb (cl_rest a) (cl_rest b) && (cl_from a =? cl_from b) &&
  listN_eqb (cl_proof_ler a) (cl_proof_ler b) && listN_eqb (cl_proof_rer a) (cl_proof_rer b) &&
  (cl_mer a =? cl_mer b) && (cl_rer a =? cl_rer b) && (cl_ger a =? cl_ger b) &&
  (cl_dest_net a =? cl_dest_net b) && bn_eqb' (cl_metadata a) (cl_metadata b) &&
  Bool.eqb (cl_is_message a) (cl_is_message b).

(* ---- model == implementation ? ---- *)
Definition model_run (k : case20) : result xinput * claim :=
  set_claim_calldata xinput r_selector r_unpack x_hash2 (k_trace k) (k_bridge k) (k_claim0 k).
Definition corr_run (k : case20) : bool :=
  let '(r, cl) := model_run k in (code_of r =? k_err k) && claim_eqb cl (k_claim1 k).

(* ---- the property, evaluated on what the implementation did ----
   Reference reading of a frame's input as a claim call, written from the property text and the contract ABIs
   (selectors spelled out again here on purpose): (is Etrog generation, is a message claim, global index, details) *)
Definition ref_claim_of (i : xinput) : option (bool * bool * N * details) :=
  match x_sel i, x_body i with
  | Some s, Some (g, gi, d) =>
    if (s =? 0xccaa2d11) || (s =? 0xf5efcd79) then       (* claimAsset / claimMessage, bytes32[32] x2 + uint256 index *)
      match g with Etrog => Some (true, s =? 0xf5efcd79, gi, d) | PreEtrog => None end
    else if (s =? 0x2cffd02e) || (s =? 0x2d2c9d94) then  (* claimAsset / claimMessage, bytes32[32] + uint32 index *)
      match g with PreEtrog => Some (false, s =? 0x2d2c9d94, gi, d) | Etrog => None end
    else None
  | _, _ => None
  end.

(* ---- the Gallina ABI decoder agrees with the independent description of every bridge-addressed frame ---- *)
Definition details_eqb (a b : details) : bool :=
  listN_eqb (d_proof_ler a) (d_proof_ler b) && listN_eqb (d_proof_rer a) (d_proof_rer b) &&
  (d_mer a =? d_mer b) && (d_rer a =? d_rer b) && (d_dest_net a =? d_dest_net b) && bn_eqb' (d_metadata a) (d_metadata b).
Definition frame_agrees (i : xinput) : bool :=
  match ref_claim_of i, decode_claim xinput r_selector r_unpack i with
  | None, None => true
  | Some (etrog, m, gi, d), Some (g, m', gi', d') =>
      Bool.eqb etrog (gen_eqb g Etrog) && Bool.eqb m m' && (gi =? gi') && details_eqb d d'
  | _, _ => false
  end.
Definition abi_agree (k : case20) : bool :=
  match k_trace k with
  | None => true
  | Some root => forallb (fun d => negb (c_to d =? k_bridge k) || frame_agrees (c_inp d)) (all_calls xinput root)
  end.
(* the ClaimEvent log the appender was given decodes (Model/Abi.v) to the event fields of claim0 — cl_rest = [BlockNum; BlockPos; TxHash;
   OriginNetwork; OriginAddress; DestinationAddress; Amount; BlockTimestamp] — and the appender's result agrees with the direct call *)
Definition log_agree (k : case20) : bool :=
  match k_log k with
  | None => true
  | Some (pre, words, agree) =>
      agree &&
      match (if pre then decode_claim_event_pre else decode_claim_event) (flat_map (be_fast 32) words), cl_rest (k_claim0 k) with
      | Some f, [_; _; _; onet; oaddr; daddr; amount; _] =>
          (cf_gi f =? cl_gi (k_claim0 k)) && (cf_onet f =? onet) && (cf_oaddr f =? oaddr) && (cf_daddr f =? daddr) && (cf_amount f =? amount)
      | _, _ => false
      end
  end.
Definition corr (k : case20) : bool := corr_run k && abi_agree k && log_agree k.

(* the property's quantifier: every call addressed to the bridge (anywhere in the tree) is a claim call *)
Definition in_quantifier (bridge : N) (root : xcall) : bool :=
  forallb (fun d => negb (c_to d =? bridge) ||
                    match ref_claim_of (c_inp d) with Some _ => true | None => false end)
          (all_calls xinput root).

(* naive reference: all frames with a live path, addressed to the bridge, carrying the event's global index *)
Definition candidates (bridge gi : N) (root : xcall) : list xcall :=
  filter (fun d => (c_to d =? bridge) &&
                   match ref_claim_of (c_inp d) with Some (_, _, gi', _) => gi' =? gi | None => false end)
         (live_calls xinput root).

(* what the claim must look like if frame d is the one whose details are recorded *)
Definition expected (cl0 : claim) (d : xcall) : option claim :=
  match ref_claim_of (c_inp d) with
  | Some (etrog, m, _, dt) =>
    Some {| cl_gi := cl_gi cl0; cl_rest := cl_rest cl0;
            cl_from := c_from d;
            cl_proof_ler := d_proof_ler dt;
            cl_proof_rer := if etrog then d_proof_rer dt else cl_proof_rer cl0;
            cl_mer := d_mer dt; cl_rer := d_rer dt;
            cl_ger := keccakN (be 32 (d_mer dt) ++ be 32 (d_rer dt));
            cl_dest_net := d_dest_net dt; cl_metadata := d_metadata dt;
            cl_is_message := m |}
  | None => None
  end.

Definition untouched_and_error (k : case20) : bool :=
  negb (k_err k =? 0) && claim_eqb (k_claim1 k) (k_claim0 k).

(* the Claim the REAL log appender appends for the event (same trace) is the one judged below: same outcome, same fields *)
Definition spec_via_log (k : case20) : bool :=
  match k_log k with Some (_, _, agree) => agree | None => true end.

Definition spec_direct (k : case20) : bool :=
  match k_trace k with
  | None => untouched_and_error k
  | Some root =>
    if in_quantifier (k_bridge k) root then
      match candidates (k_bridge k) (cl_gi (k_claim0 k)) root with
      | [] => untouched_and_error k
      | cs => (k_err k =? 0) &&
              existsb (fun d => match expected (k_claim0 k) d with
                                | Some e => claim_eqb (k_claim1 k) e | None => false end) cs
      end
    else true      (* outside the quantifier (malformed stream): recorded in evidence, not judged *)
  end.

Definition spec (k : case20) : bool := spec_direct k && spec_via_log k.

(* classification used for the evidence (computed by vm_compute per case): 0 outside quantifier, 1 no candidate,
   2 one candidate, 3 several candidates *)
Definition classify (k : case20) : N :=
  match k_trace k with
  | None => 1
  | Some root =>
    if in_quantifier (k_bridge k) root then
      match candidates (k_bridge k) (cl_gi (k_claim0 k)) root with [] => 1 | [_] => 2 | _ => 3 end
    else 0
  end.

Fixpoint bad_indices {A} (f : A -> bool) (i : nat) (l : list A) : list nat :=
  match l with [] => [] | x :: t => if f x then bad_indices f (S i) t else i :: bad_indices f (S i) t end.
