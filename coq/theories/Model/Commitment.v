(* C10 model: certificate commitments (agglayer/types/types.go), the protobuf message built by
   AgglayerGRPCClient.SendCertificate (agglayer/grpc/agglayer_grpc_client.go), the custom JSON codecs
   (MarshalJSON / UnmarshalJSON in types.go) and the signing step of the two flows
   (aggsender/flows/flow_pp.go, flow_aggchain_prover.go).  Definitions only.

   Every hash function is written as an explicit PREIMAGE BUILDER (a byte list, field by field, in the order and
   widths the Go code passes to crypto.Keccak256) followed by the hash.  The hash is a Section variable
   `hash : bytes -> N` (digest as a number); the digest bytes are `H p = fbe 32 (hash p)`.  For execution the
   section is instantiated with Base.Hash.keccakN (real Keccak-256). *)
From Coq Require Import String Ascii.
From Coq Require Import NArith List Bool Decimal.
From Verif Require Import Base.Bytes Model.GlobalIndex.
Import ListNotations.
Open Scope N_scope.
(* String is imported only for the literals of the JSON member names; keep the list meanings of these two names *)
Local Notation length := Datatypes.length (only parsing).
Local Notation concat := List.concat (only parsing).

(* ------------------------------------------------------------------------------------------------ *)
(* Go structs                                                                                        *)
(* ------------------------------------------------------------------------------------------------ *)

(* agglayertypes.BridgeExit (TokenInfo inlined; it is never nil where Hash is called) *)
Record bridge_exit := {
  x_leaf_type : N;              (* LeafType uint8 *)
  x_orig_net : N;               (* TokenInfo.OriginNetwork uint32 *)
  x_orig_addr : N;              (* TokenInfo.OriginTokenAddress, 20 bytes as a number *)
  x_dest_net : N;               (* DestinationNetwork uint32 *)
  x_dest_addr : N;              (* DestinationAddress, 20 bytes *)
  x_amount : option N;          (* *big.Int; None = nil *)
  x_metadata : option bytes;    (* []byte; None = nil, Some [] = empty non-nil slice *)
}.

(* agglayertypes.MerkleProof: Root + [32]common.Hash *)
Record merkle_proof := { mp_root : N; mp_siblings : list N }.

(* agglayertypes.L1InfoTreeLeaf with its Inner flattened *)
Record l1_leaf := {
  l1_index : N;                 (* L1InfoTreeIndex uint32 *)
  l1_rer : N;                   (* RollupExitRoot *)
  l1_mer : N;                   (* MainnetExitRoot *)
  l1_ger : N;                   (* Inner.GlobalExitRoot *)
  l1_block_hash : N;            (* Inner.BlockHash *)
  l1_timestamp : N;             (* Inner.Timestamp uint64 *)
}.

(* agglayertypes.Claim: *ClaimFromMainnnet | *ClaimFromRollup *)
Inductive claim :=
| ClaimMainnet (proof_leaf_mer proof_ger_l1root : merkle_proof) (leaf : l1_leaf)
| ClaimRollup (proof_leaf_ler proof_ler_rer proof_ger_l1root : merkle_proof) (leaf : l1_leaf).

Record global_index := { gi_mainnet : bool; gi_rollup : N; gi_leaf : N }.

Record imported_exit := { ie_exit : bridge_exit; ie_claim : claim; ie_gi : global_index }.

(* agglayertypes.AggchainData: nil | *AggchainDataSignature | *AggchainDataProof *)
Inductive aggchain_data :=
| AdNone
| AdSignature (signature : bytes)
| AdProof (proof : bytes) (version : bytes) (vkey : bytes) (aggchain_params : N)
          (context : list (bytes * bytes)) (signature : bytes).

Record certificate := {
  c_network : N;                (* uint32 *)
  c_height : N;                 (* uint64 *)
  c_prev_ler : N;
  c_new_ler : N;
  c_exits : list bridge_exit;
  c_imported : list imported_exit;
  c_metadata : N;               (* common.Hash *)
  c_custom : bytes;             (* CustomChainData (nil and empty are the same everywhere: omitempty / proto bytes) *)
  c_aggchain : aggchain_data;
  c_leaf_count : N;             (* L1InfoTreeLeafCount uint32 *)
}.

(* fixed-width little / big endian computed by shifts and masks.  Equal to Base.Bytes.le / be (which divide, two
   orders of magnitude slower under vm_compute): Proofs/CommitmentProofs.v fle_le, fbe_be. *)
Fixpoint fle (w : nat) (v : N) : bytes :=
  match w with O => [] | S k => N.land v 255 :: fle k (N.shiftr v 8) end.
Definition fbe (w : nat) (v : N) : bytes := rev' (fle w v).

Definition gi_triple (g : global_index) : bool * N * N := (gi_mainnet g, gi_rollup g, gi_leaf g).
Definition two64 : N := 18446744073709551616.   (* 2^64 *)
Definition two32 : N := 4294967296.             (* 2^32 *)
(* the 256-bit number bridgesync.GenerateGlobalIndex produces for the triple: flag at bit 64, rollup index in bits
   32..63 (dropped when the flag is set), leaf index in bits 0..31.  This closed form IS the byte-level function
   Model.GlobalIndex.encode (C19, tied to the Go code there) for uint32 arguments: Proofs gi_value_is_encode. *)
Definition gi_value (g : global_index) : N := (if gi_mainnet g then two64 else gi_rollup g * two32) + gi_leaf g.

Definition claim_leaf (cl : claim) : l1_leaf :=
  match cl with ClaimMainnet _ _ l => l | ClaimRollup _ _ _ l => l end.

Definition amount_val (a : option N) : N := match a with None => 0 | Some v => v end.

(* ------------------------------------------------------------------------------------------------ *)
(* Commitments                                                                                       *)
(* ------------------------------------------------------------------------------------------------ *)
Section Commitments.
Variable hash : bytes -> N.

(* crypto.Keccak256(...) / Keccak256Hash(...).Bytes(): 32 digest bytes *)
Definition H (p : bytes) : bytes := fbe 32 (hash p).

(* emptyBytesHash = crypto.Keccak256(nil) *)
Definition empty_bytes_hash : bytes := H [].

(* BridgeExit.Hash: metaDataHash := b.Metadata; if len(metaDataHash) == 0 { metaDataHash = emptyBytesHash } *)
Definition meta_eff (md : option bytes) : bytes :=
  match md with None => empty_bytes_hash | Some [] => empty_bytes_hash | Some m => m end.

(* BridgeExit.Hash: nil Amount is replaced by 0; common.BigToHash(Amount) = 32-byte big endian (low 256 bits) *)
Definition exit_preimage (b : bridge_exit) : bytes :=
  [x_leaf_type b] ++                       (* []byte{b.LeafType.Uint8()} *)
  fbe 4 (x_orig_net b) ++                   (* Uint32ToBytes: big endian *)
  fbe 20 (x_orig_addr b) ++
  fbe 4 (x_dest_net b) ++
  fbe 20 (x_dest_addr b) ++
  fbe 32 (amount_val (x_amount b)) ++
  meta_eff (x_metadata b).                 (* variable length, LAST *)
Definition exit_hash (b : bridge_exit) : bytes := H (exit_preimage b).

(* MerkleProof.Hash: root, then the 32 siblings concatenated *)
Definition mproof_preimage (m : merkle_proof) : bytes :=
  fbe 32 (mp_root m) ++ concat (map (fbe 32) (mp_siblings m)).
Definition mproof_hash (m : merkle_proof) : bytes := H (mproof_preimage m).

(* L1InfoTreeLeaf.Hash = Inner.Hash: GER, block hash, timestamp uint64 big endian.
   L1InfoTreeIndex, RollupExitRoot, MainnetExitRoot are NOT part of it. *)
Definition l1leaf_preimage (l : l1_leaf) : bytes :=
  fbe 32 (l1_ger l) ++ fbe 32 (l1_block_hash l) ++ fbe 8 (l1_timestamp l).
Definition l1leaf_hash (l : l1_leaf) : bytes := H (l1leaf_preimage l).

(* ClaimFromMainnnet.Hash / ClaimFromRollup.Hash *)
Definition claim_preimage (cl : claim) : bytes :=
  match cl with
  | ClaimMainnet a b l => mproof_hash a ++ mproof_hash b ++ l1leaf_hash l
  | ClaimRollup a b c l => mproof_hash a ++ mproof_hash b ++ mproof_hash c ++ l1leaf_hash l
  end.
Definition claim_hash (cl : claim) : bytes := H (claim_preimage cl).

(* GlobalIndex.Hash: keccak(BigIntToLittleEndianBytes(GenerateGlobalIndex(m, r, l))) *)
(* = Model.GlobalIndex.commit_gi (gi_triple g) (BigIntToLittleEndianBytes of the generated number): Proofs gi_preimage_is_commit_gi *)
Definition gi_preimage (g : global_index) : bytes := fle 32 (gi_value g).
Definition gi_hash (g : global_index) : bytes := H (gi_preimage g).

(* ImportedBridgeExit.Hash *)
Definition imported_preimage (i : imported_exit) : bytes :=
  exit_hash (ie_exit i) ++ claim_hash (ie_claim i) ++ gi_hash (ie_gi i).
Definition imported_hash (i : imported_exit) : bytes := H (imported_preimage i).

(* Certificate.Hash (the certificate's identity) *)
Definition exits_part_preimage (c : certificate) : bytes := concat (map exit_hash (c_exits c)).
Definition imported_part_preimage (c : certificate) : bytes := concat (map imported_hash (c_imported c)).
Definition cert_preimage (c : certificate) : bytes :=
  fbe 4 (c_network c) ++                    (* Uint32ToBytes *)
  fbe 8 (c_height c) ++                     (* Uint64ToBigEndianBytes *)
  fbe 32 (c_prev_ler c) ++
  fbe 32 (c_new_ler c) ++
  H (exits_part_preimage c) ++
  H (imported_part_preimage c).
Definition cert_hash (c : certificate) : bytes := H (cert_preimage c).

(* Certificate.PPHashToSign *)
Definition pp_gi_part_preimage (c : certificate) : bytes := concat (map (fun i => gi_hash (ie_gi i)) (c_imported c)).
Definition pp_preimage (c : certificate) : bytes := fbe 32 (c_new_ler c) ++ H (pp_gi_part_preimage c).
Definition pp_hash_to_sign (c : certificate) : bytes := H (pp_preimage c).

(* Certificate.FEPHashToSign *)
Definition fep_chunk (i : imported_exit) : bytes := gi_preimage (ie_gi i) ++ exit_hash (ie_exit i).
Definition fep_imported_part_preimage (c : certificate) : bytes := concat (map fep_chunk (c_imported c)).
Definition fep_params (a : aggchain_data) : bytes :=
  match a with AdProof _ _ _ params _ _ => fbe 32 params | _ => empty_bytes_hash end.
Definition fep_preimage (c : certificate) : bytes :=
  fbe 32 (c_new_ler c) ++
  H (fep_imported_part_preimage c) ++
  fle 8 (c_height c) ++                     (* Uint64ToLittleEndianBytes *)
  fep_params (c_aggchain c).
Definition fep_hash_to_sign (c : certificate) : bytes := H (fep_preimage c).

(* ---- every preimage hashed while computing the three commitments (for the collision-freedom hypothesis) ---- *)
Definition claim_preimages (cl : claim) : list bytes :=
  match cl with
  | ClaimMainnet a b l => [claim_preimage cl; mproof_preimage a; mproof_preimage b; l1leaf_preimage l]
  | ClaimRollup a b c l => [claim_preimage cl; mproof_preimage a; mproof_preimage b; mproof_preimage c; l1leaf_preimage l]
  end.
Definition imported_preimages (i : imported_exit) : list bytes :=
  [imported_preimage i; exit_preimage (ie_exit i); gi_preimage (ie_gi i)] ++ claim_preimages (ie_claim i).
Definition cert_preimages (c : certificate) : list bytes :=
  [cert_preimage c; exits_part_preimage c; imported_part_preimage c] ++
  map exit_preimage (c_exits c) ++ flat_map imported_preimages (c_imported c).
Definition pp_preimages (c : certificate) : list bytes :=
  [pp_preimage c; pp_gi_part_preimage c] ++ map (fun i => gi_preimage (ie_gi i)) (c_imported c).
Definition fep_preimages (c : certificate) : list bytes :=
  [fep_preimage c; fep_imported_part_preimage c] ++ map (fun i => exit_preimage (ie_exit i)) (c_imported c).

(* ---- covered projections: exactly what each commitment depends on ---- *)
Definition covered_exit_t : Type := N * N * N * N * N * N * bytes.
Definition covered_exit (b : bridge_exit) : covered_exit_t :=
  (x_leaf_type b, x_orig_net b, x_orig_addr b, x_dest_net b, x_dest_addr b, amount_val (x_amount b), meta_eff (x_metadata b)).
Definition covered_mproof (m : merkle_proof) : N * list N := (mp_root m, mp_siblings m).
Definition covered_l1leaf (l : l1_leaf) : N * N * N := (l1_ger l, l1_block_hash l, l1_timestamp l).
(* claim kind (false = mainnet, true = rollup), proofs in order, leaf *)
Definition covered_claim_t : Type := bool * list (N * list N) * (N * N * N).
Definition covered_claim (cl : claim) : covered_claim_t :=
  match cl with
  | ClaimMainnet a b l => (false, [covered_mproof a; covered_mproof b], covered_l1leaf l)
  | ClaimRollup a b c l => (true, [covered_mproof a; covered_mproof b; covered_mproof c], covered_l1leaf l)
  end.
Definition covered_imported_t : Type := covered_exit_t * covered_claim_t * N.
Definition covered_imported (i : imported_exit) : covered_imported_t :=
  (covered_exit (ie_exit i), covered_claim (ie_claim i), gi_value (ie_gi i)).

Definition covered_id_t : Type := N * N * N * N * list covered_exit_t * list covered_imported_t.
Definition covered_id (c : certificate) : covered_id_t :=
  (c_network c, c_height c, c_prev_ler c, c_new_ler c, map covered_exit (c_exits c), map covered_imported (c_imported c)).
Definition covered_pp_t : Type := N * list N.
Definition covered_pp (c : certificate) : covered_pp_t := (c_new_ler c, map (fun i => gi_value (ie_gi i)) (c_imported c)).
Definition covered_fep_t : Type := N * list (N * covered_exit_t) * N * bytes.
Definition covered_fep (c : certificate) : covered_fep_t :=
  (c_new_ler c, map (fun i => (gi_value (ie_gi i), covered_exit (ie_exit i))) (c_imported c), c_height c,
   fep_params (c_aggchain c)).
(* all fields covered by a commitment or by the certificate identity *)
Definition covered (c : certificate) : covered_id_t * covered_pp_t * covered_fep_t :=
  (covered_id c, covered_pp c, covered_fep c).

(* NOT covered (see Properties/C10.v for the theorems):
   Certificate.Hash    : Metadata, CustomChainData, AggchainData (incl. the signature), L1InfoTreeLeafCount,
                         and inside every claim: L1Leaf.L1InfoTreeIndex, L1Leaf.RollupExitRoot, L1Leaf.MainnetExitRoot;
                         GlobalIndex.RollupIndex when MainnetFlag is set.
   PPHashToSign        : everything except NewLocalExitRoot and the imported exits' global indexes
                         (NetworkID, Height, PrevLocalExitRoot, all bridge exits, the imported exits' bridge exits and
                         claim data, Metadata, CustomChainData, L1InfoTreeLeafCount).
   FEPHashToSign       : NetworkID, PrevLocalExitRoot, bridge exits, claim data, Metadata, CustomChainData,
                         L1InfoTreeLeafCount, AggchainData other than AggchainParams. *)

(* ------------------------------------------------------------------------------------------------ *)
(* Signing step of the flows                                                                         *)
(* ------------------------------------------------------------------------------------------------ *)
Variable signer : bytes -> bytes.     (* signer.SignHash(ctx, hash) *)

Definition set_aggchain (c : certificate) (a : aggchain_data) : certificate :=
  {| c_network := c_network c; c_height := c_height c; c_prev_ler := c_prev_ler c; c_new_ler := c_new_ler c;
     c_exits := c_exits c; c_imported := c_imported c; c_metadata := c_metadata c; c_custom := c_custom c;
     c_aggchain := a; c_leaf_count := c_leaf_count c |}.
Definition set_custom (c : certificate) (cd : bytes) : certificate :=
  {| c_network := c_network c; c_height := c_height c; c_prev_ler := c_prev_ler c; c_new_ler := c_new_ler c;
     c_exits := c_exits c; c_imported := c_imported c; c_metadata := c_metadata c; c_custom := cd;
     c_aggchain := c_aggchain c; c_leaf_count := c_leaf_count c |}.
Definition set_imported (c : certificate) (l : list imported_exit) : certificate :=
  {| c_network := c_network c; c_height := c_height c; c_prev_ler := c_prev_ler c; c_new_ler := c_new_ler c;
     c_exits := c_exits c; c_imported := l; c_metadata := c_metadata c; c_custom := c_custom c;
     c_aggchain := c_aggchain c; c_leaf_count := c_leaf_count c |}.
Definition set_exits (c : certificate) (l : list bridge_exit) : certificate :=
  {| c_network := c_network c; c_height := c_height c; c_prev_ler := c_prev_ler c; c_new_ler := c_new_ler c;
     c_exits := l; c_imported := c_imported c; c_metadata := c_metadata c; c_custom := c_custom c;
     c_aggchain := c_aggchain c; c_leaf_count := c_leaf_count c |}.

(* side effect of BridgeExit.Hash(): `if b.Amount == nil { b.Amount = big.NewInt(0) }` *)
Definition touch_exit (b : bridge_exit) : bridge_exit :=
  {| x_leaf_type := x_leaf_type b; x_orig_net := x_orig_net b; x_orig_addr := x_orig_addr b;
     x_dest_net := x_dest_net b; x_dest_addr := x_dest_addr b; x_amount := Some (amount_val (x_amount b));
     x_metadata := x_metadata b |}.
Definition touch_imported (i : imported_exit) : imported_exit :=
  {| ie_exit := touch_exit (ie_exit i); ie_claim := ie_claim i; ie_gi := ie_gi i |}.

(* PPFlow.BuildCertificate after baseFlow.BuildCertificate returned c: signCertificate(c) *)
Definition sign_step_pp (c : certificate) : certificate :=
  set_aggchain c (AdSignature (signer (pp_hash_to_sign c))).
Definition signer_input_pp (c : certificate) : bytes := pp_hash_to_sign c.

(* AggchainProverFlow.BuildCertificate after baseFlow.BuildCertificate returned c:
   cert.AggchainData = &AggchainDataProof{Proof, Version, Vkey, AggchainParams, Context};
   cert.CustomChainData = proof.CustomChainData; signCertificate(cert): hash = FEPHashToSign (this calls
   BridgeExit.Hash on every imported exit => nil amounts become 0), then aggchainData.Signature = sig *)
Definition fep_prepare (c : certificate) (proof version vkey : bytes) (params : N) (ctx : list (bytes * bytes))
  (custom : bytes) : certificate :=
  set_custom (set_aggchain c (AdProof proof version vkey params ctx [])) custom.
Definition signer_input_fep (c : certificate) (proof version vkey : bytes) (params : N) (ctx : list (bytes * bytes))
  (custom : bytes) : bytes := fep_hash_to_sign (fep_prepare c proof version vkey params ctx custom).
Definition sign_step_fep (c : certificate) (proof version vkey : bytes) (params : N) (ctx : list (bytes * bytes))
  (custom : bytes) : certificate :=
  let c1 := fep_prepare c proof version vkey params ctx custom in
  let sig := signer (fep_hash_to_sign c1) in
  set_imported (set_aggchain c1 (AdProof proof version vkey params ctx sig)) (map touch_imported (c_imported c1)).

Definition cert_signature (c : certificate) : bytes :=
  match c_aggchain c with AdNone => [] | AdSignature s => s | AdProof _ _ _ _ _ s => s end.

End Commitments.

(* ------------------------------------------------------------------------------------------------ *)
(* Wire message (protobuf request built by SendCertificate)                                          *)
(* ------------------------------------------------------------------------------------------------ *)
Record w_exit := {
  w_leaf_type : N;              (* proto enum: 0 UNSPECIFIED, 1 TRANSFER, 2 MESSAGE *)
  w_dest_net : N;
  w_dest_addr : bytes;          (* FixedBytes20 *)
  w_orig_net : N;
  w_orig_addr : bytes;
  w_amount : option bytes;      (* FixedBytes32, absent when Amount == nil *)
  w_metadata : option bytes;    (* FixedBytes32, absent when len(Metadata) == 0 *)
}.
Record w_mproof := { w_root : bytes; w_siblings : list bytes }.
Record w_l1leaf := { w_l1_index : N; w_rer : bytes; w_mer : bytes; w_ger : bytes; w_block_hash : bytes; w_timestamp : N }.
Inductive w_claim :=
| WMainnet (a b : w_mproof) (l : w_l1leaf)
| WRollup (a b c : w_mproof) (l : w_l1leaf).
Record w_imported := { w_ie_exit : w_exit; w_gi : bytes; w_ie_claim : w_claim }.
Inductive w_aggchain :=
| WSignature (s : bytes)
| WGeneric (version proof vkey params : bytes) (context : list (bytes * bytes)) (signature : bytes).
Record w_cert := {
  wc_network : N; wc_height : N; wc_leaf_count : N;
  wc_prev_ler : bytes; wc_new_ler : bytes; wc_meta : bytes; wc_custom : bytes;
  wc_agg : w_aggchain; wc_exits : list w_exit; wc_imported : list w_imported;
}.

(* leafTypeToProto *)
Definition leaf_type_to_proto (t : N) : N := if t =? 0 then 1 else if t =? 1 then 2 else 0.
(* common.BytesToHash(b).Bytes(): crop from the left when longer than 32, left-pad with zeros when shorter *)
Definition bytes_to_hash (b : bytes) : bytes :=
  let n := length b in
  if Nat.ltb 32 n then skipn (n - 32) b else repeat 0 (32 - n) ++ b.

Definition is_empty {A} (l : list A) : bool := match l with [] => true | _ => false end.

(* convertToProtoBridgeExit *)
Definition to_wire_exit (b : bridge_exit) : w_exit :=
  {| w_leaf_type := leaf_type_to_proto (x_leaf_type b);
     w_dest_net := x_dest_net b;
     w_dest_addr := fbe 20 (x_dest_addr b);
     w_orig_net := x_orig_net b;
     w_orig_addr := fbe 20 (x_orig_addr b);
     w_amount := match x_amount b with None => None | Some v => Some (fbe 32 v) end;
     w_metadata := match x_metadata b with
                   | None => None
                   | Some m => if is_empty m then None else Some (bytes_to_hash m)
                   end |}.
Definition to_wire_mproof (m : merkle_proof) : w_mproof :=
  {| w_root := fbe 32 (mp_root m); w_siblings := map (fbe 32) (mp_siblings m) |}.
Definition to_wire_l1leaf (l : l1_leaf) : w_l1leaf :=
  {| w_l1_index := l1_index l; w_rer := fbe 32 (l1_rer l); w_mer := fbe 32 (l1_mer l);
     w_ger := fbe 32 (l1_ger l); w_block_hash := fbe 32 (l1_block_hash l); w_timestamp := l1_timestamp l |}.
Definition to_wire_claim (cl : claim) : w_claim :=
  match cl with
  | ClaimMainnet a b l => WMainnet (to_wire_mproof a) (to_wire_mproof b) (to_wire_l1leaf l)
  | ClaimRollup a b c l => WRollup (to_wire_mproof a) (to_wire_mproof b) (to_wire_mproof c) (to_wire_l1leaf l)
  end.
(* convertToProtoImportedBridgeExit: GlobalIndex = BigToHash(GenerateGlobalIndex(m, r, l)) *)
Definition to_wire_imported (i : imported_exit) : w_imported :=
  {| w_ie_exit := to_wire_exit (ie_exit i); w_gi := fbe 32 (gi_value (ie_gi i));   (* = Model.GlobalIndex.wire_gi: Proofs wire_gi_is_model *) w_ie_claim := to_wire_claim (ie_claim i) |}.
(* convertAggchainData: nil => errUndefinedAggchainData *)
Definition to_wire_aggchain (a : aggchain_data) : option w_aggchain :=
  match a with
  | AdNone => None
  | AdSignature s => Some (WSignature s)
  | AdProof proof version vkey params ctx s => Some (WGeneric version proof vkey (fbe 32 params) ctx s)
  end.
Definition to_wire (c : certificate) : option w_cert :=
  match to_wire_aggchain (c_aggchain c) with
  | None => None
  | Some a =>
    Some {| wc_network := c_network c; wc_height := c_height c; wc_leaf_count := c_leaf_count c;
            wc_prev_ler := fbe 32 (c_prev_ler c); wc_new_ler := fbe 32 (c_new_ler c); wc_meta := fbe 32 (c_metadata c);
            wc_custom := c_custom c; wc_agg := a;
            wc_exits := map to_wire_exit (c_exits c); wc_imported := map to_wire_imported (c_imported c) |}
  end.

(* the receiver's reading of the message *)
Definition leaf_type_of_proto (t : N) : N := if t =? 1 then 0 else if t =? 2 then 1 else 255.
Definition of_wire_exit (w : w_exit) : bridge_exit :=
  {| x_leaf_type := leaf_type_of_proto (w_leaf_type w);
     x_orig_net := w_orig_net w; x_orig_addr := of_be (w_orig_addr w);
     x_dest_net := w_dest_net w; x_dest_addr := of_be (w_dest_addr w);
     x_amount := option_map of_be (w_amount w);
     x_metadata := w_metadata w |}.
Definition of_wire_mproof (m : w_mproof) : merkle_proof :=
  {| mp_root := of_be (w_root m); mp_siblings := map of_be (w_siblings m) |}.
Definition of_wire_l1leaf (l : w_l1leaf) : l1_leaf :=
  {| l1_index := w_l1_index l; l1_rer := of_be (w_rer l); l1_mer := of_be (w_mer l); l1_ger := of_be (w_ger l);
     l1_block_hash := of_be (w_block_hash l); l1_timestamp := w_timestamp l |}.
Definition of_wire_claim (cl : w_claim) : claim :=
  match cl with
  | WMainnet a b l => ClaimMainnet (of_wire_mproof a) (of_wire_mproof b) (of_wire_l1leaf l)
  | WRollup a b c l => ClaimRollup (of_wire_mproof a) (of_wire_mproof b) (of_wire_mproof c) (of_wire_l1leaf l)
  end.
(* bridgesync.DecodeGlobalIndex in closed form (= Model.GlobalIndex.decode for v < 2^256, theorem C19_decode_closed_form) *)
Definition gi_of_value (v : N) : global_index :=
  {| gi_mainnet := (two64 <=? v) && (v <? two64 * 256); gi_rollup := (v / two32) mod two32; gi_leaf := v mod two32 |}.
Definition of_wire_imported (i : w_imported) : imported_exit :=
  {| ie_exit := of_wire_exit (w_ie_exit i); ie_claim := of_wire_claim (w_ie_claim i); ie_gi := gi_of_value (of_be (w_gi i)) |}.
Definition of_wire_aggchain (a : w_aggchain) : aggchain_data :=
  match a with
  | WSignature s => AdSignature s
  | WGeneric version proof vkey params ctx s => AdProof proof version vkey (of_be params) ctx s
  end.
Definition of_wire (w : w_cert) : certificate :=
  {| c_network := wc_network w; c_height := wc_height w; c_prev_ler := of_be (wc_prev_ler w); c_new_ler := of_be (wc_new_ler w);
     c_exits := map of_wire_exit (wc_exits w); c_imported := map of_wire_imported (wc_imported w);
     c_metadata := of_be (wc_meta w); c_custom := wc_custom w; c_aggchain := of_wire_aggchain (wc_agg w);
     c_leaf_count := wc_leaf_count w |}.

(* ------------------------------------------------------------------------------------------------ *)
(* JSON codecs (the custom MarshalJSON / UnmarshalJSON code), at the level of fields                 *)
(* ------------------------------------------------------------------------------------------------ *)
Definition jstr := bytes.       (* a JSON string as its ASCII bytes *)
Definition str (s : string) : jstr := map N_of_ascii (list_ascii_of_string s).

(* big.Int.String() in base 10 / new(big.Int).SetString(s, 10) for non-negative values *)
Fixpoint uint_ascii (u : Decimal.uint) : jstr :=
  match u with
  | Nil => []
  | D0 u => 48 :: uint_ascii u | D1 u => 49 :: uint_ascii u | D2 u => 50 :: uint_ascii u | D3 u => 51 :: uint_ascii u
  | D4 u => 52 :: uint_ascii u | D5 u => 53 :: uint_ascii u | D6 u => 54 :: uint_ascii u | D7 u => 55 :: uint_ascii u
  | D8 u => 56 :: uint_ascii u | D9 u => 57 :: uint_ascii u
  end.
Fixpoint ascii_uint (s : jstr) : option Decimal.uint :=
  match s with
  | [] => Some Nil
  | c :: t =>
    match ascii_uint t with
    | None => None
    | Some u =>
      if c =? 48 then Some (D0 u) else if c =? 49 then Some (D1 u) else if c =? 50 then Some (D2 u)
      else if c =? 51 then Some (D3 u) else if c =? 52 then Some (D4 u) else if c =? 53 then Some (D5 u)
      else if c =? 54 then Some (D6 u) else if c =? 55 then Some (D7 u) else if c =? 56 then Some (D8 u)
      else if c =? 57 then Some (D9 u) else None
    end
  end.
Definition dec_string (v : N) : jstr := uint_ascii (N.to_uint v).
Definition parse_dec (s : jstr) : option N :=
  match s with [] => None | _ => option_map N.of_uint (ascii_uint s) end.

(* strings.Contains(s, "nil") *)
Fixpoint has_nil (s : jstr) : bool :=
  match s with
  | a :: t =>
    match t with
    | b :: c :: _ => ((a =? 110) && (b =? 105) && (c =? 108)) || has_nil t
    | _ => false
    end
  | [] => false
  end.

(* common.Bytes2Hex / common.Hex2Bytes (hex.DecodeString: decoded prefix is returned on error, error dropped) *)
Definition hexc (n : N) : N := if n <? 10 then 48 + n else 87 + n.
Definition unhexc (c : N) : option N :=
  if (48 <=? c) && (c <=? 57) then Some (c - 48)
  else if (97 <=? c) && (c <=? 102) then Some (c - 87)
  else if (65 <=? c) && (c <=? 70) then Some (c - 55)
  else None.
Definition hex_ascii (bs : bytes) : jstr := flat_map (fun b => [hexc (b / 16); hexc (b mod 16)]) bs.
Fixpoint unhex_ascii (s : jstr) : bytes :=
  match s with
  | a :: t =>
    match t with
    | b :: t' =>
      match unhexc a, unhexc b with
      | Some x, Some y => (x * 16 + y) :: unhex_ascii t'
      | _, _ => []
      end
    | [] => []
    end
  | [] => []
  end.

(* association lists standing for JSON objects produced from Go maps *)
Fixpoint lookup {A} (k : jstr) (l : list (jstr * A)) : option A :=
  match l with [] => None | (k', v) :: t => if bytes_eqb k k' then Some v else lookup k t end.

(* BridgeExit JSON object *)
Record j_exit := {
  j_leaf_type : jstr;           (* LeafType.String(): "Transfer" | "Message" *)
  j_orig_net : N; j_orig_addr : N; j_dest_net : N; j_dest_addr : N;   (* standard codecs *)
  j_amount : jstr;              (* Amount.String(): decimal, "<nil>" for nil *)
  j_metadata : option jstr;     (* hex string when len > 0, JSON null otherwise *)
}.
(* MerkleProof: {"root": .., "proof": {"siblings": [..]}} *)
Record j_mproof := { j_root : N; j_proof : list (jstr * list N) }.
(* claim_data: {"Mainnet": {...}} | {"Rollup": {...}}: tag, child map (keys sorted as encoding/json does) *)
Record j_claim := { j_tag : jstr; j_proofs : list (jstr * j_mproof); j_leafs : list (jstr * l1_leaf) }.
Record j_imported := { j_ie_exit : j_exit; j_ie_claim : j_claim; j_ie_gi : global_index }.
(* aggchain_data object: string-valued members (sorted by key) and the context map *)
Record j_agg := { ja_fields : list (jstr * jstr); ja_context : list (bytes * bytes) }.
Record j_cert := {
  jc_network : N; jc_height : N; jc_prev_ler : N; jc_new_ler : N;
  jc_exits : list j_exit; jc_imported : list j_imported;
  jc_meta : N; jc_custom : bytes; jc_aggchain : option j_agg; jc_leaf_count : N;
}.

Definition s_transfer := str "Transfer". Definition s_message := str "Message".
Definition s_nil := str "<nil>".
Definition s_mainnet := str "Mainnet". Definition s_rollup := str "Rollup".
Definition s_siblings := str "siblings".
Definition s_proof_leaf_mer := str "proof_leaf_mer". Definition s_proof_ger_l1root := str "proof_ger_l1root".
Definition s_proof_leaf_ler := str "proof_leaf_ler". Definition s_proof_ler_rer := str "proof_ler_rer".
Definition s_l1_leaf := str "l1_leaf".
Definition s_signature := str "signature". Definition s_proof := str "proof". Definition s_version := str "version".
Definition s_vkey := str "vkey". Definition s_aggchain_params := str "aggchain_params".
Definition s_0x := str "0x".

(* LeafType.String(): [...]string{"Transfer", "Message"}[l] -- index out of range panics for l >= 2 *)
Definition to_json_exit (b : bridge_exit) : option j_exit :=
  let lt := x_leaf_type b in
  if 2 <=? lt then None else
  Some {| j_leaf_type := if lt =? 0 then s_transfer else s_message;
          j_orig_net := x_orig_net b; j_orig_addr := x_orig_addr b; j_dest_net := x_dest_net b; j_dest_addr := x_dest_addr b;
          j_amount := match x_amount b with None => s_nil | Some v => dec_string v end;
          j_metadata := match x_metadata b with
                        | None => None
                        | Some m => if is_empty m then None else Some (hex_ascii m)
                        end |}.
(* BridgeExit.UnmarshalJSON *)
Definition of_json_leaf_type (s : jstr) : option N :=
  if bytes_eqb s s_transfer then Some 0 else if bytes_eqb s s_message then Some 1
  else option_map (fun v => v mod 256) (parse_dec s).
Definition of_json_exit (j : j_exit) : option bridge_exit :=
  match of_json_leaf_type (j_leaf_type j) with
  | None => None
  | Some lt =>
    let mk a := Some {| x_leaf_type := lt; x_orig_net := j_orig_net j; x_orig_addr := j_orig_addr j;
                        x_dest_net := j_dest_net j; x_dest_addr := j_dest_addr j; x_amount := a;
                        x_metadata := option_map unhex_ascii (j_metadata j) |} in
    if has_nil (j_amount j) then mk None
    else match parse_dec (j_amount j) with None => None | Some v => mk (Some v) end
  end.

Definition to_json_mproof (m : merkle_proof) : j_mproof :=
  {| j_root := mp_root m; j_proof := [(s_siblings, mp_siblings m)] |}.
(* m.Proof = aux.Proof["siblings"]: the zero array when the key is missing *)
Definition of_json_mproof (j : j_mproof) : merkle_proof :=
  {| mp_root := j_root j; mp_siblings := match lookup s_siblings (j_proof j) with Some s => s | None => repeat 0 32 end |}.

Definition to_json_claim (cl : claim) : j_claim :=
  match cl with
  | ClaimMainnet a b l =>
    {| j_tag := s_mainnet;
       j_proofs := [(s_proof_ger_l1root, to_json_mproof b); (s_proof_leaf_mer, to_json_mproof a)];
       j_leafs := [(s_l1_leaf, l)] |}
  | ClaimRollup a b c l =>
    {| j_tag := s_rollup;
       j_proofs := [(s_proof_ger_l1root, to_json_mproof c); (s_proof_leaf_ler, to_json_mproof a); (s_proof_ler_rer, to_json_mproof b)];
       j_leafs := [(s_l1_leaf, l)] |}
  end.
(* ClaimSelector.UnmarshalJSON then ClaimFromMainnnet/ClaimFromRollup.UnmarshalJSON; a missing member leaves a nil pointer
   (the hash functions would panic on it): modelled as None *)
Definition of_json_claim (j : j_claim) : option claim :=
  let p k := option_map of_json_mproof (lookup k (j_proofs j)) in
  if bytes_eqb (j_tag j) s_mainnet then
    match p s_proof_leaf_mer, p s_proof_ger_l1root, lookup s_l1_leaf (j_leafs j) with
    | Some a, Some b, Some l => Some (ClaimMainnet a b l)
    | _, _, _ => None
    end
  else if bytes_eqb (j_tag j) s_rollup then
    match p s_proof_leaf_ler, p s_proof_ler_rer, p s_proof_ger_l1root, lookup s_l1_leaf (j_leafs j) with
    | Some a, Some b, Some c, Some l => Some (ClaimRollup a b c l)
    | _, _, _, _ => None
    end
  else None.

Definition to_json_imported (i : imported_exit) : option j_imported :=
  match to_json_exit (ie_exit i) with
  | None => None
  | Some e => Some {| j_ie_exit := e; j_ie_claim := to_json_claim (ie_claim i); j_ie_gi := ie_gi i |}
  end.
Definition of_json_imported (j : j_imported) : option imported_exit :=
  match of_json_exit (j_ie_exit j), of_json_claim (j_ie_claim j) with
  | Some e, Some cl => Some {| ie_exit := e; ie_claim := cl; ie_gi := j_ie_gi j |}
  | _, _ => None
  end.

(* common.Hash.String() = "0x" + 64 hex digits; common.HexToHash = BytesToHash(FromHex(s)) *)
Definition hash_string (v : N) : jstr := s_0x ++ hex_ascii (fbe 32 v).
Definition strip_0x (s : jstr) : jstr :=
  match s with 48 :: 120 :: t => t | 48 :: 88 :: t => t | _ => s end.
Definition hex_to_hash (s : jstr) : N :=
  let h := strip_0x s in
  let h := if Nat.odd (length h) then 48 :: h else h in
  of_be (bytes_to_hash (unhex_ascii h)).

Definition to_json_aggchain (a : aggchain_data) : option j_agg :=
  match a with
  | AdNone => None                                    (* omitempty on a nil interface *)
  | AdSignature s => Some {| ja_fields := [(s_signature, hex_ascii s)]; ja_context := [] |}
  | AdProof proof version vkey params ctx s =>
    Some {| ja_fields := [(s_aggchain_params, hash_string params); (s_proof, hex_ascii proof); (s_signature, hex_ascii s);
                          (s_version, version); (s_vkey, hex_ascii vkey)];
            ja_context := ctx |}
  end.
(* AggchainDataSelector.UnmarshalJSON: "proof" member present => AggchainDataProof, else "signature" => AggchainDataSignature *)
Definition of_json_aggchain (j : option j_agg) : option aggchain_data :=
  match j with
  | None => Some AdNone
  | Some o =>
    let g k := match lookup k (ja_fields o) with Some v => v | None => [] end in
    match lookup s_proof (ja_fields o) with
    | Some _ => Some (AdProof (unhex_ascii (g s_proof)) (g s_version) (unhex_ascii (g s_vkey)) (hex_to_hash (g s_aggchain_params))
                              (ja_context o) (unhex_ascii (g s_signature)))
    | None =>
      match lookup s_signature (ja_fields o) with
      | Some s => Some (AdSignature (unhex_ascii s))
      | None => None
      end
    end
  end.

Fixpoint map_opt {A B} (f : A -> option B) (l : list A) : option (list B) :=
  match l with
  | [] => Some []
  | x :: t => match f x, map_opt f t with Some y, Some r => Some (y :: r) | _, _ => None end
  end.

Definition to_json (c : certificate) : option j_cert :=
  match map_opt to_json_exit (c_exits c), map_opt to_json_imported (c_imported c) with
  | Some es, Some is_ =>
    Some {| jc_network := c_network c; jc_height := c_height c; jc_prev_ler := c_prev_ler c; jc_new_ler := c_new_ler c;
            jc_exits := es; jc_imported := is_; jc_meta := c_metadata c; jc_custom := c_custom c;
            jc_aggchain := to_json_aggchain (c_aggchain c); jc_leaf_count := c_leaf_count c |}
  | _, _ => None
  end.
Definition of_json (j : j_cert) : option certificate :=
  match map_opt of_json_exit (jc_exits j), map_opt of_json_imported (jc_imported j), of_json_aggchain (jc_aggchain j) with
  | Some es, Some is_, Some a =>
    Some {| c_network := jc_network j; c_height := jc_height j; c_prev_ler := jc_prev_ler j; c_new_ler := jc_new_ler j;
            c_exits := es; c_imported := is_; c_metadata := jc_meta j; c_custom := jc_custom j;
            c_aggchain := a; c_leaf_count := jc_leaf_count j |}
  | _, _, _ => None
  end.
Definition json_round_trip (c : certificate) : option certificate :=
  match to_json c with None => None | Some j => of_json j end.

(* ------------------------------------------------------------------------------------------------ *)
(* Well-formedness (Go types' ranges) and canonical certificates (as the node builds them)           *)
(* ------------------------------------------------------------------------------------------------ *)
Definition wf_exit (b : bridge_exit) : Prop :=
  x_leaf_type b < 256 /\ x_orig_net b < 2^32 /\ x_orig_addr b < 2^160 /\ x_dest_net b < 2^32 /\ x_dest_addr b < 2^160 /\
  amount_val (x_amount b) < 2^256 /\ match x_metadata b with None => True | Some m => bytes_ok m end.
Definition wf_mproof (m : merkle_proof) : Prop :=
  mp_root m < 2^256 /\ length (mp_siblings m) = 32%nat /\ Forall (fun s => s < 2^256) (mp_siblings m).
Definition wf_l1leaf (l : l1_leaf) : Prop :=
  l1_index l < 2^32 /\ l1_rer l < 2^256 /\ l1_mer l < 2^256 /\ l1_ger l < 2^256 /\ l1_block_hash l < 2^256 /\ l1_timestamp l < 2^64.
Definition wf_claim (cl : claim) : Prop :=
  match cl with
  | ClaimMainnet a b l => wf_mproof a /\ wf_mproof b /\ wf_l1leaf l
  | ClaimRollup a b c l => wf_mproof a /\ wf_mproof b /\ wf_mproof c /\ wf_l1leaf l
  end.
Definition wf_gi (g : global_index) : Prop := gi_rollup g < 2^32 /\ gi_leaf g < 2^32.
Definition wf_imported (i : imported_exit) : Prop := wf_exit (ie_exit i) /\ wf_claim (ie_claim i) /\ wf_gi (ie_gi i).
Definition wf_aggchain (a : aggchain_data) : Prop :=
  match a with
  | AdNone => True
  | AdSignature s => bytes_ok s
  | AdProof proof version vkey params ctx s => bytes_ok proof /\ bytes_ok vkey /\ params < 2^256 /\ bytes_ok s
  end.
Definition wf_cert (c : certificate) : Prop :=
  c_network c < 2^32 /\ c_height c < 2^64 /\ c_prev_ler c < 2^256 /\ c_new_ler c < 2^256 /\
  Forall wf_exit (c_exits c) /\ Forall wf_imported (c_imported c) /\ c_metadata c < 2^256 /\
  wf_aggchain (c_aggchain c) /\ c_leaf_count c < 2^32.

(* As the node builds them (aggsender/flows/flow_base.go): LeafType is the bridge event's 0/1;
   Metadata = convertBridgeMetadata(raw) = nil for empty raw metadata, crypto.Keccak256(raw) (32 bytes) otherwise
   (an empty non-nil slice behaves like nil everywhere and is allowed). *)
Definition canonical_exit (b : bridge_exit) : Prop :=
  wf_exit b /\ x_leaf_type b < 2 /\
  match x_metadata b with None => True | Some m => length m = 32%nat \/ m = [] end.
Definition canonical_imported (i : imported_exit) : Prop :=
  canonical_exit (ie_exit i) /\ wf_claim (ie_claim i) /\ wf_gi (ie_gi i).
Definition canonical (c : certificate) : Prop :=
  wf_cert c /\ Forall canonical_exit (c_exits c) /\ Forall canonical_imported (c_imported c).

(* executable versions, used by the case evaluation *)
Definition forallb_ok (bs : bytes) : bool := forallb (fun b => b <? 256) bs.
Definition wf_exitb (b : bridge_exit) : bool :=
  (x_leaf_type b <? 256) && (x_orig_net b <? 2^32) && (x_orig_addr b <? 2^160) && (x_dest_net b <? 2^32) &&
  (x_dest_addr b <? 2^160) && (amount_val (x_amount b) <? 2^256) &&
  match x_metadata b with None => true | Some m => forallb_ok m end.
Definition canonical_exitb (b : bridge_exit) : bool :=
  wf_exitb b && (x_leaf_type b <? 2) &&
  match x_metadata b with None => true | Some m => Nat.eqb (length m) 32 || is_empty m end.
Definition wf_mproofb (m : merkle_proof) : bool :=
  (mp_root m <? 2^256) && Nat.eqb (length (mp_siblings m)) 32 && forallb (fun s => s <? 2^256) (mp_siblings m).
Definition wf_l1leafb (l : l1_leaf) : bool :=
  (l1_index l <? 2^32) && (l1_rer l <? 2^256) && (l1_mer l <? 2^256) && (l1_ger l <? 2^256) &&
  (l1_block_hash l <? 2^256) && (l1_timestamp l <? 2^64).
Definition wf_claimb (cl : claim) : bool :=
  match cl with
  | ClaimMainnet a b l => wf_mproofb a && wf_mproofb b && wf_l1leafb l
  | ClaimRollup a b c l => wf_mproofb a && wf_mproofb b && wf_mproofb c && wf_l1leafb l
  end.
Definition wf_gib (g : global_index) : bool := (gi_rollup g <? 2^32) && (gi_leaf g <? 2^32).
Definition canonical_importedb (i : imported_exit) : bool :=
  canonical_exitb (ie_exit i) && wf_claimb (ie_claim i) && wf_gib (ie_gi i).
Definition wf_aggchainb (a : aggchain_data) : bool :=
  match a with
  | AdNone => true
  | AdSignature s => forallb_ok s
  | AdProof proof version vkey params ctx s => forallb_ok proof && forallb_ok vkey && (params <? 2^256) && forallb_ok s
  end.
Definition canonicalb (c : certificate) : bool :=
  (c_network c <? 2^32) && (c_height c <? 2^64) && (c_prev_ler c <? 2^256) && (c_new_ler c <? 2^256) &&
  (c_metadata c <? 2^256) && wf_aggchainb (c_aggchain c) && (c_leaf_count c <? 2^32) &&
  forallb canonical_exitb (c_exits c) && forallb canonical_importedb (c_imported c).
