(* C16, FEP mode — correspondence: executable comparison of the model (Model/GerFep.v) with the observations of the real
   FEP downloader + driver + processor, and the executable form of the property evaluated on those observations
   against a naive reference computed from the case's chains. Definitions only. *)
From Coq Require Import NArith List Bool.
From Verif Require Import Model.GerIndex Model.GerFep Model.C16Cases.
Import ListNotations.
Open Scope N_scope.

Record fseg_in := {
  fi_reorg : option (N * fchain);     (* None = restart; Some (b, injections of the new fork) = reorg at b *)
  fi_polls : list (N * N);            (* (tip, leaves held by the L1 info tree syncer) per poll *)
}.

Record fcase := {
  f_leaves : leaves;                  (* global exit root of leaf i *)
  f_inj : fchain;                     (* (block, root) *)
  f_queries : list N;
  f_segs : list (fseg_in * seg_obs);  (* seg_obs: Model/C16Cases.v *)
}.

(* ---- model == implementation ? ---- *)
Fixpoint corr_fsegs (lv : leaves) (fc : fchain) (st : store) (qs : list N) (segs : list (fseg_in * seg_obs)) : bool :=
  match segs with
  | [] => true
  | (si, so) :: t =>
      let '(fc1, ost, bs) := frun_seg lv fc st (fi_reorg si, fi_polls si) in
      match ost with
      | None => so_stuck so
      | Some st1 =>
          negb (so_stuck so) &&
          list_eqb block_eqb bs (so_delivered so) &&
          (last_processed st1 =? so_last so) &&
          list_eqb N.eqb (s_blocks st1) (so_blocks so) &&
          list_eqb row_eqb (s_rows st1) (so_rows so) &&
          list_eqb ans_eqb (map (first_ger_after st1) qs) (so_answers so) &&
          corr_fsegs lv fc1 st1 qs t
      end
  end.

Definition corr_fep (c : fcase) : bool := corr_fsegs (f_leaves c) (f_inj c) empty_store (f_queries c) (f_segs c).

(* ---- the property on the implementation's answers ---- *)

(* naive reference: root g = leaf i has been injected on L2 in a block <= some PROCESSED block (observed block table) *)
Definition ref_injected (lv : leaves) (fc : fchain) (blocks : list N) (i g : N) : bool :=
  match nth_error lv (N.to_nat i) with
  | Some g' => (g' =? g) && existsb (fun p => (snd p =? g) && existsb (fun b => fst p <=? b) blocks) fc
  | None => false
  end.

(* indexes of the leaves, 0 .. length-1 *)
Fixpoint idxs (k : N) (lv : leaves) : list (N * N) :=
  match lv with [] => [] | g :: t => (k, g) :: idxs (N.succ k) t end.

(* a returned root must be injected in a processed block, be the leaf of the returned index, and have index >= x;
   not-found (judged only when the L1 info tree syncer always held the injected leaves: `vis`) only when no leaf
   with index >= x is injected in a processed block *)
Definition fanswer_ok (lv : leaves) (fc : fchain) (blocks : list N) (vis : bool) (x : N) (a : option (N * N)) : bool :=
  match a with
  | Some (i, g) => ref_injected lv fc blocks i g && (x <=? i)
  | None => negb vis || negb (existsb (fun ig => (x <=? fst ig) && ref_injected lv fc blocks (fst ig) (snd ig)) (idxs 0 lv))
  end.

Fixpoint fanswers_ok (lv : leaves) (fc : fchain) (blocks : list N) (vis : bool) (qs : list N) (ans : list (option (N * N))) : bool :=
  match qs, ans with
  | [], [] => true
  | x :: qs', a :: ans' => fanswer_ok lv fc blocks vis x a && fanswers_ok lv fc blocks vis qs' ans'
  | _, _ => false
  end.

(* the completeness hypothesis, decided on the case: at every poll the syncer holds every leaf whose root is
   injected by the polled tip *)
Definition poll_sees_b (lv : leaves) (fc : fchain) (p : N * N) : bool :=
  forallb (fun ig => negb (existsb (fun q => (snd q =? snd ig) && (fst q <=? fst p)) fc) || (fst ig <? snd p)) (idxs 0 lv).

Fixpoint spec_fsegs (lv : leaves) (fc : fchain) (vis : bool) (qs : list N) (segs : list (fseg_in * seg_obs)) : bool :=
  match segs with
  | [] => true
  | (si, so) :: t =>
      let fc1 := match fi_reorg si with None => fc | Some (b, fc') => fsplice fc b fc' end in
      let vis1 := vis && forallb (poll_sees_b lv fc1) (fi_polls si) in
      fanswers_ok lv fc1 (so_blocks so) vis1 qs (so_answers so) && spec_fsegs lv fc1 vis1 qs t
  end.

Definition spec_fep (c : fcase) : bool := spec_fsegs (f_leaves c) (f_inj c) true (f_queries c) (f_segs c).
