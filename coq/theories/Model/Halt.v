(* C14 model — fail-stop on inconsistency (definitions only).

   Mirrors, one for one:
     bridgesync/processor.go      ProcessBlock / Reorg / isHalted
     l1infotreesync/processor.go  ProcessBlock / Reorg / isHalted
     sync/common.go               UnhaltIfAffectedRows
     sync/evmdriver.go            handleNewBlock (what the driver does with ErrInconsistentState)
     bridgesync/bridgesync.go, l1infotreesync/l1infotreesync.go   the facade methods (halted guard first)

   Both processors have the same skeleton, so it is written once over an abstract transaction body `apply`
   (Section Machine) and instantiated twice:

     ProcessBlock(b):  if p.isHalted() { return ErrInconsistentState }          -- state untouched
                       tx; INSERT INTO block(num)  (PRIMARY KEY => error)        -- other error, rolled back
                       for each event: ... inconsistency => p.halted = true; return ErrInconsistentState (rolled back)
                       commit
     Reorg(b):         DELETE FROM block WHERE num >= b   (children cascade / tree rows deleted with the same bound)
                       rowsAffected := number of block rows deleted
                       UnhaltIfAffectedRows: if rowsAffected > 0 { halted = false }

   Block numbers are fed in strictly increasing order between reorgs (that is what EVMDriver does); under that
   regime "last root of the tree" = root of the most recently added leaf, which is what the instances use.
   Besides the rows each processor has in-memory state (`mem`): for the bridge processor the append-only tree's
   `lastIndex` (tree/appendonlytree.go), which AddLeaf compares FIRST and only re-reads from the database on a
   mismatch. It is modelled exactly (b_add_leaf, b_rollback, on_reorg below) because it decides whether a deposit-count
   gap is noticed: AppendOnlyTree.Reorg and the rollback callback of AddLeaf invalidate it (lastIndex = -2). (Before
   the fixes 246bc10 / 9d73352 they did not, and a gap of exactly the size of the leaves removed by a reorg went
   unnoticed; the two witness histories stay in the harness templates.)
   Database faults are modelled where they matter for the property: a Reorg whose transaction fails after the block
   rows were deleted (OpReorgFault: the tree purge fails, or the commit fails). Statement order of both Reorg methods:
   delete block rows, (row count), tree purge(s), commit, and only THEN UnhaltIfAffectedRows; so a failed Reorg returns
   the error, the transaction is rolled back and neither the rows nor the flag change.
   Other database faults (in ProcessBlock) are not modelled; since 4209862 bridgesync returns them as they are. *)
From Coq Require Import NArith List Bool String.
Import ListNotations.
Open Scope N_scope.

(* result classes of every call the harness observes *)
Inductive outcome := OOk | OInconsistent | OOther | OPanic.

Definition outcome_eqb (a b : outcome) : bool :=
  match a, b with
  | OOk, OOk | OInconsistent, OInconsistent | OOther, OOther | OPanic, OPanic => true
  | _, _ => false
  end.

Definition is_inconsistent (o : outcome) : bool := outcome_eqb o OInconsistent.

(* comparison operator of the `if` in sync.UnhaltIfAffectedRows, as the translator prints it *)
Inductive cmp_op := CGt | CGe | CLt | CLe | CEq | CNe.

Definition cmp_of_string (s : string) : option cmp_op :=
  if String.eqb s ">" then Some CGt else if String.eqb s ">=" then Some CGe
  else if String.eqb s "<" then Some CLt else if String.eqb s "<=" then Some CLe
  else if String.eqb s "==" then Some CEq else if String.eqb s "!=" then Some CNe else None.

Definition eval_cmp (op : cmp_op) (a b : N) : bool :=
  match op with
  | CGt => b <? a | CGe => b <=? a | CLt => a <? b | CLe => a <=? b | CEq => a =? b | CNe => negb (a =? b)
  end.

(* sync/common.go: `if rowsAffected > 0 { *halted = false }` *)
Definition model_unhalt_op : cmp_op := CGt.
Definition model_unhalt_const : N := 0.

(* storage faults that hit a Reorg transaction AFTER `DELETE FROM block`:
   FTree   = the purge of the tree's root table fails (fires iff a removed block had tree leaves: there is a root row to delete)
   FCommit = the COMMIT fails (fires iff the transaction removed at least one block row) *)
Inductive rfault := FTree | FCommit.

(* one operation of a history *)
Inductive op (input : Type) :=
| OpBlock (num : N) (evs : input)   (* processor.ProcessBlock *)
| OpReorg (b : N)                   (* processor.Reorg(firstReorgedBlock = b) *)
| OpQuery                           (* a facade method is called *)
| OpReorgFault (f : rfault) (b : N).  (* processor.Reorg(b) while a storage fault is armed *)
Arguments OpBlock {input}. Arguments OpReorg {input}. Arguments OpQuery {input}. Arguments OpReorgFault {input}.

Section Machine.
  Variable row : Type.              (* one row of table `block` with what the block added to the store *)
  Variable row_num : row -> N.
  Variable input : Type.            (* the events of one block *)
  Variable mem : Type.              (* in-memory state of the processor besides the flag (tree index cache) *)
  Variable row_has_leaves : row -> bool.   (* the block added at least one leaf to the append-only tree *)

  (* the body of the ProcessBlock transaction after the block row was inserted *)
  Inductive apply_result :=
  | AOk (r : row)                   (* committed *)
  | AHalt                           (* inconsistency detected: halted = true, ErrInconsistentState, rolled back *)
  | AErr.                           (* any other error, rolled back *)

  (* in-memory state before, stored rows newest first, block number, events => result, in-memory state after *)
  Variable apply : mem -> list row -> N -> input -> apply_result * mem.
  (* what Reorg does to the in-memory state *)
  Variable on_reorg : mem -> mem.

  Record state := { halted : bool; rows : list row; memory : mem }.

  Definition init (m0 : mem) : state := {| halted := false; rows := []; memory := m0 |}.

  Definition has_block (n : N) (st : state) : bool := existsb (fun r => row_num r =? n) (rows st).

  Definition process_block (num : N) (evs : input) (st : state) : outcome * state :=
    if halted st then (OInconsistent, st)
    else if has_block num st then (OOther, st)
    else match apply (memory st) (rows st) num evs with
         | (AOk r, m) => (OOk, {| halted := false; rows := r :: rows st; memory := m |})
         | (AHalt, m) => (OInconsistent, {| halted := true; rows := rows st; memory := m |})
         | (AErr, m) => (OOther, {| halted := false; rows := rows st; memory := m |})
         end.

  Definition deleted_rows (b : N) (st : state) : N :=
    N.of_nat (List.length (filter (fun r => b <=? row_num r) (rows st))).

  (* Reorg with the un-halt condition `rowsAffected <op> <k>` left open, so that the extracted operator can be plugged in. *)
  Definition reorg_with (o : cmp_op) (k : N) (b : N) (st : state) : state :=
    {| halted := if eval_cmp o (deleted_rows b st) k then false else halted st;
       rows := filter (fun r => row_num r <? b) (rows st);
       memory := on_reorg (memory st) |}.

  Definition reorg : N -> state -> state := reorg_with model_unhalt_op model_unhalt_const.

  (* Reorg under an armed fault. `early` = the variant in which UnhaltIfAffectedRows is called right after the row
     count, before the tree purge and the commit (NOT what the code does; kept to show what the source-fact obligation
     src_reorg_statement_order protects against). *)
  Definition fault_fires (f : rfault) (b : N) (st : state) : bool :=
    let doomed := filter (fun r => b <=? row_num r) (rows st) in
    match f with
    | FCommit => negb (Nat.eqb (List.length doomed) 0)
    | FTree => existsb row_has_leaves doomed
    end.

  Definition reorg_faulted_with (early : bool) (f : rfault) (b : N) (st : state) : outcome * state :=
    if fault_fires f b st then
      (* error returned, transaction rolled back: rows stay; the tree's in-memory index was already dropped when the
         fault is at commit time (AppendOnlyTree.Reorg ran), not when the purge itself failed *)
      (OOther, {| halted := if early && eval_cmp model_unhalt_op (deleted_rows b st) model_unhalt_const
                            then false else halted st;
                  rows := rows st;
                  memory := match f with FCommit => on_reorg (memory st) | FTree => memory st end |})
    else (OOk, reorg b st).

  Definition reorg_faulted := reorg_faulted_with false.

  (* SELECT num FROM block ORDER BY num DESC LIMIT 1 (0 when empty) *)
  Definition last_block (st : state) : N := fold_right (fun r a => N.max (row_num r) a) 0 (rows st).
  Definition block_count (st : state) : N := N.of_nat (List.length (rows st)).

  (* all blocks handed to ProcessBlock one after the other, whatever the results *)
  Fixpoint process_all (bs : list (N * input)) (st : state) : list outcome * state :=
    match bs with
    | [] => ([], st)
    | (n, e) :: t => let '(o, st1) := process_block n e st in
                     let '(os, st2) := process_all t st1 in (o :: os, st2)
    end.

  (* sync/evmdriver.go handleNewBlock: ErrInconsistentState => cancel the downloader and return (no retry, nothing
     more is processed until a reorg). Other errors are retried by the RetryHandler (which ends in log.Fatalf);
     the model simply stops there. *)
  Fixpoint drive (bs : list (N * input)) (st : state) : state :=
    match bs with
    | [] => st
    | (n, e) :: t => match process_block n e st with
                     | (OOk, st1) => drive t st1
                     | (_, st1) => st1
                     end
    end.

  (* a facade method: (receiver type, name, guarded, touches data), as listed by the translator.
     `body` is whatever the rest of the method would return on the current store. *)
  Definition fmethod := (string * string * bool * bool)%type.
  Definition fm_recv (m : fmethod) : string := fst (fst (fst m)).
  Definition fm_name (m : fmethod) : string := snd (fst (fst m)).
  Definition fm_guarded (m : fmethod) : bool := snd (fst m).
  Definition fm_touches (m : fmethod) : bool := snd m.

  Definition run_method (m : fmethod) (st : state) (body : outcome) : outcome :=
    if fm_guarded m && halted st then OInconsistent else body.

  (* a whole history; per operation: (result class predicted for ProcessBlock / Reorg, state after) *)
  Definition step (o : op input) (st : state) : outcome * state :=
    match o with
    | OpBlock n e => process_block n e st
    | OpReorg b => (OOk, reorg b st)
    | OpQuery => (OOk, st)
    | OpReorgFault f b => reorg_faulted f b st
    end.

  Fixpoint run (ops : list (op input)) (st : state) : state :=
    match ops with [] => st | o :: t => run t (snd (step o st)) end.

  Fixpoint trace (ops : list (op input)) (st : state) : list (outcome * state) :=
    match ops with [] => [] | o :: t => let r := step o st in r :: trace t (snd r) end.
End Machine.

Arguments AOk {row}. Arguments AHalt {row}. Arguments AErr {row}.
Arguments halted {row mem}. Arguments rows {row mem}. Arguments memory {row mem}.

(* ------------------------------------------------------------------------------------------------ *)
(* bridge syncer: bridgesync/processor.go                                                           *)
(* ------------------------------------------------------------------------------------------------ *)

Inductive bevent :=
| BBridge (deposit_count : N)       (* Event.Bridge: exitTree.AddLeaf(Index: DepositCount) *)
| BOther.                           (* Claim / TokenMapping / ...: no tree leaf *)

Record brow := { br_num : N; br_last : option N }.   (* block row + index of the last exit-tree leaf it added, if any *)

(* what initCache reads: index of the last root by (block_num, block_position) DESC, plus one; 0 for an empty tree *)
Fixpoint b_db_next (rs : list brow) : N :=
  match rs with
  | [] => 0
  | r :: t => match br_last r with Some i => i + 1 | None => b_db_next t end
  end.

(* in-memory AppendOnlyTree.lastIndex + 1: None = cache never initialised (lastIndex = -2), Some k = lastIndex + 1 = k *)
Definition bmem := option N.

(* AppendOnlyTree.AddLeaf on index dc. `dbn` = what initCache would find (last root in the transaction's view, + 1).
     if int64(leaf.Index) != t.lastIndex+1 { initCache; if still != { return ErrInvalidIndex } } ... t.lastIndex++
   result: None = ErrInvalidIndex, with the cache as initCache left it; Some c = added, cache after *)
Definition b_add_leaf (dc dbn : N) (cache : bmem) : option bmem * bmem :=
  match cache with
  | Some k => if dc =? k then (Some (Some (dc + 1)), Some (dc + 1))
              else if dc =? dbn then (Some (Some (dc + 1)), Some (dc + 1)) else (None, Some dbn)
  | None => if dc =? dbn then (Some (Some (dc + 1)), Some (dc + 1)) else (None, Some dbn)
  end.

(* rollback callbacks: one per leaf added in the transaction, each sets t.lastIndex = -2 (cache invalidated);
   no leaf added => no callback, the index stays as initCache left it *)
Definition b_rollback (cache : bmem) (added : N) : bmem :=
  if added =? 0 then cache else None.

(* the event loop: tree.ErrInvalidIndex (= halt, rollback) as soon as AddLeaf rejects a DepositCount.
   dbn = next index according to the database as seen inside the transaction, j = leaves added so far in it *)
Fixpoint b_scan (evs : list bevent) (dbn : N) (cache : bmem) (j : N) (last : option N) : option (option N) * bmem :=
  match evs with
  | [] => (Some last, cache)
  | BOther :: t => b_scan t dbn cache j last
  | BBridge dc :: t =>
      match b_add_leaf dc dbn cache with
      | (Some _, cache') => b_scan t (dc + 1) cache' (j + 1) (Some dc)
      | (None, cache') => (None, b_rollback cache' j)
      end
  end.

Definition b_apply (cache : bmem) (rs : list brow) (num : N) (evs : list bevent) : apply_result brow * bmem :=
  match b_scan evs (b_db_next rs) cache 0 None with
  | (Some last, cache') => (AOk {| br_num := num; br_last := last |}, cache')
  | (None, cache') => (AHalt, cache')
  end.

Definition bstate := state brow bmem.
Definition b_init : bstate := init brow bmem None.
Definition b_process := process_block brow br_num (list bevent) bmem b_apply.
(* AppendOnlyTree.Reorg: Tree.Reorg + lastIndex = -2 *)
Definition b_on_reorg (_ : bmem) : bmem := None.
Definition b_has_leaves (r : brow) : bool := match br_last r with Some _ => true | None => false end.
Definition b_reorg := reorg brow br_num bmem b_on_reorg.
Definition b_reorg_faulted := reorg_faulted brow br_num bmem b_has_leaves b_on_reorg.
Definition b_trace := trace brow br_num (list bevent) bmem b_has_leaves b_apply b_on_reorg.

(* the in-memory index agrees with the database (or was never initialised): then AddLeaf's first comparison is sound *)
Definition b_synced (st : bstate) : Prop := memory st = None \/ memory st = Some (b_db_next (rows st)).

(* ------------------------------------------------------------------------------------------------ *)
(* L1 info tree syncer: l1infotreesync/processor.go                                                 *)
(* ------------------------------------------------------------------------------------------------ *)

Inductive levent :=
| LLeaf (root_after : N)            (* Event.UpdateL1InfoTree: a leaf is appended; root_after = root of the L1 info tree
                                       once it is in (the Merkle function itself is C11's subject; here it is an input) *)
| LAnnounce (root : N) (count : N)  (* Event.UpdateL1InfoTreeV2{CurrentL1InfoRoot, LeafCount}: the contract announces its tree *)
| LOther.                           (* VerifyBatches / InitL1InfoRootMap *)

Record lrow := { lr_num : N; lr_roots : list N }.   (* block row + roots of the leaves it added, newest first *)

Definition l_stored_roots (rs : list lrow) : list N := List.concat (map lr_roots rs).   (* newest first *)

Definition uint32_mod : N := 4294967296.

(* `root.Hash != ev.CurrentL1InfoRoot || root.Index+1 != ev.LeafCount` with root = GetLastRoot(tx);
   root.Index = number of leaves - 1, the addition is on uint32 *)
Definition l_mismatch (all_roots : list N) (root count : N) : option bool :=
  match all_roots with
  | [] => None                      (* GetLastRoot: not found => plain error *)
  | h :: _ => let idx := N.of_nat (List.length all_roots) - 1 in
              Some (negb (h =? root) || negb (((idx + 1) mod uint32_mod) =? count))
  end.

Fixpoint l_scan (num : N) (evs : list levent) (stored added : list N) : apply_result lrow :=
  match evs with
  | [] => AOk {| lr_num := num; lr_roots := added |}
  | LLeaf r :: t => l_scan num t stored (r :: added)
  | LAnnounce root count :: t =>
      match l_mismatch (added ++ stored) root count with
      | None => AErr
      | Some true => AHalt
      | Some false => l_scan num t stored added
      end
  | LOther :: t => l_scan num t stored added
  end.

(* no in-memory state matters here: the leaf index is taken from the database (getLastIndex) and the announcement is
   compared with GetLastRoot(tx), so the tree's index cache is re-read whenever it is stale *)
Definition l_apply (_ : unit) (rs : list lrow) (num : N) (evs : list levent) : apply_result lrow * unit :=
  (l_scan num evs (l_stored_roots rs) [], tt).

Definition lstate := state lrow unit.
Definition l_init : lstate := init lrow unit tt.
Definition l_process := process_block lrow lr_num (list levent) unit l_apply.
Definition l_on_reorg (u : unit) : unit := u.
Definition l_has_leaves (r : lrow) : bool := match lr_roots r with [] => false | _ => true end.
Definition l_reorg := reorg lrow lr_num unit l_on_reorg.
Definition l_reorg_faulted := reorg_faulted lrow lr_num unit l_has_leaves l_on_reorg.
Definition l_trace := trace lrow lr_num (list levent) unit l_has_leaves l_apply l_on_reorg.
