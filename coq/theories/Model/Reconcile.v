(* C13 model (definitions only): certificate bookkeeping across crashes and a lost database.

   Transcribed one-for-one, same case order, from
     aggsender/statuschecker/initial_state.go      process, checkAgglayerConsistenceCerts, getLatestAggLayerCert
     aggsender/statuschecker/cert_status_checker.go CheckInitialStatus (one loop iteration), CheckPendingCertificatesStatus,
                                                    updateCertificateStatus, executeInitialStatusAction,
                                                    newCertificateInfoFromAgglayerCertHeader
     aggsender/types/certificate_metadata.go        NewCertificateMetadataFromHash / ToHash (V0, V1, V2)
     aggsender/db/aggsender_db_storage.go           SaveLastSentCertificate (select, move to history, delete, insert, commit),
                                                    GetLastSentCertificateHeader, GetCertificateHeadersByStatus, UpdateCertificateStatus
     aggsender/flows/flow_base.go                   getLastSentBlockAndRetryCount, getNextHeightAndPreviousLER
   Hashes (certificate ids, exit roots) are numbers < 2^256; the metadata hash is kept as its 32 bytes because the
   Go code slices it. Timestamps (updated_at, created_at when it is time.Now), the signed JSON blob and the
   aggchain proof are outside the model. *)
From Coq Require Import NArith List Bool.
From Verif Require Import Base.Bytes.
Import ListNotations.
Open Scope N_scope.

(* ------------------------------------------------------------------------------------------ *)
(* statuses: agglayer/types/types.go  Pending=0 Proven=1 Candidate=2 InError=3 Settled=4        *)
(* ------------------------------------------------------------------------------------------ *)
Inductive status := Pending | Proven | Candidate | InError | Settled.

Definition status_code (s : status) : N :=
  match s with Pending => 0 | Proven => 1 | Candidate => 2 | InError => 3 | Settled => 4 end.
Definition status_eqb (a b : status) : bool :=
  match a, b with
  | Pending, Pending | Proven, Proven | Candidate, Candidate | InError, InError | Settled, Settled => true
  | _, _ => false
  end.
(* IsOpen = slices.Contains(NonSettledStatuses = {Pending, Candidate, Proven}) *)
Definition is_open (s : status) : bool := match s with Pending | Proven | Candidate => true | _ => false end.
Definition is_closed (s : status) : bool := negb (is_open s).
Definition is_in_error (s : status) : bool := match s with InError => true | _ => false end.
Definition is_settled (s : status) : bool := match s with Settled => true | _ => false end.

(* ------------------------------------------------------------------------------------------ *)
(* records                                                                                      *)
(* ------------------------------------------------------------------------------------------ *)
(* agglayertypes.CertificateHeader, the fields the recovery reads *)
Record hdr := {
  h_height : N; h_id : N; h_status : status; h_new_ler : N;
  h_prev_ler : option N;        (* PreviousLocalExitRoot *common.Hash, nil when the Agglayer does not report it *)
  h_meta : bytes;               (* Metadata common.Hash, 32 bytes *)
}.

(* one row of certificate_info (aggsender/db/types.go certificateInfo), the fields that matter *)
Record row := {
  r_height : N; r_retry : N; r_id : N; r_status : status;
  r_prev_ler : option N; r_new_ler : N; r_from : N; r_to : N;
  r_created : option N;         (* None = time.Now() (not modelled) *)
  r_ctype : N;                  (* CertificateType as uint8 *)
  r_from_agg : bool;            (* CertSource = "agglayer" (rebuilt from an Agglayer header) *)
}.
Definition set_status (r : row) (s : status) : row :=
  {| r_height := r_height r; r_retry := r_retry r; r_id := r_id r; r_status := s;
     r_prev_ler := r_prev_ler r; r_new_ler := r_new_ler r; r_from := r_from r; r_to := r_to r;
     r_created := r_created r; r_ctype := r_ctype r; r_from_agg := r_from_agg r |}.
(* CertificateType is stored as a string (Value/Scan): 1 "pp", 2 "fep", 3 "optimistic", everything else "" = 0 *)
Definition store_ctype (t : N) : N := if (t =? 1) || (t =? 2) || (t =? 3) then t else 0.
Definition norm_row (r : row) : row :=
  {| r_height := r_height r; r_retry := r_retry r; r_id := r_id r; r_status := r_status r;
     r_prev_ler := r_prev_ler r; r_new_ler := r_new_ler r; r_from := r_from r; r_to := r_to r;
     r_created := r_created r; r_ctype := store_ctype (r_ctype r); r_from_agg := r_from_agg r |}.

Inductive errkind :=
| EAggInconsistent      (* checkAgglayerConsistenceCerts: ErrAgglayerInconsistence *)
| ESuspiciousHeight     (* "pendingCert ... have a suspicious height" *)
| ELocalOnly            (* CASE 2.1 "certificate exists in storage but not in agglayer" *)
| EAggLower             (* CASE 3.1 "the last certificate in the agglayer has less height" *)
| EDifferentId          (* CASE 4   "Local certificate ... is different from agglayer certificate" *)
| EBadMetadata          (* unsupported certificate metadata version *)
| EStorage              (* SaveLastSentCertificate failed *)
| ENotClosed            (* getNextHeightAndPreviousLER: last certificate is not closed *)
| ENoPrevSettled        (* ... InError, no previous LER in the row, and no row at height-1 *)
| EPrevNotSettled       (* ... row at height-1 is not settled *)
| EUnknownStatus
| ERetryFromMismatch    (* verifyRetryCertStartingBlock: retry certificate fromBlock != last sent certificate fromBlock *)
| EOther.               (* anything else the implementation may report; never produced by the model *)
Inductive result (A : Type) := Ok (a : A) | Err (e : errkind).
Arguments Ok {A} a. Arguments Err {A} e.

(* ------------------------------------------------------------------------------------------ *)
(* certificate metadata (certificate_metadata.go)                                               *)
(* ------------------------------------------------------------------------------------------ *)
Record cmeta := { m_version : N; m_to_v0 : N; m_from : N; m_offset : N; m_created : N; m_ctype : N }.

Definition slice (b : bytes) (lo hi : nat) : bytes := firstn (hi - lo) (skipn lo b).   (* b[lo:hi] *)
Definition byte_at (b : bytes) (i : nat) : N := nth i b 0.

(* NewCertificateMetadataFromHash *)
Definition meta_decode (b : bytes) : option cmeta :=
  let version := byte_at b 0 in
  if version =? 0 then
    (* hash.Big().Uint64(): the low 64 bits *)
    Some {| m_version := 0; m_to_v0 := of_be b mod 2^64; m_from := 0; m_offset := 0; m_created := 0; m_ctype := 0 |}
  else if version =? 1 then
    Some {| m_version := 1; m_to_v0 := 0; m_from := of_be (slice b 1 9); m_offset := of_be (slice b 9 13);
            m_created := of_be (slice b 13 17); m_ctype := 0 |}
  else if version =? 2 then
    Some {| m_version := 2; m_to_v0 := 0; m_from := of_be (slice b 1 9); m_offset := of_be (slice b 9 13);
            m_created := of_be (slice b 13 17); m_ctype := byte_at b 17 |}
  else None.

(* ToHash *)
Definition meta_encode (m : cmeta) : bytes :=
  if m_version m =? 0 then be 32 (m_to_v0 m)
  else [m_version m] ++ be 8 (m_from m) ++ be 4 (m_offset m) ++ be 4 (m_created m) ++
       [if m_version m =? 2 then m_ctype m else 0] ++ repeat 0 14%nat.

(* uint64 subtraction, then uint32(...) : flow_base.go BuildCertificate  uint32(certParams.ToBlock-certParams.FromBlock) *)
Definition u64_sub (a b : N) : N := (a + 2^64 - b) mod 2^64.
Definition new_metadata (from to created ctype : N) : cmeta :=
  {| m_version := 2; m_to_v0 := 0; m_from := from; m_offset := u64_sub to from mod 2^32;
     m_created := created; m_ctype := ctype |}.

(* newCertificateInfoFromAgglayerCertHeader *)
Definition row_of_header (c : hdr) : result row :=
  match meta_decode (h_meta c) with
  | None => Err EBadMetadata
  | Some m =>
    let mk (to : N) (created : option N) (ty : N) : result row :=
      Ok {| r_height := h_height c; r_retry := 0; r_id := h_id c; r_status := h_status c;
            r_prev_ler := h_prev_ler c; r_new_ler := h_new_ler c;
            r_from := m_from m; r_to := to; r_created := created; r_ctype := ty; r_from_agg := true |} in
    if m_version m =? 0 then mk (m_to_v0 m) None 0
    else if m_version m =? 1 then mk ((m_from m + m_offset m) mod 2^64) (Some (m_created m)) 0   (* FromBlock + uint64(Offset) *)
    else if m_version m =? 2 then mk ((m_from m + m_offset m) mod 2^64) (Some (m_created m)) (m_ctype m)
    else Err EBadMetadata
  end.

(* ------------------------------------------------------------------------------------------ *)
(* local storage: certificate_info (PRIMARY KEY height), certificate_info_history (PK height, retry_count)     *)
(* ------------------------------------------------------------------------------------------ *)
Record store := { s_info : list row; s_hist : list row }.
Definition empty_store : store := {| s_info := []; s_hist := [] |}.

Definition find_height (l : list row) (h : N) : option row := find (fun x => r_height x =? h) l.
Definition has_hist_key (l : list row) (h k : N) : bool := existsb (fun x => (r_height x =? h) && (r_retry x =? k)) l.

(* SELECT ... ORDER BY height DESC LIMIT 1 *)
Definition last_sent_l (l : list row) : option row :=
  fold_left (fun acc x => match acc with
                          | None => Some x
                          | Some a => if r_height a <? r_height x then Some x else Some a
                          end) l None.
Definition last_sent (st : store) : option row := last_sent_l (s_info st).

(* ORDER BY height ASC *)
Fixpoint insert_by_height (r : row) (l : list row) : list row :=
  match l with
  | [] => [r]
  | x :: t => if r_height r <=? r_height x then r :: l else x :: insert_by_height r t
  end.
Definition sort_by_height (l : list row) : list row := fold_right insert_by_height [] l.

(* database/sql refuses uint64 arguments with the high bit set *)
Definition sql_u64_ok (r : row) : bool := (r_height r <? 2^63) && (r_from r <? 2^63) && (r_to r <? 2^63).

(* the statements SaveLastSentCertificate issues inside its transaction *)
Inductive stmt :=
| SSelect (h : N)          (* SELECT * FROM certificate_info WHERE height = h *)
| SHistInsert (h : N)      (* INSERT INTO certificate_info_history SELECT * FROM certificate_info WHERE height = h *)
| SDelete (id : N)         (* DELETE FROM certificate_info WHERE certificate_id = id *)
| SInsert (r : row)        (* meddler.Insert(tx, "certificate_info", certInfo) *)
| SCommit.

Definition save_stmts (keep : bool) (r : row) (st : store) : list stmt :=
  SSelect (r_height r) ::
  (match find_height (s_info st) (r_height r) with
   | Some old => (if keep then [SHistInsert (r_height old)] else []) ++ [SDelete (r_id old)]
   | None => []
   end) ++ [SInsert r; SCommit].

(* None = the statement fails (constraint) *)
Definition hist_insert_rows (moved : list row) (hist : list row) : option (list row) :=
  fold_left (fun acc x => match acc with
                          | None => None
                          | Some h => if has_hist_key h (r_height x) (r_retry x) then None else Some (x :: h)
                          end) moved (Some hist).
Definition exec_stmt (st : store) (s : stmt) : option store :=
  match s with
  | SSelect _ => Some st
  | SHistInsert h =>
      match hist_insert_rows (filter (fun x => r_height x =? h) (s_info st)) (s_hist st) with
      | None => None
      | Some h' => Some {| s_info := s_info st; s_hist := h' |}
      end
  | SDelete id => Some {| s_info := filter (fun x => negb (r_id x =? id)) (s_info st); s_hist := s_hist st |}
  | SInsert r =>
      if negb (sql_u64_ok r) then None
      else match find_height (s_info st) (r_height r) with
           | Some _ => None                                   (* PRIMARY KEY (height) *)
           | None => Some {| s_info := norm_row r :: s_info st; s_hist := s_hist st |}
           end
  | SCommit => Some st
  end.

(* a transaction: run the statements on a working copy; any failure (an injected fault at statement number
   [fault], or a constraint) rolls back to the state at BEGIN. Returns (state, committed?) *)
Fixpoint run_tx (fault : option nat) (i : nat) (stmts : list stmt) (st0 cur : store) : store * bool :=
  match stmts with
  | [] => (cur, true)
  | s :: tl =>
      if match fault with Some k => Nat.eqb k i | None => false end then (st0, false)
      else match exec_stmt cur s with
           | None => (st0, false)
           | Some cur' => run_tx fault (S i) tl st0 cur'
           end
  end.
Definition save_last_sent (fault : option nat) (keep : bool) (r : row) (st : store) : store * bool :=
  run_tx fault 0 (save_stmts keep r st) st st.

(* UPDATE certificate_info SET status = s WHERE certificate_id = id *)
Definition update_status (st : store) (id : N) (s : status) : store :=
  {| s_info := map (fun x => if r_id x =? id then set_status x s else x) (s_info st); s_hist := s_hist st |}.

(* ------------------------------------------------------------------------------------------ *)
(* the Agglayer as the node sees it                                                              *)
(* ------------------------------------------------------------------------------------------ *)
Record aggview := {
  a_settled : option hdr;      (* GetLatestSettledCertificateHeader *)
  a_pending : option hdr;      (* GetLatestPendingCertificateHeader *)
  a_known : list hdr;          (* GetCertificateHeader(id): first match, error when absent *)
}.
Definition lookup (a : aggview) (id : N) : option hdr := find (fun h => h_id h =? id) (a_known a).
(* getLatestAggLayerCert *)
Definition latest_of (s p : option hdr) : option hdr := match p with None => s | Some _ => p end.
Definition latest (a : aggview) : option hdr := latest_of (a_settled a) (a_pending a).

(* CheckPendingCertificatesStatus: the rows are fetched first, then visited in height order; an unknown id
   ends the visit; a changed status is written by certificate id *)
Fixpoint cp_loop (a : aggview) (l : list row) (st : store) : store :=
  match l with
  | [] => st
  | r :: tl =>
      match lookup a (r_id r) with
      | None => st
      | Some h =>
          cp_loop a tl (if status_eqb (r_status r) (h_status h) then st else update_status st (r_id r) (h_status h))
      end
  end.
Definition check_pending (a : aggview) (st : store) : store :=
  cp_loop a (sort_by_height (filter (fun x => is_open (r_status x)) (s_info st))) st.

(* ------------------------------------------------------------------------------------------ *)
(* initialStatus.process                                                                         *)
(* ------------------------------------------------------------------------------------------ *)
Inductive action := ANone | AUpdate (h : hdr) | AInsert (h : hdr).

(* checkAgglayerConsistenceCerts: true = consistent *)
Definition check_agg_consistency (s p : option hdr) : bool :=
  match p with
  | None => true
  | Some p =>
      match s with
      | None => if negb (is_in_error (h_status p)) && negb (h_height p =? 0) then false else true
      | Some s =>
          if (h_height p =? h_height s) && negb (is_in_error (h_status s)) then false
          else if (h_height p <? h_height s) && negb (is_in_error (h_status s)) then false
          else true
      end
  end.

Definition reconcile (s p : option hdr) (l : option row) : result action :=
  if negb (check_agg_consistency s p) then Err EAggInconsistent else
  let early : option (result action) :=
    match l, s, p with
    | None, None, Some p =>
        if h_height p =? 0 then Some (Ok (AInsert p))
        else if negb (is_in_error (h_status p)) && (0 <? h_height p) then Some (Err ESuspiciousHeight)
        else if is_in_error (h_status p) && (0 <? h_height p) then Some (Ok ANone)
        else None
    | _, _, _ => None
    end in
  match early with
  | Some res => res
  | None =>
      match l, latest_of s p with
      | None, None => Ok ANone                                             (* CASE 1 *)
      | None, Some a => Ok (AInsert a)                                     (* CASE 2 *)
      | Some _, None => Err ELocalOnly                                     (* CASE 2.1 *)
      | Some l, Some a =>
          if h_height a <? r_height l then Err EAggLower                   (* CASE 3.1 *)
          else if h_height a =? r_height l + 1 then Ok (AInsert a)         (* CASE 3.2 *)
          else if negb (r_id l =? h_id a) then Err EDifferentId            (* CASE 4 *)
          else Ok (AUpdate a)                                              (* CASE 5 *)
      end
  end.

(* executeInitialStatusAction *)
Definition apply_action (keep : bool) (a : action) (l : option row) (st : store) : result store :=
  match a with
  | ANone => Ok st
  | AUpdate h =>
      match l with
      | Some l => Ok (if status_eqb (r_status l) (h_status h) then st else update_status st (r_id l) (h_status h))
      | None => Ok st
      end
  | AInsert h =>
      match row_of_header h with
      | Err e => Err e
      | Ok r => let '(st', ok) := save_last_sent None keep r st in if ok then Ok st' else Err EStorage
      end
  end.

Inductive outcome := ONone | OUpdate | OInsert | ORefused (e : errkind).
Definition refused (o : outcome) : bool := match o with ORefused _ => true | _ => false end.

(* one iteration of the loop of CheckInitialStatus: CheckPendingCertificatesStatus, then
   checkLastCertificateFromAgglayer. The status updates of the first half stay even when the second refuses. *)
Definition recover (keep : bool) (a : aggview) (st : store) : store * outcome :=
  let st1 := check_pending a st in
  let l := last_sent st1 in
  match reconcile (a_settled a) (a_pending a) l with
  | Err e => (st1, ORefused e)
  | Ok act =>
      match apply_action keep act l st1 with
      | Err e => (st1, ORefused e)
      | Ok st2 => (st2, match act with ANone => ONone | AUpdate _ => OUpdate | AInsert _ => OInsert end)
      end
  end.

(* ------------------------------------------------------------------------------------------ *)
(* parameters of the next certificate (flow_base.go)                                             *)
(* ------------------------------------------------------------------------------------------ *)
Record config := { c_start_block : N; c_start_ler : N; c_keep_history : bool }.

(* getLastSentBlockAndRetryCount (block part). Note the FromBlock = 0 branch: an InError row with from_block 0
   restarts after its to_block. *)
Definition last_sent_block (cfg : config) (l : option row) : N :=
  match l with
  | None => c_start_block cfg
  | Some r => if is_in_error (r_status r) then (if 0 <? r_from r then r_from r - 1 else r_to r) else r_to r
  end.

(* getNextHeightAndPreviousLER *)
Definition next_height_ler (cfg : config) (st : store) (l : option row) : result (N * N) :=
  match l with
  | None => Ok (0, c_start_ler cfg)
  | Some r =>
      if negb (is_closed (r_status r)) then Err ENotClosed
      else if is_settled (r_status r) then Ok (r_height r + 1, r_new_ler r)
      else if is_in_error (r_status r) then
        match r_prev_ler r with
        | Some x => Ok (r_height r, x)
        | None =>
            if r_height r =? 0 then Ok (0, c_start_ler cfg)
            else match find_height (s_info st) (r_height r - 1) with
                 | None => Err ENoPrevSettled
                 | Some q => if negb (is_settled (r_status q)) then Err EPrevNotSettled
                             else Ok (r_height r, r_new_ler q)
                 end
        end
      else Err EUnknownStatus
  end.

(* verifyRetryCertStartingBlock (VerifyBuildParams, called by both flows before BuildCertificate):
   IsARetry = RetryCount > 0 && LastSentCertificate != nil; RetryCount > 0 exactly when the last row is InError *)
Definition retry_from_mismatch (l : option row) (from : N) : bool :=
  match l with
  | Some r => is_in_error (r_status r) && negb (from =? r_from r)
  | None => false
  end.

(* (height, previous LER, first block) of the next certificate, or why none can be built now; same order as the
   flows: first block (GetCertificateBuildParamsInternal), VerifyBuildParams, then height and previous LER
   (BuildCertificate) *)
Definition next_params (cfg : config) (st : store) : result (N * N * N) :=
  let l := last_sent st in
  let from := last_sent_block cfg l + 1 in
  if retry_from_mismatch l from then Err ERetryFromMismatch
  else match next_height_ler cfg st l with
       | Err e => Err e
       | Ok (h, ler) => Ok (h, ler, from)
       end.

(* ------------------------------------------------------------------------------------------ *)
(* protocol states and crash points (statement of recovery_refines_nocrash)                      *)
(* ------------------------------------------------------------------------------------------ *)
(* A state of the send protocol around one send step:
     ps_hist  settled rows below the top (possibly none: pruned or rebuilt database)
     ps_top   the top row before the step (None: nothing sent yet)
     ps_sent  the row the send path stores for the certificate it submitted in this step (None: nothing submitted)
     ps_agg   what the Agglayer answers at restart time *)
Record pstate := {
  ps_cfg : config; ps_agg : aggview; ps_histtab : list row;
  ps_hist : list row; ps_top : option row; ps_sent : option row;
}.
Definition opt_cons {A} (o : option A) (l : list A) : list A := match o with Some x => x :: l | None => l end.
Definition prev_store (st : pstate) : store :=
  {| s_info := opt_cons (ps_top st) (ps_hist st); s_hist := ps_histtab st |}.
Definition nocrash_store (st : pstate) : store :=
  match ps_sent st with
  | None => prev_store st
  | Some r => fst (save_last_sent None (c_keep_history (ps_cfg st)) r (prev_store st))
  end.
(* the bookkeeping of a node that did not crash: it has stored what it sent and has polled the statuses *)
Definition nocrash_synced (st : pstate) : store := check_pending (ps_agg st) (nocrash_store st).

Inductive crash_point := BeforeSubmit | AfterSubmitBeforeStore | AfterStore | DbLost.
Definition applicable (cp : crash_point) (st : pstate) : Prop :=
  match cp with
  | BeforeSubmit => ps_sent st = None
  | AfterSubmitBeforeStore | AfterStore => ps_sent st <> None
  | DbLost => True
  end.
Definition local_after_crash (cp : crash_point) (st : pstate) : store :=
  match cp with
  | BeforeSubmit | AfterSubmitBeforeStore => prev_store st
  | AfterStore => nocrash_store st
  | DbLost => empty_store
  end.

(* the Agglayer keeps at most one certificate that is not settled, on top of the settled ones *)
Definition agg_ok (a : aggview) : Prop :=
  (forall s, a_settled a = Some s -> h_status s = Settled) /\
  (forall p, a_pending a = Some p ->
     h_status p <> Settled /\
     h_height p = match a_settled a with Some s => h_height s + 1 | None => 0 end).

(* local row c is the node's record of Agglayer certificate l; the local status may lag behind *)
Definition matches (a : aggview) (c : row) (l : hdr) : Prop :=
  h_height l = r_height c /\ h_id l = r_id c /\ h_new_ler l = r_new_ler c /\
  (exists x, r_prev_ler c = Some x /\ h_prev_ler l = Some x) /\          (* hypothesis: the header carries prev LER *)
  (exists r', row_of_header l = Ok r' /\ r_from r' = r_from c /\ r_to r' = r_to c) /\   (* metadata carries the range *)
  (is_closed (r_status c) = true -> r_status c = h_status l) /\
  lookup a (r_id c) = Some l /\
  sql_u64_ok c = true.

Definition below (c x : row) : Prop := r_status x = Settled /\ r_height x < r_height c /\ r_id x <> r_id c.

Definition Inv (st : pstate) : Prop :=
  agg_ok (ps_agg st) /\
  match ps_top st with Some t => Forall (below t) (ps_hist st) | None => ps_hist st = [] end /\
  match ps_sent st with
  | None =>
      match ps_top st, latest (ps_agg st) with
      | None, None => True
      | Some t, Some l => matches (ps_agg st) t l
      | _, _ => False
      end
  | Some r =>
      (* the send path computed r from the previous store, stored it as Pending, and the save succeeded *)
      (exists x, next_params (ps_cfg st) (prev_store st) = Ok (r_height r, x, r_from r) /\ r_prev_ler r = Some x) /\
      r_status r = Pending /\
      Forall (below r) (ps_hist st) /\
      (forall t, ps_top st = Some t -> r_id t <> r_id r) /\
      snd (save_last_sent None (c_keep_history (ps_cfg st)) r (prev_store st)) = true /\
      match latest (ps_agg st) with Some l => matches (ps_agg st) r l | None => False end
  end.

(* the fields of a row that next_params reads *)
Definition row_agree (a b : row) : Prop :=
  r_height a = r_height b /\ r_status a = r_status b /\ r_prev_ler a = r_prev_ler b /\
  r_new_ler a = r_new_ler b /\ r_from a = r_from b /\ r_to a = r_to b.

(* next_params as a function of the top row alone (valid when the row carries its previous LER) *)
Definition next_of_row (cfg : config) (c : row) : result (N * N * N) :=
  match r_status c with
  | Settled => Ok (r_height c + 1, r_new_ler c, r_to c + 1)
  | InError =>
      let from := (if 0 <? r_from c then r_from c - 1 else r_to c) + 1 in
      if negb (from =? r_from c) then Err ERetryFromMismatch
      else match r_prev_ler c with
           | Some x => Ok (r_height c, x, from)
           | None => Err ENoPrevSettled
           end
  | _ => Err ENotClosed
  end.

(* CheckPendingCertificatesStatus restricted to one row *)
Definition sync_row (a : aggview) (c : row) : row :=
  if is_open (r_status c) then
    match lookup a (r_id c) with
    | Some h => if status_eqb (r_status c) (h_status h) then c else set_status c (h_status h)
    | None => c
    end
  else c.
