(* C09 correspondence: `corr` compares the model (Model/ClaimProofs.v, run on the case's L1 history, scripted L1 node and
   claims) with what the real PP flow / getImportedBridgeExits produced, field by field; `spec` evaluates the four clauses
   of the property on the IMPLEMENTATION's output, with the Gallina Keccak and with the case's own L1 history as reference
   (the global exit root contract's leaf values and DepositContract root, Model/Contracts.v), restricted to claims whose
   global exit root is at or below the finalized L1 info root.  Definitions only. *)
From Coq Require Import NArith ZArith List Bool Uint63.
From Verif Require Import Base.Bytes Base.Hash Model.Merkle Model.TreeStore Model.Contracts Model.GlobalIndex
  Model.Commitment Model.ClaimProofs.
Import ListNotations.
Open Scope N_scope.

(* transcription of numbers: 60-bit little-endian limbs of primitive integers (big N literals parse slowly) *)
Definition n63 (i : int) : N := Z.to_N (Uint63.to_Z i).
Definition nb (limbs : list int) : N := fold_right (fun i acc => n63 i + N.shiftl acc 60) 0 limbs.

(* what was observed of one run of the real code *)
Inductive obs :=
| ONoCert                                              (* no certificate / call not made *)
| OErr (code : N)                                      (* error class *)
| OCert (root leaf_count : N) (ibes : list imported_exit).

Record c09case := mkCase {
  i_l1 : list l1block;              (* blocks handed to the real l1infotreesync processor, in order *)
  i_fin : option (N * N);           (* the L1 node's finalized header (number, hash) *)
  i_fin_fails : bool;               (* the query for it fails (RPC error) in the observed attempt *)
  i_hdrs : list (N * N);            (* the L1 node's header hash by number; absent = RPC error *)
  i_claims : list claim_ev;         (* the claims as the real L2 bridge store returned them for the block range *)
  i_named : option N;               (* second observation: getImportedBridgeExits called directly with this named root *)
  o_l1res : list bool;              (* ProcessBlock ok? per block *)
  o_pp : obs;                       (* PPFlow.GetCertificateBuildParams + BuildCertificate *)
  o_direct : obs;                   (* baseFlow.VerifyBuildParams, then getImportedBridgeExits(claims, named root); leaf_count unused (0) *)
  o_guard : option bool }.          (* L1InfoTreeDataQuerier.CheckIfClaimsArePartOfFinalizedL1InfoTree(named root, claims) returned nil?
                                       (the test the aggchain-prover flow makes before it builds; None = not asked) *)

Definition err_code (e : ferr) : N :=
  match e with
  | EClientFinalized => 1 | EProcessedUntil => 2 | ENoBlockYet => 3 | EClientHeader => 4 | EHashMismatch => 5
  | EInfo QNotFound => 6 | EInfo QNotProcessed => 7 | EInfo QNoBlock0 => 8 | ERootNotFound => 9
  | EGerMismatch => 10 | EGerNotFound => 11
  end.

(* ---- structural equality ---- *)
Definition opt_eqb {A} (f : A -> A -> bool) (a b : option A) : bool :=
  match a, b with None, None => true | Some x, Some y => f x y | _, _ => false end.
Fixpoint list_eqb {A} (f : A -> A -> bool) (a b : list A) : bool :=
  match a, b with [] , [] => true | x :: a', y :: b' => f x y && list_eqb f a' b' | _, _ => false end.
Definition exit_eqb (a b : bridge_exit) : bool :=
  N.eqb (x_leaf_type a) (x_leaf_type b) && N.eqb (x_orig_net a) (x_orig_net b) && N.eqb (x_orig_addr a) (x_orig_addr b) &&
  N.eqb (x_dest_net a) (x_dest_net b) && N.eqb (x_dest_addr a) (x_dest_addr b) &&
  opt_eqb N.eqb (x_amount a) (x_amount b) && opt_eqb bytes_eqb (x_metadata a) (x_metadata b).
Definition mproof_eqb (a b : merkle_proof) : bool :=
  N.eqb (mp_root a) (mp_root b) && list_eqb N.eqb (mp_siblings a) (mp_siblings b).
Definition l1leaf_eqb (a b : l1_leaf) : bool :=
  N.eqb (l1_index a) (l1_index b) && N.eqb (l1_rer a) (l1_rer b) && N.eqb (l1_mer a) (l1_mer b) &&
  N.eqb (l1_ger a) (l1_ger b) && N.eqb (l1_block_hash a) (l1_block_hash b) && N.eqb (l1_timestamp a) (l1_timestamp b).
Definition claim_eqb (a b : claim) : bool :=
  match a, b with
  | ClaimMainnet a1 a2 l, ClaimMainnet b1 b2 m => mproof_eqb a1 b1 && mproof_eqb a2 b2 && l1leaf_eqb l m
  | ClaimRollup a1 a2 a3 l, ClaimRollup b1 b2 b3 m => mproof_eqb a1 b1 && mproof_eqb a2 b2 && mproof_eqb a3 b3 && l1leaf_eqb l m
  | _, _ => false
  end.
Definition gi_eqb (a b : global_index) : bool :=
  Bool.eqb (gi_mainnet a) (gi_mainnet b) && N.eqb (gi_rollup a) (gi_rollup b) && N.eqb (gi_leaf a) (gi_leaf b).
Definition imported_eqb (a b : imported_exit) : bool :=
  exit_eqb (ie_exit a) (ie_exit b) && claim_eqb (ie_claim a) (ie_claim b) && gi_eqb (ie_gi a) (ie_gi b).
Definition obs_eqb (a b : obs) : bool :=
  match a, b with
  | ONoCert, ONoCert => true
  | OErr x, OErr y => N.eqb x y
  | OCert r n l, OCert r' n' l' => N.eqb r r' && N.eqb n n' && list_eqb imported_eqb l l'
  | _, _ => false
  end.

(* ---- model vs implementation ---- *)
Definition model_pp (st : l1state) (c : c09case) : obs :=
  match pp_build_exec st (client_of (if i_fin_fails c then None else i_fin c) (i_hdrs c)) (i_claims c) with
  | inl e => OErr (err_code e)
  | inr None => ONoCert
  | inr (Some cc) => OCert (r_hash (cc_root cc)) (cc_leaf_count cc) (cc_imported cc)
  end.
Definition model_direct (st : l1state) (c : c09case) : obs :=
  match i_named c with
  | None => ONoCert
  | Some r => match named_build_exec st r (i_claims c) with inl e => OErr (err_code e) | inr l => OCert r 0 l end
  end.
Definition corr (c : c09case) : bool :=
  let '(res, st) := process_all (i_l1 c) l1state_new in
  list_eqb Bool.eqb res (o_l1res c) && obs_eqb (model_pp st c) (o_pp c) && obs_eqb (model_direct st c) (o_direct c).

(* ---- the property on the implementation's output ---- *)

(* reference L1 history: what the global exit root contract holds after the case's events *)
Definition ref_events (c : c09case) : list (N * l1ev) := flat_map (fun b => map (fun e => (lb_num b, e)) (lb_events b)) (i_l1 c).
Definition ref_ger (e : l1ev) : N := ger_of (u_mer e) (u_rer e).
Definition ref_leaf_value (e : l1ev) : N := l1info_leaf_value (ref_ger e) (u_parent e) (u_ts e).
(* root of the contract's L1 info tree after its first n leaves *)
Definition ref_root (c : c09case) (n : nat) : N :=
  dc_get_root (fold_left dc_deposit (map (fun x => ref_leaf_value (snd x)) (firstn n (ref_events c))) dc_init).
(* number of leaves in blocks up to the finalized block: the finalized L1 info root covers exactly these *)
Definition ref_fin_count (c : c09case) : N :=
  match i_fin c with
  | None => 0
  | Some (fnum, _) => N.of_nat (length (filter (fun x => fst x <=? fnum) (ref_events c)))
  end.
Fixpoint index_where {A} (p : A -> bool) (l : list A) (i : N) : option N :=
  match l with [] => None | x :: t => if p x then Some i else index_where p t (i + 1) end.
Definition ref_index_of_ger (c : c09case) (g : N) : option N := index_where (fun x => ref_ger (snd x) =? g) (ref_events c) 0.
(* leaf count of a named root: the n with ref_root n = r *)
Definition ref_count_of_root (c : c09case) (r : N) : option N :=
  match index_where (fun n => ref_root c n =? r) (seq 1 (length (ref_events c))) 1 with Some n => Some n | None => None end.

Definition claim4_b (c : claim_ev) (i : imported_exit) : bool :=
  let L := claim_leaf (ie_claim i) in
  let xh := exit_hash_n keccakN (ie_exit i) in
  let gi := ie_gi i in
  match ie_claim i with
  | ClaimMainnet pl _ _ =>
      contract_mainnet_flag (k_gidx c) && gi_mainnet gi &&
      (mp_root pl =? l1_mer L) && (calculate_root xh (mp_siblings pl) (gi_leaf gi) =? l1_mer L)
  | ClaimRollup pl pr _ _ =>
      negb (contract_mainnet_flag (k_gidx c)) && negb (gi_mainnet gi) &&
      (mp_root pr =? l1_rer L) && (mp_root pl =? calculate_root xh (mp_siblings pl) (gi_leaf gi)) &&
      (calculate_root (calculate_root xh (mp_siblings pl) (gi_leaf gi)) (mp_siblings pr) (gi_rollup gi) =? l1_rer L)
  end.

(* the four clauses for one imported exit; j = the claim's leaf index in the reference history *)
Definition clauses_b (root lc j : N) (c : claim_ev) (i : imported_exit) : bool :=
  let L := claim_leaf (ie_claim i) in
  let pg := claim_ger_proof (ie_claim i) in
  (* 1 *) (mp_root pg =? root) && (calculate_root (l1leaf_hash_n keccakN L) (mp_siblings pg) (l1_index L) =? root) &&
          (l1_index L =? j) &&
  (* 2 *) (l1_index L <? lc) &&
  (* 3 *) (l1_ger L =? ger_of (l1_mer L) (l1_rer L)) && (l1_ger L =? k_ger c) &&
  (* 4 *) (if contract_accepted_b keccakN c then claim4_b c i else true).

Fixpoint forallb2 {A B} (f : A -> B -> bool) (a : list A) (b : list B) : bool :=
  match a, b with [], [] => true | x :: a', y :: b' => f x y && forallb2 f a' b' | _, _ => false end.

(* a certificate (or a direct build) for `claims`, naming `root` with `lc` leaves; claims are in the quantifier when their
   GER is one of the first `limit` leaves of the reference history *)
Definition spec_cert (c : c09case) (limit root lc : N) (ibes : list imported_exit) : bool :=
  forallb2 (fun cl i => match ref_index_of_ger c (k_ger cl) with
                        | Some j => if j <? limit then clauses_b root lc j cl i else true
                        | None => true
                        end) (i_claims c) ibes.

Definition spec (c : c09case) : bool :=
  if negb (forallb (fun b => b) (o_l1res c)) then true else
  (match o_pp c with
   | OCert root lc ibes =>
       (* the leaf count belongs to the named root *)
       (1 <=? lc) && (lc <=? N.of_nat (length (ref_events c))) && (ref_root c (N.to_nat lc) =? root) &&
       spec_cert c (ref_fin_count c) root lc ibes
   | _ => true
   end) &&
  (match o_direct c, i_named c with
   | OCert root _ ibes, Some r =>
       (root =? r) &&
       match ref_count_of_root c r with
       | Some n => spec_cert c n r n ibes
       | None => true
       end
   | _, _ => true
   end) &&
  (* the guard of the aggchain-prover flow is exact: it accepts the claims for a named root iff every claim's global exit root is
     one of the leaves that root covers - which is what puts the certificates of that flow inside the quantifier *)
  (match o_guard c, i_named c with
   | Some b, Some r =>
       match ref_count_of_root c r with
       | Some n => Bool.eqb b (forallb (fun cl => match ref_index_of_ger c (k_ger cl) with Some j => j <? n | None => false end) (i_claims c))
       | None => true
       end
   | _, _ => true
   end).

Fixpoint bad_indices {A} (f : A -> bool) (i : nat) (l : list A) : list nat :=
  match l with [] => [] | x :: t => if f x then bad_indices f (S i) t else i :: bad_indices f (S i) t end.

(* ---- a concrete world for the non-vacuity examples (Properties/C09.v) ---- *)
(* L1 bridge: two deposits to the L2 network (3); rollup 2 (index 1): one deposit; both claimed on L2 *)
Definition ex_claim_fields (gidx dnet amount : N) (meta : bytes) (msg : bool) : claim_ev :=
  mkClaim gidx 0 0x1111 dnet 0x2222 amount [] [] 0 0 0 meta msg.
Definition ex_c0 := ex_claim_fields (2^64 + 1) 3 1000 [] false.                 (* mainnet deposit 1 *)
Definition ex_c1 := ex_claim_fields (1 * 2^32 + 0) 3 77 [1; 2; 3] true.         (* rollup index 1, deposit 0, a message *)
Definition ex_append (leaves : list N) : tdb :=
  fst (fst (fold_left (fun acc l => let '(db, mem, i) := acc in
                   match add_leaf_exec db mem 1 i i l with (m', inr db') => (db', mem_commit_leaf m', i + 1) | _ => acc end)
                 leaves (tdb_empty, tmem_new, 0))).
Definition ex_root (t : tdb) : N := match last_root t with Some r => r_hash r | None => 0 end.
Definition ex_mainnet_tree : tdb := ex_append [12345; contract_leaf_value keccakN ex_c0].
Definition ex_local_tree : tdb := ex_append [contract_leaf_value keccakN ex_c1].
Definition ex_rollup_tree : tdb :=
  match upsert_leaf_exec tdb_empty 1 0 1 (ex_root ex_local_tree) with inr (_, t) => t | inl _ => tdb_empty end.
Definition ex_mer := ex_root ex_mainnet_tree.
Definition ex_rer := ex_root ex_rollup_tree.
Definition ex_l1 : list l1block :=
  [ mkL1B 5 500 [mkUpd 0 111 222 401 1000];
    mkL1B 7 700 [mkUpd 3 ex_mer ex_rer 601 1001; mkUpd 4 ex_mer 333 602 1001];
    mkL1B 9 900 [mkUpd 0 444 ex_rer 801 1002] ].
Definition ex_state : l1state := snd (process_all ex_l1 l1state_new).
Definition ex_with (c : claim_ev) (pl pr : list N) : claim_ev :=
  mkClaim (k_gidx c) (k_onet c) (k_oaddr c) (k_dnet c) (k_daddr c) (k_amount c) pl pr ex_mer ex_rer (ger_of ex_mer ex_rer)
          (k_meta c) (k_is_msg c).
Definition ex_claims : list claim_ev :=
  [ ex_with ex_c0 (get_proof ex_mainnet_tree 1 ex_mer) (repeat 0 32);
    ex_with ex_c1 (get_proof ex_local_tree 0 (ex_root ex_local_tree)) (get_proof ex_rollup_tree 1 ex_rer) ].
(* finalized pointer at block 8: the syncer (at 9) is ahead; the L1 node reports the syncer's hash for block 7 *)
Definition ex_client : l1client := client_of (Some (8, 800)) [(7, 700); (8, 800)].
Definition cc_or_dummy (r : ferr + option cert_claims) : cert_claims :=
  match r with
  | inr (Some cc) => cc
  | _ => mkCC (mkRoot 0 0 0 0) 0 []
  end.
Notation ex_cc := (cc_or_dummy (pp_build keccakN ex_client (exec_l1side ex_state) ex_claims)) (only parsing).
(* a claim against the leaf of block 9 (index 3), which is beyond the finalized root (index 2) *)
Definition ex_unfinalized : claim_ev :=
  mkClaim (2^64 + 1) 0 0x1111 3 0x2222 1000 (repeat 0 32) (repeat 0 32) 444 ex_rer (ger_of 444 ex_rer) [] false.
Definition is_cert (r : ferr + option cert_claims) : bool := match r with inr (Some _) => true | _ => false end.
Definition claims_ger_finalized_b (st : l1state) (root : root_row) (cs : list claim_ev) : bool :=
  forallb (fun c => match info_by_ger st (k_ger c) with Some L => li_index L <=? r_pos root | None => false end) cs.
(* what the real flow does with the unfinalized claim, evaluated on the example: no error; the GER->L1-root proof verifies
   the ZERO leaf at index 3 under the named root (index 2), not the enclosed leaf (here every node on the path exists, so
   GetProof does not even reach its zero-hash fallback / warning) *)
Definition ex_unfinalized_behaviour : bool :=
  let root := r_hash (cc_root ex_cc) in
  match build_exec ex_state root [ex_unfinalized] with
  | inr [i] =>
      let L := claim_leaf (ie_claim i) in
      let pg := claim_ger_proof (ie_claim i) in
      (l1_index L =? 3) && (cc_leaf_count ex_cc =? 3) &&
      (calculate_root 0 (mp_siblings pg) (l1_index L) =? root) &&
      negb (calculate_root (l1leaf_hash_n keccakN L) (mp_siblings pg) (l1_index L) =? root)
  | _ => false
  end.
