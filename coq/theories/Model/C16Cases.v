(* C16 correspondence: executable comparison of the model (Model/GerIndex.v, REPAIRED downloader dl_fixed) with the
   observations of the real PP downloader + driver + processor, and the executable form of the property itself
   evaluated on those observations against a naive reference computed from the case's L2 history. *)
From Coq Require Import NArith List Bool.
From Verif Require Import Model.GerIndex.
Import ListNotations.
Open Scope N_scope.

(* what the harness observed at the end of one segment *)
Record seg_obs := {
  so_delivered : list block;           (* blocks accepted by processor.ProcessBlock, in order *)
  so_stuck : bool;                     (* a ProcessBlock kept failing *)
  so_last : N;                         (* GetLastProcessedBlock *)
  so_blocks : list N;                  (* block table ORDER BY num *)
  so_rows : list row;                  (* imported_global_exit_root ORDER BY block_num *)
  so_answers : list (option (N * N));  (* GetFirstGERAfterL1InfoTreeIndex per query: Some (index, root) | not found *)
}.

Record seg_in := {
  si_reorg : option (N * list (N * log));   (* None = restart; Some (b, events of the new fork) = reorg at b *)
  si_polls : list N;
}.

Record case16 := {
  c_hist : list (N * log);               (* L2 history: (block, log), ascending *)
  c_queries : list N;
  c_segs : list (seg_in * seg_obs);
}.

Fixpoint list_eqb {X} (eqb : X -> X -> bool) (a b : list X) : bool :=
  match a, b with
  | [], [] => true
  | x :: a', y :: b' => eqb x y && list_eqb eqb a' b'
  | _, _ => false
  end.

Definition log_eqb (a b : log) : bool := Bool.eqb (l_rm a) (l_rm b) && (l_ger a =? l_ger b) && (l_idx a =? l_idx b).
Definition block_eqb (a b : block) : bool := (fst a =? fst b) && list_eqb log_eqb (snd a) (snd b).
Definition row_eqb (a b : row) : bool := (r_blk a =? r_blk b) && (r_ger a =? r_ger b) && (r_idx a =? r_idx b).
Definition ans_eqb (a b : option (N * N)) : bool :=
  match a, b with
  | None, None => true
  | Some (i, g), Some (i', g') => (i =? i') && (g =? g')
  | _, _ => false
  end.

(* ---- model == implementation ? ---- *)
Fixpoint corr_segs (d : dl) (ch : chain) (st : store) (qs : list N) (segs : list (seg_in * seg_obs)) : bool :=
  match segs with
  | [] => true
  | (si, so) :: t =>
      let ro := match si_reorg si with None => None | Some (b, h') => Some (b, chain_of h') end in
      let '(ch1, ost, bs) := run_seg d ch st (ro, si_polls si) in
      match ost with
      | None => so_stuck so
      | Some st1 =>
          negb (so_stuck so) &&
          list_eqb block_eqb bs (so_delivered so) &&
          (last_processed st1 =? so_last so) &&
          list_eqb N.eqb (s_blocks st1) (so_blocks so) &&
          list_eqb row_eqb (s_rows st1) (so_rows so) &&
          list_eqb ans_eqb (map (first_ger_after st1) qs) (so_answers so) &&
          corr_segs d ch1 st1 qs t
      end
  end.

Definition corr_with (d : dl) (c : case16) : bool := corr_segs d (chain_of (c_hist c)) empty_store (c_queries c) (c_segs c).
(* the check compares with the REPAIRED loop; corr_current (the loop as written today) is evaluated for the record *)
Definition corr (c : case16) : bool := corr_with dl_fixed c.
Definition corr_current (c : case16) : bool := corr_with dl_current c.

(* ---- the property on the implementation's answers ---- *)

(* history after a reorg at b: old events below b, new fork from b on *)
Definition hist_splice (h : list (N * log)) (b : N) (h' : list (N * log)) : list (N * log) :=
  filter (fun p => fst p <? b) h ++ filter (fun p => b <=? fst p) h'.

(* naive reference: (index, root) of every insertion in a block 1..L of the history that no later block <= L removes *)
Definition ref_live (h : list (N * log)) (L : N) : list (N * N) :=
  map (fun p => (l_idx (snd p), l_ger (snd p)))
      (filter (fun p => negb (l_rm (snd p)) && (1 <=? fst p) && (fst p <=? L) &&
                        negb (existsb (fun q => l_rm (snd q) && (l_ger (snd q) =? l_ger (snd p)) &&
                                                (fst p <? fst q) && (fst q <=? L)) h)) h).

(* a returned root must be live with index >= x; not-found only when no live root has index >= x *)
Definition answer_ok (lv : list (N * N)) (x : N) (a : option (N * N)) : bool :=
  match a with
  | Some (i, g) => existsb (fun p => (fst p =? i) && (snd p =? g)) lv && (x <=? i)
  | None => negb (existsb (fun p => x <=? fst p) lv)
  end.

Fixpoint answers_ok (lv : list (N * N)) (qs : list N) (ans : list (option (N * N))) : bool :=
  match qs, ans with
  | [], [] => true
  | x :: qs', a :: ans' => answer_ok lv x a && answers_ok lv qs' ans'
  | _, _ => false
  end.

Fixpoint spec_segs (h : list (N * log)) (qs : list N) (segs : list (seg_in * seg_obs)) : bool :=
  match segs with
  | [] => true
  | (si, so) :: t =>
      let h1 := match si_reorg si with None => h | Some (b, h') => hist_splice h b h' end in
      answers_ok (ref_live h1 (so_last so)) qs (so_answers so) && spec_segs h1 qs t
  end.

(* at most one event per block in every history of the case: the property's quantifier *)
Fixpoint nodupb (l : list N) : bool :=
  match l with [] => true | x :: t => negb (existsb (N.eqb x) t) && nodupb t end.
Definition in_quantifier (c : case16) : bool :=
  nodupb (map fst (c_hist c)) &&
  forallb (fun s => match si_reorg (fst s) with None => true | Some (_, h') => nodupb (map fst h') end) (c_segs c).

Definition spec (c : case16) : bool :=
  if in_quantifier c then spec_segs (c_hist c) (c_queries c) (c_segs c) else true.

Fixpoint bad_indices {X} (f : X -> bool) (i : nat) (l : list X) : list nat :=
  match l with [] => [] | x :: t => if f x then bad_indices f (S i) t else i :: bad_indices f (S i) t end.
