(* C05 model: sync/evmdownloader.go (Download, GetEventsByBlockRange, GetLogs, WaitForNewBlocks,
   reportBlocks, reportEmptyBlock) and sync/evmdriver.go (Sync loop, handleNewBlock).
   Definitions only.  Every function below is a transcription of the Go function named beside it:
   same case order, same uint64 arithmetic (wrap written explicitly with [u64]).

   Environment (not aggkit code, modelled as data):
   * the static chain [ch : N -> list rawlog], all logs of every block in log order;
   * the RPC node's eth_getLogs: address filter + block range, results in chain order ([node_filter_logs]);
   * the answers to the block-tag queries HeaderByNumber(blockFinality) / HeaderByNumber(finalizedBlockType):
     one [tick] per such RPC call, in call order (the world may move between any two calls).
   The downloader is a step function over ticks ([dl_step]), one step per tag query, so no fuel is needed:
   PInit/PWait are the polling loop of WaitForNewBlocks (one tick per ticker poll), PFin is the
   GetLastFinalizedBlock call followed by the rest of the loop body of Download. *)
From Coq Require Import NArith List Bool.
Import ListNotations.
Open Scope N_scope.

(* ---- uint64 ---- *)
Definition M64 : N := 18446744073709551616.          (* 2^64, written as a numeral on purpose *)
Definition u64 (x : N) : N := x mod M64.
Definition u64_sub (a b : N) : N := (a + M64 - b) mod M64.   (* a - b on uint64, for a, b < 2^64 *)

(* ---- chain, logs, configuration ---- *)
Record rawlog := { l_addr : N; l_topic : N; l_removed : bool; l_idx : N }.
Definition chain := N -> list rawlog.
Definition chain_of_list (l : list (list rawlog)) : chain := fun k => nth (N.to_nat k) l [].

Record config := {
  c_chunk : N;               (* syncBlockChunkSize *)
  c_addrs : list N;          (* addressesToQuery (empty = any address, eth_getLogs semantics) *)
  c_topics : list N;         (* keys of the LogAppenderMap = topicsToQuery *)
  c_finflag : bool           (* d.finalizedBlockType.IsFinalized() *)
}.

Definition ev := (N * N)%type.                         (* what the appender stores for a log: (l.BlockNumber, l.Index) *)
Record dblock := { b_num : N; b_events : list ev; b_fin : bool }.   (* EVMBlock put on downloadedCh *)
Definition blk (b : dblock) : N * list ev := (b_num b, b_events b).

Definition memN (x : N) (l : list N) : bool := existsb (N.eqb x) l.

(* eth_getLogs on the node: FilterQuery{Addresses, FromBlock, ToBlock}, no topic filter in the query *)
Definition addr_match (addrs : list N) (l : rawlog) : bool :=
  match addrs with [] => true | _ => memN (l_addr l) addrs end.
Fixpoint nrange (a : N) (n : nat) : list N := match n with O => [] | S n' => a :: nrange (a + 1) n' end.
Definition range (a b : N) : list N := nrange a (N.to_nat (b + 1 - a)).      (* a..b inclusive; [] when a > b *)
Definition node_filter_logs (addrs : list N) (ch : chain) (a b : N) : list (N * rawlog) :=
  flat_map (fun k => map (pair k) (filter (addr_match addrs) (ch k))) (range a b).

(* GetLogs: drops Removed logs, keeps logs whose Topics[0] is in topicsToQuery *)
Definition keep_log (topics : list N) (kl : N * rawlog) : bool :=
  if l_removed (snd kl) then false else memN (l_topic (snd kl)) topics.
Definition get_logs (cfg : config) (ch : chain) (a b : N) : list (N * rawlog) :=
  filter (keep_log (c_topics cfg)) (node_filter_logs (c_addrs cfg) ch a b).

(* getEventsByBlockRangeWithRetry, the loop over logs: a new EVMBlock is opened for the first log and whenever
   latestBlock.Num < l.BlockNumber; otherwise the event is appended to latestBlock *)
Definition ev_of (kl : N * rawlog) : ev := (fst kl, l_idx (snd kl)).
Fixpoint group_from (cur : N * list ev) (logs : list (N * rawlog)) : list (N * list ev) :=
  match logs with
  | [] => [cur]
  | kl :: t => if fst cur <? fst kl then cur :: group_from (fst kl, [ev_of kl]) t
               else group_from (fst cur, snd cur ++ [ev_of kl]) t
  end.
Definition group (logs : list (N * rawlog)) : list (N * list ev) :=
  match logs with [] => [] | kl :: t => group_from (fst kl, [ev_of kl]) t end.
Definition get_events_by_block_range (cfg : config) (ch : chain) (a b : N) : list (N * list ev) :=
  group (get_logs cfg ch a b).

(* ---- the naive reference used by the statements (NOT used by the step function) ---- *)
Definition watched (cfg : config) (l : rawlog) : bool :=
  addr_match (c_addrs cfg) l && negb (l_removed l) && memN (l_topic l) (c_topics cfg).
Definition watched_events (cfg : config) (ch : chain) (k : N) : list ev :=
  map (fun l => (k, l_idx l)) (filter (watched cfg) (ch k)).

(* ---- outcomes of the numbered RPC calls (eth_getLogs, eth_getBlockByNumber(n)) ---- *)
(* One entry per call, in call order (all these calls are made by the single downloader goroutine); calls beyond the
   list succeed.  RErr = any error that is none of the following; RDeadline = an error wrapping context.DeadlineExceeded;
   RNotFound = ethereum.NotFound; RCanceled = an error wrapping context.Canceled WHILE THE DOWNLOADER'S CONTEXT IS ALIVE;
   RMismatch = the call succeeds but the header returned has a hash different from the block hash of the logs
   (only meaningful for the header query of getEventsByBlockRangeWithRetry; a plain success elsewhere). *)
Inductive cres := ROk | RErr | RDeadline | RNotFound | RCanceled | RMismatch.
Definition retried (r : cres) : bool := match r with RErr | RDeadline | RNotFound => true | _ => false end.

(* GetLogs, the FilterLogs loop: context.Canceled => `return nil`; every other error => rh.Handle and try again *)
Fixpoint filter_logs_call (calls : list cres) : bool * list cres :=
  match calls with
  | [] => (true, [])
  | r :: t => if retried r then filter_logs_call t
              else (match r with RCanceled => false | _ => true end, t)
  end.
(* GetBlockHeader: context.Canceled => (_, true); NotFound => sleep, again; other errors => rh.Handle, again *)
Inductive hres := HOk | HMismatch | HCanceled.
Fixpoint header_call (calls : list cres) : hres * list cres :=
  match calls with
  | [] => (HOk, [])
  | r :: t => if retried r then header_call t
              else (match r with RCanceled => HCanceled | RMismatch => HMismatch | _ => HOk end, t)
  end.

(* getEventsByBlockRangeWithRetry, the loop over logs with its RPC calls: the header of a block is fetched when the block
   is opened; canceled => `return nil`; hash mismatch => give up or retry the WHOLE range (blocks collected so far dropped) *)
Inductive gres := GDone (bs : list (N * list ev)) (c : list cres) | GRetry (c : list cres) | GNil (c : list cres).
Fixpoint group_rpc_from (cur : N * list ev) (logs : list (N * rawlog)) (calls : list cres) : gres :=
  match logs with
  | [] => GDone [cur] calls
  | kl :: t => if fst cur <? fst kl then
                 match header_call calls with
                 | (HOk, c) => match group_rpc_from (fst kl, [ev_of kl]) t c with
                               | GDone bs c' => GDone (cur :: bs) c'
                               | r => r
                               end
                 | (HMismatch, c) => GRetry c
                 | (HCanceled, c) => GNil c
                 end
               else group_rpc_from (fst cur, snd cur ++ [ev_of kl]) t calls
  end.
Definition group_rpc (logs : list (N * rawlog)) (calls : list cres) : gres :=
  match logs with
  | [] => GDone [] calls
  | kl :: t => match header_call calls with
               | (HOk, c) => group_rpc_from (fst kl, [ev_of kl]) t c
               | (HMismatch, c) => GRetry c
               | (HCanceled, c) => GNil c
               end
  end.
(* budget = MaxRetryCountBlockHashMismatch - retryCount; at budget 0 (retryCount >= 5) a mismatch makes the function
   `return nil`, which the caller cannot tell from "no logs".  Third component: number of successful eth_getLogs calls. *)
Definition max_retry_hash_mismatch : nat := 5.
Fixpoint events_rpc (budget : nat) (cfg : config) (ch : chain) (a b : N) (calls : list cres)
  : list (N * list ev) * list cres * nat :=
  let '(ok, c1) := filter_logs_call calls in
  let logs := if ok then get_logs cfg ch a b else [] in
  let nq := if ok then 1%nat else 0%nat in
  match group_rpc logs c1 with
  | GDone bs c => (bs, c, nq)
  | GNil c => ([], c, nq)
  | GRetry c => match budget with
                | O => ([], c, nq)
                | S b' => let '(bs, c', n') := events_rpc b' cfg ch a b c in (bs, c', (nq + n')%nat)
                end
  end.

(* ---- Download ---- *)
Inductive phase := PInit | PWait | PFin.
Record dl_state := St { s_from : N; s_to : N; s_last : N; s_reach : bool; s_phase : phase; s_calls : list cres }.
Record tick := { t_tip : N; t_fin : N; t_err : bool }.
   (* t_tip: header number answered to HeaderByNumber(blockFinality), t_fin: to HeaderByNumber(finalizedBlockType),
      t_err: the call fails instead (whatever the error: WaitForNewBlocks retries, Download `continue`s) *)

Definition dl_init (from0 : N) (calls : list cres) : dl_state := St from0 0 0 false PInit calls.

(* top of the `for`: decides between WaitForNewBlocks and going on; `reachTop = false` follows in both cases *)
Definition loop_top (from to last : N) (reach : bool) (calls : list cres) : dl_state :=
  if (last <? from) || (reach && (last <=? to)) then St from to last reach PWait calls
  else St from to last false PFin calls.

(* reportBlocks / reportEmptyBlock *)
Definition mk_block (cfg : config) (lf : N) (b : N * list ev) : dblock :=
  {| b_num := fst b; b_events := snd b; b_fin := c_finflag cfg && (fst b <=? lf) |}.
Definition empty_block (cfg : config) (lf n : N) : dblock :=
  {| b_num := n; b_events := []; b_fin := c_finflag cfg && (n <=? lf) |}.
(* reportEmptyBlock: GetBlockHeader first; if that reports "canceled" nothing is sent *)
Definition report_empty (cfg : config) (lf n : N) (calls : list cres) : list dblock * list cres :=
  match header_call calls with
  | (HCanceled, c) => ([], c)
  | (_, c) => ([empty_block cfg lf n], c)
  end.
Definition last_num (blocks : list (N * list ev)) : N := fst (last blocks (0, [])).

(* the loop body after GetLastFinalizedBlock succeeded with header number [fin] *)
Definition dl_body (cfg : config) (ch : chain) (from to last fin : N) (calls : list cres) : dl_state * list dblock :=
  let chunk := c_chunk cfg in
  let lf := N.min last fin in                                   (* lastFinalizedBlockNumber *)
  let reach := last <=? to in                                   (* toBlock >= lastBlock *)
  let req := if reach then last else to in                      (* requestToBlock *)
  let '(blocks, c1, _) := events_rpc max_retry_hash_mismatch cfg ch from req calls in
  if req <=? lf then                                            (* safe zone *)
    let '(extra, c2) := match blocks with
                        | [] => report_empty cfg lf req c1
                        | _ => if last_num blocks <? req then report_empty cfg lf req c1 else ([], c1)
                        end in
    let from' := u64 (req + 1) in
    (loop_top from' (u64 (from' + chunk)) last reach c2, map (mk_block cfg lf) blocks ++ extra)
  else match blocks with
       | [] => if from <=? lf then
                 let '(extra, c2) := report_empty cfg lf lf c1 in
                 let from' := u64 (lf + 1) in
                 (loop_top from' (u64 (from' + chunk)) last reach c2, extra)
               else (loop_top from (u64 (to + chunk)) last reach c1, [])
       | _ => let from' := u64 (last_num blocks + 1) in
              (loop_top from' (u64 (from' + chunk)) last reach c1, map (mk_block cfg lf) blocks)
       end.

(* one tag query of the real code = one step *)
Definition dl_step (cfg : config) (ch : chain) (s : dl_state) (t : tick) : dl_state * list dblock :=
  let chunk := c_chunk cfg in
  match s_phase s with
  | PInit =>     (* lastBlock := d.WaitForNewBlocks(ctx, 0); toBlock := fromBlock + chunk *)
      if t_err t || negb (0 <? t_tip t) then (s, [])
      else (loop_top (s_from s) (u64 (s_from s + chunk)) (t_tip t) false (s_calls s), [])
  | PWait =>     (* lastBlock = d.WaitForNewBlocks(ctx, lastBlock); if fromBlock-toBlock < chunk {toBlock = fromBlock+chunk} *)
      if t_err t || negb (s_last s <? t_tip t) then (s, [])
      else let to' := if u64_sub (s_from s) (s_to s) <? chunk then u64 (s_from s + chunk) else s_to s in
           (St (s_from s) to' (t_tip t) false PFin (s_calls s), [])
  | PFin =>      (* GetLastFinalizedBlock; on error `continue` (reachTop is already false) *)
      if t_err t then (loop_top (s_from s) (s_to s) (s_last s) false (s_calls s), [])
      else dl_body cfg ch (s_from s) (s_to s) (s_last s) (t_fin t) (s_calls s)
  end.

Fixpoint dl_run (cfg : config) (ch : chain) (s : dl_state) (ticks : list tick) : dl_state * list dblock :=
  match ticks with
  | [] => (s, [])
  | t :: rest => let '(s1, out1) := dl_step cfg ch s t in
                 let '(s2, out2) := dl_run cfg ch s1 rest in (s2, out1 ++ out2)
  end.

(* the successful eth_getLogs calls (observable at the RPC client): one per attempt of getEventsByBlockRangeWithRetry
   whose FilterLogs call went through *)
Definition query_of (cfg : config) (ch : chain) (s : dl_state) (t : tick) : list (N * N) :=
  match s_phase s with
  | PFin => if t_err t then []
            else let req := if s_last s <=? s_to s then s_last s else s_to s in
                 repeat (s_from s, req) (snd (events_rpc max_retry_hash_mismatch cfg ch (s_from s) req (s_calls s)))
  | _ => []
  end.
Fixpoint dl_queries (cfg : config) (ch : chain) (s : dl_state) (ticks : list tick) : list (N * N) :=
  match ticks with
  | [] => []
  | t :: rest => query_of cfg ch s t ++ dl_queries cfg ch (fst (dl_step cfg ch s t)) rest
  end.

(* ---- EVMDriver: Sync loop + handleNewBlock ---- *)
Record drv_state := { d_last : N;                       (* processor.GetLastProcessedBlock *)
                      d_stored : list (N * list ev);    (* successful ProcessBlock calls, in order *)
                      d_tracked : list N }.             (* successful AddBlockToTrack calls *)
Definition drv_init (lp0 : N) : drv_state := {| d_last := lp0; d_stored := []; d_tracked := [] |}.
(* handleNewBlock: track unless IsFinalizedBlock (retry until it works), then ProcessBlock (retry until it works) *)
Definition handle_new_block (d : drv_state) (b : dblock) : drv_state :=
  {| d_last := b_num b;
     d_stored := d_stored d ++ [blk b];
     d_tracked := if b_fin b then d_tracked d else d_tracked d ++ [b_num b] |}.
Definition drv_run (d : drv_state) (bs : list dblock) : drv_state := fold_left handle_new_block bs d.

(* Sync: the downloader is started at lastProcessedBlock+1 (uint64) *)
Definition sync_from (lp0 : N) : N := u64 (lp0 + 1).
Definition sync_run (cfg : config) (ch : chain) (lp0 : N) (calls : list cres) (ticks : list tick)
  : dl_state * list dblock * drv_state :=
  let '(s, out) := dl_run cfg ch (dl_init (sync_from lp0) calls) ticks in (s, out, drv_run (drv_init lp0) out).

(* ---- hypotheses of the theorems (definitions only) ---- *)
(* no numbered RPC call fails with context.Canceled while the downloader is alive, and the node answers a header whose
   hash differs from the logs' block hash at most MaxRetryCountBlockHashMismatch times in the whole run *)
Fixpoint mismatches (c : list cres) : nat :=
  match c with [] => O | RMismatch :: t => S (mismatches t) | _ :: t => mismatches t end.
Definition calls_ok (c : list cres) : Prop := ~ In RCanceled c /\ (mismatches c <= max_retry_hash_mismatch)%nat.
(* every successful tip answer is at most B, and the node is not behind the block the download starts from *)
Definition tips_ok (B from0 : N) (ticks : list tick) : Prop :=
  forall t, In t ticks -> t_err t = false -> t_tip t <= B /\ (0 < t_tip t -> from0 <= t_tip t + 1).
(* a poll sequence in which no call fails, every answer shows a tip above the previous one (and above L)
   and a finalized block >= k *)
Fixpoint rising (k L : N) (ticks : list tick) : Prop :=
  match ticks with
  | [] => True
  | t :: rest => t_err t = false /\ L < t_tip t /\ k <= t_fin t /\ rising k (t_tip t) rest
  end.
