(* C05 model: sync/evmdownloader.go (Download, GetEventsByBlockRange, GetLogs, WaitForNewBlocks,
   reportBlocks, reportEmptyBlock) and sync/evmdriver.go (Sync loop, handleNewBlock).
   Definitions only.  Every function below is a transcription of the Go function named beside it:
   same case order, same uint64 arithmetic (wrap written explicitly with [u64]).

   Environment (not aggkit code, modelled as data):
   * the static chain [ch : N -> list rawlog], all logs of every block in log order;
   * the RPC node's eth_getLogs: address filter + block range, results in chain order ([node_filter_logs]);
   * the answers to the block-tag queries HeaderByNumber(blockFinality) / HeaderByNumber(finalizedBlockType):
     one [tick] per such RPC call, in call order (the world may move between any two calls).
   The downloader is a step function over ticks ([dl_step]), one step per tag query, so no fuel is needed:
   PInit/PWait are the polling loop of WaitForNewBlocks (one tick per ticker poll), PFin is the
   GetLastFinalizedBlock call followed by the rest of the loop body of Download. *)
From Coq Require Import NArith List Bool.
Import ListNotations.
Open Scope N_scope.

(* ---- uint64 ---- *)
Definition M64 : N := 18446744073709551616.          (* 2^64, written as a numeral on purpose *)
Definition u64 (x : N) : N := x mod M64.
Definition u64_sub (a b : N) : N := (a + M64 - b) mod M64.   (* a - b on uint64, for a, b < 2^64 *)

(* ---- chain, logs, configuration ---- *)
Record rawlog := { l_addr : N; l_topic : N; l_removed : bool; l_idx : N }.
Definition chain := N -> list rawlog.
Definition chain_of_list (l : list (list rawlog)) : chain := fun k => nth (N.to_nat k) l [].

Record config := {
  c_chunk : N;               (* syncBlockChunkSize *)
  c_addrs : list N;          (* addressesToQuery (empty = any address, eth_getLogs semantics) *)
  c_topics : list N;         (* keys of the LogAppenderMap = topicsToQuery *)
  c_finflag : bool           (* d.finalizedBlockType.IsFinalized() *)
}.

Definition ev := (N * N)%type.                         (* what the appender stores for a log: (l.BlockNumber, l.Index) *)
Record dblock := { b_num : N; b_events : list ev; b_fin : bool }.   (* EVMBlock put on downloadedCh *)
Definition blk (b : dblock) : N * list ev := (b_num b, b_events b).

Definition memN (x : N) (l : list N) : bool := existsb (N.eqb x) l.

(* eth_getLogs on the node: FilterQuery{Addresses, FromBlock, ToBlock}, no topic filter in the query *)
Definition addr_match (addrs : list N) (l : rawlog) : bool :=
  match addrs with [] => true | _ => memN (l_addr l) addrs end.
Fixpoint nrange (a : N) (n : nat) : list N := match n with O => [] | S n' => a :: nrange (a + 1) n' end.
Definition range (a b : N) : list N := nrange a (N.to_nat (b + 1 - a)).      (* a..b inclusive; [] when a > b *)
Definition node_filter_logs (addrs : list N) (ch : chain) (a b : N) : list (N * rawlog) :=
  flat_map (fun k => map (pair k) (filter (addr_match addrs) (ch k))) (range a b).

(* GetLogs: drops Removed logs, keeps logs whose Topics[0] is in topicsToQuery *)
Definition keep_log (topics : list N) (kl : N * rawlog) : bool :=
  if l_removed (snd kl) then false else memN (l_topic (snd kl)) topics.
Definition get_logs (cfg : config) (ch : chain) (a b : N) : list (N * rawlog) :=
  filter (keep_log (c_topics cfg)) (node_filter_logs (c_addrs cfg) ch a b).

(* getEventsByBlockRangeWithRetry, the loop over logs: a new EVMBlock is opened for the first log and whenever
   latestBlock.Num < l.BlockNumber; otherwise the event is appended to latestBlock *)
Definition ev_of (kl : N * rawlog) : ev := (fst kl, l_idx (snd kl)).
Fixpoint group_from (cur : N * list ev) (logs : list (N * rawlog)) : list (N * list ev) :=
  match logs with
  | [] => [cur]
  | kl :: t => if fst cur <? fst kl then cur :: group_from (fst kl, [ev_of kl]) t
               else group_from (fst cur, snd cur ++ [ev_of kl]) t
  end.
Definition group (logs : list (N * rawlog)) : list (N * list ev) :=
  match logs with [] => [] | kl :: t => group_from (fst kl, [ev_of kl]) t end.
Definition get_events_by_block_range (cfg : config) (ch : chain) (a b : N) : list (N * list ev) :=
  group (get_logs cfg ch a b).

(* ---- the naive reference used by the statements (NOT used by the step function) ---- *)
Definition watched (cfg : config) (l : rawlog) : bool :=
  addr_match (c_addrs cfg) l && negb (l_removed l) && memN (l_topic l) (c_topics cfg).
Definition watched_events (cfg : config) (ch : chain) (k : N) : list ev :=
  map (fun l => (k, l_idx l)) (filter (watched cfg) (ch k)).

(* ---- Download ---- *)
Inductive phase := PInit | PWait | PFin.
Record dl_state := St { s_from : N; s_to : N; s_last : N; s_reach : bool; s_phase : phase }.
Record tick := { t_tip : N; t_fin : N; t_err : bool }.
   (* t_tip: header number answered to HeaderByNumber(blockFinality), t_fin: to HeaderByNumber(finalizedBlockType),
      t_err: the call fails instead *)

Definition dl_init (from0 : N) : dl_state := St from0 0 0 false PInit.

(* top of the `for`: decides between WaitForNewBlocks and going on; `reachTop = false` follows in both cases *)
Definition loop_top (from to last : N) (reach : bool) : dl_state :=
  if (last <? from) || (reach && (last <=? to)) then St from to last reach PWait
  else St from to last false PFin.

(* reportBlocks / reportEmptyBlock *)
Definition mk_block (cfg : config) (lf : N) (b : N * list ev) : dblock :=
  {| b_num := fst b; b_events := snd b; b_fin := c_finflag cfg && (fst b <=? lf) |}.
Definition empty_block (cfg : config) (lf n : N) : dblock :=
  {| b_num := n; b_events := []; b_fin := c_finflag cfg && (n <=? lf) |}.
Definition last_num (blocks : list (N * list ev)) : N := fst (last blocks (0, [])).

(* the loop body after GetLastFinalizedBlock succeeded with header number [fin] *)
Definition dl_body (cfg : config) (ch : chain) (from to last fin : N) : dl_state * list dblock :=
  let chunk := c_chunk cfg in
  let lf := N.min last fin in                                   (* lastFinalizedBlockNumber *)
  let reach := last <=? to in                                   (* toBlock >= lastBlock *)
  let req := if reach then last else to in                      (* requestToBlock *)
  let blocks := get_events_by_block_range cfg ch from req in
  if req <=? lf then                                            (* safe zone *)
    let extra := match blocks with
                 | [] => [empty_block cfg lf req]
                 | _ => if last_num blocks <? req then [empty_block cfg lf req] else []
                 end in
    let from' := u64 (req + 1) in
    (loop_top from' (u64 (from' + chunk)) last reach, map (mk_block cfg lf) blocks ++ extra)
  else match blocks with
       | [] => if from <=? lf then
                 let from' := u64 (lf + 1) in
                 (loop_top from' (u64 (from' + chunk)) last reach, [empty_block cfg lf lf])
               else (loop_top from (u64 (to + chunk)) last reach, [])
       | _ => let from' := u64 (last_num blocks + 1) in
              (loop_top from' (u64 (from' + chunk)) last reach, map (mk_block cfg lf) blocks)
       end.

(* one tag query of the real code = one step *)
Definition dl_step (cfg : config) (ch : chain) (s : dl_state) (t : tick) : dl_state * list dblock :=
  let chunk := c_chunk cfg in
  match s_phase s with
  | PInit =>     (* lastBlock := d.WaitForNewBlocks(ctx, 0); toBlock := fromBlock + chunk *)
      if t_err t || negb (0 <? t_tip t) then (s, [])
      else (loop_top (s_from s) (u64 (s_from s + chunk)) (t_tip t) false, [])
  | PWait =>     (* lastBlock = d.WaitForNewBlocks(ctx, lastBlock); if fromBlock-toBlock < chunk {toBlock = fromBlock+chunk} *)
      if t_err t || negb (s_last s <? t_tip t) then (s, [])
      else let to' := if u64_sub (s_from s) (s_to s) <? chunk then u64 (s_from s + chunk) else s_to s in
           (St (s_from s) to' (t_tip t) false PFin, [])
  | PFin =>      (* GetLastFinalizedBlock; on error `continue` (reachTop is already false) *)
      if t_err t then (loop_top (s_from s) (s_to s) (s_last s) false, [])
      else dl_body cfg ch (s_from s) (s_to s) (s_last s) (t_fin t)
  end.

Fixpoint dl_run (cfg : config) (ch : chain) (s : dl_state) (ticks : list tick) : dl_state * list dblock :=
  match ticks with
  | [] => (s, [])
  | t :: rest => let '(s1, out1) := dl_step cfg ch s t in
                 let '(s2, out2) := dl_run cfg ch s1 rest in (s2, out1 ++ out2)
  end.

(* the eth_getLogs ranges asked, one per completed loop body (observable at the RPC client) *)
Definition query_of (s : dl_state) (t : tick) : list (N * N) :=
  match s_phase s with
  | PFin => if t_err t then [] else [(s_from s, if s_last s <=? s_to s then s_last s else s_to s)]
  | _ => []
  end.
Fixpoint dl_queries (cfg : config) (ch : chain) (s : dl_state) (ticks : list tick) : list (N * N) :=
  match ticks with
  | [] => []
  | t :: rest => query_of s t ++ dl_queries cfg ch (fst (dl_step cfg ch s t)) rest
  end.

(* ---- EVMDriver: Sync loop + handleNewBlock ---- *)
Record drv_state := { d_last : N;                       (* processor.GetLastProcessedBlock *)
                      d_stored : list (N * list ev);    (* successful ProcessBlock calls, in order *)
                      d_tracked : list N }.             (* successful AddBlockToTrack calls *)
Definition drv_init (lp0 : N) : drv_state := {| d_last := lp0; d_stored := []; d_tracked := [] |}.
(* handleNewBlock: track unless IsFinalizedBlock (retry until it works), then ProcessBlock (retry until it works) *)
Definition handle_new_block (d : drv_state) (b : dblock) : drv_state :=
  {| d_last := b_num b;
     d_stored := d_stored d ++ [blk b];
     d_tracked := if b_fin b then d_tracked d else d_tracked d ++ [b_num b] |}.
Definition drv_run (d : drv_state) (bs : list dblock) : drv_state := fold_left handle_new_block bs d.

(* Sync: the downloader is started at lastProcessedBlock+1 (uint64) *)
Definition sync_from (lp0 : N) : N := u64 (lp0 + 1).
Definition sync_run (cfg : config) (ch : chain) (lp0 : N) (ticks : list tick) : dl_state * list dblock * drv_state :=
  let '(s, out) := dl_run cfg ch (dl_init (sync_from lp0)) ticks in (s, out, drv_run (drv_init lp0) out).

(* ---- hypotheses of the theorems (definitions only) ---- *)
(* every successful tip answer is at most B, and the node is not behind the block the download starts from *)
Definition tips_ok (B from0 : N) (ticks : list tick) : Prop :=
  forall t, In t ticks -> t_err t = false -> t_tip t <= B /\ (0 < t_tip t -> from0 <= t_tip t + 1).
(* a poll sequence in which no call fails, every answer shows a tip above the previous one (and above L)
   and a finalized block >= k *)
Fixpoint rising (k L : N) (ticks : list tick) : Prop :=
  match ticks with
  | [] => True
  | t :: rest => t_err t = false /\ L < t_tip t /\ k <= t_fin t /\ rising k (t_tip t) rest
  end.
