(* Byte-level model of the ABI decoding step of bridgesync/downloader.go tryDecodeClaimCalldata:
     method.Inputs.Unpack(input[methodIDLength:])       go-ethereum accounts/abi (v1.15.5: Arguments.Unpack,
                                                        UnpackValues, toGoType, forEachUnpack, lengthPrefixPointsTo,
                                                        ReadInteger, ReadFixedBytes)
   followed by the type assertions and index choices of bridgesync/processor.go decodeEtrogCalldata /
   decodePreEtrogCalldata.  Definitions only.

   Only the argument types that occur in the four claim methods are modelled:
     bytes32[32] (static array), uint256, bytes32, uint32, address, bytes (dynamic).
   `abi_pack` is the canonical encoding the Solidity ABI prescribes (what callers of the bridge send); the decoder
   accepts more than that (any in-range offset, dirty address bytes, trailing bytes), as go-ethereum does. *)
From Coq Require Import NArith List Bool.
From Verif Require Import Base.Bytes Model.FindCall.
Import ListNotations.
Open Scope N_scope.

Inductive aty := TProof | TU256 | TB32 | TU32 | TU8 | TAddr | TBytes.
(* a decoded argument: [32][32]byte as 32 numbers; *big.Int, [32]byte, uint32, common.Address as a number; []byte *)
Inductive aval := VProof (l : list N) | VNum (n : N) | VBytes (b : bytes).

(* bytes the head of an argument occupies: getTypeSize *)
Definition width (t : aty) : nat := match t with TProof => (32 * 32)%nat | _ => 32%nat end.
Definition widths (ts : list aty) : nat := fold_right (fun t n => (width t + n)%nat) 0%nat ts.

(* the 32-byte word starting at byte k, as a big-endian number (caller has checked k + 32 <= length data) *)
Definition word_at (data : bytes) (k : nat) : N := of_be (firstn 32 (skipn k data)).

(* forEachUnpack for bytes32[n]: n consecutive words *)
Fixpoint words_at (data : bytes) (k n : nat) : list N :=
  match n with O => [] | S n' => word_at data k :: words_at data (k + 32) n' end.

Definition max_u32 : N := 0xFFFFFFFF.
Definition two160 : N := Eval vm_compute in 2 ^ 160.

(* toGoType(pos, t, data) *)
Definition unpack_one (t : aty) (pos : nat) (data : bytes) : option aval :=
  if Nat.leb (pos + 32) (length data) then            (* "length insufficient ... require pos+32" *)
    let w := word_at data pos in
    match t with
    | TProof =>                                        (* forEachUnpack(t, output[pos:], 0, 32): 32*32 <= len(output[pos:]) *)
        if Nat.leb (pos + 32 * 32) (length data) then Some (VProof (words_at data pos 32)) else None
    | TU256 | TB32 => Some (VNum w)                    (* ReadInteger default case / ReadFixedBytes *)
    | TU32 => if w <=? max_u32 then Some (VNum w) else None       (* errBadUint32 *)
    | TU8 => if w <=? 255 then Some (VNum w) else None            (* errBadUint8 *)
    | TAddr => Some (VNum (w mod two160))              (* common.BytesToAddress: the last 20 bytes *)
    | TBytes =>                                        (* lengthPrefixPointsTo *)
        let off_end := w + 32 in
        if off_end <=? N.of_nat (length data) then
          let len := word_at data (N.to_nat off_end - 32) in
          if off_end + len <=? N.of_nat (length data) then
            Some (VBytes (firstn (N.to_nat len) (skipn (N.to_nat off_end) data)))
          else None
        else None
    end
  else None.

(* UnpackValues: argument k is read at (k + virtualArgs) * 32 *)
Fixpoint unpack_args (ts : list aty) (pos : nat) (data : bytes) : option (list aval) :=
  match ts with
  | [] => Some []
  | t :: ts' =>
      match unpack_one t pos data with
      | None => None
      | Some v => match unpack_args ts' (pos + width t) data with None => None | Some vs => Some (v :: vs) end
      end
  end.

(* Arguments.Unpack: empty data with arguments expected is an error *)
Definition abi_unpack (ts : list aty) (data : bytes) : option (list aval) :=
  match data with [] => None | _ => unpack_args ts 0 data end.

(* ---- the two ABIs (polygonzkevmbridgev2 / polygonzkevmbridge bindings, claimAsset and claimMessage have the same inputs) ---- *)
(* claimAsset(bytes32[32] smtProofLocalExitRoot, bytes32[32] smtProofRollupExitRoot, uint256 globalIndex,
              bytes32 mainnetExitRoot, bytes32 rollupExitRoot, uint32 originNetwork, address originTokenAddress,
              uint32 destinationNetwork, address destinationAddress, uint256 amount, bytes metadata) *)
Definition etrog_tys : list aty := [TProof; TProof; TU256; TB32; TB32; TU32; TAddr; TU32; TAddr; TU256; TBytes].
(* claimAsset(bytes32[32] smtProof, uint32 index, bytes32 mainnetExitRoot, bytes32 rollupExitRoot, uint32 originNetwork,
              address originTokenAddress, uint32 destinationNetwork, address destinationAddress, uint256 amount,
              bytes metadata) *)
Definition pre_tys : list aty := [TProof; TU32; TB32; TB32; TU32; TAddr; TU32; TAddr; TU256; TBytes].

(* ---- processor.go: the `data[k].(T)` reads; a failed type assertion is an error ---- *)
Definition get_proof (vs : list aval) (k : nat) : option (list N) :=
  match nth_error vs k with Some (VProof l) => Some l | _ => None end.
Definition get_num (vs : list aval) (k : nat) : option N :=
  match nth_error vs k with Some (VNum n) => Some n | _ => None end.
Definition get_bytes (vs : list aval) (k : nat) : option bytes :=
  match nth_error vs k with Some (VBytes b) => Some b | _ => None end.

Definition md_of (b : bytes) : nat * N := (length b, of_be b).

(* decodeEtrogCalldata: data[2] global index, data[0], data[1] proofs, data[3], data[4] exit roots, data[7] destination
   network, data[10] metadata *)
Definition etrog_fields (vs : list aval) : option (N * details) :=
  match get_num vs 2, get_proof vs 0, get_proof vs 1, get_num vs 3, get_num vs 4, get_num vs 7, get_bytes vs 10 with
  | Some gi, Some p0, Some p1, Some mer, Some rer, Some dn, Some md =>
      Some (gi, {| d_proof_ler := p0; d_proof_rer := p1; d_mer := mer; d_rer := rer; d_dest_net := dn; d_metadata := md_of md |})
  | _, _, _, _, _, _, _ => None
  end.

(* decodePreEtrogCalldata: data[1] index, data[0] proof, data[2], data[3] exit roots, data[6] destination network,
   data[9] metadata; no rollup proof *)
Definition pre_fields (vs : list aval) : option (N * details) :=
  match get_num vs 1, get_proof vs 0, get_num vs 2, get_num vs 3, get_num vs 6, get_bytes vs 9 with
  | Some gi, Some p0, Some mer, Some rer, Some dn, Some md =>
      Some (gi, {| d_proof_ler := p0; d_proof_rer := []; d_mer := mer; d_rer := rer; d_dest_net := dn; d_metadata := md_of md |})
  | _, _, _, _, _, _ => None
  end.

(* ---- the instance of FindCall's abstract ABI layer on raw calldata ---- *)
(* input[:4]; None when len(input) < methodIDLength *)
Definition b_selector (inp : bytes) : option N :=
  if Nat.leb 4 (length inp) then Some (of_be (firstn 4 inp)) else None.
(* method.Inputs.Unpack(input[4:]) + decode{Etrog,PreEtrog}Calldata's reads *)
Definition b_unpack (g : gen) (inp : bytes) : option (N * details) :=
  match g with
  | Etrog => match abi_unpack etrog_tys (skipn 4 inp) with Some vs => etrog_fields vs | None => None end
  | PreEtrog => match abi_unpack pre_tys (skipn 4 inp) with Some vs => pre_fields vs | None => None end
  end.

(* ---- canonical encoding (Solidity ABI): statics in place, then the offset of the single trailing `bytes`, its
   length, its content padded to a multiple of 32 ---- *)
Definition enc_static (v : aval) : bytes :=
  match v with VProof l => concat (map (be 32) l) | VNum n => be 32 n | VBytes _ => [] end.
Definition pad32 (n : nat) : nat := Nat.modulo (32 - Nat.modulo n 32) 32.
Definition abi_pack (statics : list aval) (md : bytes) : bytes :=
  let head := concat (map enc_static statics) in
  head ++ be 32 (N.of_nat (length head + 32)) ++ be 32 (N.of_nat (length md)) ++ md ++ repeat 0 (pad32 (length md)).

(* a static value fits its type *)
Definition two256 : N := Eval vm_compute in 2 ^ 256.
Definition wt (t : aty) (v : aval) : Prop :=
  match t, v with
  | TProof, VProof l => length l = 32%nat /\ Forall (fun x => x < two256) l
  | TU256, VNum n | TB32, VNum n => n < two256
  | TU32, VNum n => n <= max_u32
  | TU8, VNum n => n <= 255
  | TAddr, VNum n => n < two160
  | _, _ => False
  end.

(* calldata of a claim call as the bridge's callers build it *)
Definition sel_bytes (s : N) : bytes := be 4 s.
Definition encode_etrog (s : N) (p0 p1 : list N) (gi mer rer onet oaddr dnet daddr amount : N) (md : bytes) : bytes :=
  sel_bytes s ++ abi_pack [VProof p0; VProof p1; VNum gi; VNum mer; VNum rer; VNum onet; VNum oaddr; VNum dnet; VNum daddr; VNum amount] md.
Definition encode_pre (s : N) (p0 : list N) (idx mer rer onet oaddr dnet daddr amount : N) (md : bytes) : bytes :=
  sel_bytes s ++ abi_pack [VProof p0; VNum idx; VNum mer; VNum rer; VNum onet; VNum oaddr; VNum dnet; VNum daddr; VNum amount] md.

(* ---- event logs of the bridge contract, as bridgesync/downloader.go reads them through the bindings' Parse* functions
   (UnpackLog: the non-indexed arguments are ABI-unpacked from log.Data; none of these events has indexed arguments) ---- *)
(* canonical encoding with the dynamic `bytes` in the middle: statics, offset, statics, then the tail *)
Definition abi_pack_mid (s1 : list aval) (md : bytes) (s2 : list aval) : bytes :=
  let h1 := concat (map enc_static s1) in
  let h2 := concat (map enc_static s2) in
  h1 ++ be 32 (N.of_nat (length h1 + 32 + length h2)) ++ h2 ++ be 32 (N.of_nat (length md)) ++ md ++ repeat 0 (pad32 (length md)).

(* event BridgeEvent(uint8 leafType, uint32 originNetwork, address originAddress, uint32 destinationNetwork,
                     address destinationAddress, uint256 amount, bytes metadata, uint32 depositCount) *)
Definition bridge_event_tys : list aty := [TU8; TU32; TAddr; TU32; TAddr; TU256; TBytes; TU32].
Record bridge_fields := mkBF { bf_lt : N; bf_onet : N; bf_oaddr : N; bf_dnet : N; bf_daddr : N; bf_amount : N; bf_meta : bytes; bf_dc : N }.
(* buildBridgeEventHandler: LeafType, OriginNetwork, OriginAddress, DestinationNetwork, DestinationAddress, Amount, Metadata,
   DepositCount of the Bridge are the event's fields of the same name *)
Definition decode_bridge_event (data : bytes) : option bridge_fields :=
  match abi_unpack bridge_event_tys data with
  | Some [VNum lt; VNum onet; VNum oaddr; VNum dnet; VNum daddr; VNum amount; VBytes md; VNum dc] =>
      Some (mkBF lt onet oaddr dnet daddr amount md dc)
  | _ => None
  end.
Definition encode_bridge_event (f : bridge_fields) : bytes :=
  abi_pack_mid [VNum (bf_lt f); VNum (bf_onet f); VNum (bf_oaddr f); VNum (bf_dnet f); VNum (bf_daddr f); VNum (bf_amount f)]
               (bf_meta f) [VNum (bf_dc f)].
Definition bridge_fields_ok (f : bridge_fields) : Prop :=
  bf_lt f <= 255 /\ bf_onet f <= max_u32 /\ bf_oaddr f < two160 /\ bf_dnet f <= max_u32 /\ bf_daddr f < two160 /\
  bf_amount f < two256 /\ bf_dc f <= max_u32 /\ N.of_nat (length (bf_meta f)) < two256.

(* event ClaimEvent(uint256 globalIndex, uint32 originNetwork, address originAddress, address destinationAddress, uint256 amount) *)
Definition claim_event_tys : list aty := [TU256; TU32; TAddr; TAddr; TU256].
Record claim_fields := mkCF { cf_gi : N; cf_onet : N; cf_oaddr : N; cf_daddr : N; cf_amount : N }.
Definition decode_claim_event (data : bytes) : option claim_fields :=
  match abi_unpack claim_event_tys data with
  | Some [VNum gi; VNum onet; VNum oaddr; VNum daddr; VNum amount] => Some (mkCF gi onet oaddr daddr amount)
  | _ => None
  end.
Definition encode_claim_event (f : claim_fields) : bytes :=
  concat (map enc_static [VNum (cf_gi f); VNum (cf_onet f); VNum (cf_oaddr f); VNum (cf_daddr f); VNum (cf_amount f)]).
Definition claim_fields_ok (f : claim_fields) : Prop :=
  cf_gi f < two256 /\ cf_onet f <= max_u32 /\ cf_oaddr f < two160 /\ cf_daddr f < two160 /\ cf_amount f < two256.
(* pre-Etrog bridge: event ClaimEvent(uint32 index, uint32 originNetwork, address originAddress, address destinationAddress, uint256 amount);
   buildClaimEventHandlerPreEtrog records GlobalIndex = index *)
Definition claim_event_pre_tys : list aty := [TU32; TU32; TAddr; TAddr; TU256].
Definition decode_claim_event_pre (data : bytes) : option claim_fields :=
  match abi_unpack claim_event_pre_tys data with
  | Some [VNum gi; VNum onet; VNum oaddr; VNum daddr; VNum amount] => Some (mkCF gi onet oaddr daddr amount)
  | _ => None
  end.
