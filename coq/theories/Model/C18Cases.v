(* C18 correspondence: executable comparison of the model with observations of the Go code (`corr`),
   and the executable form of the property itself evaluated on those observations (`spec`). Definitions only. *)
From Coq Require Import ZArith NArith List Bool.
From Verif Require Import Model.Epoch Model.EpochFloat.
Import ListNotations.
Open Scope N_scope.

(* one event handed to the subscriber by the real startInternal loop *)
Record obs_event := {
  oe_index : nat;     (* which delivery (0-based) was being processed when Publish was called *)
  oe_block : N;       (* the block number of that delivery *)
  oe_epoch : N;       (* EpochEvent.Epoch *)
  oe_pending : Z;     (* ExtraInfoEventEpoch.PendingBlocks *)
}.

(* result of one direct call of the real step *)
Record obs_step := {
  os_last : N; os_waiting : N;           (* returned internalStatus *)
  os_event : option (N * Z);             (* returned event: (Epoch, PendingBlocks) *)
}.

(* what was observed for a set of percentages: the set as inclusive ranges, whether the real constructor rejected the
   config, the events published *)
Definition group := (list (N * N) * bool * list obs_event)%type.

Inductive case18 :=
  (* VerifEpochRun: the real notifier (S0, n, P) fed with bs, for every P of every group: it published exactly that
     group's events (the harness groups the percentages it tried by identical observed behaviour);
     chk_float: also compare with the float64 model *)
  | CRun (S0 n : N) (bs : list N) (chk_float : bool) (groups : list group)
  (* VerifEpochSteps: real step called from the status (last, waiting) on bs, one observation per call *)
  | CSteps (S0 n P last waiting : N) (bs : list N) (err : bool) (obs : list obs_step).

(* short constructors used by the generated case files (plain applications elaborate faster than tuples/records) *)
Definition R (lo hi : N) : N * N := (lo, hi).
Definition G (rs : list (N * N)) (err : bool) (evs : list obs_event) : group := (rs, err, evs).
Definition OE (i b e : N) (p : Z) : obs_event :=
  {| oe_index := N.to_nat i; oe_block := b; oe_epoch := e; oe_pending := p |}.
Definition OS (l w : N) (ev : option (N * Z)) : obs_step := {| os_last := l; os_waiting := w; os_event := ev |}.

(* lo, lo+1, ..., hi *)
Definition range (lo hi : N) : list N := map (fun k => lo + N.of_nat k) (seq 0 (N.to_nat (hi + 1 - lo))).
Definition percentages (rs : list (N * N)) : list N := flat_map (fun r => range (fst r) (snd r)) rs.

Fixpoint list_eqb {A} (eqb : A -> A -> bool) (l1 l2 : list A) : bool :=
  match l1, l2 with
  | [], [] => true
  | x :: t1, y :: t2 => eqb x y && list_eqb eqb t1 t2
  | _, _ => false
  end.

Definition obs_event_eqb (a b : obs_event) : bool :=
  Nat.eqb (oe_index a) (oe_index b) && (oe_block a =? oe_block b) && (oe_epoch a =? oe_epoch b) &&
  Z.eqb (oe_pending a) (oe_pending b).
Definition obs_of (x : nat * N * event) : obs_event :=
  let '(i, b, e) := x in
  {| oe_index := i; oe_block := b; oe_epoch := ev_epoch e; oe_pending := Z.of_N (ev_pending e) |}.
Definition opt_event_eqb (a b : option (N * Z)) : bool :=
  match a, b with
  | None, None => true
  | Some (e1, p1), Some (e2, p2) => (e1 =? e2) && Z.eqb p1 p2
  | _, _ => false
  end.
Definition obs_step_eqb (a b : obs_step) : bool :=
  (os_last a =? os_last b) && (os_waiting a =? os_waiting b) && opt_event_eqb (os_event a) (os_event b).
Definition obs_of_step (r : status * option event) : obs_step :=
  {| os_last := last_block_seen (fst r); os_waiting := waiting_for_epoch (fst r);
     os_event := match snd r with None => None | Some e => Some (ev_epoch e, Z.of_N (ev_pending e)) end |}.

(* the exact-arithmetic model is claimed to be the code only below this epoch length (Proofs/EpochFloatProofs.v);
   at or above it the code is compared with the float64 model *)
Definition two45 : N := Eval vm_compute in 2 ^ 45.
Definition two63 : N := Eval vm_compute in 2 ^ 63.
Definition exact_range (n : N) : bool := n <? two45.

(* ---------------- model == implementation ? ---------------- *)
Definition corr_run1 (S0 n : N) (bs : list N) (chk_float err : bool) (evs : list obs_event) (P : N) : bool :=
  if config_valid n P then
    negb err &&
    (if exact_range n then list_eqb obs_event_eqb evs (map obs_of (run_ix S0 n P 0 (init S0 n) bs)) else true) &&
    (if chk_float || negb (exact_range n)
     then list_eqb obs_event_eqb evs (map obs_of (run_ix_f S0 n P 0 (init S0 n) bs)) else true)
  else err && match evs with [] => true | _ => false end.

Definition corr (c : case18) : bool :=
  match c with
  | CRun S0 n bs chk_float groups =>
      forallb (fun g : group => let '(rs, err, evs) := g in
                 forallb (corr_run1 S0 n bs chk_float err evs) (percentages rs)) groups
  | CSteps S0 n P last waiting bs err obs =>
      if config_valid n P then
        negb err &&
        (if exact_range n then list_eqb obs_step_eqb obs (map obs_of_step (trace S0 n P (St last waiting) bs)) else true)
      else err && match obs with [] => true | _ => false end
  end.

(* ---------------- the property, evaluated on what the implementation published ---------------- *)

(* the property's quantifier: epoch length >= 1, percentage 0..99; plus the stated ranges (uint64 arithmetic
   does not wrap, float test = exact test) *)
Definition range_ok (S0 n : N) (bs : list N) : bool :=
  (1 <=? n) && exact_range n && (S0 <? two63) && forallb (fun b => b <? two63) bs.
Definition in_quantifier (S0 n P : N) (bs : list N) : bool := (P <? 100) && range_ok S0 n bs.

Fixpoint strictly_increasing (l : list N) : bool :=
  match l with
  | a :: ((b :: _) as t) => (a <? b) && strictly_increasing t
  | _ => true
  end.
Fixpoint strictly_increasing_nat (l : list nat) : bool :=
  match l with
  | a :: ((b :: _) as t) => Nat.ltb a b && strictly_increasing_nat t
  | _ => true
  end.

Definition pair_eqb (a b : N * N) : bool := (fst a =? fst b) && (snd a =? snd b).

(* `eff` is `effective S0 bs`; the reference list below is `expected S0 n P bs` unfolded, with the part that does not
   depend on P computed once (Properties/C18.v: C18_spec_reference_is_expected) *)
Definition spec_group (S0 n : N) (bs eff : list N) (g : group) : bool :=
  let '(rs, err, evs) := g in
  let published := map (fun o => (oe_block o, oe_epoch o)) evs in
  let shape_ok :=
    (* epoch numbers in notifications strictly increase *)
    strictly_increasing (map oe_epoch evs) &&
    (* each event was published while processing the delivery it is about; one event per delivery at most *)
    forallb (fun o => match nth_error bs (oe_index o) with Some b => b =? oe_block o | None => false end) evs &&
    strictly_increasing_nat (map oe_index evs) in
  forallb (fun P =>
    if P <? 100 then
      negb err && shape_ok &&
      (* exactly one notification for each epoch in which a qualifying block is seen, at the first such block,
         and none for any other epoch: the published (block, epoch) list is the reference list *)
      list_eqb pair_eqb published (map (fun b => (b, ref_epoch S0 n b)) (first_qualifying S0 n P [] eff))
    else true) (percentages rs).

(* from an arbitrary status only the local part of the property is meaningful: an event is about a new highest
   block that qualifies, and names that block's epoch *)
Fixpoint spec_steps (S0 n P last : N) (bs : list N) (obs : list obs_step) : bool :=
  match bs, obs with
  | [], [] => true
  | b :: t, o :: t' =>
      match os_event o with
      | None => true
      | Some (e, _) => (last <? b) && (S0 <=? b) && ref_qualifies S0 n P b && (e =? ref_epoch S0 n b)
      end && spec_steps S0 n P (N.max last b) t t'
  | _, _ => false
  end.

Definition spec (c : case18) : bool :=
  match c with
  | CRun S0 n bs _ groups =>
      if range_ok S0 n bs then forallb (spec_group S0 n bs (effective S0 bs)) groups else true
  | CSteps S0 n P last waiting bs err obs =>
      if in_quantifier S0 n P bs && (S0 <=? last) && (last <? two63) then negb err && spec_steps S0 n P last bs obs
      else true
  end.

Fixpoint bad_indices {A} (f : A -> bool) (i : nat) (l : list A) : list nat :=
  match l with [] => [] | x :: t => if f x then bad_indices f (S i) t else i :: bad_indices f (S i) t end.
