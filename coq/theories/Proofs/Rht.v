(* L-rht-wf, L-verify, L-rht-closed for the append-only tree (nat-indexed theory). *)
From Coq Require Import Arith Lia List Bool PeanoNat.
From Verif Require Import Model.Merkle Model.MerkleSpec Proofs.Frontier.
Import ListNotations.

Section Rht.
Context {hash : Type}.
Variable node : hash -> hash -> hash.
Variable z0 : hash.
Variable f : nat -> hash.
Variable heq_dec : forall a b : hash, {a = b} + {a <> b}.
Notation sub := (sub node z0 f).
Notation rht := (@rht hash).
Notation ins := (ins heq_dec).
Notation walk := (fun m h x idx => walk m h x (Nat.testbit idx)).
Notation calc := (fun lvl sibs cur idx => calc node lvl sibs cur (Nat.testbit idx)).

Definition WF (m : rht) := forall k l r, m k = Some (l, r) -> k = node l r.
Lemma ins_WF m l r : WF m -> WF (ins m (node l r) (l, r)).
Proof.
  intros Hw k l' r' H. unfold ins in H. destruct (heq_dec k (node l r)) as [->|Hne]; [|eauto].
  destruct (m (node l r)) as [[l0 r0]|] eqn:E.
  - inversion H; subst. eauto.
  - inversion H; subst. reflexivity.
Qed.



Lemma calc_app lvl a b cur idx : calc lvl (a ++ b) cur idx = calc (lvl + length a) b (calc lvl a cur idx) idx.
Proof.
  revert lvl cur. induction a as [|s t IH]; intros lvl cur; cbn [app Merkle.calc length].
  - rewrite Nat.add_0_r. reflexivity.
  - rewrite IH. f_equal. lia.
Qed.

(* C08, first sentence, from well-formedness alone *)
Theorem walk_calc m : WF m -> forall h x idx s y,
  walk m h x idx = Some (s, y) -> length s = h /\ calc 0 s y idx = x.
Proof.
  intros Hw. induction h as [|h IH]; intros x idx s y Hwalk; cbn [Merkle.walk] in Hwalk.
  - inversion Hwalk; subst. split; reflexivity.
  - destruct (m x) as [[l r]|] eqn:Em; [|discriminate]. pose proof (Hw _ _ _ Em) as Hx.
    destruct (Nat.testbit idx h) eqn:Hb.
    + destruct (walk m h r idx) as [[s' y']|] eqn:Ew; [|discriminate]. inversion Hwalk; subst.
      destruct (IH _ _ _ _ Ew) as [Hlen Hc]. split; [rewrite app_length; cbn; lia|].
      rewrite calc_app, Hc, Hlen. cbn [Merkle.calc Nat.add]. rewrite Hb. reflexivity.
    + destruct (walk m h l idx) as [[s' y']|] eqn:Ew; [|discriminate]. inversion Hwalk; subst.
      destruct (IH _ _ _ _ Ew) as [Hlen Hc]. split; [rewrite app_length; cbn; lia|].
      rewrite calc_app, Hc, Hlen. cbn [Merkle.calc Nat.add]. rewrite Hb. reflexivity.
Qed.

(* closure (up to height H): all non-empty subtrees of version n below the root level are present with their true children *)
Definition Closed (H : nat) (m : rht) (n : nat) := forall h k, h < H -> k * 2^(S h) < n ->
  m (sub (S h) k n) = Some (sub h (2*k) n, sub h (2*k+1) n).

Theorem walk_closed H m n : Closed H m n -> forall h j, h <= H -> j < n ->
  exists s, walk m h (sub h (j / 2^h) n) j = Some (s, f j).
Proof.
  intros Hc. induction h as [|h IH]; intros j HhH Hj; cbn [Merkle.walk].
  - eexists. rewrite Nat.pow_0_r, Nat.div_1_r. cbn [MerkleSpec.sub].
    assert (E : j <? n = true) by (apply Nat.ltb_lt; lia). rewrite E. reflexivity.
  - pose proof (div_pow_bounds j (S h)) as Hb.
    rewrite (Hc h (j / 2^(S h))) by lia.
    destruct (IH j ltac:(lia) Hj) as [s Hs].
    rewrite div_succ_pow. rewrite testbit_div.
    destruct (Nat.odd (j / 2^h)) eqn:Ho.
    + pose proof (odd_div2 _ Ho) as E. rewrite <- E. rewrite Hs. eexists; reflexivity.
    + pose proof (even_div2 _ Ho) as E. rewrite <- E. rewrite Hs. eexists; reflexivity.
Qed.


(* the siblings found under a closed version are determined by the leaf function alone (not by the node table) *)
Fixpoint sibs (h j n : nat) : list hash :=
  match h with
  | 0 => []
  | S h' => sibs h' j n ++ [sub h' (if Nat.testbit j h' then j / 2^h' - 1 else j / 2^h' + 1) n]
  end.
Theorem walk_closed_sibs H m n : Closed H m n -> forall h j, h <= H -> j < n ->
  walk m h (sub h (j / 2^h) n) j = Some (sibs h j n, f j).
Proof.
  intros Hc. induction h as [|h IH]; intros j HhH Hj; cbn [Merkle.walk sibs].
  - rewrite Nat.pow_0_r, Nat.div_1_r. cbn [MerkleSpec.sub].
    assert (E : j <? n = true) by (apply Nat.ltb_lt; lia). rewrite E. reflexivity.
  - pose proof (div_pow_bounds j (S h)) as Hb.
    rewrite (Hc h (j / 2^(S h))) by lia.
    pose proof (IH j ltac:(lia) Hj) as Hs.
    rewrite div_succ_pow. rewrite testbit_div.
    destruct (Nat.odd (j / 2^h)) eqn:Ho.
    + pose proof (odd_div2 _ Ho) as E. rewrite <- E. rewrite Hs.
      replace (j / 2 ^ h - 1) with (2 * (j / 2 ^ h / 2)) by lia. reflexivity.
    + pose proof (even_div2 _ Ho) as E. rewrite <- E. rewrite Hs.
      replace (j / 2 ^ h + 1) with (2 * (j / 2 ^ h / 2) + 1) by lia. reflexivity.
Qed.

(* C08 for the append-only tree: every covered index under every closed version verifies against the true leaf *)
Corollary proof_verifies m n H j : WF m -> Closed H m n -> j < n -> j < 2^H ->
  exists s, walk m H (sub H 0 n) j = Some (s, f j) /\ calc 0 s (f j) j = sub H 0 n.
Proof.
  intros Hw Hc Hj Hlt. destruct (walk_closed H m n Hc H j (le_n _) Hj) as [s Hs].
  rewrite Nat.div_small in Hs by lia. exists s. split; [exact Hs|].
  exact (proj2 (walk_calc m Hw _ _ _ _ _ Hs)).
Qed.

(* ---- closure is maintained by appends (storeNodes ignores duplicates) ---- *)
Hypothesis node_inj : forall a b c d, node a b = node c d -> a = c /\ b = d.

Lemma ins_keeps m k v x w : m x = Some w -> ins m k v x = Some w.
Proof. intros H. unfold ins. destruct (heq_dec x k) as [->|]; [rewrite H; reflexivity|exact H]. Qed.
Lemma ins_gets m l r : WF m -> ins m (node l r) (l, r) (node l r) = Some (l, r).
Proof.
  intros Hw. unfold ins. destruct (heq_dec (node l r) (node l r)) as [_|]; [|congruence].
  destruct (m (node l r)) as [[l' r']|] eqn:E; [|reflexivity].
  apply Hw in E. apply node_inj in E as [-> ->]. reflexivity.
Qed.
Lemma Closed_ins H m n k v : Closed H m n -> Closed H (ins m k v) n.
Proof. intros Hc h k' Hh Hk. apply ins_keeps, Hc; assumption. Qed.

(* the entries written while appending leaf i (spec form; climb_next shows Go computes exactly these) *)
Fixpoint ins_path (m : rht) (i : nat) (H : nat) : rht :=
  match H with 0 => m | S h =>
    let k := i / 2^(S h) in
    ins (ins_path m i h) (node (sub h (2*k) (S i)) (sub h (2*k+1) (S i))) (sub h (2*k) (S i), sub h (2*k+1) (S i))
  end.

Lemma ins_path_WF m i H : WF m -> WF (ins_path m i H).
Proof. intros Hw. induction H as [|h IH]; cbn [ins_path]; [exact Hw|]. apply ins_WF, IH. Qed.
Lemma ins_path_keeps m i H x w : m x = Some w -> ins_path m i H x = Some w.
Proof. intros Hx. induction H as [|h IH]; cbn [ins_path]; [exact Hx|]. apply ins_keeps, IH. Qed.
Lemma ins_path_has m i H h : WF m -> h < H ->
  let k := i / 2^(S h) in
  ins_path m i H (sub (S h) k (S i)) = Some (sub h (2*k) (S i), sub h (2*k+1) (S i)).
Proof.
  intros Hw. induction H as [|H' IH]; intros Hh; [lia|]. cbn [ins_path].
  destruct (Nat.eq_dec h H') as [->|Hne].
  - cbn zeta. cbn [MerkleSpec.sub]. apply ins_gets, ins_path_WF, Hw.
  - cbn zeta in *. apply ins_keeps. apply IH. lia.
Qed.

Theorem append_keeps_closed m i H : WF m -> Closed H m i -> i < 2^H ->
  Closed H (ins_path m i H) (S i).
Proof.
  intros Hw Hc Hi h k Hh Hk.
  pose proof (div_pow_bounds i (S h)) as Hb.
  destruct (Nat.eq_dec k (i / 2^(S h))) as [->|Hne].
  - apply (ins_path_has m i H h Hw Hh).
  - (* a subtree strictly left of leaf i: complete, unchanged since version i *)
    assert (Hfull : (k + 1) * 2^(S h) <= i) by nia.
    apply ins_path_keeps.
    assert (E1 : sub (S h) k (S i) = sub (S h) k i) by (apply sub_full; lia).
    assert (E2 : sub h (2*k) (S i) = sub h (2*k) i) by (apply sub_full; cbn [Nat.pow] in *; nia).
    assert (E3 : sub h (2*k+1) (S i) = sub h (2*k+1) i) by (apply sub_full; cbn [Nat.pow] in *; nia).
    rewrite E1, E2, E3. apply Hc; [exact Hh|nia].
Qed.
Lemma Closed_ins_path H m n i H' : Closed H m n -> Closed H (ins_path m i H') n.
Proof. intros Hc h k Hh Hk. apply ins_path_keeps, Hc; assumption. Qed.
Lemma Closed_0 H m : Closed H m 0.
Proof. intros h k _ Hk. lia. Qed.
End Rht.


(* Go's getSiblings (with the zero-hash fallback) returns the strict walk's siblings whenever every node on the path is present *)
Section SwalkWalk.
Context {hash : Type}.
Variable zh : nat -> hash.
Lemma swalk_eq_walk (m : @Merkle.rht hash) : forall h x bit s y,
  Merkle.walk m h x bit = Some (s, y) -> Merkle.swalk zh m h x bit = s /\ Merkle.swalk_used_zero m h x bit = false.
Proof.
  induction h as [|h IH]; intros x bit s y Hw; cbn [Merkle.walk Merkle.swalk Merkle.swalk_used_zero] in *.
  - inversion Hw; subst. split; reflexivity.
  - destruct (m x) as [[l r]|]; [|discriminate].
    destruct (bit h).
    + destruct (Merkle.walk m h r bit) as [[s' y']|] eqn:E; [|discriminate]. inversion Hw; subst.
      destruct (IH _ _ _ _ E) as [-> Hz]. split; [reflexivity|exact Hz].
    + destruct (Merkle.walk m h l bit) as [[s' y']|] eqn:E; [|discriminate]. inversion Hw; subst.
      destruct (IH _ _ _ _ E) as [-> Hz]. split; [reflexivity|exact Hz].
Qed.
End SwalkWalk.
