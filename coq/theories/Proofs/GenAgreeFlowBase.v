(* The two decision functions at the heart of C02, GENERATED from aggsender/flows/flow_base.go by tools/go2coq on every run
     baseFlow.getLastSentBlockAndRetryCount       (where the next certificate starts, and its retry count)
     baseFlow.getNextHeightAndPreviousLER         (its height and the exit root it starts from)
   together with the CertificateStatus predicates of agglayer/types/types.go (IsOpen = slices.Contains(NonSettledStatuses, c),
   IsClosed, IsSettled, IsInError), compute what the protocol model of Model/AggsenderProtocol.v computes (last_sent_block,
   next_height_ler), for every certificate row and every table. The calls through the receiver are oracles of the generated code
   (StartL2Block(), getStartLER(), storage.GetCertificateHeaderByHeight(h)); the model's configuration and table instantiate them.
   Bounds: heights and block numbers are uint64 values, the retry count stays below 2^63 - 1 (Go int). *)
From Coq Require Import NArith ZArith List Bool Lia ZifyN ZifyBool.
From Verif Require Import Base.GoNum Model.Reconcile Model.AggsenderProtocol Gen.GenFlowBase.
Import ListNotations.
Open Scope N_scope.
Ltac zify_mod := (let tac := ltac:(idtac) in idtac); Zify.zify; Z.div_mod_to_equations; lia.

Section Agree.
Variable hash : Type.
Variables bev cev : Type.
Variable hash0 : hash.
Variable start_block : N.
Variable start_ler : hash.

Notation rowT := (row hash bev cev).
Notation hdrT := (CertificateHeader hash).

(* a row of certificate_info as the CertificateHeader the storage hands out *)
Definition hdr_of (r : rowT) : hdrT :=
  mkCertificateHeader hash (height r) (Z.of_N (retry r)) (if r_hasprev r then Some (prev r) else None)
    (new r) (from r) (to r) (status_code (st r)).

(* ---- the status predicates ---- *)
Lemma IsOpen_agree s : CertificateStatus_IsOpen (status_code s) = is_open s.
Proof. destruct s; reflexivity. Qed.
Lemma IsClosed_agree s : CertificateStatus_IsClosed (status_code s) = is_closed s.
Proof. destruct s; reflexivity. Qed.
Lemma IsSettled_agree s : CertificateStatus_IsSettled (status_code s) = is_settled s.
Proof. destruct s; reflexivity. Qed.
Lemma IsInError_agree s : CertificateStatus_IsInError (status_code s) = is_in_error s.
Proof. destruct s; reflexivity. Qed.
Lemma status3 s : N.eqb (status_code s) 3 = is_in_error s.
Proof. destruct s; reflexivity. Qed.

Lemma u64_sub1 x : 0 < x -> x < U64 -> u64_sub x 1 = x - 1.
Proof. unfold u64_sub, U64. intros H0 H1. zify_mod. Qed.
Lemma u64_add1 x : x + 1 < U64 -> u64_add x 1 = x + 1.
Proof. intros H. unfold u64_add. apply N.mod_small. exact H. Qed.
Lemma i64_add1 n : (Z.of_N n + 1 < 9223372036854775808)%Z -> i64_add (Z.of_N n) 1%Z = Z.of_N (n + 1).
Proof. intros H. unfold i64_add, i64_wrap. zify_mod. Qed.

(* ================= getLastSentBlockAndRetryCount ================= *)
Theorem getLastSentBlockAndRetryCount_agree (last : option rowT) :
  match last with Some r => from r < U64 /\ (Z.of_N (retry r) + 1 < 9223372036854775808)%Z | None => True end ->
  getLastSentBlockAndRetryCount hash start_block (option_map hdr_of last) =
  (fst (last_sent_block hash bev cev start_block last), Z.of_N (snd (last_sent_block hash bev cev start_block last))).
Proof.
  destruct last as [r|]; cbn [option_map last_sent_block getLastSentBlockAndRetryCount]; [|reflexivity].
  intros [Hf Hr]. unfold hdr_of at 1. cbn [CertificateHeader_Status CertificateHeader_ToBlock CertificateHeader_FromBlock CertificateHeader_RetryCount].
  rewrite status3. destruct (is_in_error (st r)); cbn [fst snd]; [|reflexivity].
  unfold hdr_of. cbn [CertificateHeader_Status CertificateHeader_ToBlock CertificateHeader_FromBlock CertificateHeader_RetryCount].
  rewrite i64_add1 by exact Hr.
  destruct (N.ltb_spec 0 (from r)) as [H0|H0]; [rewrite u64_sub1 by assumption|]; reflexivity.
Qed.

(* ================= getNextHeightAndPreviousLER ================= *)
(* the storage oracle: the table of the model (GetCertificateHeaderByHeight = the row of that height, or nothing) *)
Definition by_height (rs : list rowT) (h : N) : option hdrT * gerr :=
  (option_map hdr_of (find (fun q => height q =? h) rs), EOK).

Theorem getNextHeightAndPreviousLER_agree (rs : list rowT) (last : option rowT) :
  match last with Some r => height r + 1 < U64 | None => True end ->
  match next_height_ler hash bev cev start_ler rs last with
  | Some (h, p) => getNextHeightAndPreviousLER hash hash0 (start_ler, EOK) (by_height rs) (option_map hdr_of last) = (h, p, EOK)
  | None => snd (getNextHeightAndPreviousLER hash hash0 (start_ler, EOK) (by_height rs) (option_map hdr_of last)) <> EOK
  end.
Proof.
  destruct last as [r|]; cbn [option_map next_height_ler getNextHeightAndPreviousLER]; [|reflexivity].
  intros Hh. unfold hdr_of.
  cbn [CertificateHeader_Status CertificateHeader_Height CertificateHeader_NewLocalExitRoot CertificateHeader_PreviousLocalExitRoot].
  rewrite IsClosed_agree, IsSettled_agree, IsInError_agree.
  destruct (st r) eqn:Est; cbn [is_closed is_open negb is_settled is_in_error snd]; try discriminate.
  - (* InError *)
    unfold hdr_of. cbn [CertificateHeader_Status CertificateHeader_Height CertificateHeader_NewLocalExitRoot CertificateHeader_PreviousLocalExitRoot].
    destruct (r_hasprev r); [reflexivity|].
    destruct (N.eqb_spec (height r) 0) as [H0|H0]; [try rewrite H0; reflexivity|].
    rewrite u64_sub1 by lia. unfold by_height.
    destruct (find (fun q => height q =? height r - 1) rs) as [q|]; cbn [option_map err_eqb negb snd]; [|discriminate].
    unfold hdr_of. cbn [CertificateHeader_Status CertificateHeader_Height CertificateHeader_NewLocalExitRoot]. rewrite IsSettled_agree.
    destruct (is_settled (st q)); cbn [negb snd]; [reflexivity|discriminate].
  - (* Settled *)
    unfold hdr_of. cbn [CertificateHeader_Height CertificateHeader_NewLocalExitRoot]. rewrite u64_add1 by exact Hh. reflexivity.
Qed.


(* ---- what the equalities mean for the certificates of the protocol model: the height and the previous exit root of every
   certificate the builder returns ARE the outputs of the translated getNextHeightAndPreviousLER on the last row and the table,
   and (PP flow) its first block and retry count ARE those of the translated getLastSentBlockAndRetryCount ---- *)
Variable b_dc : bev -> N.
Variable tree : Type.
Variable require_events : bool.
Variable cert_type : N.
Notation stateT := (state hash bev cev tree).

Theorem built_height_and_prev_are_generated (s : stateT) last rc f t sb rc' :
  match last with Some r => height r + 1 < U64 | None => True end ->
  build_range hash bev cev b_dc tree start_ler require_events cert_type s last rc f t = Some (sb, rc') ->
  getNextHeightAndPreviousLER hash hash0 (start_ler, EOK) (by_height (rows s)) (option_map hdr_of last) = (s_height sb, s_prev sb, EOK).
Proof.
  intros Hh Hb. unfold build_range in Hb.
  destruct (synced s <? t); [discriminate|].
  destruct (require_events && _ && _); [discriminate|]. destruct (_ && _); [discriminate|].
  pose proof (getNextHeightAndPreviousLER_agree (rows s) last Hh) as Ha.
  destruct (next_height_ler hash bev cev start_ler (rows s) last) as [[h p]|]; [|discriminate].
  destruct (new_ler _ _ _ _ _ _); [|discriminate]. injection Hb as <- <-. exact Ha.
Qed.

Theorem built_start_and_retry_are_generated (s : stateT) cut sb rc :
  match hd_error (rows s) with Some r => from r < U64 /\ (Z.of_N (retry r) + 1 < 9223372036854775808)%Z | None => True end ->
  build hash bev cev b_dc tree start_block start_ler require_events cert_type s cut = Some (sb, rc) ->
  getLastSentBlockAndRetryCount hash start_block (option_map hdr_of (hd_error (rows s))) = (s_from sb - 1, Z.of_N rc).
Proof.
  intros Hb Hs. rewrite (getLastSentBlockAndRetryCount_agree _ Hb). unfold build in Hs.
  destruct (last_sent_block hash bev cev start_block (hd_error (rows s))) as [prev_to rc0]. cbn [fst snd].
  destruct (synced s <=? prev_to); [discriminate|]. unfold build_range in Hs.
  destruct (synced s <? _); [discriminate|].
  destruct (require_events && _ && _); [discriminate|]. destruct (_ && _); [discriminate|].
  destruct (next_height_ler _ _ _ _ _ _) as [[h p]|]; [|discriminate]. destruct (new_ler _ _ _ _ _ _); [|discriminate].
  injection Hs as <- <-. cbn [s_from]. f_equal. lia.
Qed.

End Agree.
