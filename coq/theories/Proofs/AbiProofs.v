(* Proofs about Model/Abi.v: the decoder inverts the canonical encoding (for every well-typed argument list with one
   trailing `bytes`), hence the byte-level instance of C20's abstract ABI layer reads back exactly the claim a caller
   encoded. *)
From Coq Require Import Arith NArith List Bool Lia.
From Verif Require Import Base.Bytes Model.FindCall Model.Abi.
Import ListNotations.
Open Scope N_scope.

Lemma two256_pow : two256 = 256 ^ N.of_nat 32.
Proof. vm_compute. reflexivity. Qed.
Lemma two160_lt : two160 < two256.
Proof. vm_compute. reflexivity. Qed.
Lemma max_u32_lt : max_u32 < two256.
Proof. vm_compute. reflexivity. Qed.

(* ---- reading inside a concatenation ---- *)
Lemma skipn_app_len : forall {X} (pre x : list X) k, length pre = k -> skipn k (pre ++ x) = x.
Proof. intros X pre x k <-. rewrite skipn_app, skipn_all, Nat.sub_diag. reflexivity. Qed.

Lemma firstn_app_len : forall {X} (a b : list X) n, length a = n -> firstn n (a ++ b) = a.
Proof. intros X a b n <-. rewrite firstn_app, firstn_all, Nat.sub_diag. cbn. apply app_nil_r. Qed.

Lemma word_at_mid : forall pre post k n, length pre = k -> n < two256 ->
  word_at (pre ++ be 32 n ++ post) k = n.
Proof.
  intros pre post k n Hk Hn. unfold word_at. rewrite (skipn_app_len pre _ k Hk).
  rewrite (firstn_app_len (be 32 n) post 32 (be_length 32 n)). apply of_be_be. now rewrite <- two256_pow.
Qed.

Lemma words_at_mid : forall l pre post k, Forall (fun x => x < two256) l -> length pre = k ->
  words_at (pre ++ concat (map (be 32) l) ++ post) k (length l) = l.
Proof.
  induction l as [|x l IH]; intros pre post k Hall Hk; [reflexivity|].
  inversion Hall as [|? ? Hx Hl]; subst. cbn [map concat length words_at]. rewrite <- app_assoc.
  rewrite (word_at_mid pre _ (length pre) x eq_refl Hx). f_equal.
  replace (pre ++ be 32 x ++ concat (map (be 32) l) ++ post) with ((pre ++ be 32 x) ++ concat (map (be 32) l) ++ post)
    by (now rewrite <- app_assoc).
  apply IH; [exact Hl|]. rewrite app_length, be_length. reflexivity.
Qed.

Lemma concat_be_length : forall l, length (concat (map (be 32) l)) = (32 * length l)%nat.
Proof. induction l as [|x l IH]; [reflexivity|]. cbn [map concat length]. rewrite app_length, be_length, IH. lia. Qed.

Lemma enc_static_length : forall t v, wt t v -> length (enc_static v) = width t.
Proof.
  intros t v H. destruct t, v; cbn [wt] in H; try contradiction; cbn [enc_static width]; try apply be_length.
  destruct H as [H _]. rewrite concat_be_length, H. reflexivity.
Qed.

(* ---- one static argument ---- *)
Lemma unpack_one_static : forall t v pre post pos, wt t v -> length pre = pos ->
  unpack_one t pos (pre ++ enc_static v ++ post) = Some v.
Proof.
  intros t v pre post pos Hwt Hpos. pose proof (enc_static_length t v Hwt) as Hlen.
  unfold unpack_one.
  assert (Hb : Nat.leb (pos + 32) (length (pre ++ enc_static v ++ post)) = true).
  { apply Nat.leb_le. rewrite !app_length, Hlen, Hpos. destruct t; cbn [width]; lia. }
  rewrite Hb.
  destruct t, v; cbn [wt] in Hwt; try contradiction; cbn [enc_static] in *.
  - (* TProof *) destruct Hwt as [H32 Hall].
    assert (Hb2 : Nat.leb (pos + 32 * 32) (length (pre ++ concat (map (be 32) l) ++ post)) = true).
    { apply Nat.leb_le. rewrite !app_length, Hlen, Hpos. cbn [width]. lia. }
    rewrite Hb2. pose proof (words_at_mid l pre post pos Hall Hpos) as Hw. rewrite H32 in Hw. rewrite Hw. reflexivity.
  - (* TU256 *) now rewrite (word_at_mid pre post pos n Hpos Hwt).
  - (* TB32 *) now rewrite (word_at_mid pre post pos n Hpos Hwt).
  - (* TU32 *) assert (Hn : n < two256) by (pose proof max_u32_lt; lia).
    rewrite (word_at_mid pre post pos n Hpos Hn). apply N.leb_le in Hwt. now rewrite Hwt.
  - (* TU8 *) assert (Hn : n < two256) by (assert (255 < two256) by (vm_compute; reflexivity); lia).
    rewrite (word_at_mid pre post pos n Hpos Hn). apply N.leb_le in Hwt. now rewrite Hwt.
  - (* TAddr *) assert (Hn : n < two256) by (pose proof two160_lt; lia).
    rewrite (word_at_mid pre post pos n Hpos Hn). now rewrite N.mod_small.
Qed.

(* ---- a prefix of static arguments ---- *)
Lemma widths_app : forall a b, widths (a ++ b) = (widths a + widths b)%nat.
Proof. induction a as [|t a IH]; intros b; [reflexivity|]. cbn [app widths fold_right]. fold (widths (a ++ b)). fold (widths a). rewrite IH. lia. Qed.

Lemma statics_length : forall ts vs, Forall2 wt ts vs -> length (concat (map enc_static vs)) = widths ts.
Proof.
  induction 1 as [|t v ts vs H _ IH]; [reflexivity|]. cbn [map concat widths fold_right]. fold (widths ts).
  rewrite app_length, IH, (enc_static_length t v H). reflexivity.
Qed.

Lemma unpack_args_statics : forall ts vs, Forall2 wt ts vs -> forall rest pre post pos, length pre = pos ->
  unpack_args (ts ++ rest) pos (pre ++ concat (map enc_static vs) ++ post) =
  match unpack_args rest (pos + widths ts) (pre ++ concat (map enc_static vs) ++ post) with
  | None => None
  | Some ws => Some (vs ++ ws)
  end.
Proof.
  induction 1 as [|t v ts vs H _ IH]; intros rest pre post pos Hpos.
  - cbn [app map concat widths fold_right]. rewrite Nat.add_0_r. now destruct (unpack_args rest pos _).
  - cbn [app map concat unpack_args widths fold_right]. fold (widths ts). rewrite <- app_assoc.
    rewrite (unpack_one_static t v pre _ pos H Hpos).
    replace (pre ++ enc_static v ++ concat (map enc_static vs) ++ post)
      with ((pre ++ enc_static v) ++ concat (map enc_static vs) ++ post) by (now rewrite <- app_assoc).
    rewrite (IH rest (pre ++ enc_static v) post (pos + width t)%nat)
      by (rewrite app_length, (enc_static_length t v H), Hpos; reflexivity).
    rewrite Nat.add_assoc. now destruct (unpack_args rest _ _).
Qed.

(* ---- the trailing `bytes` ---- *)
Lemma unpack_one_bytes : forall head md pos, length head = pos ->
  N.of_nat (pos + 32) < two256 -> N.of_nat (length md) < two256 ->
  unpack_one TBytes pos (head ++ be 32 (N.of_nat (pos + 32)) ++ be 32 (N.of_nat (length md)) ++ md ++ repeat 0 (pad32 (length md)))
  = Some (VBytes md).
Proof.
  intros head md pos Hpos Hoff Hmd. unfold unpack_one.
  set (pad := repeat 0 (pad32 (length md))).
  set (data := head ++ be 32 (N.of_nat (pos + 32)) ++ be 32 (N.of_nat (length md)) ++ md ++ pad).
  assert (Hlen : length data = (pos + 32 + 32 + length md + length pad)%nat).
  { unfold data. rewrite !app_length, !be_length, Hpos. lia. }
  assert (Hb : Nat.leb (pos + 32) (length data) = true) by (apply Nat.leb_le; lia).
  rewrite Hb.
  assert (Hw : word_at data pos = N.of_nat (pos + 32)) by (unfold data; now apply word_at_mid).
  rewrite Hw.
  assert (Hb2 : (N.of_nat (pos + 32) + 32 <=? N.of_nat (length data)) = true) by (apply N.leb_le; lia).
  rewrite Hb2.
  assert (Hk : (N.to_nat (N.of_nat (pos + 32) + 32) - 32 = pos + 32)%nat) by lia.
  rewrite Hk.
  assert (Hw2 : word_at data (pos + 32) = N.of_nat (length md)).
  { unfold data. replace (head ++ be 32 (N.of_nat (pos + 32)) ++ be 32 (N.of_nat (length md)) ++ md ++ pad)
      with ((head ++ be 32 (N.of_nat (pos + 32))) ++ be 32 (N.of_nat (length md)) ++ md ++ pad) by (now rewrite <- app_assoc).
    apply word_at_mid; [rewrite app_length, be_length, Hpos; reflexivity | exact Hmd]. }
  rewrite Hw2.
  assert (Hb3 : (N.of_nat (pos + 32) + 32 + N.of_nat (length md) <=? N.of_nat (length data)) = true) by (apply N.leb_le; lia).
  rewrite Hb3. f_equal. f_equal.
  assert (Hk2 : N.to_nat (N.of_nat (pos + 32) + 32) = (pos + 64)%nat) by lia.
  rewrite Hk2, Nat2N.id. unfold data.
  replace (head ++ be 32 (N.of_nat (pos + 32)) ++ be 32 (N.of_nat (length md)) ++ md ++ pad)
    with ((head ++ be 32 (N.of_nat (pos + 32)) ++ be 32 (N.of_nat (length md))) ++ md ++ pad)
    by (now rewrite <- !app_assoc).
  rewrite skipn_app_len by (rewrite !app_length, !be_length, Hpos; lia).
  now apply firstn_app_len.
Qed.

(* ---- round trip ---- *)
Theorem abi_roundtrip : forall ts statics md, Forall2 wt ts statics ->
  N.of_nat (widths ts + 32) < two256 -> N.of_nat (length md) < two256 ->
  abi_unpack (ts ++ [TBytes]) (abi_pack statics md) = Some (statics ++ [VBytes md]).
Proof.
  intros ts statics md Hwt Hoff Hmd. pose proof (statics_length ts statics Hwt) as Hlen.
  unfold abi_unpack. destruct (abi_pack statics md) as [|b0 rest] eqn:E.
  { exfalso. apply (f_equal (@length N)) in E. unfold abi_pack in E. rewrite !app_length, !be_length in E. cbn in E. lia. }
  rewrite <- E. unfold abi_pack.
  set (tail := be 32 (N.of_nat (length (concat (map enc_static statics)) + 32)) ++ be 32 (N.of_nat (length md)) ++ md ++ repeat 0 (pad32 (length md))).
  change (unpack_args (ts ++ [TBytes]) 0 ([] ++ concat (map enc_static statics) ++ tail) = Some (statics ++ [VBytes md])).
  rewrite (unpack_args_statics ts statics Hwt [TBytes] [] tail 0%nat eq_refl).
  cbn [app Nat.add unpack_args]. unfold tail. rewrite Hlen.
  rewrite (unpack_one_bytes (concat (map enc_static statics)) md (widths ts) Hlen Hoff Hmd). reflexivity.
Qed.

(* ---- the claim ABIs ---- *)
Definition proof_ok (p : list N) : Prop := length p = 32%nat /\ Forall (fun x => x < two256) p.

Lemma sel_skip : forall s x, skipn 4 (sel_bytes s ++ x) = x.
Proof. intros. unfold sel_bytes. apply skipn_app_len, be_length. Qed.

Lemma sel_read : forall s x, s < 2 ^ 32 -> b_selector (sel_bytes s ++ x) = Some s.
Proof.
  intros s x Hs. unfold b_selector, sel_bytes.
  assert (Hb : Nat.leb 4 (length (be 4 s ++ x)) = true) by (apply Nat.leb_le; rewrite app_length, be_length; lia).
  rewrite Hb, (firstn_app_len (be 4 s) x 4 (be_length 4 s)). f_equal. apply of_be_be.
  change (256 ^ N.of_nat 4) with (2 ^ 32). exact Hs.
Qed.

Lemma widths_etrog : N.of_nat (widths [TProof; TProof; TU256; TB32; TB32; TU32; TAddr; TU32; TAddr; TU256] + 32) < two256.
Proof. vm_compute. reflexivity. Qed.
Lemma widths_pre : N.of_nat (widths [TProof; TU32; TB32; TB32; TU32; TAddr; TU32; TAddr; TU256] + 32) < two256.
Proof. vm_compute. reflexivity. Qed.

Theorem etrog_roundtrip : forall s p0 p1 gi mer rer onet oaddr dnet daddr amount md,
  proof_ok p0 -> proof_ok p1 -> gi < two256 -> mer < two256 -> rer < two256 -> onet <= max_u32 -> oaddr < two160 ->
  dnet <= max_u32 -> daddr < two160 -> amount < two256 -> N.of_nat (length md) < two256 ->
  b_unpack Etrog (encode_etrog s p0 p1 gi mer rer onet oaddr dnet daddr amount md) =
  Some (gi, {| d_proof_ler := p0; d_proof_rer := p1; d_mer := mer; d_rer := rer; d_dest_net := dnet; d_metadata := md_of md |}).
Proof.
  intros s p0 p1 gi mer rer onet oaddr dnet daddr amount md H0 H1 Hgi Hmer Hrer Hon Hoa Hdn Hda Ham Hmd.
  unfold b_unpack, encode_etrog. rewrite sel_skip.
  change etrog_tys with ([TProof; TProof; TU256; TB32; TB32; TU32; TAddr; TU32; TAddr; TU256] ++ [TBytes]).
  rewrite abi_roundtrip; [reflexivity | | exact widths_etrog | exact Hmd].
  repeat (constructor; [assumption|]). constructor.
Qed.

Theorem pre_roundtrip : forall s p0 idx mer rer onet oaddr dnet daddr amount md,
  proof_ok p0 -> idx <= max_u32 -> mer < two256 -> rer < two256 -> onet <= max_u32 -> oaddr < two160 ->
  dnet <= max_u32 -> daddr < two160 -> amount < two256 -> N.of_nat (length md) < two256 ->
  b_unpack PreEtrog (encode_pre s p0 idx mer rer onet oaddr dnet daddr amount md) =
  Some (idx, {| d_proof_ler := p0; d_proof_rer := []; d_mer := mer; d_rer := rer; d_dest_net := dnet; d_metadata := md_of md |}).
Proof.
  intros s p0 idx mer rer onet oaddr dnet daddr amount md H0 Hi Hmer Hrer Hon Hoa Hdn Hda Ham Hmd.
  unfold b_unpack, encode_pre. rewrite sel_skip.
  change pre_tys with ([TProof; TU32; TB32; TB32; TU32; TAddr; TU32; TAddr; TU256] ++ [TBytes]).
  rewrite abi_roundtrip; [reflexivity | | exact widths_pre | exact Hmd].
  repeat (constructor; [assumption|]). constructor.
Qed.

(* an encoded claim call, seen through FindCall's decode_claim on raw bytes *)
Theorem decode_encoded_etrog : forall s p0 p1 gi mer rer onet oaddr dnet daddr amount md,
  (s = sel_asset_etrog \/ s = sel_msg_etrog) ->
  proof_ok p0 -> proof_ok p1 -> gi < two256 -> mer < two256 -> rer < two256 -> onet <= max_u32 -> oaddr < two160 ->
  dnet <= max_u32 -> daddr < two160 -> amount < two256 -> N.of_nat (length md) < two256 ->
  decode_claim bytes b_selector b_unpack (encode_etrog s p0 p1 gi mer rer onet oaddr dnet daddr amount md) =
  Some (Etrog, s =? sel_msg_etrog, gi,
        {| d_proof_ler := p0; d_proof_rer := p1; d_mer := mer; d_rer := rer; d_dest_net := dnet; d_metadata := md_of md |}).
Proof.
  intros s p0 p1 gi mer rer onet oaddr dnet daddr amount md Hs H0 H1 Hgi Hmer Hrer Hon Hoa Hdn Hda Ham Hmd.
  unfold decode_claim.
  assert (Hs32 : s < 2 ^ 32) by (destruct Hs as [-> | ->]; vm_compute; reflexivity).
  unfold encode_etrog at 1. rewrite (sel_read s _ Hs32).
  assert (Hd : dispatch s = Some (Etrog, s =? sel_msg_etrog)) by (destruct Hs as [-> | ->]; reflexivity).
  rewrite Hd. now rewrite etrog_roundtrip.
Qed.

Theorem decode_encoded_pre : forall s p0 idx mer rer onet oaddr dnet daddr amount md,
  (s = sel_asset_pre \/ s = sel_msg_pre) ->
  proof_ok p0 -> idx <= max_u32 -> mer < two256 -> rer < two256 -> onet <= max_u32 -> oaddr < two160 ->
  dnet <= max_u32 -> daddr < two160 -> amount < two256 -> N.of_nat (length md) < two256 ->
  decode_claim bytes b_selector b_unpack (encode_pre s p0 idx mer rer onet oaddr dnet daddr amount md) =
  Some (PreEtrog, s =? sel_msg_pre, idx,
        {| d_proof_ler := p0; d_proof_rer := []; d_mer := mer; d_rer := rer; d_dest_net := dnet; d_metadata := md_of md |}).
Proof.
  intros s p0 idx mer rer onet oaddr dnet daddr amount md Hs H0 Hi Hmer Hrer Hon Hoa Hdn Hda Ham Hmd.
  unfold decode_claim.
  assert (Hs32 : s < 2 ^ 32) by (destruct Hs as [-> | ->]; vm_compute; reflexivity).
  unfold encode_pre at 1. rewrite (sel_read s _ Hs32).
  assert (Hd : dispatch s = Some (PreEtrog, s =? sel_msg_pre)) by (destruct Hs as [-> | ->]; reflexivity).
  rewrite Hd. now rewrite pre_roundtrip.
Qed.

(* the decoder rejects what go-ethereum rejects: too short for the head, or a uint32 slot above 2^32-1 *)
Lemma unpack_short : forall t pos data, (length data < pos + 32)%nat -> unpack_one t pos data = None.
Proof. intros t pos data H. unfold unpack_one. assert (E : Nat.leb (pos + 32) (length data) = false) by (apply Nat.leb_gt; lia). now rewrite E. Qed.

(* ---- composition with the call-tree theorems: what is recorded for a claim whose matching call was ENCODED by its
   caller as the Solidity ABI prescribes ---- *)
From Verif Require Import Proofs.FindCallProofs.

Theorem found_encoded_etrog_records : forall hash2 (root : call bytes) bridge cl c cl'
    s p0 p1 gi mer rer onet oaddr dnet daddr amount md,
  set_claim_calldata bytes b_selector b_unpack hash2 (Some root) bridge cl = (ROk c, cl') ->
  c_inp c = encode_etrog s p0 p1 gi mer rer onet oaddr dnet daddr amount md ->
  (s = sel_asset_etrog \/ s = sel_msg_etrog) ->
  proof_ok p0 -> proof_ok p1 -> gi < two256 -> mer < two256 -> rer < two256 -> onet <= max_u32 -> oaddr < two160 ->
  dnet <= max_u32 -> daddr < two160 -> amount < two256 -> N.of_nat (length md) < two256 ->
  gi = cl_gi cl /\
  records hash2 cl cl' (c_from c) Etrog (s =? sel_msg_etrog)
    {| d_proof_ler := p0; d_proof_rer := p1; d_mer := mer; d_rer := rer; d_dest_net := dnet; d_metadata := md_of md |}.
Proof.
  intros hash2 root bridge cl c cl' s p0 p1 gi mer rer onet oaddr dnet daddr amount md Hrun Hinp Hs H0 H1 Hgi Hmer Hrer Hon Hoa Hdn Hda Ham Hmd.
  destruct (details_are_of_found_call bytes b_selector b_unpack hash2 root bridge cl c cl' Hrun) as (g & m & d & s' & Hd & Hrec & _ & _).
  rewrite Hinp, (decode_encoded_etrog s p0 p1 gi mer rer onet oaddr dnet daddr amount md Hs H0 H1 Hgi Hmer Hrer Hon Hoa Hdn Hda Ham Hmd) in Hd.
  injection Hd as <- <- Hg <-. split; [exact Hg | exact Hrec].
Qed.

Theorem found_encoded_pre_records : forall hash2 (root : call bytes) bridge cl c cl'
    s p0 idx mer rer onet oaddr dnet daddr amount md,
  set_claim_calldata bytes b_selector b_unpack hash2 (Some root) bridge cl = (ROk c, cl') ->
  c_inp c = encode_pre s p0 idx mer rer onet oaddr dnet daddr amount md ->
  (s = sel_asset_pre \/ s = sel_msg_pre) ->
  proof_ok p0 -> idx <= max_u32 -> mer < two256 -> rer < two256 -> onet <= max_u32 -> oaddr < two160 ->
  dnet <= max_u32 -> daddr < two160 -> amount < two256 -> N.of_nat (length md) < two256 ->
  idx = cl_gi cl /\
  records hash2 cl cl' (c_from c) PreEtrog (s =? sel_msg_pre)
    {| d_proof_ler := p0; d_proof_rer := []; d_mer := mer; d_rer := rer; d_dest_net := dnet; d_metadata := md_of md |}.
Proof.
  intros hash2 root bridge cl c cl' s p0 idx mer rer onet oaddr dnet daddr amount md Hrun Hinp Hs H0 Hi Hmer Hrer Hon Hoa Hdn Hda Ham Hmd.
  destruct (details_are_of_found_call bytes b_selector b_unpack hash2 root bridge cl c cl' Hrun) as (g & m & d & s' & Hd & Hrec & _ & _).
  rewrite Hinp, (decode_encoded_pre s p0 idx mer rer onet oaddr dnet daddr amount md Hs H0 Hi Hmer Hrer Hon Hoa Hdn Hda Ham Hmd) in Hd.
  injection Hd as <- <- Hg <-. split; [exact Hg | exact Hrec].
Qed.

(* ================= event logs: a dynamic `bytes` between static arguments ================= *)
Lemma unpack_one_bytes_mid : forall head mid md pos, length head = pos ->
  N.of_nat (pos + 32 + length mid) < two256 -> N.of_nat (length md) < two256 ->
  unpack_one TBytes pos (head ++ be 32 (N.of_nat (pos + 32 + length mid)) ++ mid ++ be 32 (N.of_nat (length md)) ++ md ++ repeat 0 (pad32 (length md)))
  = Some (VBytes md).
Proof.
  intros head mid md pos Hpos Hoff Hmd. unfold unpack_one.
  set (pad := repeat 0 (pad32 (length md))).
  set (off := (pos + 32 + length mid)%nat) in *.
  set (data := head ++ be 32 (N.of_nat off) ++ mid ++ be 32 (N.of_nat (length md)) ++ md ++ pad).
  assert (Hlen : length data = (off + 32 + length md + length pad)%nat).
  { unfold data, off. rewrite !app_length, !be_length, Hpos. lia. }
  assert (Hb : Nat.leb (pos + 32) (length data) = true) by (apply Nat.leb_le; unfold off in Hlen; lia).
  rewrite Hb.
  assert (Hw : word_at data pos = N.of_nat off) by (unfold data; now apply word_at_mid).
  rewrite Hw.
  assert (Hb2 : (N.of_nat off + 32 <=? N.of_nat (length data)) = true) by (apply N.leb_le; lia).
  rewrite Hb2.
  assert (Hk : (N.to_nat (N.of_nat off + 32) - 32 = off)%nat) by lia.
  rewrite Hk.
  assert (Hw2 : word_at data off = N.of_nat (length md)).
  { unfold data. replace (head ++ be 32 (N.of_nat off) ++ mid ++ be 32 (N.of_nat (length md)) ++ md ++ pad)
      with ((head ++ be 32 (N.of_nat off) ++ mid) ++ be 32 (N.of_nat (length md)) ++ md ++ pad) by (now rewrite <- !app_assoc).
    apply word_at_mid; [unfold off; rewrite !app_length, be_length, Hpos; lia | exact Hmd]. }
  rewrite Hw2.
  assert (Hb3 : (N.of_nat off + 32 + N.of_nat (length md) <=? N.of_nat (length data)) = true) by (apply N.leb_le; lia).
  rewrite Hb3. f_equal. f_equal.
  assert (Hk2 : N.to_nat (N.of_nat off + 32) = (off + 32)%nat) by lia.
  rewrite Hk2, Nat2N.id. unfold data.
  replace (head ++ be 32 (N.of_nat off) ++ mid ++ be 32 (N.of_nat (length md)) ++ md ++ pad)
    with ((head ++ be 32 (N.of_nat off) ++ mid ++ be 32 (N.of_nat (length md))) ++ md ++ pad)
    by (now rewrite <- !app_assoc).
  rewrite skipn_app_len by (unfold off; rewrite !app_length, !be_length, Hpos; lia).
  now apply firstn_app_len.
Qed.

Theorem abi_roundtrip_mid : forall ts1 ts2 s1 s2 md, Forall2 wt ts1 s1 -> Forall2 wt ts2 s2 ->
  N.of_nat (widths ts1 + 32 + widths ts2) < two256 -> N.of_nat (length md) < two256 ->
  abi_unpack (ts1 ++ TBytes :: ts2) (abi_pack_mid s1 md s2) = Some (s1 ++ VBytes md :: s2).
Proof.
  intros ts1 ts2 s1 s2 md H1 H2 Hoff Hmd.
  pose proof (statics_length ts1 s1 H1) as L1. pose proof (statics_length ts2 s2 H2) as L2.
  unfold abi_unpack. destruct (abi_pack_mid s1 md s2) as [|b0 rest] eqn:E.
  { exfalso. apply (f_equal (@length N)) in E. unfold abi_pack_mid in E. rewrite !app_length, !be_length in E. cbn in E. lia. }
  rewrite <- E. unfold abi_pack_mid.
  set (h1 := concat (map enc_static s1)) in *. set (h2 := concat (map enc_static s2)) in *.
  set (tl := be 32 (N.of_nat (length md)) ++ md ++ repeat 0 (pad32 (length md))).
  change (unpack_args (ts1 ++ TBytes :: ts2) 0 ([] ++ h1 ++ (be 32 (N.of_nat (length h1 + 32 + length h2)) ++ h2 ++ tl)) = Some (s1 ++ VBytes md :: s2)).
  unfold h1 at 1. rewrite (unpack_args_statics ts1 s1 H1 (TBytes :: ts2) [] _ 0%nat eq_refl).
  fold h1. cbn [app Nat.add unpack_args].
  rewrite <- L1. unfold tl.
  rewrite (unpack_one_bytes_mid h1 h2 md (length h1) eq_refl) by (rewrite ?L1, ?L2; assumption).
  fold tl.
  cbn [width].
  replace (h1 ++ be 32 (N.of_nat (length h1 + 32 + length h2)) ++ h2 ++ tl)
    with ((h1 ++ be 32 (N.of_nat (length h1 + 32 + length h2))) ++ concat (map enc_static s2) ++ tl) by (unfold h2; now rewrite <- !app_assoc).
  rewrite <- (app_nil_r ts2) at 1.
  rewrite (unpack_args_statics ts2 s2 H2 [] (h1 ++ be 32 (N.of_nat (length h1 + 32 + length h2))) tl (length h1 + 32)%nat)
    by (rewrite app_length, be_length; reflexivity).
  cbn [unpack_args]. rewrite app_nil_r. reflexivity.
Qed.

Theorem bridge_event_roundtrip : forall f, bridge_fields_ok f -> decode_bridge_event (encode_bridge_event f) = Some f.
Proof.
  intros [lt onet oaddr dnet daddr amount md dc] (H1 & H2 & H3 & H4 & H5 & H6 & H7 & H8). cbn [bf_lt bf_onet bf_oaddr bf_dnet bf_daddr bf_amount bf_meta bf_dc] in *.
  unfold decode_bridge_event, encode_bridge_event. cbn [bf_lt bf_onet bf_oaddr bf_dnet bf_daddr bf_amount bf_meta bf_dc].
  change bridge_event_tys with ([TU8; TU32; TAddr; TU32; TAddr; TU256] ++ TBytes :: [TU32]).
  rewrite abi_roundtrip_mid; [reflexivity | | | vm_compute; reflexivity | exact H8].
  - repeat (constructor; [assumption|]). constructor.
  - repeat (constructor; [assumption|]). constructor.
Qed.

Theorem claim_event_roundtrip : forall f, claim_fields_ok f -> decode_claim_event (encode_claim_event f) = Some f.
Proof.
  intros [gi onet oaddr daddr amount] (H1 & H2 & H3 & H4 & H5). cbn [cf_gi cf_onet cf_oaddr cf_daddr cf_amount] in *.
  unfold decode_claim_event, encode_claim_event, abi_unpack. cbn [cf_gi cf_onet cf_oaddr cf_daddr cf_amount].
  set (vs := [VNum gi; VNum onet; VNum oaddr; VNum daddr; VNum amount]).
  assert (Hwt : Forall2 wt claim_event_tys vs) by (repeat (constructor; [assumption|]); constructor).
  destruct (concat (map enc_static vs)) as [|b0 rest] eqn:E.
  { exfalso. apply (f_equal (@length N)) in E. rewrite (statics_length _ _ Hwt) in E. cbn in E. lia. }
  rewrite <- E.
  pose proof (unpack_args_statics claim_event_tys vs Hwt [] [] [] 0%nat eq_refl) as H.
  rewrite !app_nil_r in H. cbn [app] in H. rewrite H. cbn [unpack_args]. rewrite app_nil_r. reflexivity.
Qed.
