(* What every reachable state of the tree store answers (C01, C08) and that the answers depend only on the
   surviving history, not on how the state was reached (C04 reorg-as-if, C07 retry-is-clean, restarts). *)
From Coq Require Import Arith NArith ZArith List Bool Lia Sorted.
From Verif Require Import Model.Merkle Model.MerkleSpec Model.TreeStore
  Proofs.Frontier Proofs.Rht Proofs.InitCache Proofs.BitFacts Proofs.ClimbNodes Proofs.TreeStoreProofs.
Import ListNotations.
Local Close Scope N_scope.

Lemma find_by_pos (rs : list root_row) : forall s n i,
  map r_pos rs = map N.of_nat (seq s n) -> s <= i < s + n ->
  find (fun r => N.eqb (r_pos r) (N.of_nat i)) rs = nth_error rs (i - s).
Proof.
  induction rs as [|r rs IH]; intros s n i E Hi.
  - destruct n; [lia|discriminate].
  - destruct n as [|n]; [discriminate|]. cbn [seq map] in E. inversion E as [[Er Ers]].
    cbn [find]. rewrite Er. destruct (N.eqb_spec (N.of_nat s) (N.of_nat i)) as [Eq|Ne].
    + apply Nat2N.inj in Eq. subst i. rewrite Nat.sub_diag. reflexivity.
    + assert (s <> i) by (intros ->; apply Ne; reflexivity).
      replace (i - s) with (S (i - S s)) by lia. cbn [nth_error]. apply (IH (S s) n i Ers). lia.
Qed.
Lemma find_by_pos_none (rs : list root_row) : forall s n i,
  map r_pos rs = map N.of_nat (seq s n) -> (i < s \/ s + n <= i) ->
  find (fun r => N.eqb (r_pos r) (N.of_nat i)) rs = None.
Proof.
  induction rs as [|r rs IH]; intros s n i E Hi; [reflexivity|].
  destruct n as [|n]; [discriminate|]. cbn [seq map] in E. inversion E as [[Er Ers]].
  cbn [find]. rewrite Er. destruct (N.eqb_spec (N.of_nat s) (N.of_nat i)) as [Eq|Ne].
  - apply Nat2N.inj in Eq. lia.
  - apply (IH (S s) n i Ers). lia.
Qed.
Lemma nth_error_seq' : forall n s i, i < n -> nth_error (seq s n) i = Some (s + i).
Proof.
  induction n as [|n IH]; intros s i Hi; [lia|]. destruct i as [|i]; cbn [seq nth_error]; [f_equal; lia|].
  rewrite IH by lia. f_equal. lia.
Qed.
Lemma rows_eq (a b : list root_row) :
  map r_hash a = map r_hash b -> map r_pos a = map r_pos b ->
  map (fun r => (r_block r, r_bpos r)) a = map (fun r => (r_block r, r_bpos r)) b -> a = b.
Proof.
  revert b. induction a as [|x a IH]; intros [|y b] H1 H2 H3; try discriminate; [reflexivity|].
  cbn [map] in *. inversion H1. inversion H2. inversion H3. f_equal; [|apply IH; assumption].
  destruct x, y. cbn in *. congruence.
Qed.

Section Cor.
Variable HT : nat.
Variable node : N -> N -> N.
Hypothesis node_inj : forall a b c d, node a b = node c d -> a = c /\ b = d.
Variable zhf : nat -> N.
Hypothesis Hzh : forall h, h <= HT -> zhf h = zero node 0%N h.
Notation Reach := (Reach HT node zhf).
Notation mroot := (mroot node 0%N).

(* ---- C01: the root recorded for deposit count i is the Merkle root of the first i+1 leaves of the history ---- *)
Theorem store_root_by_index db mem L i : Reach db mem L -> i < length L ->
  exists r, root_by_index db (N.of_nat i) = Some r /\ r_hash r = mroot (lf L) HT (S i) /\
            r_pos r = N.of_nat i /\ (r_block r, r_bpos r) = snd (nth i L (0%N, (0%N, 0%N))).
Proof.
  intros HR Hi. destruct (Reach_inv HT node node_inj zhf Hzh db mem L HR) as ([[Hh Hp] _ _ _ _] & _ & _ & Hlab).
  unfold root_by_index. rewrite (find_by_pos (t_roots db) 0 (length L) i Hp ltac:(lia)). rewrite Nat.sub_0_r.
  assert (Hlen : length (t_roots db) = length L).
  { apply (f_equal (@length _)) in Hp. rewrite !map_length, seq_length in Hp. exact Hp. }
  destruct (nth_error (t_roots db) i) as [r|] eqn:En; [|apply nth_error_None in En; lia].
  exists r. split; [reflexivity|].
  pose proof (map_nth_error r_hash _ _ En) as E1. rewrite Hh in E1.
  pose proof (map_nth_error r_pos _ _ En) as E2. rewrite Hp in E2.
  pose proof (map_nth_error (fun r => (r_block r, r_bpos r)) _ _ En) as E3. unfold labels_ok in Hlab. rewrite Hlab in E3.
  rewrite nth_error_map in E1, E2, E3. rewrite nth_error_seq' in E1, E2 by lia. cbn [option_map Nat.add] in E1, E2.
  inversion E1. inversion E2. split; [reflexivity|split; [reflexivity|]].
  rewrite (nth_error_nth' L (0%N, (0%N, 0%N)) Hi) in E3. cbn [option_map] in E3. inversion E3. reflexivity.
Qed.
Theorem store_root_beyond db mem L i : Reach db mem L -> length L <= i -> root_by_index db (N.of_nat i) = None.
Proof.
  intros HR Hi. destruct (Reach_inv HT node node_inj zhf Hzh db mem L HR) as ([[Hh Hp] _ _ _ _] & _).
  unfold root_by_index. apply (find_by_pos_none (t_roots db) 0 (length L) i Hp). lia.
Qed.

(* ---- C08: every proof served for a recorded version k and a covered index j < k verifies, and reaches the true leaf ---- *)
Theorem store_proof_verifies db mem L k j : Reach db mem L -> j < k -> k <= length L ->
  let root := mroot (lf L) HT k in
  let s := Gen.get_proof HT zhf db (N.of_nat j) root in
  s = sibs node 0%N (lf L) HT j k /\ length s = HT /\
  Gen.calculate_root node (lf L j) s (N.of_nat j) = root /\
  Gen.get_leaf HT db (N.of_nat j) root = Some (lf L j) /\
  Gen.get_proof_used_zero HT db (N.of_nat j) root = false.
Proof.
  intros HR Hj Hk root s.
  destruct (Reach_inv HT node node_inj zhf Hzh db mem L HR) as ([_ _ Hw Hc Hb] & _).
  assert (Hj2 : j < 2 ^ HT) by lia.
  pose proof (walk_closed_sibs node 0%N (lf L) HT (lookup db) k (Hc k Hk) HT j (le_n _) Hj) as Hwalk.
  rewrite Nat.div_small in Hwalk by exact Hj2.
  assert (Hwalk' : walk (lookup db) HT root (bitN (N.of_nat j)) = Some (sibs node 0%N (lf L) HT j k, lf L j)).
  { rewrite (walk_ext (lookup db) HT root _ (Nat.testbit j) (bitN_of_nat j)). exact Hwalk. }
  destruct (swalk_eq_walk zhf (lookup db) HT root _ _ _ Hwalk') as [Es Ez].
  destruct (walk_calc node (lookup db) Hw HT root j _ _ Hwalk) as [Hlen Hcalc].
  unfold s, Gen.get_proof, Gen.calculate_root, Gen.get_leaf, Gen.get_proof_used_zero.
  rewrite Es, Hwalk', Ez. repeat split; try assumption.
  rewrite (calc_ext node _ 0 _ _ (Nat.testbit j) (bitN_of_nat j)). exact Hcalc.
Qed.

(* ---- determinism: two reachable states with the same surviving history serve identical answers.
   This is "reorg = never seen" (one state went through the dropped blocks and Tree.Reorg, the other never saw them),
   "retry is clean" (one state went through aborted appends and cache invalidations) and "restart is invisible". ---- *)
Theorem same_history_same_roots db1 mem1 db2 mem2 L : Reach db1 mem1 L -> Reach db2 mem2 L -> t_roots db1 = t_roots db2.
Proof.
  intros H1 H2.
  destruct (Reach_inv HT node node_inj zhf Hzh _ _ _ H1) as ([[Hh1 Hp1] _ _ _ _] & _ & _ & Hl1).
  destruct (Reach_inv HT node node_inj zhf Hzh _ _ _ H2) as ([[Hh2 Hp2] _ _ _ _] & _ & _ & Hl2).
  apply rows_eq; [rewrite Hh1, Hh2|rewrite Hp1, Hp2|unfold labels_ok in *; rewrite Hl1, Hl2]; reflexivity.
Qed.
Theorem same_history_same_answers db1 mem1 db2 mem2 L : Reach db1 mem1 L -> Reach db2 mem2 L ->
  (forall i, root_by_index db1 i = root_by_index db2 i) /\
  (forall h, root_by_hash db1 h = root_by_hash db2 h) /\
  last_root db1 = last_root db2 /\
  (forall j k, j < k -> k <= length L ->
     Gen.get_proof HT zhf db1 (N.of_nat j) (mroot (lf L) HT k) = Gen.get_proof HT zhf db2 (N.of_nat j) (mroot (lf L) HT k) /\
     Gen.get_leaf HT db1 (N.of_nat j) (mroot (lf L) HT k) = Gen.get_leaf HT db2 (N.of_nat j) (mroot (lf L) HT k)).
Proof.
  intros H1 H2. pose proof (same_history_same_roots _ _ _ _ _ H1 H2) as Er.
  unfold root_by_index, root_by_hash, last_root. rewrite Er. repeat split; try reflexivity.
  - destruct (store_proof_verifies db1 mem1 L k j H1 H H0) as (E1 & _).
    destruct (store_proof_verifies db2 mem2 L k j H2 H H0) as (E2 & _). rewrite E1, E2. reflexivity.
  - destruct (store_proof_verifies db1 mem1 L k j H1 H H0) as (_ & _ & _ & E1 & _).
    destruct (store_proof_verifies db2 mem2 L k j H2 H H0) as (_ & _ & _ & E2 & _). rewrite E1, E2. reflexivity.
Qed.

(* progress: from any reachable state the next leaf is accepted (AddLeaf cannot get stuck or corrupt the store) *)
Theorem store_add_succeeds db mem L blk bpos leaf : Reach db mem L -> fresh_pos db blk bpos -> leaf <> 0%N -> length L < 2 ^ HT ->
  exists mem' db', Gen.add_leaf_exec HT node zhf db mem blk bpos (N.of_nat (length L)) leaf = (mem', inr db').
Proof.
  intros HR Hfresh Hleaf Hlen.
  destruct (Reach_inv HT node node_inj zhf Hzh db mem L HR) as (Hi & Hm & Hnz & _).
  set (x := (leaf, (blk, bpos))). set (g := lf (L ++ [x])).
  assert (Eg : forall i, i < length L -> lf L i = g i) by (intros i Hi'; apply lf_app_below; exact Hi').
  assert (Hnz' : nonzero (L ++ [x])) by (apply Forall_app; split; [exact Hnz|repeat constructor; exact Hleaf]).
  assert (Hnew : root_new HT node g db (length L)) by (exact (root_new_ok HT node node_inj zhf Hzh L db Hi Hlen x Hnz')).
  destruct (add_leaf_ok HT node node_inj zhf Hzh g db mem (length L) blk bpos
              (TInv_ext HT node (lf L) g db _ Eg Hi) (MemInv_ext HT node (lf L) g mem _ Eg Hm) Hlen Hfresh Hnew) as (mem' & db' & E & _).
  exists mem', db'. unfold g, lf in E. rewrite app_nth2 in E by lia. rewrite Nat.sub_diag in E. exact E.
Qed.
(* ... and a leaf with any other index is refused with ErrInvalidIndex, the store untouched *)
Theorem store_wrong_index_refused db mem L blk bpos idx leaf : Reach db mem L -> idx <> N.of_nat (length L) ->
  exists mem', Gen.add_leaf_exec HT node zhf db mem blk bpos idx leaf = (mem', inl EInvalidIndex).
Proof.
  intros HR Hidx. destruct (Reach_inv HT node node_inj zhf Hzh db mem L HR) as (Hi & Hm & _).
  destruct (add_leaf_wrong_index HT node node_inj zhf Hzh (lf L) db mem (length L) idx blk bpos leaf Hi Hm Hidx) as (mem' & E & _).
  exists mem'. exact E.
Qed.
End Cor.
