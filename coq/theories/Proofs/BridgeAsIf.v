(* C04 / C07 at the level of the whole bridge database: the tables of a processor state are a function of the surviving,
   successfully processed blocks alone — whatever faults, retries, restarts and reorgs lie behind it. Hence a reorged node
   has exactly the tables of a node that only ever processed the blocks below the reorg point (for histories without the
   destructive RemoveLegacyToken event, whose refutation is in Properties/C04.v). Generic in the tree parameters. *)
From Coq Require Import Arith NArith ZArith List Bool Lia Sorted.
From Verif Require Import Base.Bytes Model.Merkle Model.MerkleSpec Model.TreeStore Model.BridgeStore
  Proofs.TreeStoreProofs Proofs.TreeStoreCorollaries Proofs.BridgeStoreProofs Proofs.BridgeReach.
Import ListNotations.
Local Close Scope N_scope.

Section AsIf.
Variable HT : nat.
Variable node : N -> N -> N.
Variable zhf : nat -> N.
Variable leafh : bridge_ev -> N.
Notation pevent := (BridgeStore.Gen.process_event HT node zhf leafh).
Notation pevents := (BridgeStore.Gen.process_events HT node zhf leafh).
Notation pblock := (BridgeStore.Gen.process_block HT node zhf leafh).

(* what a block contributes to each table *)
Definition rows_bridges (blk : N) (es : list event) : list (N * bridge_ev) :=
  flat_map (fun e => match e with EBridge b => [(blk, b)] | _ => [] end) es.
Definition rows_claims (blk : N) (es : list event) : list row :=
  flat_map (fun e => match e with EClaim pos tag => [mkRow blk pos tag 0%N] | _ => [] end) es.
Definition rows_tm (blk : N) (es : list event) : list row :=
  flat_map (fun e => match e with ETokenMapping pos tag => [mkRow blk pos tag 0%N] | _ => [] end) es.
Definition rows_legacy (blk : N) (es : list event) : list row :=
  flat_map (fun e => match e with ELegacy pos addr tag => [mkRow blk pos tag addr] | _ => [] end) es.
Definition no_rm (es : list event) : Prop := forall a, ~ In (ERemoveLegacy a) es.

Lemma events_tables f blk : forall es x x', no_rm es -> pevents f blk x es = inr x' ->
  d_blocks (x_db x') = d_blocks (x_db x) /\
  d_bridges (x_db x') = d_bridges (x_db x) ++ rows_bridges blk es /\
  d_claims (x_db x') = d_claims (x_db x) ++ rows_claims blk es /\
  d_tm (x_db x') = d_tm (x_db x) ++ rows_tm blk es /\
  d_legacy (x_db x') = d_legacy (x_db x) ++ rows_legacy blk es.
Proof.
  induction es as [|e es IH]; intros x x' Hn E; cbn [BridgeStore.Gen.process_events] in E.
  - inversion E; subst. unfold rows_bridges, rows_claims, rows_tm, rows_legacy. cbn. rewrite !app_nil_r. repeat split.
  - destruct (pevent f blk x e) as [err|x1] eqn:Ee; [discriminate|].
    assert (Hn' : no_rm es) by (intros a Ha; apply (Hn a); right; exact Ha).
    destruct (IH x1 x' Hn' E) as (B1 & B2 & B3 & B4 & B5).
    assert (Estep : d_blocks (x_db x1) = d_blocks (x_db x) /\
                    d_bridges (x_db x1) = d_bridges (x_db x) ++ rows_bridges blk [e] /\
                    d_claims (x_db x1) = d_claims (x_db x) ++ rows_claims blk [e] /\
                    d_tm (x_db x1) = d_tm (x_db x) ++ rows_tm blk [e] /\
                    d_legacy (x_db x1) = d_legacy (x_db x) ++ rows_legacy blk [e]).
    { destruct e as [b|pos tag|pos tag|pos addr tag|addr]; cbn [BridgeStore.Gen.process_event] in Ee.
      - destruct (TreeStore.Gen.add_leaf_exec _ _ _ _ _ _ _ _ _) as [mem' [er|t']]; [discriminate|].
        destruct (hits f (x_cnt x) TRoot); [discriminate|]. destruct (hits_rht f (x_cnt x) _); [discriminate|].
        destruct (hits f _ TBridge); [discriminate|]. destruct (existsb _ _); [discriminate|]. inversion Ee; subst x1.
        cbn. rewrite !app_nil_r. repeat split.
      - destruct (hits f (x_cnt x) TClaim); [discriminate|]. destruct (row_key_exists _ _ _); [discriminate|]. inversion Ee; subst x1.
        cbn. rewrite !app_nil_r. repeat split.
      - destruct (hits f (x_cnt x) TTm); [discriminate|]. destruct (row_key_exists _ _ _); [discriminate|]. inversion Ee; subst x1.
        cbn. rewrite !app_nil_r. repeat split.
      - destruct (hits f (x_cnt x) TLegacy); [discriminate|]. destruct (row_key_exists _ _ _); [discriminate|]. inversion Ee; subst x1.
        cbn. rewrite !app_nil_r. repeat split.
      - exfalso. apply (Hn addr). left. reflexivity. }
    destruct Estep as (S1 & S2 & S3 & S4 & S5).
    change (e :: es) with ([e] ++ es).
    unfold rows_bridges, rows_claims, rows_tm, rows_legacy in *. rewrite !flat_map_app, !app_assoc.
    rewrite B1, B2, B3, B4, B5, S1, S2, S3, S4, S5. repeat split.
Qed.

(* the tables a clean history leaves behind *)
Definition blocks_of (ks : list block) := map k_num ks.
Definition bridges_of_hist (ks : list block) := flat_map (fun k => rows_bridges (k_num k) (k_events k)) ks.
Definition claims_of (ks : list block) := flat_map (fun k => rows_claims (k_num k) (k_events k)) ks.
Definition tm_of (ks : list block) := flat_map (fun k => rows_tm (k_num k) (k_events k)) ks.
Definition legacy_of (ks : list block) := flat_map (fun k => rows_legacy (k_num k) (k_events k)) ks.
Definition tables_are (d : bdb) (ks : list block) : Prop :=
  d_blocks d = blocks_of ks /\ d_bridges d = bridges_of_hist ks /\ d_claims d = claims_of ks /\
  d_tm d = tm_of ks /\ d_legacy d = legacy_of ks.

(* runs: `BRun ks st` — st was reached by ProcessBlock (any fault), Reorg, restart, and ks are the blocks that were
   processed successfully and not reorged away since *)
Inductive BRun : list block -> bstate -> Prop :=
| BRun_init : BRun [] bstate_new
| BRun_ok ks st f k st' : BRun ks st -> no_rm (k_events k) -> pblock f st k = (None, st') -> BRun (ks ++ [k]) st'
| BRun_fail ks st f k e st' : BRun ks st -> pblock f st k = (Some e, st') -> BRun ks st'
| BRun_reorg ks st b : BRun ks st -> BRun (filter (fun k => (k_num k <? b)%N) ks) (reorg st b)
| BRun_restart ks st : BRun ks st -> BRun ks (restart st).

Lemma pblock_ok_tables f st k st' ks : tables_are (st_db st) ks -> no_rm (k_events k) ->
  pblock f st k = (None, st') -> tables_are (st_db st') (ks ++ [k]).
Proof.
  intros (T1 & T2 & T3 & T4 & T5) Hn E. unfold BridgeStore.Gen.process_block in E.
  destruct (st_halted st); [discriminate|]. destruct (hits f _ TBlock); [discriminate|]. destruct (existsb _ _); [discriminate|].
  destruct (pevents f (k_num k) _ (k_events k)) as [[[err x] oe]|x'] eqn:Ev.
  - destruct (match oe with Some e0 => _ | None => _ end) as [mem1 added]. discriminate.
  - destruct (hits f (x_cnt x') TCommit); [discriminate|]. inversion E; subst st'. cbn [st_db].
    destruct (events_tables f (k_num k) (k_events k) _ x' Hn Ev) as (B1 & B2 & B3 & B4 & B5). cbn [x_db d_blocks d_bridges d_claims d_tm d_legacy] in *.
    unfold tables_are, blocks_of, bridges_of_hist, claims_of, tm_of, legacy_of.
    rewrite map_app, !flat_map_app. cbn [map flat_map]. rewrite !app_nil_r.
    rewrite B1, B2, B3, B4, B5, T1, T2, T3, T4, T5. repeat split.
Qed.

Lemma filter_none {A} (p : A -> bool) l : (forall r, In r l -> p r = false) -> filter p l = [].
Proof. induction l as [|r l IH]; intros H; [reflexivity|]. cbn [filter]. rewrite H by (left; reflexivity). apply IH. intros x Hx. apply H. right. exact Hx. Qed.
Lemma filter_flat_map_rows {A} (rows : block -> list A) (key : A -> N) (b : N) ks :
  (forall k r, In r (rows k) -> key r = k_num k) ->
  filter (fun r => (key r <? b)%N) (flat_map rows ks) = flat_map rows (filter (fun k => (k_num k <? b)%N) ks).
Proof.
  intros Hk. induction ks as [|k ks IH]; [reflexivity|]. cbn [flat_map filter]. rewrite filter_app, IH.
  destruct (k_num k <? b)%N eqn:E; cbn [flat_map].
  - f_equal. apply filter_all. intros r Hr. rewrite (Hk k r Hr). exact E.
  - rewrite (filter_none (fun r => (key r <? b)%N) (rows k)); [reflexivity|]. intros r Hr. rewrite (Hk k r Hr). exact E.
Qed.

Lemma in_rows_key_bridges k r : In r (rows_bridges (k_num k) (k_events k)) -> fst r = k_num k.
Proof. unfold rows_bridges. intros H. apply in_flat_map in H as (e & _ & He). destruct e; cbn in He; try contradiction. destruct He as [<-|[]]. reflexivity. Qed.
Lemma in_rows_key_claims k r : In r (rows_claims (k_num k) (k_events k)) -> w_block r = k_num k.
Proof. unfold rows_claims. intros H. apply in_flat_map in H as (e & _ & He). destruct e; cbn in He; try contradiction. destruct He as [<-|[]]. reflexivity. Qed.
Lemma in_rows_key_tm k r : In r (rows_tm (k_num k) (k_events k)) -> w_block r = k_num k.
Proof. unfold rows_tm. intros H. apply in_flat_map in H as (e & _ & He). destruct e; cbn in He; try contradiction. destruct He as [<-|[]]. reflexivity. Qed.
Lemma in_rows_key_legacy k r : In r (rows_legacy (k_num k) (k_events k)) -> w_block r = k_num k.
Proof. unfold rows_legacy. intros H. apply in_flat_map in H as (e & _ & He). destruct e; cbn in He; try contradiction. destruct He as [<-|[]]. reflexivity. Qed.

Lemma reorg_tables st b ks : tables_are (st_db st) ks -> tables_are (st_db (reorg st b)) (filter (fun k => (k_num k <? b)%N) ks).
Proof.
  intros (T1 & T2 & T3 & T4 & T5). unfold reorg, tables_are. cbn [st_db d_blocks d_bridges d_claims d_tm d_legacy].
  rewrite T1, T2, T3, T4, T5. clear T1 T2 T3 T4 T5. unfold blocks_of, bridges_of_hist, claims_of, tm_of, legacy_of. repeat split.
  - induction ks as [|k ks IH]; [reflexivity|]. cbn [map filter]. destruct (k_num k <? b)%N; cbn [map]; rewrite IH; reflexivity.
  - apply (filter_flat_map_rows (fun k => rows_bridges (k_num k) (k_events k)) fst). intros k r. apply in_rows_key_bridges.
  - apply (filter_flat_map_rows (fun k => rows_claims (k_num k) (k_events k)) w_block). intros k r. apply in_rows_key_claims.
  - apply (filter_flat_map_rows (fun k => rows_tm (k_num k) (k_events k)) w_block). intros k r. apply in_rows_key_tm.
  - apply (filter_flat_map_rows (fun k => rows_legacy (k_num k) (k_events k)) w_block). intros k r. apply in_rows_key_legacy.
Qed.

(* the tables of a state are a function of its surviving history alone *)
Theorem run_tables ks st : BRun ks st -> tables_are (st_db st) ks.
Proof.
  induction 1 as [|ks st f k st' _ IH Hn E|ks st f k e st' _ IH E|ks st b _ IH|ks st _ IH].
  - repeat split.
  - exact (pblock_ok_tables f st k st' ks IH Hn E).
  - replace (st_db st') with (st_db st); [exact IH|]. symmetry.
    unfold BridgeStore.Gen.process_block in E.
    destruct (st_halted st); [inversion E; reflexivity|]. destruct (hits f _ TBlock); [inversion E; reflexivity|].
    destruct (existsb _ _); [inversion E; reflexivity|].
    destruct (pevents _ _ _ _) as [[[err x] oe]|x].
    + destruct (match oe with Some e0 => _ | None => _ end) as [mem1 added]. inversion E; reflexivity.
    + destruct (hits f (x_cnt x) TCommit); inversion E; reflexivity.
  - apply reorg_tables. exact IH.
  - exact IH.
Qed.

(* C04 for the tables: the reorged node and ANY node whose surviving history is the part below b — in particular the node
   that only ever processed those blocks — hold identical block, bridge, claim, token-mapping and legacy-migration tables *)
Theorem reorg_as_if_never_seen_tables ks st b st2 :
  BRun ks st -> BRun (filter (fun k => (k_num k <? b)%N) ks) st2 ->
  d_blocks (st_db (reorg st b)) = d_blocks (st_db st2) /\ d_bridges (st_db (reorg st b)) = d_bridges (st_db st2) /\
  d_claims (st_db (reorg st b)) = d_claims (st_db st2) /\ d_tm (st_db (reorg st b)) = d_tm (st_db st2) /\
  d_legacy (st_db (reorg st b)) = d_legacy (st_db st2).
Proof.
  intros H1 H2. destruct (run_tables _ _ (BRun_reorg _ _ b H1)) as (A1 & A2 & A3 & A4 & A5).
  destruct (run_tables _ _ H2) as (B1 & B2 & B3 & B4 & B5).
  rewrite A1, A2, A3, A4, A5, B1, B2, B3, B4, B5. repeat split.
Qed.
(* C07 for the tables: states with the same surviving history hold the same tables, whatever failed on the way *)
Theorem same_history_same_tables ks st1 st2 : BRun ks st1 -> BRun ks st2 ->
  d_blocks (st_db st1) = d_blocks (st_db st2) /\ d_bridges (st_db st1) = d_bridges (st_db st2) /\
  d_claims (st_db st1) = d_claims (st_db st2) /\ d_tm (st_db st1) = d_tm (st_db st2) /\ d_legacy (st_db st1) = d_legacy (st_db st2).
Proof.
  intros H1 H2. destruct (run_tables _ _ H1) as (A1 & A2 & A3 & A4 & A5). destruct (run_tables _ _ H2) as (B1 & B2 & B3 & B4 & B5).
  rewrite A1, A2, A3, A4, A5, B1, B2, B3, B4, B5. repeat split.
Qed.
End AsIf.
