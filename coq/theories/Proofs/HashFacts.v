(* Shape facts about the executable Keccak: 32 output bytes, each < 256; digest number <-> digest bytes. *)
From Coq Require Import Uint63 List NArith ZArith Lia.
From Verif Require Import Base.Bytes Base.FastBytes Base.Keccak63 Base.Hash.
Import ListNotations.

Lemma byte_land_bound (x : int) : (Z.to_N (to_Z (x land 255)%uint63) < 256)%N.
Proof.
  rewrite land_spec'. change (to_Z 255%uint63) with (Z.ones 8). rewrite Z.land_ones by lia.
  pose proof (Z.mod_pos_bound (to_Z x) (2^8) ltac:(lia)) as H.
  apply N2Z.inj_lt. rewrite Z2N.id by lia. change (Z.of_N 256) with (2^8)%Z. lia.
Qed.

Lemma bytes4_ok x : Forall (fun i => (byte_of_int i < 256)%N) (Keccak63.bytes4 x).
Proof. unfold Keccak63.bytes4, byte_of_int. repeat constructor; apply byte_land_bound. Qed.

Lemma squeeze_ok s : Forall (fun i => (byte_of_int i < 256)%N) (Keccak63.squeeze s) /\ length (Keccak63.squeeze s) = 32%nat.
Proof.
  destruct s. unfold Keccak63.squeeze. split.
  - repeat (apply Forall_app; split); apply bytes4_ok.
  - reflexivity.
Qed.

Lemma keccak_bytes_length m : length (keccak_bytes m) = 32%nat.
Proof. unfold keccak_bytes, Keccak63.keccak256. rewrite map_length. apply squeeze_ok. Qed.
Lemma keccak_bytes_ok m : bytes_ok (keccak_bytes m).
Proof.
  unfold keccak_bytes, Keccak63.keccak256, bytes_ok. apply Forall_map.
  apply (proj1 (squeeze_ok _)).
Qed.

Lemma keccakN_of_be m : keccakN m = of_be (keccak_bytes m).
Proof. unfold keccakN. apply of_be_fast_eq, keccak_bytes_ok. Qed.
Lemma keccakN_bytes m : be 32 (keccakN m) = keccak_bytes m.
Proof. rewrite keccakN_of_be. rewrite <- (keccak_bytes_length m). apply be_of_be, keccak_bytes_ok. Qed.
Lemma keccakN_lt m : (keccakN m < 2^256)%N.
Proof.
  rewrite keccakN_of_be. pose proof (of_be_lt _ (keccak_bytes_ok m)) as H. rewrite keccak_bytes_length in H. exact H.
Qed.
