(* The Solidity DepositContract algorithm (Model/Contracts.v) computes the reference Merkle root:
   _addLeaf maintains the same frontier invariant as the Go append-only tree, getRoot folds it. *)
From Coq Require Import Arith Lia List Bool PeanoNat.
From Verif Require Import Model.Merkle Model.MerkleSpec Model.Contracts Proofs.Frontier.
Import ListNotations.

Section Contract.
Context {hash : Type}.
Variable node : hash -> hash -> hash.
Variable z0 : hash.
Variable f : nat -> hash.
Notation zero := (zero node z0).
Notation sub := (sub node z0 f).
Notation CacheInv := (CacheInv node z0 f).
Notation upd := (@upd hash).

Lemma pow2_pos h : 0 < 2 ^ h.
Proof. apply Nat.neq_0_lt_0, Nat.pow_nonzero. lia. Qed.

(* n+1 = (m+1) * 2^h : the h low bits of n are all ones *)
Lemma div_exact m h n : S n = (m + 1) * 2 ^ h -> n / 2 ^ h = m /\ S n / 2 ^ h = m + 1.
Proof.
  intros E. pose proof (pow2_pos h) as Hp. split.
  - symmetry. apply Nat.div_unique with (2 ^ h - 1); nia.
  - rewrite E. apply Nat.div_mul. lia.
Qed.

Lemma testbit_low_zero m h h' : h' < h -> Nat.testbit ((m + 1) * 2 ^ h) h' = false.
Proof. intros Hlt. apply Nat.mul_pow2_bits_low. exact Hlt. Qed.

(* _addLeaf loop: reaches the lowest set bit of n+1 and stores there *)
Lemma dc_add_loop_spec fuel : forall h m n cur branch H,
  S n = (m + 1) * 2 ^ h -> fuel + h = H -> S n < 2 ^ H ->
  cur = sub h m (S n) ->
  CacheInv H n branch ->
  CacheInv H (S n) (dc_add_loop node fuel h (Nat.testbit (S n)) cur branch).
Proof.
  induction fuel as [|fuel IH]; intros h m n cur branch H En EH Hlt Hcur Hinv.
  - (* unreachable: S n = (m+1) * 2^H >= 2^H *)
    cbn [Nat.add] in EH. subst h. pose proof (pow2_pos H). nia.
  - cbn [dc_add_loop].
    destruct (div_exact m h n En) as [Hdn Hds].
    assert (Hh : h < H) by lia.
    rewrite (testbit_div (S n) h), Hds.
    destruct (Nat.odd (m + 1)) eqn:Hodd.
    + (* store at h *)
      intros h' Hh' Hb'. unfold Merkle.upd.
      destruct (Nat.eqb_spec h' h) as [->|Hne].
      * rewrite Hds. replace (m + 1 - 1) with m by lia. exact Hcur.
      * destruct (Nat.lt_ge_cases h' h) as [Hlow|Hhigh].
        { rewrite En, testbit_low_zero in Hb' by exact Hlow. discriminate. }
        destruct (testbit_succ_cases n h' Hb') as [[Hbn E]|[Hbn E]].
        -- rewrite E, (Hinv h' Hh' Hbn).
           pose proof (div_pow_bounds n h'). rewrite testbit_div in Hbn.
           assert (1 <= n / 2 ^ h') by (destruct (n / 2 ^ h'); [discriminate|lia]).
           apply sub_full; replace (n / 2 ^ h' - 1 + 1) with (n / 2 ^ h') by lia; lia.
        -- (* a carry into h' > h would make m+1 even *)
           exfalso.
           pose proof (div_pow_bounds n h') as B1. pose proof (div_pow_bounds (S n) h') as B2. rewrite E in B2.
           assert (Es : S n = (n / 2 ^ h' + 1) * 2 ^ h') by lia.
           replace h' with (h + S (h' - h - 1)) in Es at 2 by lia.
           rewrite Nat.pow_add_r, Nat.pow_succ_r' in Es.
           pose proof (pow2_pos h). pose proof (pow2_pos (h' - h - 1)).
           assert (Em : m + 1 = 2 * ((n / 2 ^ h' + 1) * 2 ^ (h' - h - 1))) by nia.
           rewrite Em, Nat.odd_mul in Hodd. discriminate.
    + (* combine with the stored left sibling and go up *)
      assert (Hmo : Nat.odd m = true).
      { rewrite Nat.add_1_r, Nat.odd_succ in Hodd. rewrite <- Nat.negb_even, Hodd. reflexivity. }
      pose proof (odd_div2 m Hmo) as Em.
      assert (Hbn : Nat.testbit n h = true) by (rewrite testbit_div, Hdn; exact Hmo).
      apply (IH (S h) (m / 2) n _ branch H).
      * rewrite Nat.pow_succ_r'. lia.
      * lia.
      * exact Hlt.
      * cbn [MerkleSpec.sub]. rewrite <- Em. f_equal; [|exact Hcur].
        rewrite (Hinv h Hh Hbn), Hdn. replace (2 * (m / 2)) with (m - 1) by lia.
        pose proof (pow2_pos h). apply sub_full; nia.
      * exact Hinv.
Qed.

Theorem dc_add_preserves H n branch : S n < 2 ^ H ->
  CacheInv H n branch -> CacheInv H (S n) (dc_add node H (Nat.testbit (S n)) (f n) branch).
Proof.
  intros Hlt Hinv. unfold dc_add. apply (dc_add_loop_spec H 0 n n (f n) branch H).
  - cbn. lia.
  - lia.
  - exact Hlt.
  - cbn [MerkleSpec.sub]. assert (E : n <? S n = true) by (apply Nat.ltb_lt; lia). rewrite E. reflexivity.
  - exact Hinv.
Qed.

(* getRoot loop *)
Lemma dc_root_loop_spec fuel : forall h n cur branch H,
  fuel + h = H -> cur = sub h (n / 2 ^ h) n -> CacheInv H n branch ->
  dc_root_loop node fuel h (Nat.testbit n) cur (zero h) branch = sub H (n / 2 ^ H) n.
Proof.
  induction fuel as [|fuel IH]; intros h n cur branch H EH Hcur Hinv; cbn [dc_root_loop].
  - cbn in EH. subst h. exact Hcur.
  - change (node (zero h) (zero h)) with (zero (S h)).
    apply IH; [lia| |exact Hinv].
    cbn [MerkleSpec.sub]. rewrite div_succ_pow.
    destruct (Nat.testbit n h) eqn:Hb.
    + pose proof Hb as Hb'. rewrite testbit_div in Hb'. pose proof (odd_div2 _ Hb') as E.
      rewrite <- E. rewrite <- Hcur. f_equal.
      rewrite (Hinv h ltac:(lia) Hb). f_equal. rewrite E at 1. rewrite Nat.add_sub. reflexivity.
    + rewrite testbit_div in Hb. pose proof (even_div2 _ Hb) as E.
      rewrite <- E. rewrite <- Hcur. f_equal.
      symmetry. apply sub_zero. pose proof (div_pow_bounds n h). lia.
Qed.

Theorem dc_root_is_merkle H n branch : n < 2 ^ H ->
  CacheInv H n branch -> dc_root node z0 H (Nat.testbit n) branch = mroot node z0 f H n.
Proof.
  intros Hlt Hinv. unfold dc_root, mroot.
  assert (Hc : z0 = sub 0 (n / 2 ^ 0) n).
  { cbn [MerkleSpec.sub]. rewrite Nat.pow_0_r, Nat.div_1_r.
    assert (E : n <? n = false) by (apply Nat.ltb_ge; lia). rewrite E. reflexivity. }
  pose proof (dc_root_loop_spec H 0 n z0 branch H ltac:(lia) Hc Hinv) as E.
  cbn [Merkle.zero] in E. rewrite E.
  rewrite Nat.div_small by exact Hlt. reflexivity.
Qed.

(* the contract after n deposits of f 0 .. f (n-1) *)
Fixpoint dc_after (H n : nat) (branch0 : nat -> hash) : nat -> hash :=
  match n with 0 => branch0 | S k => dc_add node H (Nat.testbit (S k)) (f k) (dc_after H k branch0) end.

Theorem contract_root_is_merkle H n branch0 : n < 2 ^ H ->
  dc_root node z0 H (Nat.testbit n) (dc_after H n branch0) = mroot node z0 f H n.
Proof.
  intros Hlt. apply dc_root_is_merkle; [exact Hlt|].
  induction n as [|n IH]; cbn [dc_after]; [apply CacheInv_0|].
  apply dc_add_preserves; [exact Hlt|]. apply IH. lia.
Qed.
End Contract.
